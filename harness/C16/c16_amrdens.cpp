// C16 part 2b: real AMRDensityGrid (legacy AMR density grid on top of AMRGrid).
// The grid is refined by the real initialize() with a geometric refinement
// criterion; an independent model applies the same criterion to its own tree.
//  * cells: count, begin()..end() visits every index once, midpoints/volumes
//    are exactly the model's leaves (bijection), volumes sum to the box
//  * positions: half-cell lattice of the finest level (upper box faces
//    excluded) -> get_cell_index is the model's leaf
//  * rays: start lattice x 124 integer directions x 8 periodicities x opacity
//    fields x target depths through interact() against the long double
//    marcher on the model tree
// get_neighbours and integrate_optical_depth end in cmac_error("not
// implemented") for this grid type and are therefore not part of the check.
#include "AMRDensityGrid.hpp"
#include "DensityFunction.hpp"
#include "c16_rays.hpp"
#include <atomic>
#include <map>
#include <omp.h>
#include <thread>
#include <sys/wait.h>
#include <unordered_map>

using namespace verif;
using namespace c16;

struct ACfg {
  std::string name;
  int n[3]; // unrefined number of cells
  double A[3], S[3];
  bool dyadic;
  int region;
  int extra; // number of extra levels inside the region
};

/// refinement criterion shared by the real scheme and the model: u = cell
/// midpoint in box units, rel = level above the unrefined level
static bool want_refine(int region, int extra, int rel, const double u[3]) {
  if (rel >= extra)
    return false;
  switch (region) {
  case 0:
    return false;
  case 1: // slab at the lower x face
    return u[0] < 0.25;
  case 2: // slab at the upper x face, one more level in its upper y half
    return u[0] >= 0.75 && (rel == 0 || u[1] >= 0.5);
  case 3: // corner, nested
    return rel == 0 ? (u[0] < 0.5 && u[1] < 0.5 && u[2] < 0.5) : (u[0] < 0.25 && u[1] < 0.25 && u[2] < 0.25);
  case 4: // block in the middle
    return std::fabs(u[0] - 0.5) < 0.2 && std::fabs(u[1] - 0.5) < 0.2 && std::fabs(u[2] - 0.5) < 0.2;
  case 5: // asymmetric: low z, high y
    return u[2] < 0.3 && u[1] >= 0.5;
  case 6: // slab at the upper z face and slab at the lower y face
    return u[2] >= 0.75 || u[1] < 0.3;
  }
  return false;
}

struct Leaf {
  int L;     // level relative to the unrefined cells
  long X[3]; // integer coordinates on the lattice of that level
};

struct AModel {
  const ACfg *cfg;
  int Lf; // finest relative level
  std::vector< Leaf > leaves;
  std::unordered_map< uint64_t, long > index; // (L,X,Y,Z) -> leaf id
  static uint64_t key(int L, const long X[3]) {
    return ((uint64_t)L << 60) | ((uint64_t)X[0] << 40) | ((uint64_t)X[1] << 20) | (uint64_t)X[2];
  }
  void add(int L, const long X[3]) {
    double u[3];
    for (int d = 0; d < 3; ++d)
      u[d] = (X[d] + 0.5) / (double)((long)cfg->n[d] << L);
    if (want_refine(cfg->region, cfg->extra, L, u)) {
      for (int c = 0; c < 8; ++c) {
        const long Y[3] = {2 * X[0] + ((c >> 2) & 1), 2 * X[1] + ((c >> 1) & 1), 2 * X[2] + (c & 1)};
        add(L + 1, Y);
      }
    } else {
      index[key(L, X)] = (long)leaves.size();
      leaves.push_back({L, {X[0], X[1], X[2]}});
      Lf = std::max(Lf, L);
    }
  }
  void build(const ACfg &c) {
    cfg = &c;
    Lf = 0;
    leaves.clear();
    index.clear();
    for (long x = 0; x < c.n[0]; ++x)
      for (long y = 0; y < c.n[1]; ++y)
        for (long z = 0; z < c.n[2]; ++z) {
          const long X[3] = {x, y, z};
          add(0, X);
        }
  }
  /// leaf containing the cell F of the finest lattice
  long locate_fine(const long F[3]) const {
    for (int L = 0; L <= Lf; ++L) {
      const long X[3] = {F[0] >> (Lf - L), F[1] >> (Lf - L), F[2] >> (Lf - L)};
      auto it = index.find(key(L, X));
      if (it != index.end())
        return it->second;
    }
    return -1;
  }
  Q side(int d, int L) const { return (Q)cfg->S[d] / (Q)((long)cfg->n[d] << L); }
  void box(long id, Q lo[3], Q hi[3]) const {
    const Leaf &l = leaves[id];
    for (int d = 0; d < 3; ++d) {
      lo[d] = (Q)cfg->A[d] + l.X[d] * side(d, l.L);
      hi[d] = (Q)cfg->A[d] + (l.X[d] + 1) * side(d, l.L);
    }
  }
};

class RegionScheme : public AMRRefinementScheme {
  const ACfg _c;
  int _base; // level of the unrefined cells inside their block

public:
  RegionScheme(const ACfg &c, int base) : _c(c), _base(base) {}
  virtual bool refine(uint_fast8_t level, DensityGrid::iterator &cell) const {
    const CoordinateVector<> m = cell.get_cell_midpoint();
    double u[3];
    for (int d = 0; d < 3; ++d)
      u[d] = (m[d] - _c.A[d]) / _c.S[d];
    return want_refine(_c.region, _c.extra, (int)level - _base, u);
  }
};

class UnitDensity : public DensityFunction {
public:
  virtual DensityValues operator()(const Cell &cell) {
    DensityValues v;
    v.set_number_density(1.);
    v.set_temperature(8000.);
    v.set_ionic_fraction(ION_H_n, 1.);
    return v;
  }
};

static int base_level(const ACfg &c) {
  int p = 1 << 30;
  for (int d = 0; d < 3; ++d) {
    int n = c.n[d], q = 1;
    while (n % 2 == 0) {
      n /= 2;
      q *= 2;
    }
    p = std::min(p, q);
  }
  int l = 0;
  while (p > 1) {
    p >>= 1;
    ++l;
  }
  return l;
}

static std::vector< ACfg > all_cfgs() {
  std::vector< ACfg > v;
  v.push_back({"2x2x2-uniform", {2, 2, 2}, {0., 0., 0.}, {1., 1., 1.}, true, 0, 0});
  v.push_back({"2x2x2-lowx", {2, 2, 2}, {0., 0., 0.}, {1., 1., 1.}, true, 1, 1});
  v.push_back({"4x4x4-lowx", {4, 4, 4}, {-1., 0.5, 2.}, {2., 1., 4.}, true, 1, 1});
  v.push_back({"4x4x4-highx", {4, 4, 4}, {-1., 0.5, 2.}, {2., 1., 4.}, true, 2, 2});
  v.push_back({"4x4x4-corner", {4, 4, 4}, {0., 0., 0.}, {4., 4., 4.}, true, 3, 2});
  v.push_back({"4x4x4-centre", {4, 4, 4}, {0., 0., 0.}, {1., 1., 1.}, true, 4, 1});
  v.push_back({"6x4x2-lowzhighy", {6, 4, 2}, {-3., 0., 0.5}, {6., 2., 0.5}, true, 5, 1});
  v.push_back({"3x1x1-lowx", {3, 1, 1}, {0., 0., 0.}, {3., 1., 1.}, true, 1, 2});
  v.push_back({"2x2x4-zy", {2, 2, 4}, {0., -1., 0.}, {1., 2., 4.}, true, 6, 1});
  v.push_back({"4x4x4-lowx-generic", {4, 4, 4}, {0.1, -0.2, 0.3}, {0.9, 1.1, 0.7}, false, 1, 1});
  return v;
}
static const ACfg *find_cfg(const std::vector< ACfg > &v, const std::string &n) {
  for (auto &c : v)
    if (c.name == n)
      return &c;
  return nullptr;
}
static std::string cfg_json(const ACfg &c) { return "\"cfg\": \"" + c.name + "\""; }

struct Stats : public RayStats {
  uint64_t positions = 0, cells = 0, evals = 0, near_face = 0, skipped_hang = 0, skipped_inface = 0;
  void merge(const Stats &o) {
    positions += o.positions;
    cells += o.cells;
    evals += o.evals;
    near_face += o.near_face;
    skipped_hang += o.skipped_hang;
    skipped_inface += o.skipped_inface;
    merge_rays(o);
  }
};

struct Built {
  AMRDensityGrid *grid = nullptr;
  AModel M;
  std::vector< size_t > real_of; // model leaf -> real index
  bool ok = false;
};

/// builds the real grid and the model and matches their cells
static void build(const ACfg &cfg, int per, Built &B, Result &R, Stats &st, bool check_cells) {
  const std::string cls = cfg.dyadic ? "" : ":nondyadic";
  const std::string rep = fmt("{%s, \"what\": \"cells\", \"periodic\": %d}", cfg_json(cfg).c_str(), per);
  const bool P[3] = {(per & 1) != 0, (per & 2) != 0, (per & 4) != 0};
  B.M.build(cfg);
  Box<> box(CoordinateVector<>(cfg.A[0], cfg.A[1], cfg.A[2]), CoordinateVector<>(cfg.S[0], cfg.S[1], cfg.S[2]));
  UnitDensity dens;
  volatile bool built = false;
  {
    TRAP_BEGIN("C16:amrdensity:abort:construct" + cls, fmt("cfg %s periodic %d: abort while constructing/initialising the grid", cfg.name.c_str(), per), rep)
    B.grid = new AMRDensityGrid(box, CoordinateVector< uint_fast32_t >(cfg.n[0], cfg.n[1], cfg.n[2]), new RegionScheme(cfg, base_level(cfg)), 5,
                                CoordinateVector< bool >(P[0], P[1], P[2]), false, nullptr);
    std::pair< cellsize_t, cellsize_t > block = std::make_pair(0, B.grid->get_number_of_cells());
    B.grid->initialize(block, dens);
    built = true;
    TRAP_END
  }
  if (!built)
    return;
  ++st.evals;
  AMRDensityGrid &grid = *B.grid;
  const size_t N = grid.get_number_of_cells(), NM = B.M.leaves.size();
  if (N != NM) {
    R.violation("C16:amrdensity:number-of-cells" + cls, fmt("cfg %s: %zu cells, model has %zu leaves", cfg.name.c_str(), N, NM), rep);
    return;
  }
  // enumeration
  {
    std::vector< int > visits(N, 0);
    size_t steps = 0;
    for (auto it = grid.begin(); it != grid.end() && steps < N + 4; ++it, ++steps)
      if (it.get_index() < N)
        ++visits[it.get_index()];
    bool once = steps == N;
    for (size_t i = 0; i < N; ++i)
      once &= visits[i] == 1;
    if (!once)
      R.violation("C16:amrdensity:enumeration" + cls, fmt("cfg %s: begin()..end() takes %zu steps for %zu cells or repeats a cell", cfg.name.c_str(), steps, N), rep);
  }
  // match real cells with model leaves through their midpoints
  B.real_of.assign(NM, (size_t)-1);
  Q volsum = 0;
  for (size_t i = 0; i < N; ++i) {
    const CoordinateVector<> m = grid.get_cell_midpoint(i);
    const double vol = grid.get_cell_volume(i);
    volsum += vol;
    long F[3];
    bool inside = true;
    for (int d = 0; d < 3; ++d) {
      const Q u = ((Q)m[d] - cfg.A[d]) / B.M.side(d, B.M.Lf);
      F[d] = (long)floorl(u);
      inside &= F[d] >= 0 && F[d] < ((long)cfg.n[d] << B.M.Lf);
    }
    const long id = inside ? B.M.locate_fine(F) : -1;
    bool good = id >= 0;
    if (good) {
      Q lo[3], hi[3], v = 1;
      B.M.box(id, lo, hi);
      for (int d = 0; d < 3; ++d) {
        const Q tol = cfg.dyadic ? 0.L : 8. * DBL_EPSILON * (std::fabs(cfg.A[d]) + std::fabs(cfg.S[d]));
        good &= fabsl((Q)m[d] - 0.5L * (lo[d] + hi[d])) <= tol;
        v *= hi[d] - lo[d];
      }
      good &= fabsl(vol - v) <= 8. * DBL_EPSILON * (double)v;
      if (good && B.real_of[id] != (size_t)-1)
        good = false; // two real cells for one leaf
    }
    if (!good) {
      if (check_cells)
        R.violation("C16:amrdensity:cell-vs-model" + cls,
                    fmt("cfg %s: real cell %zu (midpoint %a %a %a, volume %a) is not a leaf of the model or duplicates one", cfg.name.c_str(), i, m[0], m[1], m[2], vol), rep);
      return;
    }
    B.real_of[id] = i;
    ++st.cells;
  }
  {
    const Q bv = (Q)cfg.S[0] * cfg.S[1] * cfg.S[2];
    if (fabsl(volsum - bv) > (cfg.dyadic ? 0.L : 4. * DBL_EPSILON * (N + 4) * bv))
      R.violation("C16:amrdensity:volume-sum" + cls, fmt("cfg %s: volumes sum to %La, box %La", cfg.name.c_str(), volsum, bv), rep);
  }
  B.ok = true;
}

static void check_positions(const ACfg &cfg, Result &R, Stats &st) {
  const std::string cls = cfg.dyadic ? "" : ":nondyadic";
  Built B;
  build(cfg, 0, B, R, st, true);
  if (!B.ok)
    return;
  const int LL = B.M.Lf + 1;
  std::vector< size_t > model_of(B.real_of.size());
  for (size_t id = 0; id < B.real_of.size(); ++id)
    model_of[B.real_of[id]] = id;
  long Mdim[3];
  for (int d = 0; d < 3; ++d)
    Mdim[d] = (long)cfg.n[d] << LL;
  for (long gx = 0; gx < Mdim[0]; ++gx)
    for (long gy = 0; gy < Mdim[1]; ++gy)
      for (long gz = 0; gz < Mdim[2]; ++gz) {
        const long G[3] = {gx, gy, gz};
        double p[3];
        for (int d = 0; d < 3; ++d)
          p[d] = cfg.A[d] + (double)G[d] * (cfg.S[d] / (double)Mdim[d]);
        ++st.positions;
        const std::string rep = fmt("{%s, \"what\": \"position\", \"point\": \"%a %a %a\"}", cfg_json(cfg).c_str(), p[0], p[1], p[2]);
        volatile size_t got = (size_t)-1;
        {
          TRAP_BEGIN("C16:amrdensity:abort:get_cell_index" + cls, fmt("cfg %s: abort in get_cell_index(%a,%a,%a)", cfg.name.c_str(), p[0], p[1], p[2]), rep)
          got = B.grid->get_cell_index(CoordinateVector<>(p[0], p[1], p[2]));
          TRAP_END
        }
        if (got == (size_t)-1)
          continue;
        if (got >= model_of.size()) {
          R.violation("C16:amrdensity:get_cell_index:out-of-range" + cls, fmt("cfg %s: get_cell_index(%a,%a,%a) = %zu of %zu cells", cfg.name.c_str(), p[0], p[1], p[2], (size_t)got, model_of.size()), rep);
          continue;
        }
        const long F[3] = {gx >> 1, gy >> 1, gz >> 1};
        const long expect = B.M.locate_fine(F);
        if (cfg.dyadic) {
          if ((long)model_of[got] != expect)
            R.violation("C16:amrdensity:get_cell_index:wrong-cell",
                        fmt("cfg %s: get_cell_index(%a,%a,%a) is real cell %zu = model leaf %zu, expected leaf %ld", cfg.name.c_str(), p[0], p[1], p[2], (size_t)got, model_of[got], expect), rep);
        } else {
          // round-off: the located leaf must contain the point to 8 eps
          Q lo[3], hi[3];
          B.M.box(model_of[got], lo, hi);
          bool loose = true;
          for (int d = 0; d < 3; ++d) {
            const Q tol = 8. * DBL_EPSILON * (std::fabs(cfg.A[d]) + std::fabs(cfg.S[d]));
            loose &= p[d] >= lo[d] - tol && p[d] <= hi[d] + tol;
          }
          if (!loose)
            R.violation("C16:amrdensity:get_cell_index:wrong-cell:nondyadic", fmt("cfg %s: get_cell_index(%a,%a,%a) is a leaf that misses the point by more than round-off", cfg.name.c_str(), p[0], p[1], p[2]), rep);
          else if ((long)model_of[got] != expect)
            ++st.near_face;
        }
      }
  delete B.grid;
}

static RefGrid make_refgrid(const ACfg &cfg, int per, const AModel *M) {
  RefGrid G;
  for (int d = 0; d < 3; ++d) {
    G.A[d] = cfg.A[d];
    G.S[d] = cfg.S[d];
    G.per[d] = (per >> d) & 1;
  }
  const ACfg c = cfg;
  G.locate = [c, M](const Q x[3], const int sgn[3], CellBox &b) {
    long F[3];
    for (int d = 0; d < 3; ++d) {
      const Q h = M->side(d, M->Lf);
      const Q u = (x[d] - c.A[d]) / h;
      const Q r = roundl(u);
      long i;
      if (fabsl(u - r) < 1e-10L)
        i = (long)r - (sgn[d] < 0 ? 1 : 0);
      else
        i = (long)floorl(u);
      F[d] = std::max(0L, std::min< long >(i, ((long)c.n[d] << M->Lf) - 1));
    }
    b.id = M->locate_fine(F);
    M->box(b.id, b.lo, b.hi);
  };
  return G;
}

static double opacity(const ACfg &cfg, const Leaf &l, int field, double base) {
  switch (field) {
  case 0:
    return base;
  case 1:
    return base * (1 + ((3 * l.X[0] + 5 * l.X[1] + 7 * l.X[2] + l.L) % 4));
  default: {
    const double f[3] = {0.02, 1., 20.};
    return base * f[(l.X[0] + 2 * l.X[1] + 3 * l.X[2] + 2 * l.L) % 3];
  }
  }
}


static void rays_for(const ACfg &cfg, int per, int field, bool thorough, long seed, Result &R, Stats &st, const RayCase *only, bool verbose, int hangmask = 0) {
  const bool P[3] = {(per & 1) != 0, (per & 2) != 0, (per & 4) != 0};
  Built B;
  build(cfg, per, B, R, st, false);
  if (!B.ok) {
    if (B.grid)
      R.violation("C16:amrdensity:cells-unmatched", fmt("cfg %s periodic %d: cells do not match the model, rays not traced", cfg.name.c_str(), per), "{" + cfg_json(cfg) + ", \"what\": \"cells\"}");
    return;
  }
  AMRDensityGrid &grid = *B.grid;
  double minside = DBL_MAX;
  for (int d = 0; d < 3; ++d)
    minside = std::min(minside, cfg.S[d] / cfg.n[d]);
  const double base = 1. / minside;
  const size_t N = B.M.leaves.size();
  std::vector< double > kap(N);
  for (size_t id = 0; id < N; ++id) {
    kap[id] = opacity(cfg, B.M.leaves[id], field, base);
    IonizationVariables &iv = DensityGrid::iterator(B.real_of[id], grid).get_ionization_variables();
    iv.set_number_density(kap[id]);
    iv.set_ionic_fraction(ION_H_n, 1.);
  }
  const RefGrid G = make_refgrid(cfg, per, &B.M);
  RayCtx cx;
  cx.prefix = "C16:amrdensity";
  cx.cfgjson = cfg_json(cfg);
  cx.dyadic = cfg.dyadic;
  for (int d = 0; d < 3; ++d) {
    cx.A[d] = cfg.A[d];
    cx.S[d] = cfg.S[d];
  }
  cx.per = per;
  cx.field = field;
  cx.G = &G;
  cx.kap = &kap;
  cx.real_of = &B.real_of;
  cx.ncells_real = N;
  AMRDensityGrid *gp = &grid;
  cx.cellbox = [gp](size_t i, double *lo, double *hi) {
    // the grid reports midpoint and volume only; use the cubic-root free form:
    // the cell list of the harness is built with -fno-access-control
    const Box<> b = gp->_cells[i]->get_geometry();
    const CoordinateVector<> top = b.get_top_anchor();
    for (int d = 0; d < 3; ++d) {
      lo[d] = b.get_anchor()[d];
      hi[d] = top[d];
    }
  };
  auto trace = [&](const RayCase &rc) { return run_ray(cx, grid, rc, R, st, verbose); };
  if (only) {
    trace(*only);
    delete B.grid;
    return;
  }
  // start lattice: faces and centres of the unrefined cells, in the thorough
  // tier also an off-centre point per cell
  std::vector< double > L[3];
  for (int d = 0; d < 3; ++d) {
    const double side = cfg.S[d] / cfg.n[d];
    for (long i = 0; i < cfg.n[d]; ++i) {
      L[d].push_back(cfg.A[d] + side * i);
      L[d].push_back(cfg.A[d] + side * i + 0.5 * side);
      if (thorough && (long)cfg.n[0] * cfg.n[1] * cfg.n[2] <= 16)
        L[d].push_back(cfg.A[d] + side * i + 0.3125 * side);
    }
  }
  std::vector< std::array< double, 3 > > dirs;
  for (auto &v : integer_directions()) {
    const double nrm = std::sqrt((double)(v[0] * v[0] + v[1] * v[1] + v[2] * v[2]));
    dirs.push_back({v[0] / nrm, v[1] / nrm, v[2] / nrm});
  }
  std::rotate(dirs.begin(), dirs.begin() + (seed % dirs.size()), dirs.end());
  auto kfun = [&](long id) -> Q { return kap[id]; };
  int failures = 0;
  (void)failures;
  for (double x : L[0])
    for (double y : L[1])
      for (double z : L[2]) {
        if (R.out_of_time()) {
          delete B.grid;
          return;
        }
        for (auto &dv : dirs) {
          RayCase rc;
          rc.p[0] = x, rc.p[1] = y, rc.p[2] = z;
          for (int d = 0; d < 3; ++d)
            rc.dir[d] = dv[d];
          rc.iod = false;
          bool leaves = false, hangs = false;
          for (int d = 0; d < 3; ++d) {
            leaves |= (!P[d] && dv[d] != 0.);
            hangs |= ((hangmask >> d) & 1) && dv[d] != 0.;
          }
          // a ray that lies in the plane of a cell face (start on a face of
          // the finest lattice, no component along that axis) belongs to either
          // adjacent cell: get_cell_index puts it in the upper cell, the descent
          // AMRGridCell::get_child(position) in the lower one; both are
          // accepted, so such rays are not compared
          bool inface = false;
          for (int d = 0; d < 3; ++d)
            if (dv[d] == 0.) {
              const Q u = ((Q)rc.p[d] - cfg.A[d]) / B.M.side(d, B.M.Lf);
              inface |= fabsl(u - roundl(u)) < 1e-9L;
            }
          if (inface) {
            ++st.skipped_inface;
            continue;
          }
          if (hangs) {
            // interact() was shown not to return for this class (reported by
            // the probe in main); the rays are counted, not traced
            ++st.skipped_hang;
            continue;
          }
          std::vector< double > targets = {0.25, 1.0, 3.7, 20.3};
          if (leaves) {
            const double inf = 1e300;
            const MarchResult M = march(G, rc.p, rc.dir, kfun, inf, 0.);
            if (!M.capped) {
              const double T = (double)M.tau;
              if (T > 0.) {
                targets.push_back(0.5 * T);
                targets.push_back(0.999 * T);
                targets.push_back(1.001 * T);
              }
              targets.push_back(inf);
            }
          }
          for (double t : targets) {
            rc.target = t;
            if (!trace(rc))
              ++failures;
          }
        }
      }
  delete B.grid;
}

int main(int argc, char **argv) {
  Args A = parse_args(argc, argv);
  Result R(A);
  c16_install_fault_handler();
  const std::vector< ACfg > cfgs = all_cfgs();
  if (A.replay.empty() && !freopen("/dev/null", "w", stderr)) {
  }
  Stats ST;

  if (!A.replay.empty()) {
    const std::string rkey = replay_field(read_file(A.replay), "key");
    Result RR(A);
    replay_in_child(RR, rkey.empty() ? std::string("C16:replay") : rkey, [&]() -> uint64_t {
    const std::string txt = read_file(A.replay);
    const ACfg *c = find_cfg(cfgs, replay_field(txt, "cfg"));
    const std::string what = replay_field(txt, "what");
    if (!c) {
      printf("replay: unknown cfg\n");
      return (uint64_t)0;
    }
    if (what == "ray") {
      RayCase rc;
      sscanf(replay_field(txt, "start").c_str(), "%la %la %la", &rc.p[0], &rc.p[1], &rc.p[2]);
      sscanf(replay_field(txt, "dir").c_str(), "%la %la %la", &rc.dir[0], &rc.dir[1], &rc.dir[2]);
      sscanf(replay_field(txt, "target").c_str(), "%la", &rc.target);
      rc.iod = false;
      rays_for(*c, atoi(replay_field(txt, "periodic").c_str()), atoi(replay_field(txt, "field").c_str()), true, 0, R, ST, &rc, true);
    } else {
      check_positions(*c, R, ST);
    }
    for (auto &v : R.violations)
      printf("  VIOLATION %s :: %s\n", v.key.c_str(), v.detail.c_str());
    printf("replay: %" PRIu64 " violation(s)\n", R.violation_count);
    return R.violation_count;
    });
    printf("replay: %s\n", RR.violation_count ? "REPRODUCED" : "not reproduced");
    return RR.finish(A);
  }

  const bool th = A.thorough();
  for (const ACfg &c : cfgs)
    check_positions(c, R, ST);

  std::vector< std::string > raycfg;
  if (!th)
    // 2x2x4-zy and 6x4x2-lowzhighy: boxes with pairwise different sides (no two axes may agree in every
    // quick configuration, see the Cartesian part)
    raycfg = {"2x2x2-uniform", "2x2x2-lowx", "3x1x1-lowx", "4x4x4-corner", "2x2x4-zy", "6x4x2-lowzhighy"};
  else
    raycfg = {"2x2x2-uniform", "2x2x2-lowx", "4x4x4-lowx", "4x4x4-highx", "4x4x4-corner", "4x4x4-centre", "6x4x2-lowzhighy", "3x1x1-lowx", "2x2x4-zy", "4x4x4-lowx-generic"};
  struct Task {
    const ACfg *c;
    int per, field, hangmask;
  };
  std::vector< Task > tasks;
  uint64_t probes = 0;
  // probes (child processes with a 2 s alarm, all started at once): a ray
  // crossing a periodic face of a leaf that spans the whole box along that axis
  struct Probe {
    const ACfg *c;
    int per, d;
    RayCase rc;
    pid_t pid;
  };
  std::vector< Probe > probelist;
  for (auto &n : raycfg) {
    const ACfg *c = find_cfg(cfgs, n);
    AModel PM;
    PM.build(*c);
    for (int per = 0; per < 8; ++per)
      for (int d = 0; d < 3; ++d) {
        if (!((per >> d) & 1) || c->n[d] != 1)
          continue;
        long span = -1;
        for (size_t id = 0; id < PM.leaves.size(); ++id)
          if (PM.leaves[id].L == 0)
            span = (long)id;
        if (span < 0)
          continue;
        Q lo[3], hi[3];
        PM.box(span, lo, hi);
        Probe p;
        p.c = c, p.per = per, p.d = d;
        double minside = DBL_MAX;
        for (int a = 0; a < 3; ++a) {
          p.rc.p[a] = (double)(0.5L * (lo[a] + hi[a]));
          p.rc.dir[a] = a == d ? 1. : 0.;
          minside = std::min(minside, c->S[a] / c->n[a]);
        }
        p.rc.target = 2.5 * c->S[d] / minside; // two and a half box lengths at opacity `base`
        p.rc.iod = false;
        probelist.push_back(p);
      }
  }
  fflush(nullptr);
  for (Probe &p : probelist) {
    ++probes;
    p.pid = fork();
    if (p.pid == 0) {
      alarm(2);
      Result R2(A);
      Stats s2;
      rays_for(*p.c, p.per, 0, th, 0, R2, s2, &p.rc, false);
      _exit(R2.violation_count ? 1 : 0);
    }
  }
  std::map< std::pair< const ACfg *, int >, int > hang;
  for (Probe &p : probelist) {
    int stt = 0;
    waitpid(p.pid, &stt, 0);
    const std::string rep = fmt("{%s, \"what\": \"ray\", \"periodic\": %d, \"field\": 0, \"start\": \"%a %a %a\", \"dir\": \"%a %a %a\", \"target\": \"%a\", \"iod\": 0}",
                                cfg_json(*p.c).c_str(), p.per, p.rc.p[0], p.rc.p[1], p.rc.p[2], p.rc.dir[0], p.rc.dir[1], p.rc.dir[2], p.rc.target);
    if (WIFSIGNALED(stt) && WTERMSIG(stt) == SIGALRM) {
      hang[{p.c, p.per}] |= 1 << p.d;
      R.violation("C16:amrdensity:interact-does-not-return:periodic-axis-spanned-by-one-cell",
                  fmt("cfg %s periodic %d: interact() does not return (2 s) for a ray along axis %d, which is periodic and spanned by a single "
                      "cell; the cell is its own neighbour and the wrap-around is never applied: ",
                      p.c->name.c_str(), p.per, p.d) + rep,
                  rep);
    } else if (!WIFEXITED(stt)) {
      R.violation("C16:amrdensity:probe-crashed", fmt("cfg %s periodic %d axis %d: probe child ended with status %d", p.c->name.c_str(), p.per, p.d, stt), rep);
    }
  }
  for (auto &n : raycfg) {
    const ACfg *c = find_cfg(cfgs, n);
    for (int per = 0; per < 8; ++per)
      for (int field = 0; field < 3; ++field) {
        if (field == 0 && (!th || (per != 0 && per != 7)))
          continue;
        auto it = hang.find({c, per});
        tasks.push_back({c, per, field, it == hang.end() ? 0 : it->second});
      }
  }
  Watchdog watchdog(R, A, "C16:amrdensity");
  bool cut = false;
#pragma omp parallel
  {
    Stats st;
#pragma omp for schedule(dynamic, 1)
    for (size_t i = 0; i < tasks.size(); ++i) {
      if (R.out_of_time()) {
        cut = true;
        continue;
      }
      rays_for(*tasks[i].c, tasks[i].per, tasks[i].field, th, A.seed, R, st, nullptr, false, tasks[i].hangmask);
    }
#pragma omp critical
    ST.merge(st);
  }
  watchdog.stop();
  if (cut || R.out_of_time())
    R.hit_deadline("ray lattice incomplete");
  R.evaluations = ST.positions + ST.cells + ST.rays;
  R.nontrivial = ST.rays_wrap + ST.rays_abs;
  R.rule = "real AMRDensityGrid refined by initialize() with a geometric criterion that an independent model applies to its own tree; "
           "cells matched one to one; positions on the half-cell lattice of the finest level; rays: start lattice x 124 directions x 8 "
           "periodicities x 3 opacity fields x target depths against a long double marcher on the model tree; non-trivial = rays "
           "that wrapped or were absorbed";
  R.set("grids", (double)cfgs.size());
  R.set("cells_matched_with_model", (double)ST.cells);
  R.set("positions_checked", (double)ST.positions);
  R.set("positions_on_a_rounded_face_of_a_nondyadic_box", (double)ST.near_face);
  R.set("rays", (double)ST.rays);
  R.set("rays_crossing_a_periodic_face", (double)ST.rays_wrap);
  R.set("rays_absorbed", (double)ST.rays_abs);
  R.set("rays_escaped", (double)ST.rays_esc);
  R.set("rays_with_target_depth_on_a_wall_(either_outcome_accepted)", (double)ST.ties);
  R.set("rays_not_traced_because_interact_does_not_return_for_their_class", (double)ST.skipped_hang);
  R.set("hang_probes_in_child_processes", (double)probes);
  R.set("rays_lying_in_a_cell_face_plane_not_compared", (double)ST.skipped_inface);
  R.set("tolerance_k", 2.);
  R.set("deposit_within_10x_of_tolerance", (double)ST.t_path.near);
  R.set("deposit_worst_error_over_tolerance", ST.t_path.worst);
  R.set("position_within_10x_of_tolerance", (double)ST.t_pos.near);
  R.set("position_worst_error_over_tolerance", ST.t_pos.worst);
  R.set("optical_depth_within_10x_of_tolerance", (double)ST.t_tau.near);
  R.set("optical_depth_worst_error_over_tolerance", ST.t_tau.worst);
  R.set("path_sum_within_10x_of_tolerance", (double)ST.t_sum.near);
  R.set("path_sum_worst_error_over_tolerance", ST.t_sum.worst);
  R.assumptions.push_back("rays lying exactly in the plane of a cell face (tie between the two adjacent cells) are not compared for the AMR grid");
  R.assumptions.push_back("AMRDensityGrid::get_neighbours and ::integrate_optical_depth are unimplemented in the code base (cmac_error) and not checked");
  R.assumptions.push_back("refinement comes from AMRDensityGrid::initialize with a geometric AMRRefinementScheme; reset_grid-time refinement is not exercised");
  return R.finish(A);
}
