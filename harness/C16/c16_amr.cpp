// C16 part 1: explicit-state search over the refinement histories of the real
// AMRGrid (AMRGrid.hpp / AMRGridCell.hpp).
//
// state      = set of refined (internal) nodes of the block forest; this is in
//              bijection with the sorted list of leaf keys, which is what the
//              real object is asked for on every state
// transition = refine_cell(key) for a leaf key of the state
// on every transition a FRESH real grid is built from the history and
//   * get_first_key/get_next_key must enumerate exactly the model's leaves, in
//     Morton order, each once; get_number_of_cells agrees
//   * geometry/level/parent/midpoint/volume of every leaf agree with the key
//     model; volumes sum to the box volume
//   * every point of the half-cell lattice of the deepest level
//     ((2^(d+1)+1)^3 per block, points of the upper box faces excluded) is
//     mapped by get_key(p), get_key(level,p), get_cell(p) to the model's leaf;
//     the reported geometry of that leaf contains p and no other leaf's does
//   * for all 8 periodicity flags, after set_ngbs every node's 6 neighbour
//     pointers equal the model's "deepest existing node of the same or a
//     coarser level across that face" and are mutual
//   * a digest of everything observed equals the digest of the first history
//     that reached the same canonical state (history independence), and of
//     the grid built with create_cell(key) for every leaf
// Families: A full BFS (all 8 children), B BFS restricted to a pair of
// opposite children (deeper budgets), C single chains to depth 8, D boxes whose
// block size is not a binary fraction (comparisons to round-off).
#include "AMRGrid.hpp"
#include "verif_common.hpp"
#include <algorithm>
#include <array>
#include <cfloat>
#include <csetjmp>
#include <csignal>
#include <map>
#include <omp.h>
#include <set>
#include <sys/wait.h>
#include <unistd.h>
#include <unordered_map>
#include <unordered_set>

using namespace verif;

typedef AMRGrid< uint64_t > Grid;
typedef AMRGridCell< uint64_t > Cell;

// ---------------------------------------------------------------- abort trap
static thread_local sigjmp_buf *g_jmp = nullptr;
extern "C" void abort() {
  if (g_jmp)
    siglongjmp(*g_jmp, 1);
  signal(SIGABRT, SIG_DFL);
  raise(SIGABRT);
  _exit(134);
}

/// memory faults of the code under test inside an evaluation end it like an abort
static void fault_handler(int sig) {
  if (g_jmp)
    siglongjmp(*g_jmp, 2);
  signal(sig, SIG_DFL);
  raise(sig);
}
static void install_fault_handler() {
  struct sigaction sa;
  memset(&sa, 0, sizeof(sa));
  sa.sa_handler = fault_handler;
  sa.sa_flags = SA_NODEFER;
  sigaction(SIGSEGV, &sa, nullptr);
  sigaction(SIGBUS, &sa, nullptr);
}

// ---------------------------------------------------------------- key model
static inline int key_level(uint64_t key) {
  const uint32_t c = (uint32_t)(key & 0xffffffffu);
  return (31 - __builtin_clz(c)) / 3;
}
static inline uint64_t child_key(uint64_t k, int c) {
  const int L = key_level(k);
  uint64_t cell = k & 0xffffffffull;
  cell = (cell - (1ull << (3 * L))) | ((uint64_t)c << (3 * L)) | (1ull << (3 * (L + 1)));
  return (k & 0xffffffff00000000ull) | cell;
}
static inline uint64_t parent_key(uint64_t k) {
  const int L = key_level(k);
  uint64_t cell = k & 0xffffffffull;
  cell &= (1ull << (3 * (L - 1))) - 1;
  cell |= 1ull << (3 * (L - 1));
  return (k & 0xffffffff00000000ull) | cell;
}
static inline uint64_t block_key(int ix, int iy, int iz) {
  return ((uint64_t)(((uint32_t)ix << 20) | ((uint32_t)iy << 10) | (uint32_t)iz) << 32) | 1ull;
}
static inline void key_block(uint64_t k, int b[3]) {
  const uint32_t blk = (uint32_t)(k >> 32);
  b[0] = (blk >> 20) & 0x3ff;
  b[1] = (blk >> 10) & 0x3ff;
  b[2] = blk & 0x3ff;
}
/// integer coordinates of a node on the lattice of its own level
static inline void node_coords(uint64_t k, int &L, long X[3]) {
  L = key_level(k);
  int b[3];
  key_block(k, b);
  for (int i = 0; i < 3; ++i)
    X[i] = (long)b[i] << L;
  const uint64_t cell = k & 0xffffffffull;
  for (int l = 0; l < L; ++l) {
    const int c = (cell >> (3 * l)) & 7;
    X[0] |= (long)((c >> 2) & 1) << (L - 1 - l);
    X[1] |= (long)((c >> 1) & 1) << (L - 1 - l);
    X[2] |= (long)(c & 1) << (L - 1 - l);
  }
}

struct Cfg {
  std::string name;
  int nb[3];
  double A[3]; // box anchor
  double S[3]; // box sides
  bool dyadic; // block sides and anchors are binary fractions: everything exact
};

typedef std::vector< uint64_t > KeyVec;

struct Model {
  const Cfg *cfg;
  std::unordered_set< uint64_t > internal;
  KeyVec leaves; // expected enumeration order
  KeyVec nodes;  // all nodes (internal and leaves)
  int maxlevel = 0;
  void collect(uint64_t k) {
    nodes.push_back(k);
    if (internal.count(k)) {
      for (int c = 0; c < 8; ++c)
        collect(child_key(k, c));
    } else {
      leaves.push_back(k);
      maxlevel = std::max(maxlevel, key_level(k));
    }
  }
  void build(const Cfg &c, const KeyVec &refined) {
    cfg = &c;
    internal.clear();
    internal.insert(refined.begin(), refined.end());
    leaves.clear();
    nodes.clear();
    maxlevel = 0;
    for (int ix = 0; ix < c.nb[0]; ++ix)
      for (int iy = 0; iy < c.nb[1]; ++iy)
        for (int iz = 0; iz < c.nb[2]; ++iz)
          collect(block_key(ix, iy, iz));
  }
  /// deepest existing node of level <= L containing the level-L lattice cell X
  uint64_t locate(int L, const long X[3], int maxl) const {
    uint64_t k = block_key((int)(X[0] >> L), (int)(X[1] >> L), (int)(X[2] >> L));
    int l = 0;
    while (l < maxl && internal.count(k)) {
      const int c = (int)((((X[0] >> (L - 1 - l)) & 1) << 2) | (((X[1] >> (L - 1 - l)) & 1) << 1) |
                          ((X[2] >> (L - 1 - l)) & 1));
      k = child_key(k, c);
      ++l;
    }
    return k;
  }
};

static std::string hist_str(const KeyVec &h) {
  std::string s;
  for (size_t i = 0; i < h.size(); ++i)
    s += fmt("%s0x%" PRIx64, i ? "," : "", h[i]);
  return s;
}
static std::string replay_json(const Cfg &c, const KeyVec &h, const std::string &how) {
  return fmt("{\"cfg\": \"%s\", \"build\": \"%s\", \"history\": \"%s\"}", c.name.c_str(), how.c_str(),
             hist_str(h).c_str());
}

struct Counters {
  uint64_t points = 0, nodes_ngb = 0, near_tol = 0, evals = 0;
};

static const char *DIRNAME[6] = {"left", "right", "front", "back", "bottom", "top"};

/// how to build the real grid for a state
enum BuildMode { BUILD_REFINE, BUILD_CREATE, BUILD_CREATE_REV, BUILD_CREATE_POS };

/// builds the real grid from the history and checks every invariant; returns
/// the digest of everything observed (0 if the evaluation could not complete)
static uint64_t evaluate(const Cfg &cfg, const KeyVec &hist, BuildMode mode, bool sparse_lattice,
                         Result &R, Counters &C, bool verbose) {
  KeyVec canon(hist);
  std::sort(canon.begin(), canon.end());
  Model M;
  M.build(cfg, canon);
  const char *modename = mode == BUILD_REFINE ? "refine"
                         : mode == BUILD_CREATE ? "create_cell(key)"
                         : mode == BUILD_CREATE_REV ? "create_cell(key),reversed"
                                                    : "create_cell(level,position)";
  const std::string rep = replay_json(cfg, hist, modename);
  const std::string cls = cfg.dyadic ? "" : ":nondyadic";
  ++C.evals;

  static const char *STAGE[6] = {"setup", "build", "enumeration", "nodes", "position-lattice", "neighbours"};
  sigjmp_buf jb;
  volatile int stage = 0;
  if (sigsetjmp(jb, 1)) {
    g_jmp = nullptr;
    R.violation(fmt("C16:amr:abort-or-crash:%s%s", STAGE[(int)stage], cls.c_str()),
                fmt("cmac_error/abort or memory fault in stage %d (%s), cfg %s, build %s, history [%s]", (int)stage, STAGE[(int)stage],
                    cfg.name.c_str(), modename, hist_str(hist).c_str()),
                rep);
    return 0;
  }
  g_jmp = &jb;

  Box<> box(CoordinateVector<>(cfg.A[0], cfg.A[1], cfg.A[2]), CoordinateVector<>(cfg.S[0], cfg.S[1], cfg.S[2]));
  Grid grid(box, CoordinateVector< uint_fast32_t >(cfg.nb[0], cfg.nb[1], cfg.nb[2]));
  uint64_t digest = 1469598103934665603ull;
  auto mix = [&](uint64_t v) { digest = fnv1a(&v, 8, digest); };

  // ---- build
  stage = 1;
  if (mode == BUILD_REFINE) {
    grid.create_all_cells(0);
    for (uint64_t k : hist) {
      const uint64_t first = grid.refine_cell(k);
      if (first != child_key(k, 0))
        R.violation("C16:amr:refine-return" + cls,
                    fmt("refine_cell(0x%" PRIx64 ") returned 0x%" PRIx64 ", first child is 0x%" PRIx64
                        " (cfg %s, history [%s])",
                        k, first, child_key(k, 0), cfg.name.c_str(), hist_str(hist).c_str()),
                    rep);
    }
  } else if (mode == BUILD_CREATE_POS) {
    // create every leaf from its level and its midpoint (dyadic boxes only)
    for (uint64_t k : M.leaves) {
      int L;
      long X[3];
      node_coords(k, L, X);
      CoordinateVector<> mid;
      for (int i = 0; i < 3; ++i) {
        const double h = cfg.S[i] / cfg.nb[i] / (double)(1l << L);
        mid[i] = cfg.A[i] + (X[i] + 0.5) * h;
      }
      grid.create_cell((uint_fast8_t)L, mid);
    }
  } else {
    KeyVec order(M.leaves);
    if (mode == BUILD_CREATE_REV)
      std::reverse(order.begin(), order.end());
    for (uint64_t k : order)
      grid.create_cell(k) = 0;
  }

  // ---- enumeration
  stage = 2;
  KeyVec seen;
  {
    uint64_t k = grid.get_first_key();
    const size_t limit = M.leaves.size() + 8;
    while (k != grid.get_max_key() && seen.size() < limit) {
      seen.push_back(k);
      k = grid.get_next_key(k);
    }
  }
  for (uint64_t k : seen)
    mix(k);
  if (seen != M.leaves) {
    size_t i = 0;
    while (i < seen.size() && i < M.leaves.size() && seen[i] == M.leaves[i])
      ++i;
    KeyVec a(seen), b(M.leaves);
    std::sort(a.begin(), a.end());
    std::sort(b.begin(), b.end());
    const bool dup = std::adjacent_find(a.begin(), a.end()) != a.end();
    const char *kind = (a == b) ? "order" : (dup ? "visited-twice" : "set");
    R.violation(fmt("C16:amr:enumeration:%s%s", kind, cls.c_str()),
                fmt("get_first_key/get_next_key visit %zu keys, model has %zu leaves; first difference at "
                    "position %zu (real 0x%" PRIx64 ", model 0x%" PRIx64 "); cfg %s build %s history [%s]",
                    seen.size(), M.leaves.size(), i, i < seen.size() ? seen[i] : 0,
                    i < M.leaves.size() ? M.leaves[i] : 0, cfg.name.c_str(), modename, hist_str(hist).c_str()),
                rep);
    g_jmp = nullptr;
    return 0;
  }
  if (grid.get_number_of_cells() != M.leaves.size())
    R.violation("C16:amr:number-of-cells" + cls,
                fmt("get_number_of_cells %zu != %zu leaves; cfg %s history [%s]", (size_t)grid.get_number_of_cells(),
                    M.leaves.size(), cfg.name.c_str(), hist_str(hist).c_str()),
                rep);

  // ---- per node: pointer table, geometry, level, parent
  stage = 3;
  std::unordered_map< const Cell *, uint64_t > keyof;
  std::vector< Cell * > nodeptr(M.nodes.size());
  for (size_t i = 0; i < M.nodes.size(); ++i) {
    Cell *c = &grid[M.nodes[i]];
    nodeptr[i] = c;
    if (!keyof.emplace(c, M.nodes[i]).second)
      R.violation("C16:amr:key-aliasing" + cls,
                  fmt("two keys address the same cell object (0x%" PRIx64 "); cfg %s history [%s]", M.nodes[i],
                      cfg.name.c_str(), hist_str(hist).c_str()),
                  rep);
  }
  double tol[3];
  for (int i = 0; i < 3; ++i)
    tol[i] = cfg.dyadic ? 0. : 8. * DBL_EPSILON * (std::fabs(cfg.A[i]) + std::fabs(cfg.S[i]));
  long double volsum = 0.;
  for (size_t i = 0; i < M.nodes.size(); ++i) {
    const uint64_t k = M.nodes[i];
    Cell *c = nodeptr[i];
    int L;
    long X[3];
    node_coords(k, L, X);
    const bool leaf = !M.internal.count(k);
    if (c->get_level() != L || c->is_single_cell() != leaf)
      R.violation("C16:amr:level-or-kind" + cls,
                  fmt("node 0x%" PRIx64 ": level %d (model %d), single %d (model %d); cfg %s history [%s]", k,
                      (int)c->get_level(), L, (int)c->is_single_cell(), (int)leaf, cfg.name.c_str(),
                      hist_str(hist).c_str()),
                  rep);
    const Cell *par = c->get_parent();
    if (L == 0 ? par != nullptr : (par == nullptr || !keyof.count(par) || keyof[par] != parent_key(k)))
      R.violation("C16:amr:parent" + cls,
                  fmt("node 0x%" PRIx64 ": wrong parent pointer; cfg %s history [%s]", k, cfg.name.c_str(),
                      hist_str(hist).c_str()),
                  rep);
    const Box<> g = c->get_geometry();
    const CoordinateVector<> mid = c->get_midpoint();
    long double vol = 1.;
    for (int d = 0; d < 3; ++d) {
      const long double h = (long double)cfg.S[d] / cfg.nb[d] / (long double)(1l << L);
      const long double a = (long double)cfg.A[d] + X[d] * h;
      const double ga = g.get_anchor()[d], gs = g.get_sides()[d];
      if (leaf) {
        mix(*(const uint64_t *)&ga);
        mix(*(const uint64_t *)&gs);
      }
      const long double ea = fabsl(ga - a), es = fabsl(gs - h), em = fabsl(mid[d] - (a + 0.5L * h));
      if (ea > tol[d] || es > tol[d] || em > tol[d])
        R.violation("C16:amr:geometry" + cls,
                    fmt("node 0x%" PRIx64 " dim %d: anchor %a sides %a midpoint %a, model anchor %La sides %La; "
                        "cfg %s history [%s]",
                        k, d, ga, gs, mid[d], a, h, cfg.name.c_str(), hist_str(hist).c_str()),
                    rep);
      else if (!cfg.dyadic && (ea > 0.1 * tol[d] || es > 0.1 * tol[d]))
        ++C.near_tol;
      vol *= gs;
    }
    if (leaf) {
      const double v = c->get_volume();
      if (fabsl(v - vol) > 4. * DBL_EPSILON * (double)vol)
        R.violation("C16:amr:cell-volume" + cls,
                    fmt("leaf 0x%" PRIx64 ": get_volume %a, product of sides %La; cfg %s history [%s]", k, v, vol,
                        cfg.name.c_str(), hist_str(hist).c_str()),
                    rep);
      volsum += v;
      // tag the contents for the get_cell test
      c->value() = k;
    }
  }
  {
    const long double boxvol = (long double)cfg.S[0] * cfg.S[1] * cfg.S[2];
    const long double vt = cfg.dyadic ? 0.L : 4. * DBL_EPSILON * (M.leaves.size() + 4) * boxvol;
    if (fabsl(volsum - boxvol) > vt)
      R.violation("C16:amr:volume-sum" + cls,
                  fmt("leaf volumes sum to %La, box volume %La; cfg %s history [%s]", volsum, boxvol,
                      cfg.name.c_str(), hist_str(hist).c_str()),
                  rep);
  }

  // ---- lattice of positions
  stage = 4;
  const int d = M.maxlevel;
  const int LL = d + 1; // lattice level (half cells of the deepest level)
  long Mdim[3];
  std::vector< double > Xc[3];
  for (int i = 0; i < 3; ++i) {
    Mdim[i] = (long)cfg.nb[i] << LL;
    Xc[i].resize(Mdim[i] + 1);
    const double bs = cfg.S[i] / cfg.nb[i];
    for (long g = 0; g <= Mdim[i]; ++g) {
      // block anchor + offset inside the block (exact for dyadic boxes)
      const long b = std::min< long >(g >> LL, cfg.nb[i] - 1);
      Xc[i][g] = (cfg.A[i] + b * bs) + (double)(g - (b << LL)) * (bs / (double)(1l << LL));
    }
  }
  // list of lattice points (integer coordinates on level LL)
  std::vector< std::array< long, 3 > > pts;
  if (!sparse_lattice) {
    pts.reserve(Mdim[0] * Mdim[1] * Mdim[2]);
    for (long gx = 0; gx < Mdim[0]; ++gx)
      for (long gy = 0; gy < Mdim[1]; ++gy)
        for (long gz = 0; gz < Mdim[2]; ++gz)
          pts.push_back({gx, gy, gz});
  } else {
    // corners, edge/face midpoints and centre of every leaf + coarse lattice
    std::unordered_set< uint64_t > have;
    auto add = [&](long gx, long gy, long gz) {
      if (gx >= Mdim[0] || gy >= Mdim[1] || gz >= Mdim[2])
        return;
      const uint64_t h = ((uint64_t)gx << 42) | ((uint64_t)gy << 21) | (uint64_t)gz;
      if (have.insert(h).second)
        pts.push_back({gx, gy, gz});
    };
    for (uint64_t k : M.leaves) {
      int L;
      long X[3];
      node_coords(k, L, X);
      const int sh = LL - L; // >= 1
      for (int a = 0; a < 3; ++a)
        for (int b = 0; b < 3; ++b)
          for (int c = 0; c < 3; ++c)
            add((X[0] << sh) + ((long)a << (sh - 1)), (X[1] << sh) + ((long)b << (sh - 1)),
                (X[2] << sh) + ((long)c << (sh - 1)));
    }
    const int cl = std::min(LL, 3);
    for (long gx = 0; gx < ((long)cfg.nb[0] << cl); ++gx)
      for (long gy = 0; gy < ((long)cfg.nb[1] << cl); ++gy)
        for (long gz = 0; gz < ((long)cfg.nb[2] << cl); ++gz)
          add(gx << (LL - cl), gy << (LL - cl), gz << (LL - cl));
  }
  // lattice index ranges covered by the REAL geometry of every leaf
  struct Range {
    long lo[3], hi[3];
  };
  std::vector< Range > lr(M.leaves.size());
  std::vector< Cell * > leafptr(M.leaves.size());
  for (size_t i = 0; i < M.leaves.size(); ++i) {
    Cell *c = &grid[M.leaves[i]];
    leafptr[i] = c;
    const Box<> g = c->get_geometry();
    const CoordinateVector<> top = g.get_top_anchor();
    for (int a = 0; a < 3; ++a) {
      // anchor <= X[g] < top, with the tolerance of non-dyadic boxes shrinking
      // the range ("deep" containment)
      lr[i].lo[a] = std::lower_bound(Xc[a].begin(), Xc[a].begin() + Mdim[a], g.get_anchor()[a] + tol[a]) - Xc[a].begin();
      lr[i].hi[a] = std::lower_bound(Xc[a].begin(), Xc[a].begin() + Mdim[a], top[a] - tol[a]) - Xc[a].begin();
    }
  }
  std::vector< uint8_t > cnt;
  if (!sparse_lattice) {
    cnt.assign(pts.size(), 0);
    for (size_t i = 0; i < lr.size(); ++i)
      for (long gx = lr[i].lo[0]; gx < lr[i].hi[0]; ++gx)
        for (long gy = lr[i].lo[1]; gy < lr[i].hi[1]; ++gy) {
          uint8_t *row = &cnt[(gx * Mdim[1] + gy) * Mdim[2]];
          for (long gz = lr[i].lo[2]; gz < lr[i].hi[2]; ++gz)
            if (row[gz] < 255)
              ++row[gz];
        }
  }
  std::unordered_map< uint64_t, size_t > leafindex;
  for (size_t i = 0; i < M.leaves.size(); ++i)
    leafindex[M.leaves[i]] = i;
  for (size_t ip = 0; ip < pts.size(); ++ip) {
    const long *G = pts[ip].data();
    const CoordinateVector<> p(Xc[0][G[0]], Xc[1][G[1]], Xc[2][G[2]]);
    ++C.points;
    const uint64_t kreal = grid.get_key(p);
    mix(kreal);
    auto pointrep = [&]() {
      return fmt("{\"cfg\": \"%s\", \"build\": \"%s\", \"history\": \"%s\", \"point\": \"%a %a %a\"}", cfg.name.c_str(),
                 modename, hist_str(hist).c_str(), p.x(), p.y(), p.z());
    };
    const long Gl[3] = {G[0], G[1], G[2]};
    const uint64_t kmodel = M.locate(LL, Gl, LL);
    auto li = leafindex.find(kreal);
    if (li == leafindex.end()) {
      R.violation("C16:amr:get_key:not-a-leaf" + cls,
                  fmt("get_key(%a,%a,%a) = 0x%" PRIx64 " is not a leaf (model leaf 0x%" PRIx64 "); cfg %s history [%s]",
                      p.x(), p.y(), p.z(), kreal, kmodel, cfg.name.c_str(), hist_str(hist).c_str()),
                  pointrep());
      continue;
    }
    const Range &r = lr[li->second];
    bool inside_real = true, loose = true;
    {
      const Box<> g = leafptr[li->second]->get_geometry();
      const CoordinateVector<> top = g.get_top_anchor();
      for (int a = 0; a < 3; ++a) {
        inside_real &= (p[a] >= g.get_anchor()[a] && p[a] < top[a]);
        loose &= (p[a] >= g.get_anchor()[a] - tol[a] && p[a] <= top[a] + tol[a]);
      }
    }
    if (cfg.dyadic) {
      if (kreal != kmodel)
        R.violation("C16:amr:get_key:wrong-leaf",
                    fmt("get_key(%a,%a,%a) = 0x%" PRIx64 ", model leaf 0x%" PRIx64 "; cfg %s build %s history [%s]",
                        p.x(), p.y(), p.z(), kreal, kmodel, cfg.name.c_str(), modename, hist_str(hist).c_str()),
                    pointrep());
      if (!inside_real)
        R.violation("C16:amr:containment:located-leaf",
                    fmt("geometry of leaf 0x%" PRIx64 " found for (%a,%a,%a) does not contain it; cfg %s history [%s]",
                        kreal, p.x(), p.y(), p.z(), cfg.name.c_str(), hist_str(hist).c_str()),
                    pointrep());
    } else {
      if (!loose)
        R.violation("C16:amr:containment:located-leaf:nondyadic",
                    fmt("geometry of leaf 0x%" PRIx64 " found for (%a,%a,%a) misses it by more than round-off; cfg %s "
                        "history [%s]",
                        kreal, p.x(), p.y(), p.z(), cfg.name.c_str(), hist_str(hist).c_str()),
                    pointrep());
      else if (!inside_real)
        ++C.near_tol;
    }
    // number of leaves whose geometry contains the point
    unsigned ncont = 0;
    size_t other = 0;
    if (!sparse_lattice) {
      ncont = cnt[(G[0] * Mdim[1] + G[1]) * Mdim[2] + G[2]];
    } else {
      for (size_t i = 0; i < lr.size(); ++i) {
        const Range &q = lr[i];
        if (G[0] >= q.lo[0] && G[0] < q.hi[0] && G[1] >= q.lo[1] && G[1] < q.hi[1] && G[2] >= q.lo[2] &&
            G[2] < q.hi[2]) {
          ++ncont;
          if (i != li->second)
            other = i;
        }
      }
    }
    const bool self = (G[0] >= r.lo[0] && G[0] < r.hi[0] && G[1] >= r.lo[1] && G[1] < r.hi[1] && G[2] >= r.lo[2] &&
                       G[2] < r.hi[2]);
    if (cfg.dyadic ? (ncont != 1) : (ncont > 1 || (ncont == 1 && !self)))
      R.violation("C16:amr:containment:count" + cls,
                  fmt("(%a,%a,%a) lies in the geometry of %u leaves (expected exactly one; other leaf index %zu); "
                      "cfg %s history [%s]",
                      p.x(), p.y(), p.z(), ncont, other, cfg.name.c_str(), hist_str(hist).c_str()),
                  pointrep());
    // get_cell and the explicit-level variant agree with get_key
    const uint64_t &content = grid.get_cell(p);
    if (&content != &leafptr[li->second]->value() || content != kreal)
      R.violation("C16:amr:get_cell-vs-get_key" + cls,
                  fmt("get_cell(%a,%a,%a) returns the contents of leaf 0x%" PRIx64 ", get_key says 0x%" PRIx64
                      "; cfg %s history [%s]",
                      p.x(), p.y(), p.z(), content, kreal, cfg.name.c_str(), hist_str(hist).c_str()),
                  pointrep());
    const uint64_t klev = grid.get_key((uint_fast8_t)key_level(kreal), p);
    if (klev != kreal)
      R.violation("C16:amr:get_key(level)-vs-get_key" + cls,
                  fmt("get_key(%d,(%a,%a,%a)) = 0x%" PRIx64 " but get_key(p) = 0x%" PRIx64 "; cfg %s history [%s]",
                      key_level(kreal), p.x(), p.y(), p.z(), klev, kreal, cfg.name.c_str(), hist_str(hist).c_str()),
                  pointrep());
  }

  // ---- neighbours, all 8 periodicities
  stage = 5;
  for (int per = 0; per < 8; ++per) {
    const bool P[3] = {(per & 1) != 0, (per & 2) != 0, (per & 4) != 0};
    grid.set_ngbs(CoordinateVector< bool >(P[0], P[1], P[2]));
    for (size_t i = 0; i < M.nodes.size(); ++i) {
      const uint64_t k = M.nodes[i];
      Cell *c = nodeptr[i];
      int L;
      long X[3];
      node_coords(k, L, X);
      for (int dir = 0; dir < 6; ++dir) {
        ++C.nodes_ngb;
        const int ax = dir / 2, sgn = (dir & 1) ? 1 : -1;
        long Y[3] = {X[0], X[1], X[2]};
        Y[ax] += sgn;
        const long n = (long)cfg.nb[ax] << L;
        uint64_t expect = 0; // 0: no neighbour
        bool wrapped = false;
        if (Y[ax] < 0 || Y[ax] >= n) {
          if (P[ax]) {
            Y[ax] = (Y[ax] + n) % n;
            wrapped = true;
          } else
            Y[ax] = -1;
        }
        if (Y[ax] >= 0)
          expect = M.locate(L, Y, L);
        Cell *nb = c->get_ngb((AMRNgbPosition)dir);
        uint64_t got = 0;
        if (nb != nullptr) {
          auto it = keyof.find(nb);
          got = it == keyof.end() ? ~0ull : it->second;
        }
        mix(got);
        if (got != expect) {
          R.violation(fmt("C16:amr:ngb-vs-model:%s%s%s", DIRNAME[dir], wrapped ? ":periodic-wrap" : "", cls.c_str()),
                      fmt("periodic=(%d,%d,%d): %s neighbour of node 0x%" PRIx64 " is 0x%" PRIx64
                          ", model says 0x%" PRIx64 " (0 = none); cfg %s history [%s]",
                          P[0], P[1], P[2], DIRNAME[dir], k, got, expect, cfg.name.c_str(), hist_str(hist).c_str()),
                      rep);
          continue;
        }
        if (nb == nullptr)
          continue;
        // mutual: the opposite neighbour of nb is the ancestor-or-self of c
        // on the level of nb
        const int Ln = nb->get_level();
        const Cell *anc = c;
        while (anc != nullptr && anc->get_level() > Ln)
          anc = anc->get_parent();
        const Cell *back = nb->get_ngb((AMRNgbPosition)(dir ^ 1));
        if (Ln > L || back != anc)
          R.violation(fmt("C16:amr:ngb-mutual:%s%s", DIRNAME[dir], cls.c_str()),
                      fmt("periodic=(%d,%d,%d): %s neighbour of 0x%" PRIx64 " is 0x%" PRIx64
                          " (level %d) but its opposite neighbour is not the level-%d ancestor of the cell; "
                          "cfg %s history [%s]",
                          P[0], P[1], P[2], DIRNAME[dir], k, got, Ln, Ln, cfg.name.c_str(), hist_str(hist).c_str()),
                      rep);
      }
    }
  }
  g_jmp = nullptr;
  if (verbose) {
    printf("cfg %s build %s history [%s]: %zu leaves (max level %d), %zu lattice points, digest %016" PRIx64 "\n",
           cfg.name.c_str(), modename, hist_str(hist).c_str(), M.leaves.size(), M.maxlevel, pts.size(), digest);
  }
  return digest ? digest : 1;
}

// ------------------------------------------------------------------ search
struct StateInfo {
  KeyVec hist;
  uint64_t digest;
};

struct Totals {
  uint64_t states = 0, transitions = 0, maxdepth_seen = 0, rejoin = 0, altbuild = 0;
};

/// BFS over refinement histories; `children` = child positions that may be
/// refined below the block roots (all 8 for the full search)
static void bfs(const Cfg &cfg, int budget, int maxleaflevel, const std::vector< int > &children, bool altbuilds,
                Result &R, Counters &Ctot, Totals &T, const std::string &famname, int budget2 = 0, int maxleaflevel2 = 0) {
  // a state is inside the bound if (refinements <= budget and deepest leaf <= maxleaflevel) or
  // (refinements <= budget2 and deepest leaf <= maxleaflevel2)
  std::map< KeyVec, StateInfo > layer;
  {
    Counters c;
    KeyVec empty;
    const uint64_t dg = evaluate(cfg, empty, BUILD_REFINE, false, R, c, false);
    layer[empty] = StateInfo{empty, dg};
    ++T.states;
    Ctot.points += c.points;
    Ctot.nodes_ngb += c.nodes_ngb;
    Ctot.evals += c.evals;
  }
  bool allowed[8] = {false};
  for (int c : children)
    allowed[c] = true;
  for (int n = 0; n < std::max(budget, budget2); ++n) {
    std::vector< const StateInfo * > cur;
    std::vector< const KeyVec * > curcanon;
    for (auto &kv : layer) {
      cur.push_back(&kv.second);
      curcanon.push_back(&kv.first);
    }
    std::map< KeyVec, StateInfo > next;
    std::mutex mtx;
    bool cut = false;
#pragma omp parallel
    {
      Counters c;
      uint64_t ltrans = 0, lrejoin = 0, lalt = 0;
#pragma omp for schedule(dynamic, 4)
      for (size_t is = 0; is < cur.size(); ++is) {
        if (R.out_of_time()) {
          cut = true;
          continue;
        }
        Model M;
        M.build(cfg, *curcanon[is]);
        for (uint64_t leaf : M.leaves) {
          const int L = key_level(leaf);
          {
            const int nref = n + 1, deep = std::max(M.maxlevel, L + 1);
            const bool in1 = nref <= budget && deep <= maxleaflevel;
            const bool in2 = nref <= budget2 && deep <= maxleaflevel2;
            if (!in1 && !in2)
              continue;
          }
          if (L > 0) {
            const int cpos = (int)(((leaf & 0xffffffffull) >> (3 * (L - 1))) & 7);
            if (!allowed[cpos])
              continue;
          }
          KeyVec h(cur[is]->hist);
          h.push_back(leaf);
          KeyVec canon(h);
          std::sort(canon.begin(), canon.end());
          const uint64_t dg = evaluate(cfg, h, BUILD_REFINE, false, R, c, false);
          ++ltrans;
          bool fresh = false;
          {
            std::lock_guard< std::mutex > g(mtx);
            auto it = next.find(canon);
            if (it == next.end()) {
              next.emplace(canon, StateInfo{h, dg});
              fresh = true;
            } else {
              ++lrejoin;
              if (dg != it->second.digest && dg != 0 && it->second.digest != 0)
                R.violation("C16:amr:history-dependence" + std::string(cfg.dyadic ? "" : ":nondyadic"),
                            fmt("cfg %s: histories [%s] and [%s] reach the same leaf set but the grids answer "
                                "differently (digests %016" PRIx64 " / %016" PRIx64 ")",
                                cfg.name.c_str(), hist_str(h).c_str(), hist_str(it->second.hist).c_str(), dg,
                                it->second.digest),
                            replay_json(cfg, h, "refine"));
            }
          }
          if (fresh && altbuilds) {
            // the same state built leaf by leaf must behave identically
            for (BuildMode bm : {BUILD_CREATE, BUILD_CREATE_REV, BUILD_CREATE_POS}) {
              if (bm == BUILD_CREATE_POS && !cfg.dyadic)
                continue;
              const uint64_t d2 = evaluate(cfg, h, bm, false, R, c, false);
              ++lalt;
              if (d2 != dg && d2 != 0 && dg != 0)
                R.violation(fmt("C16:amr:build-dependence:mode%d%s", (int)bm, cfg.dyadic ? "" : ":nondyadic"),
                            fmt("cfg %s: the leaf set of history [%s] built with create_cell (mode %d) answers "
                                "differently from the refined grid",
                                cfg.name.c_str(), hist_str(h).c_str(), (int)bm),
                            replay_json(cfg, h, bm == BUILD_CREATE ? "create_cell(key)"
                                                : bm == BUILD_CREATE_REV ? "create_cell(key),reversed"
                                                                         : "create_cell(level,position)"));
            }
          }
        }
      }
      std::lock_guard< std::mutex > g(mtx);
      T.transitions += ltrans;
      T.rejoin += lrejoin;
      T.altbuild += lalt;
      Ctot.points += c.points;
      Ctot.nodes_ngb += c.nodes_ngb;
      Ctot.near_tol += c.near_tol;
      Ctot.evals += c.evals;
    }
    if (cut) {
      R.hit_deadline(fmt("family %s cfg %s: layer of %d refinements incomplete", famname.c_str(), cfg.name.c_str(), n + 1));
      T.states += next.size();
      return;
    }
    T.states += next.size();
    if (!next.empty()) {
      T.maxdepth_seen = std::max< uint64_t >(T.maxdepth_seen, n + 1);
      if (next.size() % 7 == 1 || n + 1 == std::max(budget, budget2)) {
        auto it = next.begin();
        std::advance(it, next.size() / 2);
        R.sample(fmt("{\"family\": \"%s\", \"cfg\": \"%s\", \"refinements\": %d, \"states_in_layer\": %zu, "
                     "\"example_history\": \"%s\"}",
                     famname.c_str(), cfg.name.c_str(), n + 1, next.size(), hist_str(it->second.hist).c_str()));
      }
    }
    for (auto &kv : next)
      R.distinct.insert(fnv1a(kv.first.data(), kv.first.size() * 8, fnv1a(cfg.name)));
    layer.swap(next);
    if (layer.empty())
      break;
  }
}

static std::vector< Cfg > all_cfgs() {
  std::vector< Cfg > v;
  v.push_back({"1x1x1", {1, 1, 1}, {0., 0., 0.}, {1., 1., 1.}, true});
  v.push_back({"2x1x1", {2, 1, 1}, {-1., 0.5, 2.}, {2., 2., 0.5}, true});
  v.push_back({"3x1x1", {3, 1, 1}, {0., 0., 0.}, {3., 1., 1.}, true});
  v.push_back({"3x2x1", {3, 2, 1}, {-1.5, 0.25, 8.}, {1.5, 2., 4.}, true});
  v.push_back({"1x1x2", {1, 1, 2}, {0.5, -4., -1.}, {1., 0.25, 4.}, true});
  v.push_back({"1x2x3", {1, 2, 3}, {0., -2., 1.}, {2., 2., 0.75}, true});
  v.push_back({"3x1x1-unitbox", {3, 1, 1}, {0., 0., 0.}, {1., 1., 1.}, false});
  v.push_back({"3x2x1-generic", {3, 2, 1}, {0.1, -0.2, 0.3}, {0.9, 1.1, 0.7}, false});
  v.push_back({"1x1x1-generic", {1, 1, 1}, {-0.3, 0.7, 1e-3}, {0.1, 1.3, 3.3}, false});
  v.push_back({"5x3x7-generic", {5, 3, 7}, {-1.1, 2.3, 0.}, {1.7, 0.3, 4.9}, false});
  return v;
}
static const Cfg *find_cfg(const std::vector< Cfg > &v, const std::string &n) {
  for (auto &c : v)
    if (c.name == n)
      return &c;
  return nullptr;
}

int main(int argc, char **argv) {
  Args A = parse_args(argc, argv);
  Result R(A);
  const std::vector< Cfg > cfgs = all_cfgs();
  install_fault_handler();
  if (A.replay.empty() && !freopen("/dev/null", "w", stderr)) {
  }

  if (!A.replay.empty()) {
    const std::string txt = read_file(A.replay);
    const std::string cn = replay_field(txt, "cfg"), hs = replay_field(txt, "history"), bs = replay_field(txt, "build");
    const Cfg *c = find_cfg(cfgs, cn);
    if (!c) {
      printf("replay: unknown cfg '%s'\n", cn.c_str());
      return R.finish(A);
    }
    KeyVec h;
    {
      char *s = strdup(hs.c_str());
      for (char *t = strtok(s, ","); t; t = strtok(nullptr, ","))
        h.push_back(strtoull(t, nullptr, 16));
      free(s);
    }
    BuildMode bm = BUILD_REFINE;
    if (bm == BUILD_REFINE && bs.find("reversed") != std::string::npos)
      bm = BUILD_CREATE_REV;
    else if (bs.find("position") != std::string::npos)
      bm = BUILD_CREATE_POS;
    else if (bs.find("create") != std::string::npos)
      bm = BUILD_CREATE;
    Counters cc;
    printf("replay: cfg %s, build %s, history [%s]\n", cn.c_str(), bs.c_str(), hist_str(h).c_str());
    const std::string ps = replay_field(txt, "point"), rkey = replay_field(txt, "key");
    if (!ps.empty() && rkey.find("C16:amr:get_key:") == 0) {
      // a position probe of family E: repeat the call in a child process
      double q[3];
      sscanf(ps.c_str(), "%la %la %la", &q[0], &q[1], &q[2]);
      Box<> box(CoordinateVector<>(c->A[0], c->A[1], c->A[2]), CoordinateVector<>(c->S[0], c->S[1], c->S[2]));
      Grid grid(box, CoordinateVector< uint_fast32_t >(c->nb[0], c->nb[1], c->nb[2]));
      grid.create_all_cells(0);
      for (uint64_t k : h)
        grid.refine_cell(k);
      const CoordinateVector<> p(q[0], q[1], q[2]);
      printf("replay: box anchor (%g %g %g) sides (%g %g %g), position (%.17g %.17g %.17g) = (%a %a %a)\n", c->A[0], c->A[1], c->A[2], c->S[0], c->S[1], c->S[2],
             p.x(), p.y(), p.z(), p.x(), p.y(), p.z());
      for (int d = 0; d < 3; ++d)
        printf("replay:   axis %d: n*(p-anchor)/side = %.17g with n = %d blocks (top %.17g)\n", d, c->nb[d] * (p[d] - c->A[d]) / c->S[d], c->nb[d], c->A[d] + c->S[d]);
      fflush(nullptr);
      const pid_t pid = fork();
      if (pid == 0) {
        alarm(10);
        const uint64_t kk = grid.get_key(p);
        printf("replay:   get_key = 0x%" PRIx64 "\n", kk);
        const uint64_t &content = grid.get_cell(p);
        printf("replay:   get_cell returned an object at %p\n", (const void *)&content);
        fflush(nullptr);
        _exit(0);
      }
      int stt = 0;
      waitpid(pid, &stt, 0);
      if (!WIFEXITED(stt) || WEXITSTATUS(stt) != 0) {
        printf("replay:   the child process ended with status 0x%x (signal %d)\n", stt, WIFSIGNALED(stt) ? WTERMSIG(stt) : 0);
        R.violation(rkey, "reproduced: get_key/get_cell crashes for a position inside the half-open box");
      }
      printf("replay: %" PRIu64 " violation(s)\n", R.violation_count);
      return R.finish(A);
    }
    int maxl = 0;
    for (uint64_t k : h)
      maxl = std::max(maxl, key_level(k) + 1);
    evaluate(*c, h, bm, maxl > 4, R, cc, true);
    // history independence: compare with the sorted history
    if (bm == BUILD_REFINE) {
      KeyVec s(h);
      std::sort(s.begin(), s.end(), [](uint64_t a, uint64_t b) {
        return key_level(a) != key_level(b) ? key_level(a) < key_level(b) : a < b;
      });
      Counters c2;
      Result R2(A);
      const uint64_t d1 = evaluate(*c, h, bm, maxl > 4, R2, c2, false), d2 = evaluate(*c, s, bm, maxl > 4, R2, c2, true);
      if (d1 != d2)
        R.violation("C16:amr:history-dependence", "replayed history and its level-sorted permutation differ");
    }
    for (auto &v : R.violations)
      printf("  VIOLATION %s :: %s\n", v.key.c_str(), v.detail.c_str());
    printf("replay: %" PRIu64 " violation(s)\n", R.violation_count);
    return R.finish(A);
  }

  const bool th = A.thorough();
  Counters C;
  Totals T;
  std::vector< int > all8 = {0, 1, 2, 3, 4, 5, 6, 7};

  // ---- family E (runs first, before any thread exists: uses fork): positions
  // one ulp next to faces. Interior faces: the located leaf must contain the
  // position to round-off. Upper box faces: the largest double below the face
  // is inside the half-open box; the block index is computed as
  // n*(p-anchor)/side and may round up to n, which indexes past the block
  // array - those calls are made in a child process.
  uint64_t ulp_probes = 0, top_probes = 0;
  for (const Cfg &cfg : cfgs) {
    const std::string cls = cfg.dyadic ? "" : ":nondyadic";
    KeyVec hist = {block_key(cfg.nb[0] - 1, cfg.nb[1] - 1, cfg.nb[2] - 1)};
    hist.push_back(child_key(hist[0], 7));
    Model M;
    M.build(cfg, hist);
    Box<> box(CoordinateVector<>(cfg.A[0], cfg.A[1], cfg.A[2]), CoordinateVector<>(cfg.S[0], cfg.S[1], cfg.S[2]));
    Grid grid(box, CoordinateVector< uint_fast32_t >(cfg.nb[0], cfg.nb[1], cfg.nb[2]));
    grid.create_all_cells(0);
    for (uint64_t k : hist)
      grid.refine_cell(k);
    double ptol[3], top[3];
    for (int d = 0; d < 3; ++d) {
      ptol[d] = 8. * DBL_EPSILON * (std::fabs(cfg.A[d]) + std::fabs(cfg.S[d]));
      top[d] = cfg.A[d] + cfg.S[d];
    }
    auto contains_loosely = [&](uint64_t key, const CoordinateVector<> &p) {
      const Box<> g = grid[key].get_geometry();
      const CoordinateVector<> t = g.get_top_anchor();
      bool in = true;
      for (int d = 0; d < 3; ++d)
        in &= p[d] >= g.get_anchor()[d] - ptol[d] && p[d] <= t[d] + ptol[d];
      return in;
    };
    std::set< uint64_t > leafset(M.leaves.begin(), M.leaves.end());
    for (uint64_t k : M.leaves) {
      const Box<> g = grid[k].get_geometry();
      const CoordinateVector<> mid = grid[k].get_midpoint();
      for (int d = 0; d < 3; ++d)
        for (int side = 0; side < 2; ++side)
          for (int sgn = -1; sgn <= 1; sgn += 2) {
            const double face = side ? g.get_top_anchor()[d] : g.get_anchor()[d];
            CoordinateVector<> p = mid;
            p[d] = std::nextafter(face, sgn > 0 ? DBL_MAX : -DBL_MAX);
            if (p[d] < cfg.A[d] || p[d] >= top[d])
              continue; // outside the half-open box
            const std::string rep = fmt("{\"cfg\": \"%s\", \"build\": \"refine\", \"history\": \"%s\", \"point\": \"%a %a %a\"}", cfg.name.c_str(),
                                        hist_str(hist).c_str(), p.x(), p.y(), p.z());
            const bool at_top = side == 1 && std::fabs(face - top[d]) <= ptol[d];
            uint64_t key = 0;
            int status = 0; // 0 ok, 1 crashed
            {
              if (at_top)
                ++top_probes;
              else
                ++ulp_probes;
              int fd[2];
              if (pipe(fd) != 0)
                continue;
              fflush(nullptr);
              const pid_t pid = fork();
              if (pid == 0) {
                close(fd[0]);
                alarm(5);
                const uint64_t kk = grid.get_key(p);
                const uint64_t &content = grid.get_cell(p);
                (void)content;
                if (write(fd[1], &kk, 8) != 8)
                  _exit(3);
                _exit(0);
              }
              close(fd[1]);
              int stt = 0;
              const ssize_t nr = read(fd[0], &key, 8);
              close(fd[0]);
              waitpid(pid, &stt, 0);
              if (nr != 8 || !WIFEXITED(stt) || WEXITSTATUS(stt) != 0)
                status = 1;
            }
            const char *where = at_top ? ":within-roundoff-below-upper-box-face" : ":one-ulp-from-an-interior-face";
            if (status == 1)
              R.violation(std::string("C16:amr:get_key:crash") + where,
                          fmt("cfg %s (anchor %g, side %g, %d blocks along axis %d): get_key/get_cell(%a,%a,%a) crashes or aborts in a child "
                              "process; the position is inside the half-open box (%a < top %a) but n*(p-anchor)/side rounds to n",
                              cfg.name.c_str(), cfg.A[d], cfg.S[d], cfg.nb[d], d, p.x(), p.y(), p.z(), p[d], top[d]),
                          rep);
            else if (!leafset.count(key))
              R.violation(std::string("C16:amr:get_key:not-a-leaf") + where,
                          fmt("cfg %s: get_key(%a,%a,%a) = 0x%" PRIx64 " is not a leaf of the grid (position inside the half-open box, "
                              "%a < top %a along axis %d)",
                              cfg.name.c_str(), p.x(), p.y(), p.z(), key, p[d], top[d], d),
                          rep);
            else if (!contains_loosely(key, p))
              R.violation(std::string("C16:amr:containment") + where + cls,
                          fmt("cfg %s: leaf 0x%" PRIx64 " found for (%a,%a,%a) misses it by more than round-off", cfg.name.c_str(), key, p.x(), p.y(), p.z()), rep);
          }
    }
  }

  // ---- family A: full BFS (budget = refinements, depth = deepest leaf level)
  struct Plan {
    std::string cfg;
    int budget, depth;
    int budget2 = 0, depth2 = 0;
    Plan(const std::string &c, int b, int d, int b2 = 0, int d2 = 0) : cfg(c), budget(b), depth(d), budget2(b2), depth2(d2) {}
  };
  // "--planA cfg:budget:depth,cfg:budget:depth" overrides a plan (experiments)
  auto parse_plan = [&](const std::string &arg, std::vector< Plan > &plan) {
    const std::string v = A.get(arg);
    if (v.empty())
      return;
    plan.clear();
    char *s = strdup(v.c_str());
    for (char *t = strtok(s, ","); t; t = strtok(nullptr, ",")) {
      char name[64];
      int b, d, b2 = 0, d2 = 0;
      if (sscanf(t, "%63[^:]:%d:%d:%d:%d", name, &b, &d, &b2, &d2) >= 3)
        plan.push_back(Plan(name, b, d, b2, d2));
    }
    free(s);
  };
  std::vector< Plan > planA;
  if (!th)
    planA = {{"1x1x1", 5, 3}, {"2x1x1", 4, 3}, {"3x1x1", 4, 3}, {"3x2x1", 3, 3}};
  else
    planA = {{"1x1x1", 6, 3, 5, 4}, {"2x1x1", 4, 4}, {"3x1x1", 4, 4}, {"3x2x1", 4, 3, 3, 4}, {"1x1x2", 4, 3}, {"1x2x3", 3, 3}};
  parse_plan("planA", planA);
  for (auto &p : planA) {
    if (R.out_of_time()) {
      R.hit_deadline(std::string("family A not started for ") + p.cfg);
      continue;
    }
    bfs(*find_cfg(cfgs, p.cfg), p.budget, p.depth, all8, true, R, C, T, "A:full", p.budget2, p.depth2);
  }
  const uint64_t statesA = T.states, transA = T.transitions;

  // ---- family B: BFS restricted to a pair of opposite children, deeper
  // budgets (quick 6 refinements / depth 3, thorough 12 / depth 4); the seed
  // rotates which pair comes first, all four pairs are always run
  {
    const int pairs[4][2] = {{0, 7}, {1, 6}, {2, 5}, {3, 4}};
    for (int ip = 0; ip < 4; ++ip) {
      const int *pr = pairs[(ip + A.seed) % 4];
      std::vector< int > ch = {pr[0], pr[1]};
      std::vector< Plan > planB;
      if (!th)
        planB = {{"1x1x1", 6, 3}, {"2x1x1", 6, 3}};
      else
        planB = {{"1x1x1", 12, 4}, {"2x1x1", 8, 4}, {"3x2x1", 6, 3}};
      parse_plan("planB", planB);
      for (auto &p : planB) {
        if (R.out_of_time()) {
          R.hit_deadline(fmt("family B pair (%d,%d) not started for %s", pr[0], pr[1], p.cfg.c_str()));
          continue;
        }
        bfs(*find_cfg(cfgs, p.cfg), p.budget, p.depth, ch, false, R, C, T, fmt("B:children{%d,%d}", pr[0], pr[1]));
      }
    }
  }
  const uint64_t statesB = T.states - statesA, transB = T.transitions - transA;

  // ---- family C: single refinement chains to depth 8 (every prefix is a
  // state); child sequences: all words over a pair of opposite children, plus
  // the constant words and the counting words
  uint64_t chains = 0, chainstates = 0;
  {
    const int depth = 8;
    std::vector< std::vector< int > > words;
    for (int pr = 0; pr < 4; ++pr)
      for (int w = 0; w < (1 << (depth - 1)); ++w) {
        std::vector< int > word;
        for (int i = 0; i < depth - 1; ++i)
          word.push_back(((w >> i) & 1) ? 7 - pr : pr);
        words.push_back(word);
      }
    for (int s = 0; s < 8; ++s) {
      std::vector< int > up, down;
      for (int i = 0; i < depth - 1; ++i) {
        up.push_back((s + i) % 8);
        down.push_back((s + 8 * depth - 3 * i) % 8);
      }
      words.push_back(up);
      words.push_back(down);
    }
    if (!th) {
      // quick: every 8th word of the pair families plus all counting words
      std::vector< std::vector< int > > w2;
      for (size_t i = 0; i < words.size(); ++i)
        if (i >= 4 * 128 || (i + A.seed) % 8 == 0)
          w2.push_back(words[i]);
      words.swap(w2);
    }
    std::vector< const Cfg * > ccfg = {find_cfg(cfgs, "1x1x1"), find_cfg(cfgs, "3x2x1")};
    if (th)
      ccfg.push_back(find_cfg(cfgs, "2x1x1"));
    std::mutex mtx;
    std::set< uint64_t > prefixes;
    bool cut = false;
    for (const Cfg *cfg : ccfg) {
      // start block: last block (exercises the block part of the key)
      const uint64_t root = block_key(cfg->nb[0] - 1, cfg->nb[1] - 1, cfg->nb[2] - 1);
#pragma omp parallel
      {
        Counters c;
        uint64_t lst = 0;
#pragma omp for schedule(dynamic, 2)
        for (size_t iw = 0; iw < words.size(); ++iw) {
          if (R.out_of_time()) {
            cut = true;
            continue;
          }
          KeyVec h;
          uint64_t k = root;
          h.push_back(k);
          for (int cpos : words[iw]) {
            k = child_key(k, cpos);
            h.push_back(k);
          }
          // evaluate only prefixes not seen before (prefix = state)
          for (size_t len = 5; len <= h.size(); ++len) {
            KeyVec pre(h.begin(), h.begin() + len);
            const uint64_t hh = fnv1a(pre.data(), pre.size() * 8, fnv1a(cfg->name));
            {
              std::lock_guard< std::mutex > g(mtx);
              if (!prefixes.insert(hh).second)
                continue;
            }
            evaluate(*cfg, pre, BUILD_REFINE, true, R, c, false);
            // a chain has exactly one history; compare with the leaf-by-leaf build
            if (len == h.size()) {
              Counters c2;
              const uint64_t d1 = evaluate(*cfg, pre, BUILD_REFINE, true, R, c2, false);
              const uint64_t d2 = evaluate(*cfg, pre, BUILD_CREATE_REV, true, R, c, false);
              if (d1 != d2 && d1 && d2)
                R.violation("C16:amr:build-dependence:chain",
                            fmt("cfg %s chain [%s]: refined grid and create_cell grid differ", cfg->name.c_str(),
                                hist_str(pre).c_str()),
                            replay_json(*cfg, pre, "create_cell(key),reversed"));
            }
            ++lst;
          }
        }
        std::lock_guard< std::mutex > g(mtx);
        chainstates += lst;
        C.points += c.points;
        C.nodes_ngb += c.nodes_ngb;
        C.evals += c.evals;
      }
      chains += words.size();
    }
    if (cut)
      R.hit_deadline("family C (chains) incomplete");
    for (uint64_t h : prefixes)
      R.distinct.insert(h);
    R.sample(fmt("{\"family\": \"C:chains\", \"chains\": %" PRIu64 ", \"states\": %" PRIu64 ", \"deepest_leaf_level\": 8}",
                 chains, chainstates));
  }

  // ---- family D: non-dyadic boxes (round-off level comparisons)
  const uint64_t s0 = T.states, t0 = T.transitions;
  {
    std::vector< Plan > planD;
    if (!th)
      planD = {{"3x1x1-unitbox", 2, 3}, {"3x2x1-generic", 2, 2}, {"1x1x1-generic", 3, 3}};
    else
      planD = {{"3x1x1-unitbox", 3, 3}, {"3x2x1-generic", 3, 3}, {"1x1x1-generic", 4, 4}, {"5x3x7-generic", 1, 1}};
    parse_plan("planD", planD);
    for (auto &p : planD) {
      if (R.out_of_time()) {
        R.hit_deadline(std::string("family D not started for ") + p.cfg);
        continue;
      }
      bfs(*find_cfg(cfgs, p.cfg), p.budget, p.depth, all8, true, R, C, T, "D:nondyadic");
    }
  }

  R.evaluations = C.evals;
  R.set("states", (double)(T.states + chainstates));
  R.set("transitions", (double)(T.transitions + chainstates));
  R.set("traces_validated_against_impl", (double)C.evals);
  R.set("states_familyA_full_bfs", (double)statesA);
  R.set("transitions_familyA_full_bfs", (double)transA);
  R.set("states_familyB_pair_bfs", (double)statesB);
  R.set("transitions_familyB_pair_bfs", (double)transB);
  R.set("states_familyC_chains", (double)chainstates);
  R.set("chains_familyC", (double)chains);
  R.set("states_familyD_nondyadic", (double)(T.states - s0));
  R.set("transitions_familyD_nondyadic", (double)(T.transitions - t0));
  R.set("transitions_rejoining_a_known_state", (double)T.rejoin);
  R.set("alternative_builds_compared", (double)T.altbuild);
  R.set("positions_one_ulp_from_interior_faces", (double)ulp_probes);
  R.set("positions_one_ulp_below_upper_box_faces_(child_process)", (double)top_probes);
  R.set("lattice_points_checked", (double)C.points);
  R.set("neighbour_pointers_checked", (double)C.nodes_ngb);
  R.set("nondyadic_cases_within_10x_of_tolerance_or_on_a_rounded_face", (double)C.near_tol);
  R.rule = "explicit-state BFS over the real AMRGrid: state = set of refined nodes (= sorted leaf keys), transition = "
           "refine_cell(leaf); every transition rebuilds a fresh grid from its history and evaluates enumeration, "
           "geometry, volume sum, the (2^(d+1)+1)^3-per-block position lattice (get_key/get_cell/containment), the "
           "neighbour pointers for 8 periodicities and the digest against the first history of the same state; "
           "distinct = canonical states (hash of block layout + refined node set)";
  R.assumptions.push_back("positions on the upper faces of the box are outside the half-open box and are not queried");
  R.assumptions.push_back("boxes whose block size is not a binary fraction are compared to 8 eps (|anchor|+|side|); "
                          "on such boxes a position on a rounded face may be located in either adjacent leaf");
  return R.finish(A);
}
