CHECK = {
    "id": "C15",
    "level": "exploration",
    "engine": "E3",
    "technique": "bounded-exhaustive enumeration of generator families (all small lattice subsets, lattices, clusters, "
                 "near-wall and cospherical sets, named deterministic generic sets of 2..2000 generators, spike cells against "
                 "the block shells of the neighbour search; four box shapes) through both real Voronoi constructions, "
                 "against tessellation identities, brute-force nearest generator / empty-circumsphere tests, N-version "
                 "agreement and the search-radius invariant on every intermediate cell state",
    "level_text": "Both real grid classes (NewVoronoiGrid, OldVoronoiGrid from libcmi.a) are run on every member of the "
                  "listed families: (i) every 2..4-subset of the 3x3x3 lattice exactly (new construction), (ii) the same "
                  "subsets with a fixed irrational 1e-3 perturbation (both) and with the same pattern at 1e-6..1e-14 (nearly "
                  "coplanar/cospherical, together with perturbed cospherical shells), (iii) full and perturbed lattices 2^3..12^3, "
                  "geometric clusters 2^-k at every corner, generators 1e-9 from walls/edges/corners, exactly cospherical "
                  "shells and their perturbations, (iv) generic sets: fixed pseudo-random members (uniform, strongly "
                  "clustered, near the walls, nearly coplanar sheet) with 2..2000 generators, the counts on both sides of "
                  "every block-count threshold of the point-location grid and of the job size of the construction, (v) "
                  "spikes: a cell with a single far vertex (cone of 3|4 neighbours, apex distance R) and a generator h at "
                  "D = 0.9..2.1 R behind the apex, over directions, position in the search block, every order of the "
                  "neighbours in the index list, 60/270/1250 generators; in boxes 1:1:1, 1:2:4, 1:1:100 and a shifted "
                  "cube; serial and 4-thread construction. Each case runs in a forked worker so that an abort, crash or "
                  "hang of the real code is a recorded outcome. Oracle: positive volumes summing to the box, every face "
                  "above 1e-12 L^2 has a partner of equal area / matching midpoint / same plane and lies on the bisector, "
                  "walls covered once, generator inside its cell, every face vertex inside the box and not beyond the "
                  "bisector plane with any other generator (brute force over all generators: complete for a missed cut), "
                  "get_index on a 17^3 lattice = brute-force nearest generator, old = new in volumes, centroids and "
                  "neighbour sets; every coordinate handed to the exact predicates must lie in [1,2); in (iv),(v) every "
                  "cell is also built by hand with the real cell classes and after every insertion the search radius they "
                  "report must bound the vertex distances (old) / circumspheres through the generator (new).",
    "level_note": "Exhaustive over the listed families only (generator counts <= 2000); the quick tier uses one "
                  "representative per orbit of the 48 cube symmetries for the subsets, lattices up to 6^3, generic sets "
                  "with 2 members per small count, 2 uniform sets of 2000 and clustered sets up to 500, and ~500 spike "
                  "members of 60 generators; the thorough tier has 24+20 sets of 2000 and ~15 000 spike members. The "
                  "generic members are fixed point sets (seeded by their name), not samples drawn at run time. Violations "
                  "of the new construction carry a regime suffix assigned by the harness (precondition monitor / "
                  "flattest real-space Delaunay tetrahedron), see NOTES.md. The old "
                  "construction is judged only on inputs farther from degeneracy than its own OLDVORONOI_TOLERANCE; "
                  "elsewhere its outcome is recorded. Tolerances are derived per case (baseline 1e-10 L, conditioning "
                  "16 eps L^2/s_min, old tolerance 4 eps_old/s_gen; for (iv),(v) the volume and wall sums use the same "
                  "model per cell, without the 1e-10 floor; the search-radius comparison uses a running error bound of "
                  "the circumcentre formula) and near misses are counted.",
    "quick_deadline": 90,
    "thorough_deadline": 1200,
    "parts": [
        {"name": "subsets_exact", "bin": "c15_voronoi", "args": ["--mode", "subsets_exact"], "quick_share": 1, "thorough_share": 1.5},
        {"name": "subsets_perturbed", "bin": "c15_voronoi", "args": ["--mode", "subsets_perturbed"], "quick_share": 1, "thorough_share": 2},
        {"name": "near_degenerate", "bin": "c15_voronoi", "args": ["--mode", "near_degenerate"], "quick_share": 2, "thorough_share": 6},
        {"name": "families", "bin": "c15_voronoi", "args": ["--mode", "families"], "quick_share": 1.5, "thorough_share": 2},
        {"name": "generic", "bin": "c15_voronoi", "args": ["--mode", "generic"], "quick_share": 6, "thorough_share": 12},
        {"name": "spikes", "bin": "c15_voronoi", "args": ["--mode", "spikes"], "quick_share": 5, "thorough_share": 12},
        {"name": "threads", "bin": "c15_voronoi_omp", "args": ["--mode", "threads"], "quick_share": 2.5, "thorough_share": 3.5,
         "env": {"OMP_NUM_THREADS": "4"}},
    ],
    "assumptions": [],
}
