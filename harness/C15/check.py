CHECK = {
    "id": "C15",
    "level": "exploration",
    "engine": "E3",
    "technique": "bounded-exhaustive enumeration of generator families (all small lattice subsets, lattices, clusters, "
                 "near-wall and cospherical sets, three box shapes) through both real Voronoi constructions, against "
                 "tessellation identities, brute-force nearest generator and N-version agreement",
    "level_text": "Both real grid classes (NewVoronoiGrid, OldVoronoiGrid from libcmi.a) are run on every member of the "
                  "listed families: (i) every 2..4-subset of the 3x3x3 lattice exactly (new construction), (ii) the same "
                  "subsets with a fixed irrational 1e-3 perturbation (both) and with the same pattern at 1e-6..1e-14 (nearly "
                  "coplanar/cospherical, together with perturbed cospherical shells), (iii) full and perturbed lattices 2^3..12^3, "
                  "geometric clusters 2^-k at every corner, generators 1e-9 from walls/edges/corners, exactly cospherical "
                  "shells and their perturbations, in boxes 1:1:1, 1:2:4, 1:1:100 and a shifted cube; serial and 4-thread "
                  "construction. Each case runs in a forked worker so that an abort, crash or hang of the real code is a "
                  "recorded outcome. Oracle: positive volumes summing to the box, every face above 1e-12 L^2 has a partner "
                  "of equal area / matching midpoint / same plane and lies on the bisector, walls covered once, generator "
                  "inside its cell, get_index on a 17^3 lattice = brute-force nearest generator, old = new in volumes, "
                  "centroids and neighbour sets; every coordinate handed to the exact predicates must lie in [1,2).",
    "level_note": "Exhaustive over the listed families only (generator counts <= 1728); the quick tier uses one "
                  "representative per orbit of the 48 cube symmetries for the subsets and lattices up to 6^3. Violations "
                  "of the new construction carry a regime suffix assigned by the harness (precondition monitor / "
                  "flattest real-space Delaunay tetrahedron), see NOTES.md. The old "
                  "construction is judged only on inputs farther from degeneracy than its own OLDVORONOI_TOLERANCE; "
                  "elsewhere its outcome is recorded. Tolerances are derived per case (baseline 1e-10 L, conditioning "
                  "16 eps L^2/s_min, old tolerance 4 eps_old/s_gen) and near misses are counted.",
    "quick_deadline": 90,
    "thorough_deadline": 1200,
    "parts": [
        {"name": "subsets_exact", "bin": "c15_voronoi", "args": ["--mode", "subsets_exact"], "quick_share": 1, "thorough_share": 2},
        {"name": "subsets_perturbed", "bin": "c15_voronoi", "args": ["--mode", "subsets_perturbed"], "quick_share": 1, "thorough_share": 3},
        {"name": "near_degenerate", "bin": "c15_voronoi", "args": ["--mode", "near_degenerate"], "quick_share": 1, "thorough_share": 6},
        {"name": "families", "bin": "c15_voronoi", "args": ["--mode", "families"], "quick_share": 2, "thorough_share": 4},
        {"name": "threads", "bin": "c15_voronoi_omp", "args": ["--mode", "threads"], "quick_share": 2, "thorough_share": 3,
         "env": {"OMP_NUM_THREADS": "4"}},
    ],
    "assumptions": [],
}
