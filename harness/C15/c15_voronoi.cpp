// C15: both real Voronoi grid constructions (NewVoronoiGrid: incremental
// Delaunay with exact predicates; OldVoronoiGrid: plane cutting with a
// tolerance) on exhaustively enumerated generator families, checked against
// tessellation identities, a brute-force nearest-generator search and against
// each other. See NOTES.md for the families, the oracle and the tolerances.
//
// Every case runs inside a forked worker process: cmac_error() -> abort(), a
// segmentation fault or a hang (alarm) of the real code is a recorded outcome
// of that case and never takes the harness down.
//
// The same source is built twice: flavour `plain` (serial parts) and flavour
// `omp` (part "threads": serial against 4-thread construction).
#include "NewVoronoiGrid.hpp"
#include "OldVoronoiCell.hpp"
#include "OldVoronoiGrid.hpp"
#include "verif_common.hpp"

#include <algorithm>
#include <array>
#include <atomic>
#include <cfloat>
#include <csignal>
#include <functional>
#include <sys/mman.h>
#include <sys/wait.h>

using namespace verif;
typedef CoordinateVector<> V3;

// ---------------------------------------------------------------------------
// cases
// ---------------------------------------------------------------------------
struct Case {
  std::string name;   // unique; replay identifies the case by it
  std::string family; // stable class name used in violation keys
  V3 anchor, sides;
  std::vector< V3 > gen;
  bool run_old = true;
  bool old_in_domain = true; // the property binds the old construction on this input (set by finish_case)
  bool degenerate = false;   // exactly degenerate input (lattice, cospherical)
  double margin = 0.;        // distance (length) of the input from exact degeneracy / size of its smallest feature
  double margin_ratio = 0.;  // margin / (100 * snapping distance of the old construction)
  int threads = 1;           // >1: also construct with this many threads and compare
  bool monitor = false;      // drive every cell by hand and check the search-radius invariants after every insertion
  bool local_tol = false;    // volume-sum tolerance from the per-cell conditioning instead of the global worst case
};

/// documented plane-test tolerance of the old construction (OldVoronoiCell.hpp:66). The allowances of
/// the check are derived from this specified value, not from whatever the code under test defines.
static const double OLD_TOL_SPEC = 2.e-10;

static const double PHI[3] = {1.4142135623730951, 1.7320508075688772, 2.2360679774997896};
static inline double frac(double x) { return x - std::floor(x); }
/// fixed irrational perturbation pattern in [-0.5,0.5)^3 for point number q
static V3 pattern(long q, long seed) {
  return V3(frac((q + 1) * PHI[0] + 0.137 * seed) - 0.5, frac((q + 1) * PHI[1] + 0.271 * seed) - 0.5,
            frac((q + 1) * PHI[2] + 0.419 * seed) - 0.5);
}

/// The old construction decides "vertex on the cutting plane" with an absolute tolerance eps_old =
/// OLD_TOL_SPEC * |sides|^2 on (squared) lengths, which snaps vertices within delta_old =
/// 4 eps_old / s_gen of a plane (s_gen: smallest generator distance). The property binds it only on
/// inputs whose distance from degeneracy (margin) is at least 100 delta_old.
static void finish_case(Case &c) {
  double s_gen = DBL_MAX;
  for (size_t i = 0; i < c.gen.size(); ++i)
    for (size_t j = i + 1; j < c.gen.size(); ++j)
      s_gen = std::min(s_gen, (c.gen[i] - c.gen[j]).norm());
  const double delta_old = 4. * OLD_TOL_SPEC * c.sides.norm2() / s_gen;
  if (c.margin < 0.)
    c.margin = 0.5 * s_gen; // generic sets: smallest feature
  c.margin_ratio = c.margin / (100. * delta_old);
  c.old_in_domain = !c.degenerate && c.margin_ratio >= 1.;
}

// ---- (i),(ii): subsets of the 3x3x3 lattice ---------------------------------
struct SubsetTable {
  std::vector< uint32_t > all;  // bit masks of all 2..4-subsets (20 826)
  std::vector< uint32_t > reps; // one representative per orbit of the 48 cube symmetries
};
static SubsetTable g_subsets;

static void build_subsets() {
  // the 48 symmetries of the cube acting on lattice indices (i,j,k) in {0,1,2}^3
  std::vector< std::array< int, 27 > > group;
  int perm[3] = {0, 1, 2};
  do {
    for (int flip = 0; flip < 8; ++flip) {
      std::array< int, 27 > g;
      for (int q = 0; q < 27; ++q) {
        int c[3] = {q / 9, (q / 3) % 3, q % 3}, d[3];
        for (int a = 0; a < 3; ++a) {
          d[a] = c[perm[a]];
          if (flip & (1 << a))
            d[a] = 2 - d[a];
        }
        g[q] = d[0] * 9 + d[1] * 3 + d[2];
      }
      group.push_back(g);
    }
  } while (std::next_permutation(perm, perm + 3));
  for (int k = 2; k <= 4; ++k) {
    std::vector< int > idx(k);
    for (int i = 0; i < k; ++i)
      idx[i] = i;
    while (true) {
      uint32_t m = 0;
      for (int i : idx)
        m |= 1u << i;
      g_subsets.all.push_back(m);
      uint32_t best = m;
      for (const auto &g : group) {
        uint32_t im = 0;
        for (int i : idx)
          im |= 1u << g[i];
        best = std::min(best, im);
      }
      if (best == m)
        g_subsets.reps.push_back(m);
      int i = k - 1;
      while (i >= 0 && idx[i] == 27 - k + i)
        --i;
      if (i < 0)
        break;
      ++idx[i];
      for (int j = i + 1; j < k; ++j)
        idx[j] = idx[j - 1] + 1;
    }
  }
}

static Case subset_case(uint32_t mask, double amp, long seed) {
  const bool perturbed = amp > 0.;
  Case c;
  c.anchor = V3(0.);
  c.sides = V3(1.);
  std::string ids;
  for (int q = 0; q < 27; ++q) {
    if (!(mask & (1u << q)))
      continue;
    V3 p(0.25 + 0.25 * (q / 9), 0.25 + 0.25 * ((q / 3) % 3), 0.25 + 0.25 * (q % 3));
    if (perturbed)
      p += amp * pattern(q, seed);
    c.gen.push_back(p);
    ids += (ids.empty() ? "" : ",") + fmt("%d", q);
  }
  if (amp == 0.) {
    c.family = fmt("lattice-subset-%zu-exact", c.gen.size());
    c.name = fmt("subsetE:%s", ids.c_str());
  } else if (amp == 1.e-3) {
    c.family = fmt("lattice-subset-%zu-perturbed", c.gen.size());
    c.name = fmt("subsetP:%s", ids.c_str());
  } else {
    c.family = fmt("lattice-subset-%zu-near-degenerate-%g", c.gen.size(), amp);
    c.name = fmt("subsetN%g:%s", amp, ids.c_str());
  }
  c.degenerate = !perturbed;
  c.run_old = perturbed; // (i): new construction only
  c.margin = 0.5 * amp;
  finish_case(c);
  return c;
}

// ---- (iii): families -------------------------------------------------------------
struct BoxShape {
  const char *name;
  V3 anchor, sides;
};
static const BoxShape BOXES[] = {
    {"1x1x1", V3(0.), V3(1.)},
    {"1x2x4", V3(0.), V3(1., 2., 4.)},
    {"1x1x100", V3(0.), V3(1., 1., 100.)},
    {"1x1x1@(-2,0.5,10)", V3(-2., 0.5, 10.), V3(1.)},
};

static Case lattice_case(int n, const BoxShape &B, double pert, long seed) {
  // pert: amplitude of the perturbation in units of the lattice spacing (0: exact)
  Case c;
  c.anchor = B.anchor;
  c.sides = B.sides;
  long q = 0;
  for (int i = 0; i < n; ++i)
    for (int j = 0; j < n; ++j)
      for (int k = 0; k < n; ++k, ++q) {
        V3 p((i + 0.5) / n, (j + 0.5) / n, (k + 0.5) / n);
        if (pert > 0.) {
          const V3 d = pattern(q, seed);
          p += V3(pert * d.x() / n, pert * d.y() / n, pert * d.z() / n);
        }
        c.gen.push_back(V3(B.anchor.x() + p.x() * B.sides.x(), B.anchor.y() + p.y() * B.sides.y(),
                           B.anchor.z() + p.z() * B.sides.z()));
      }
  c.degenerate = (pert == 0.);
  c.family = pert == 0. ? "lattice-exact" : fmt("lattice-perturbed-%g", pert);
  c.name = fmt("lattice:n=%d:box=%s:pert=%g", n, B.name, pert);
  c.margin = 0.5 * pert * std::min(B.sides.x(), std::min(B.sides.y(), B.sides.z())) / n;
  finish_case(c);
  return c;
}

/// lattice with different point counts per axis (cell centred), pert in units of the smallest spacing
static Case lattice3_case(int nx, int ny, int nz, const BoxShape &B, double pert, long seed) {
  Case c;
  c.anchor = B.anchor;
  c.sides = B.sides;
  const int nmax = std::max(nx, std::max(ny, nz));
  long q = 0;
  for (int i = 0; i < nx; ++i)
    for (int j = 0; j < ny; ++j)
      for (int k = 0; k < nz; ++k, ++q) {
        V3 p((i + 0.5) / nx, (j + 0.5) / ny, (k + 0.5) / nz);
        if (pert > 0.) {
          const V3 d = pattern(q, seed);
          p += V3(pert * d.x() / nmax, pert * d.y() / nmax, pert * d.z() / nmax);
        }
        c.gen.push_back(V3(B.anchor.x() + p.x() * B.sides.x(), B.anchor.y() + p.y() * B.sides.y(),
                           B.anchor.z() + p.z() * B.sides.z()));
      }
  c.degenerate = (pert == 0.);
  c.family = pert == 0. ? "lattice-nxnynz-exact" : fmt("lattice-nxnynz-perturbed-%g", pert);
  c.name = fmt("lattice3:n=%dx%dx%d:box=%s:pert=%g", nx, ny, nz, B.name, pert);
  c.margin = 0.5 * pert * std::min(B.sides.x(), std::min(B.sides.y(), B.sides.z())) / nmax;
  c.local_tol = false;
  finish_case(c);
  return c;
}

/// points at 2^-k from a corner of the box (geometric cluster) plus a few far points
static Case cluster_case(int kmax, const BoxShape &B, int corner, long seed) {
  Case c;
  c.anchor = B.anchor;
  c.sides = B.sides;
  for (int k = 1; k <= kmax; ++k) {
    // direction pattern: irrational, strictly inside the positive octant
    const V3 d = pattern(k, seed);
    V3 u(0.6 + 0.7 * (d.x() + 0.5), 0.6 + 0.7 * (d.y() + 0.5), 0.6 + 0.7 * (d.z() + 0.5));
    const double s = std::ldexp(1., -k) * 0.7;
    V3 f(s * u.x(), s * u.y(), s * u.z()); // fractional position in (0,1)
    if (corner & 1)
      f[0] = 1. - f[0];
    if (corner & 2)
      f[1] = 1. - f[1];
    if (corner & 4)
      f[2] = 1. - f[2];
    c.gen.push_back(V3(B.anchor.x() + f.x() * B.sides.x(), B.anchor.y() + f.y() * B.sides.y(),
                       B.anchor.z() + f.z() * B.sides.z()));
  }
  c.family = fmt("cluster-2^-k(k<=%d)", kmax);
  c.name = fmt("cluster:kmax=%d:box=%s:corner=%d", kmax, B.name, corner);
  c.margin = -1.; // generic: smallest feature = half the smallest generator distance
  finish_case(c);
  return c;
}

/// generators 1e-9 (relative) from walls, edges and corners, plus interior points
static Case wall_case(int variant, const BoxShape &B, long seed) {
  Case c;
  c.anchor = B.anchor;
  c.sides = B.sides;
  const double e = 1.e-9;
  std::vector< V3 > f;
  if (variant == 0) {
    // one point next to every wall
    f = {V3(e, 0.4, 0.6), V3(1. - e, 0.55, 0.35), V3(0.3, e, 0.45), V3(0.65, 1. - e, 0.7), V3(0.45, 0.3, e),
         V3(0.6, 0.7, 1. - e), V3(0.5, 0.52, 0.48)};
  } else if (variant == 1) {
    // next to edges and corners
    f = {V3(e, e, 0.5), V3(1. - e, 0.5, 1. - e), V3(0.5, e, 1. - e), V3(e, e, e), V3(1. - e, 1. - e, 1. - e),
         V3(e, 1. - e, e), V3(0.4, 0.6, 0.5), V3(0.7, 0.3, 0.2)};
  } else if (variant == 2) {
    // a 3x3 sheet of points all 1e-9 from the same wall + interior points
    for (int i = 0; i < 3; ++i)
      for (int j = 0; j < 3; ++j) {
        const V3 d = pattern(3 * i + j, seed);
        f.push_back(V3(e, 0.2 + 0.3 * i + 0.01 * d.y(), 0.2 + 0.3 * j + 0.01 * d.z()));
      }
    f.push_back(V3(0.5, 0.5, 0.5));
    f.push_back(V3(0.8, 0.3, 0.6));
  } else {
    // lattice 3^3 whose outer layers sit 1e-9 from the walls
    const double t[3] = {e, 0.5, 1. - e};
    long q = 0;
    for (int i = 0; i < 3; ++i)
      for (int j = 0; j < 3; ++j)
        for (int k = 0; k < 3; ++k, ++q) {
          const V3 d = pattern(q, seed);
          f.push_back(V3(t[i] + (i == 1 ? 1.e-3 * d.x() : 0.), t[j] + (j == 1 ? 1.e-3 * d.y() : 0.),
                         t[k] + (k == 1 ? 1.e-3 * d.z() : 0.)));
        }
  }
  for (const V3 &p : f)
    c.gen.push_back(V3(B.anchor.x() + p.x() * B.sides.x(), B.anchor.y() + p.y() * B.sides.y(),
                       B.anchor.z() + p.z() * B.sides.z()));
  c.family = fmt("near-wall-1e-9-v%d", variant);
  c.name = fmt("wall:v=%d:box=%s", variant, B.name);
  // variant 3 is degenerate in its outer layers (exact planes of points)
  c.degenerate = (variant == 3);
  // distances of 1e-9 are far below the absolute tolerance of the old construction
  c.margin = e * std::min(B.sides.x(), std::min(B.sides.y(), B.sides.z()));
  finish_case(c);
  return c;
}

/// exactly cospherical shells (integer directions of equal length, power-of-two scale)
static Case shell_case(int shell, bool centre, double pert, const BoxShape &B, long seed) {
  Case c;
  c.anchor = B.anchor;
  c.sides = B.sides;
  std::vector< V3 > dirs;
  auto add_perms = [&](int a, int b, int cc) {
    int v[3] = {a, b, cc};
    std::sort(v, v + 3);
    do {
      for (int s = 0; s < 8; ++s) {
        V3 d((s & 1) ? -v[0] : v[0], (s & 2) ? -v[1] : v[1], (s & 4) ? -v[2] : v[2]);
        bool dup = false;
        for (const V3 &o : dirs)
          if (o == d)
            dup = true;
        if (!dup)
          dirs.push_back(d);
      }
    } while (std::next_permutation(v, v + 3));
  };
  double scale = 0.25;
  switch (shell) {
  case 0:
    add_perms(0, 0, 1); // octahedron, 6
    break;
  case 1:
    add_perms(1, 1, 1); // cube, 8
    break;
  case 2:
    add_perms(0, 1, 1); // cuboctahedron, 12
    break;
  case 3:
    add_perms(0, 1, 2); // 24 points, r^2 = 5
    scale = 0.125;
    break;
  default:
    add_perms(0, 0, 3); // 6 + 24 = 30 points, r^2 = 9
    add_perms(1, 2, 2);
    scale = 0.125;
    break;
  }
  long q = 0;
  if (centre)
    c.gen.push_back(V3(0.5, 0.5, 0.5));
  for (const V3 &d : dirs) {
    V3 f(0.5 + scale * d.x(), 0.5 + scale * d.y(), 0.5 + scale * d.z());
    if (pert > 0.)
      f += pert * pattern(q, seed);
    ++q;
    c.gen.push_back(f);
  }
  for (V3 &p : c.gen)
    p = V3(B.anchor.x() + p.x() * B.sides.x(), B.anchor.y() + p.y() * B.sides.y(),
           B.anchor.z() + p.z() * B.sides.z());
  c.degenerate = (pert == 0.);
  c.family = pert == 0. ? "cospherical-exact" : (pert >= 1.e-3 ? "cospherical-perturbed" : fmt("cospherical-near-degenerate-%g", pert));
  c.name = fmt("shell:s=%d:centre=%d:pert=%g:box=%s", shell, (int)centre, pert, B.name);
  c.margin = 0.5 * pert * std::min(B.sides.x(), std::min(B.sides.y(), B.sides.z()));
  finish_case(c);
  return c;
}

static std::vector< Case > family_cases(bool thorough, long seed) {
  std::vector< Case > L;
  const int nmax = thorough ? 12 : 6;
  const int nbox = 4;
  for (int n = 2; n <= nmax; ++n)
    for (int b = 0; b < nbox; ++b) {
      if (n > 8 && b == 3)
        continue; // the shifted cube repeats the unit cube; kept for the small sizes
      L.push_back(lattice_case(n, BOXES[b], 0., seed));
      L.push_back(lattice_case(n, BOXES[b], 1.e-3, seed));
      if (n <= 8 || b == 0)
        L.push_back(lattice_case(n, BOXES[b], 0.3, seed));
    }
  // lattices with a different number of points per axis, including a single layer (exactly coplanar
  // generators) and a single row (exactly collinear generators)
  {
    static const int dims_q[][3] = {{1, 2, 3}, {2, 3, 4}, {3, 2, 5}, {4, 5, 3}, {1, 1, 2}, {1, 3, 1}, {5, 1, 4}};
    static const int dims_t[][3] = {{1, 2, 3}, {2, 3, 4}, {3, 2, 5}, {4, 5, 3}, {1, 1, 2}, {1, 3, 1},  {5, 1, 4},
                                    {2, 1, 1}, {1, 1, 7}, {6, 1, 1}, {2, 9, 4}, {5, 7, 3}, {7, 4, 10}, {3, 11, 6}};
    const int nd = thorough ? 14 : 7;
    for (int k = 0; k < nd; ++k) {
      const int *dd = thorough ? dims_t[k] : dims_q[k];
      for (int b = 0; b < nbox; ++b) {
        if (!thorough && b != k % 4 && b != (k + 1) % 4)
          continue;
        L.push_back(lattice3_case(dd[0], dd[1], dd[2], BOXES[b], 0., seed));
        L.push_back(lattice3_case(dd[0], dd[1], dd[2], BOXES[b], 1.e-3, seed));
        L.push_back(lattice3_case(dd[0], dd[1], dd[2], BOXES[b], 0.3, seed));
      }
    }
  }
  for (int b = 0; b < nbox; ++b)
    for (int corner = 0; corner < 8; ++corner) {
      if (!thorough && corner != 0 && corner != 7 && corner != 2)
        continue;
      L.push_back(cluster_case(4, BOXES[b], corner, seed));
      L.push_back(cluster_case(7, BOXES[b], corner, seed));
      L.push_back(cluster_case(10, BOXES[b], corner, seed));
      L.push_back(cluster_case(20, BOXES[b], corner, seed));
      if (thorough)
        L.push_back(cluster_case(30, BOXES[b], corner, seed));
    }
  for (int b = 0; b < nbox; ++b)
    for (int v = 0; v < 4; ++v)
      L.push_back(wall_case(v, BOXES[b], seed));
  for (int b = 0; b < nbox; ++b)
    for (int s = 0; s < 5; ++s)
      for (int centre = 0; centre < 2; ++centre) {
        L.push_back(shell_case(s, centre, 0., BOXES[b], seed));
        L.push_back(shell_case(s, centre, 1.e-3, BOXES[b], seed));

      }
  return L;
}

/// cospherical shells perturbed by amplitudes from far above to just above round-off
static std::vector< Case > near_degenerate_shells(bool thorough, long seed) {
  std::vector< Case > L;
  for (int b = 0; b < 4; ++b)
    for (int s = 0; s < 5; ++s)
      for (int centre = 0; centre < 2; ++centre)
        for (double amp : {1.e-6, 1.e-9, 1.e-12, 1.e-14}) {
          if (!thorough && b != 0 && amp != 1.e-9)
            continue;
          L.push_back(shell_case(s, centre, amp, BOXES[b], seed));
        }
  return L;
}


// ---- (iv): generic sets up to 2000 generators (named deterministic families) -------------------
// The members are fixed finite point sets: member m of family F with n generators in box B is generated
// by splitmix64 started from fnv1a("F:n:B:m"); VERIF_SEED does not enter (it only rotates the order in
// which the cases are run). Nothing is sampled at run time: the list below is the alphabet.
struct Rng {
  uint64_t s;
  explicit Rng(const std::string &name) : s(fnv1a(name)) {}
  uint64_t next() {
    uint64_t z = (s += 0x9E3779B97F4A7C15ull);
    z = (z ^ (z >> 30)) * 0xBF58476D1CE4E5B9ull;
    z = (z ^ (z >> 27)) * 0x94D049BB133111EBull;
    return z ^ (z >> 31);
  }
  /// uniform in (0,1), never 0 or 1
  double u() { return ((next() >> 11) + 0.5) * (1. / 9007199254740992.); }
};

static V3 to_box(const BoxShape &B, const V3 &f) {
  return V3(B.anchor.x() + f.x() * B.sides.x(), B.anchor.y() + f.y() * B.sides.y(),
            B.anchor.z() + f.z() * B.sides.z());
}

static Case generic_shell(const char *family, const std::string &name, const BoxShape &B) {
  Case c;
  c.anchor = B.anchor;
  c.sides = B.sides;
  c.family = family;
  c.name = name;
  c.margin = -1.; // generic: smallest feature = half the smallest generator distance
  c.monitor = true;
  c.local_tol = true;
  return c;
}

/// n independent uniform points
static Case uniform_case(int n, const BoxShape &B, int member) {
  Case c = generic_shell("uniform-random", fmt("uniform:n=%d:box=%s:m=%d", n, B.name, member), B);
  Rng R(c.name);
  for (int i = 0; i < n; ++i) {
    const double x = R.u(), y = R.u(), z = R.u();
    c.gen.push_back(to_box(B, V3(x, y, z)));
  }
  finish_case(c);
  return c;
}

/// strongly clustered: three power-law clusters (radius 0.3 u^2.5: a quarter of the members within 0.01 of
/// the centre) on a 10 % uniform background; fractional separations below `sep` are rejected (sep 1e-3 keeps
/// the unit-box members inside the domain of the old construction, density contrast ~1e6)
static Case clustered_case(int n, const BoxShape &B, int member, double sep) {
  Case c = generic_shell("clustered-power-law", fmt("clustered:n=%d:box=%s:sep=%g:m=%d", n, B.name, sep, member), B);
  Rng R(c.name);
  V3 centre[3];
  for (int k = 0; k < 3; ++k)
    centre[k] = V3(0.2 + 0.6 * R.u(), 0.2 + 0.6 * R.u(), 0.2 + 0.6 * R.u());
  std::vector< V3 > f;
  while ((int)f.size() < n) {
    V3 p;
    if (R.u() < 0.1) {
      p = V3(R.u(), R.u(), R.u());
    } else {
      const int k = (int)(3. * R.u());
      V3 d;
      double d2;
      do {
        d = V3(2. * R.u() - 1., 2. * R.u() - 1., 2. * R.u() - 1.);
        d2 = d.norm2();
      } while (d2 > 1. || d2 < 1.e-4);
      const double r = 0.3 * std::pow(R.u(), 2.5);
      p = centre[k % 3] + (r / std::sqrt(d2)) * d;
    }
    if (!(p.x() > 1.e-6 && p.x() < 1. - 1.e-6 && p.y() > 1.e-6 && p.y() < 1. - 1.e-6 && p.z() > 1.e-6 &&
          p.z() < 1. - 1.e-6))
      continue;
    bool close = false;
    for (const V3 &q : f)
      if ((p - q).norm2() < sep * sep) {
        close = true;
        break;
      }
    if (!close)
      f.push_back(p);
  }
  for (const V3 &p : f)
    c.gen.push_back(to_box(B, p));
  finish_case(c);
  return c;
}

/// uniform points of which every coordinate is, with probability 0.3, moved to within `e` of a wall
static Case nearwall_random_case(int n, const BoxShape &B, int member, double e) {
  Case c = generic_shell("near-wall-random", fmt("nearwall:n=%d:box=%s:e=%g:m=%d", n, B.name, e, member), B);
  Rng R(c.name);
  for (int i = 0; i < n; ++i) {
    double f[3];
    for (int a = 0; a < 3; ++a) {
      f[a] = R.u();
      const double sel = R.u(), w = e * R.u();
      if (sel < 0.15)
        f[a] = w;
      else if (sel < 0.3)
        f[a] = 1. - w;
    }
    c.gen.push_back(to_box(B, V3(f[0], f[1], f[2])));
  }
  finish_case(c);
  return c;
}

/// nearly coplanar: 95 % of the points within amp/2 of the tilted plane z = 0.37 + 0.21 (x-0.5) + 0.13 (y-0.5),
/// the rest uniform. The sheet cells are long columns (spikes) normal to the sheet.
static Case sheet_case(int n, const BoxShape &B, int member, double amp) {
  Case c = generic_shell("nearly-coplanar-sheet", fmt("sheet:n=%d:box=%s:amp=%g:m=%d", n, B.name, amp, member), B);
  Rng R(c.name);
  for (int i = 0; i < n; ++i) {
    const double x = R.u(), y = R.u(), t = R.u(), sel = R.u();
    double z = 0.37 + 0.21 * (x - 0.5) + 0.13 * (y - 0.5) + amp * (t - 0.5);
    if (sel < 0.05)
      z = t;
    c.gen.push_back(to_box(B, V3(x, y, z)));
  }
  finish_case(c);
  return c;
}

static const int GENERIC_SMALL_N[] = {
    // counts 0/1 of "other generators" do not exist (>= 2 generators); 2, 3 and >= 3; both sides of every
    // block-count threshold of PointLocations (ncell = round(cbrt(n / per_cell)), integer division; per_cell
    // = 1 for the new construction: n = 3|4 (1->2 blocks), 15|16 (2->3), 42|43 (3->4); per_cell = 10 for the
    // old one: n = 9|10|11, 19|20, 39|40 (1->2), 159|160 (2->3)); both sides of the job size 100 of the
    // construction job markets (99|100|101, 199|200|201)
    2, 3, 4, 5, 9, 10, 11, 15, 16, 19, 20, 39, 40, 42, 43, 99, 100, 101, 159, 160, 199, 200, 201};

static std::vector< Case > generic_cases(bool thorough) {
  std::vector< Case > L;
  // large members first (they dominate the run time)
  const int nbig = thorough ? 12 : 2;
  for (int m = 0; m < nbig; ++m)
    for (int b = 0; b < 4; ++b) {
      if (!thorough && b != (m % 2 ? 1 : 0))
        continue; // quick: member 0 in the unit cube, member 1 in the 1x2x4 box
      if (thorough && m >= 4 && b != 0)
        continue; // thorough: 4 members in every box, 12 in the unit cube
      L.push_back(uniform_case(2000, BOXES[b], m));
    }
  // (the incremental construction needs ~12 s for a clustered set of 2000 and 5 s for one of 1000, and the
  // monitor as much again: thorough tier only; the quick tier has clustered sets of 500)
  if (thorough)
    for (int b = 0; b < 4; ++b)
      for (int m = 0; m < 2; ++m) {
        L.push_back(clustered_case(2000, BOXES[b], m, 1.e-3));
        L.push_back(nearwall_random_case(2000, BOXES[b], m, 1.e-3));
        if (m == 0) {
          L.push_back(clustered_case(2000, BOXES[b], m, 1.e-5));
          // (a sheet of 2000 costs the incremental construction minutes: 1000 is the largest sheet)
          L.push_back(sheet_case(1000, BOXES[b], m, 1.e-3));
        }
      }
  else
    L.push_back(clustered_case(500, BOXES[0], 0, 1.e-3));
  {
    const int mid[] = {500, 1000, 1500};
    for (int k = 0; k < 3; ++k)
      for (int b = 0; b < 4; ++b) {
        if (!thorough && (b != (k + 1) % 4 || k == 2))
          continue; // quick: 500 in the 1x2x4 box, 1000 in the 1x1x100 box
        for (int m = 0; m < (thorough ? 2 : 1); ++m) {
          L.push_back(uniform_case(mid[k], BOXES[b], m));
          if (thorough || k == 0) {
            L.push_back(clustered_case(mid[k], BOXES[b], m, 1.e-3));
            L.push_back(nearwall_random_case(mid[k], BOXES[b], m, 1.e-3));
            // (a sheet of 500 costs the incremental construction as much as a uniform set of 2000)
            if (k == 0 && (m == 0 || !thorough))
              L.push_back(sheet_case(thorough ? 500 : 300, BOXES[b], m, 1.e-3));
          }
          if (thorough && m == 0) {
            L.push_back(nearwall_random_case(mid[k], BOXES[b], m, 1.e-5));
            if (k == 0)
              L.push_back(sheet_case(500, BOXES[b], m, 1.e-2));
          }
        }
      }
  }
  const int nsmall = (int)(sizeof(GENERIC_SMALL_N) / sizeof(int));
  for (int k = 0; k < nsmall; ++k) {
    const int n = GENERIC_SMALL_N[k];
    for (int b = 0; b < 4; ++b) {
      if (!thorough && b != k % 4 && b != (k + 1) % 4)
        continue; // quick: two of the four boxes per size, rotating
      for (int m = 0; m < (thorough ? 4 : 2); ++m) {
        L.push_back(uniform_case(n, BOXES[b], m));
        if (n >= 5 && (thorough || m == 0)) {
          L.push_back(clustered_case(n, BOXES[b], m, 1.e-3));
          L.push_back(nearwall_random_case(n, BOXES[b], m, 1.e-3));
          L.push_back(sheet_case(n, BOXES[b], m, 1.e-3));
        }
      }
    }
  }
  return L;
}

// ---- (v): spikes: cells with one far vertex against the block shells of the neighbour search --------
// Generator g sits in a block of the point-location grid; k cone neighbours at distance 2 dn whose bisector
// planes meet in an apex at distance R from g in direction d; a back neighbour closes the cone behind g, so
// that the apex is the single far vertex of the cell (all others within ~0.08); a generator h at distance D
// from g in direction d: for D < 2R its bisector plane cuts the apex off, for D > 2R it does not touch the
// cell. Fillers (fixed pseudo-random) stay farther than 2R from g. Both constructions have to continue their
// neighbour search over the block shells exactly as long as the covered radius is below twice the apex
// distance. Enumerated: R, D/R on both sides of 2, direction (axes, face and body diagonals, a generic one),
// position of g inside its block, number of cone neighbours (3, 4), every order of the special generators
// in the index list (the order of insertion inside a block, i.e. which vertex is the oldest), specials
// before/after the fillers, total number of generators (block counts 3^3 / 5^3 old, 6^3 / 11^3 new).
struct SpikeParam {
  int ntot, k, dir, off, perm, first, box;
  double R, DoverR;
};
static const double SPIKE_DIRS[][3] = {
    {1, 0, 0},  {-1, 0, 0}, {0, 1, 0},   {0, -1, 0}, {0, 0, 1},  {0, 0, -1},  {1, 1, 0},   {1, -1, 0},
    {-1, 0, 1}, {0, 1, 1},  {0, -1, -1}, {1, 0, -1}, {1, 1, 1},  {-1, 1, 1},  {1, -1, -1}, {-1, -1, 1},
    {0.8, 0.31, -0.52}, {-0.23, 0.41, 0.88}};
static const int SPIKE_NDIR = 18;
static const double SPIKE_OFF[][3] = {{0., 0., 0.}, {0.3, 0., 0.}, {-0.25, 0.3, 0.2}}; // in units of the old block
static const double SPIKE_R[] = {0.10, 0.14, 0.19, 0.26};
static const double SPIKE_DR[] = {0.9, 1.3, 1.7, 1.95, 2.1};

/// the special generators of a spike member in fractional coordinates: g, cone, back neighbour (in the order
/// of the index list) and h last; `g_out` = position of g
static std::vector< V3 > spike_head(const SpikeParam &S, V3 &g_out) {
  const int nb = (int)std::round(std::cbrt((double)(S.ntot / 10))); // blocks per axis of the old construction
  const double b = 1. / nb;
  V3 d(SPIKE_DIRS[S.dir][0], SPIKE_DIRS[S.dir][1], SPIKE_DIRS[S.dir][2]);
  d = d / d.norm();
  // g: centre of the middle block (for an even block count: the one that leaves room in direction d) + offset
  V3 g;
  for (int a = 0; a < 3; ++a) {
    const int idx = d[a] >= 0. ? (nb - 1) / 2 : nb / 2;
    g[a] = (idx + 0.5 + SPIKE_OFF[S.off][a]) * b;
  }
  // orthonormal frame (d, e1, e2)
  const V3 t = std::fabs(d.x()) < 0.7 ? V3(1., 0., 0.) : V3(0., 1., 0.);
  V3 e1 = V3::cross_product(d, t);
  e1 = e1 / e1.norm();
  const V3 e2 = V3::cross_product(d, e1);
  const double dn = 0.03; // distance of the cone planes from g
  const double nx = dn / S.R, np = std::sqrt(1. - nx * nx);
  std::vector< V3 > special; // cone neighbours, back neighbour
  for (int q = 0; q < S.k; ++q) {
    const double phi = 2. * M_PI * q / S.k + 0.3;
    const V3 nrm = nx * d + (np * std::cos(phi)) * e1 + (np * std::sin(phi)) * e2;
    special.push_back(g + (2. * dn) * nrm);
  }
  special.push_back(g - 0.068 * d);
  // order of the specials in the index list: permutation number S.perm of (cone.., back)
  std::vector< int > order(special.size());
  for (size_t i = 0; i < order.size(); ++i)
    order[i] = (int)i;
  for (int q = 0; q < S.perm; ++q)
    std::next_permutation(order.begin(), order.end());
  std::vector< V3 > head;
  if (S.first & 1)
    head.push_back(g);
  for (int i : order)
    head.push_back(special[i]);
  if (!(S.first & 1))
    head.push_back(g);
  head.push_back(g + (S.DoverR * S.R) * d);
  g_out = g;
  return head;
}

/// the member exists iff g, the cone, the back neighbour and h lie strictly inside the box
static bool spike_exists(const SpikeParam &S) {
  V3 g;
  for (const V3 &p : spike_head(S, g))
    if (!(p.x() > 1.e-3 && p.x() < 1. - 1.e-3 && p.y() > 1.e-3 && p.y() < 1. - 1.e-3 && p.z() > 1.e-3 &&
          p.z() < 1. - 1.e-3))
      return false;
  return true;
}

static Case spike_case(const SpikeParam &S) {
  const BoxShape &B = BOXES[S.box];
  Case c = generic_shell("spike", fmt("spike:n=%d:k=%d:dir=%d:off=%d:R=%g:D/R=%g:perm=%d:first=%d:box=%s", S.ntot,
                                      S.k, S.dir, S.off, S.R, S.DoverR, S.perm, S.first, B.name), B);
  V3 g;
  const std::vector< V3 > head = spike_head(S, g);
  const V3 h = head.back();
  // fillers outside the sphere of radius 2.05 R around g (and not closer than 0.02 to h)
  Rng Rn(fmt("spike-fill:%d:%d:%d:%g", S.ntot, S.dir, S.off, S.R));
  std::vector< V3 > fill;
  while (head.size() + fill.size() < (size_t)S.ntot) {
    const V3 p(0.001 + 0.998 * Rn.u(), 0.001 + 0.998 * Rn.u(), 0.001 + 0.998 * Rn.u());
    if ((p - g).norm() < 2.05 * S.R || (p - h).norm() < 0.02)
      continue;
    fill.push_back(p);
  }
  std::vector< V3 > all;
  if (S.first & 2) {
    all = fill;
    all.insert(all.end(), head.begin(), head.end());
  } else {
    all = head;
    all.insert(all.end(), fill.begin(), fill.end());
  }
  for (const V3 &p : all)
    c.gen.push_back(to_box(B, p));
  // the monitor costs as much as the constructions: every second member
  c.monitor = ((S.perm + S.first + S.dir + S.off) % 2 == 0);
  finish_case(c);
  return c;
}

static int factorial(int n) { return n <= 1 ? 1 : n * factorial(n - 1); }

/// Quick: 60 generators (2^3 blocks old, 4^3 new), 6 directions; all 24 orders of the special generators for
/// the first direction / centred g / 3 cone neighbours / R = 0.14, 0.26, elsewhere (3 or 4 cone neighbours in
/// turn) the identity order (back neighbour last: the apex is the oldest vertex) and the reversed one, D/R rotating plus 1.95 or 2.1 (the two sides of 2) in turn.
/// Thorough: 60 generators: 18 directions x 3 offsets x 4 R x 5 D/R x 3 and 4 cone neighbours x 4 orders (the
/// two ends and two in between), position of g / of the specials in the index list rotating; for the 6 quick
/// directions, centred g, 3 cone neighbours: all 24 orders x g first / last (+ specials after the fillers for
/// the two end orders). 270 and 1250 generators (3^3 / 5^3 blocks old, 6^3 / 11^3 new), 3 cone neighbours:
/// identity and reversed order, 6 directions x 2 offsets resp. 4 directions, centred g, R = 0.14, 0.26.
static std::vector< SpikeParam > spike_params(bool thorough) {
  std::vector< SpikeParam > L;
  const int dirs_q[] = {0, 3, 4, 7, 13, 16};
  const int ntots[] = {60, 270, 1250};
  static const int bsel[4] = {0, 0, 3, 1}; // unit cube (half of the members), shifted unit cube, 1x2x4
  for (int in = 0; in < (thorough ? 3 : 1); ++in) {
    const int ndir = (in == 0 && thorough) ? SPIKE_NDIR : (in == 2 ? 4 : 6);
    for (int k = 3; k <= 4; ++k)
      for (int idir = 0; idir < ndir; ++idir) {
        const int dir = (in == 0 && thorough) ? idir : dirs_q[idir];
        for (int off = 0; off < 3; ++off)
          for (int ir = 0; ir < 4; ++ir)
            for (int id = 0; id < 5; ++id) {
              const int nperm = factorial(k + 1);
              for (int perm = 0; perm < nperm; ++perm)
                for (int first = 0; first < 4; ++first) {
                  bool keep;
                  const bool ends = (perm == 0 || perm == nperm - 1);
                  if (!thorough) {
                    const bool full_orders = (k == 3 && idir == 0 && off == 0 && first == 1 && ir % 2 == 1);
                    keep = full_orders || (ends && first == (idir + off + ir) % 4 && k == 3 + (idir + off) % 2 &&
                                           (id == (ir + off + idir) % 5 || id == 3 + (ir + off + idir + k) % 2));
                  } else if (in == 0) {
                    // four orders: the two ends and two in between
                    const bool six = ends || perm == 7 || perm == 64 % nperm;
                    const bool quick_dir = (idir == 0 || idir == 3 || idir == 4 || idir == 7 || idir == 13 || idir == 16);
                    if (k == 3 && quick_dir && off == 0)
                      keep = first < 2 || ends; // all 24 orders, g first / last; the ends also after the fillers
                    else
                      keep = six && first == (idir + off + ir + id + perm) % 4;
                  } else if (in == 1) {
                    keep = ends && k == 3 && off < 2 && first == (idir + off + ir + id) % 4;
                  } else {
                    keep = ends && k == 3 && off == 0 && ir % 2 == 1 && first == (idir + ir + id) % 4;
                  }
                  if (!keep)
                    continue;
                  SpikeParam S = {ntots[in], k, dir, off, perm, first, bsel[(idir + 2 * off + ir + id) % 4],
                                  SPIKE_R[ir], SPIKE_DR[id]};
                  if (spike_exists(S))
                    L.push_back(S);
                }
            }
      }
  }
  return L;
}

static std::vector< Case > thread_cases(bool thorough, long seed) {
  std::vector< Case > L;
  const int sizes_q[] = {5, 6, 7};
  const int sizes_t[] = {5, 6, 7, 8, 10, 12};
  const int *sz = thorough ? sizes_t : sizes_q;
  const int ns = thorough ? 6 : 3;
  for (int i = 0; i < ns; ++i)
    for (int b = 0; b < 3; ++b) {
      if (sz[i] > 8 && b == 1)
        continue;
      for (double pert : {0., 1.e-3, 0.3}) {
        Case c = lattice_case(sz[i], BOXES[b], pert, seed);
        c.threads = 4;
        c.name += ":threads=4";
        c.family += "-threads";
        L.push_back(c);
      }
    }
  // generic sets: 101, 201 generators = 2 and 3 jobs of the construction job market (job size 100), of which
  // the last holds a single cell; 1000 / 2000 generators = more jobs than threads
  {
    std::vector< Case > G;
    G.push_back(uniform_case(101, BOXES[1], 0));
    G.push_back(uniform_case(201, BOXES[0], 0));
    G.push_back(uniform_case(1000, BOXES[1], 0));
    if (thorough) {
      G.push_back(uniform_case(2000, BOXES[0], 0));
      G.push_back(clustered_case(2000, BOXES[0], 0, 1.e-3));
      G.push_back(sheet_case(1000, BOXES[3], 0, 1.e-3));
      G.push_back(nearwall_random_case(1000, BOXES[2], 0, 1.e-3));
    }
    for (Case &c : G) {
      c.threads = 4;
      c.monitor = false;
      c.name += ":threads=4";
      c.family += "-threads";
      L.push_back(c);
    }
  }
  return L;
}

// ---------------------------------------------------------------------------
// extracted grid data
// ---------------------------------------------------------------------------
struct FaceD {
  uint32_t ngb;
  double area;
  V3 mid;
  std::vector< V3 > v;
};
struct CellD {
  double vol;
  V3 cen;
  std::vector< FaceD > faces;
};
struct GridD {
  std::vector< CellD > cells;
  std::vector< uint32_t > qidx;
};

static const uint32_t WALL0 = 0xfffffffa; // first wall index of both constructions

static void extract(VoronoiGrid &g, size_t n, const std::vector< V3 > &queries, GridD &D) {
  D.cells.resize(n);
  for (size_t i = 0; i < n; ++i) {
    D.cells[i].vol = g.get_volume(i);
    D.cells[i].cen = g.get_centroid(i);
    const std::vector< VoronoiFace > f = g.get_faces(i);
    D.cells[i].faces.resize(f.size());
    for (size_t k = 0; k < f.size(); ++k) {
      FaceD &F = D.cells[i].faces[k];
      F.ngb = (uint32_t)f[k].get_neighbour();
      F.area = f[k].get_surface_area();
      F.mid = f[k].get_midpoint();
      F.v = f[k].get_vertices();
    }
  }
  D.qidx.resize(queries.size());
  for (size_t q = 0; q < queries.size(); ++q)
    D.qidx[q] = (uint32_t)g.get_index(queries[q]);
}

static void construct(bool is_new, const Case &c, int worksize, const std::vector< V3 > &queries, GridD &D) {
  const Box<> box(c.anchor, c.sides);
  if (is_new) {
    NewVoronoiGrid g(c.gen, box);
    g.compute_grid(worksize);
    extract(g, c.gen.size(), queries, D);
  } else {
    OldVoronoiGrid g(c.gen, box);
    g.compute_grid(worksize);
    extract(g, c.gen.size(), queries, D);
  }
}

// ---------------------------------------------------------------------------
// worker side reporting (append-only text file, one line per record)
// ---------------------------------------------------------------------------
static FILE *g_wf = nullptr;
static long g_task = -1;
static std::map< std::string, double > g_cnt, g_max;

static std::string one_line(std::string s) {
  for (char &ch : s)
    if (ch == '\n' || ch == '\t' || ch == '\r')
      ch = ' ';
  return s;
}
static bool g_verbose_stages = false;
static void w_begin(const char *stage) {
  static auto t_last = std::chrono::steady_clock::now();
  static std::string last;
  if (g_verbose_stages) {
    const auto now = std::chrono::steady_clock::now();
    if (!last.empty())
      printf("  [stage %s: %.2f s]\n", last.c_str(), std::chrono::duration< double >(now - t_last).count());
    t_last = now;
    last = stage;
  }
  fprintf(g_wf, "B\t%ld\t%s\n", g_task, stage);
  fflush(g_wf);
}
static void w_violation(const std::string &key, const std::string &detail) {
  fprintf(g_wf, "V\t%ld\t%s\t%s\n", g_task, one_line(key).c_str(), one_line(detail).c_str());
  fflush(g_wf);
}
static void w_count(const std::string &k, double v = 1.) { g_cnt[k] += v; }
static void w_max(const std::string &k, double v) {
  auto it = g_max.find(k);
  if (it == g_max.end() || v > it->second)
    g_max[k] = v;
}
static std::chrono::steady_clock::time_point g_case_t0;
static void w_end(long evals, long nontrivial) {
  for (auto &kv : g_cnt)
    fprintf(g_wf, "C\t%s\t%.17g\n", kv.first.c_str(), kv.second);
  for (auto &kv : g_max)
    fprintf(g_wf, "M\t%s\t%.17g\t%ld\n", kv.first.c_str(), kv.second, g_task);
  g_cnt.clear();
  g_max.clear();
  fprintf(g_wf, "E\t%ld\t%ld\t%ld\t%.3f\n", g_task, evals, nontrivial,
          std::chrono::duration< double >(std::chrono::steady_clock::now() - g_case_t0).count());
  fflush(g_wf);
}

// ---------------------------------------------------------------------------
// the oracle
// ---------------------------------------------------------------------------
static std::string v3s(const V3 &p) { return fmt("(%.17g,%.17g,%.17g)", p.x(), p.y(), p.z()); }

struct Tol {
  double L;       // largest box side
  double delta;   // absolute accuracy granted to a computed vertex position
  double Amin;    // faces below this area are ignored: 1e-12 L^2
  double rel_sum; // relative tolerance of the volume sum and of the wall area sums
  double extra;   // part of delta beyond the baseline 1e-10 L (conditioning / old tolerance)
  // per-cell version of `extra` (cases with local_tol): 16 eps L^2 / s_i [+ 4 eps_old / s_i], s_i = smallest
  // distance of generator i to another generator or to its own wall mirror image
  std::vector< double > extra_cell;
};

/// Tolerances, derived once per case and construction:
///  baseline        delta0 = 1e-10 L                    (k = 4.5e5 eps; DESIGN.md value)
///  conditioning    d_fp   = 16 eps L^2 / s_min          circumcentres / plane intersections of points
///                  s_min apart (generators and their wall mirror images) lose a factor L / s_min
///  old tolerance   d_old  = 4 eps_old / s_gen,          eps_old = OLDVORONOI_TOLERANCE |sides|^2: the old
///                  construction snaps a vertex within eps_old / |p| (|p| = half a generator distance) of a
///                  cutting plane onto it
///  delta = max(delta0, d_fp [, d_old]);  rel_sum = max(1e-10, 12 (d_fp [+ d_old]) / L)
static Tol make_tol(const Case &c, bool is_old) {
  Tol T;
  T.L = std::max(c.sides.x(), std::max(c.sides.y(), c.sides.z()));
  double s_gen = DBL_MAX, s_wall = DBL_MAX;
  const size_t n = c.gen.size();
  for (size_t i = 0; i < n; ++i) {
    for (size_t j = i + 1; j < n; ++j)
      s_gen = std::min(s_gen, (c.gen[i] - c.gen[j]).norm());
    for (int a = 0; a < 3; ++a) {
      s_wall = std::min(s_wall, 2. * (c.gen[i][a] - c.anchor[a]));
      s_wall = std::min(s_wall, 2. * (c.anchor[a] + c.sides[a] - c.gen[i][a]));
    }
  }
  if (c.local_tol) {
    T.extra_cell.assign(n, 0.);
    for (size_t i = 0; i < n; ++i) {
      double si = DBL_MAX;
      for (size_t j = 0; j < n; ++j)
        if (j != i)
          si = std::min(si, (c.gen[i] - c.gen[j]).norm2());
      si = std::sqrt(si);
      for (int a = 0; a < 3; ++a) {
        si = std::min(si, 2. * (c.gen[i][a] - c.anchor[a]));
        si = std::min(si, 2. * (c.anchor[a] + c.sides[a] - c.gen[i][a]));
      }
      T.extra_cell[i] = 16. * DBL_EPSILON * T.L * T.L / si + (is_old ? 4. * OLD_TOL_SPEC * c.sides.norm2() / si : 0.);
    }
  }
  const double s_min = std::min(s_gen, s_wall);
  const double d_fp = 16. * DBL_EPSILON * T.L * T.L / s_min;
  const double d_old = is_old ? 4. * OLD_TOL_SPEC * c.sides.norm2() / s_gen : 0.;
  T.extra = d_fp + d_old;
  T.delta = std::max(1.e-10 * T.L, T.extra);
  T.Amin = 1.e-12 * T.L * T.L;
  T.rel_sum = std::max(1.e-10, 12. * T.extra / T.L);
  return T;
}

struct FaceGeom {
  V3 N;     // area vector from the ordered vertices (Newell)
  double P; // perimeter
  double D; // diameter (largest vertex distance from the first vertex, x2)
};
static FaceGeom face_geometry(const FaceD &F) {
  FaceGeom G;
  G.N = V3(0.);
  G.P = 0.;
  G.D = 0.;
  const size_t n = F.v.size();
  if (n == 0)
    return G;
  for (size_t k = 0; k < n; ++k) {
    const V3 a = F.v[k] - F.v[0];
    const V3 b = F.v[(k + 1) % n] - F.v[0];
    G.N += 0.5 * V3::cross_product(a, b);
    G.P += (F.v[(k + 1) % n] - F.v[k]).norm();
    G.D = std::max(G.D, 2. * a.norm());
  }
  return G;
}

/// all checks on one constructed grid. `who` = "new" | "old". Returns true if no violation.
typedef std::vector< std::pair< std::string, std::string > > Findings;
static void write_findings(const Findings &F, const std::string &suffix) {
  std::set< std::string > seen;
  for (const auto &f : F)
    if (seen.insert(f.first).second) // first of each class per case
      w_violation(f.first + suffix, f.second);
}

static bool validate(const char *who, const Case &c, const GridD &D, const std::vector< V3 > &queries,
                     const Tol &T, Findings &found) {
  const size_t n = c.gen.size();
  bool ok = true;
  const std::string pre = fmt("C15:%s:", who);
  auto bad = [&](const char *what, const std::string &detail) {
    ok = false;
    found.push_back(std::make_pair(pre + what + ":" + c.family, fmt("case %s: ", c.name.c_str()) + detail));
  };
  const double V = c.sides.x() * c.sides.y() * c.sides.z();
  // tolerance of the sums: every vertex may be off by T.extra, which moves every face
  double surface = 0.;
  for (size_t i = 0; i < n; ++i)
    for (const FaceD &F : D.cells[i].faces)
      if (F.area > 0. && std::isfinite(F.area))
        surface += F.area;
  double rel_sum = std::max(T.rel_sum, T.extra * surface / V);
  std::vector< double > ecell; // local_tol: vertex accuracy of every cell under the conditioning model
  if (c.local_tol) {
    // Localised version of the same error model: a vertex of cell i is the circumcentre / plane intersection
    // of generator i and three of its neighbours (or wall images); its conditioning is set by the smallest
    // separation among the generators involved, i.e. at least min over i and its face neighbours j of s_j.
    // Volume error of cell i <= (surface area of cell i) * (vertex error of cell i). Summation of n volumes
    // and the arithmetic of each volume add 64 eps n. No 1e-10 floor.
    double tol = 0.;
    ecell.assign(n, 0.);
    for (size_t i = 0; i < n; ++i) {
      double e = T.extra_cell[i], A = 0.;
      for (const FaceD &F : D.cells[i].faces) {
        if (F.area > 0. && std::isfinite(F.area))
          A += F.area;
        if (F.ngb < n)
          e = std::max(e, T.extra_cell[F.ngb]);
      }
      ecell[i] = e;
      tol += A * e;
    }
    rel_sum = tol / V + 64. * DBL_EPSILON * n;
    w_max(fmt("%s_local_volume_sum_tolerance_max", who), rel_sum);
    w_max(fmt("%s_local_volume_sum_tolerance_min(negated)", who), -rel_sum);
  }
  // 1. volumes
  double sum = 0.;
  for (size_t i = 0; i < n; ++i) {
    const double v = D.cells[i].vol;
    if (!(v > 0.) || !std::isfinite(v))
      bad("volume-not-positive", fmt("cell %zu of %zu has volume %.17g (generator %s)", i, n, v,
                                     v3s(c.gen[i]).c_str()));
    sum += v;
  }
  {
    const double err = std::fabs(sum - V) / V;
    w_max(fmt("%s_max_rel_volume_sum_error", who), std::isfinite(err) ? err : 1e300);
    w_max(fmt("%s_max_volume_sum_error_over_tol", who), std::isfinite(err) ? err / rel_sum : 1e300);
    if (!(err <= rel_sum))
      bad("volume-sum", fmt("cell volumes sum to %.17g, box volume %.17g (relative error %.3g, %zu cells)",
                            sum, V, err, n));
    else if (err > 0.1 * rel_sum)
      w_count(fmt("%s_volume_sum_within_10x_of_tolerance", who));
  }
  // 2. faces
  std::vector< double > wall_area(6, 0.), wall_tol(6, 0.);
  for (size_t i = 0; i < n; ++i) {
    const CellD &Ci = D.cells[i];
    V3 closed(0.);
    double closed_tol = 0.;
    std::set< size_t > partner_done;
    for (size_t k = 0; k < Ci.faces.size(); ++k) {
      const FaceD &F = Ci.faces[k];
      w_count(fmt("%s_faces", who));
      if (std::isnan(F.area) || F.area < 0.) {
        // NaN appears for faces of exactly zero area (0/0 midpoint); a NaN or negative *area* is wrong
        bad("face-area-invalid", fmt("cell %zu face %zu (neighbour %u) has area %g", i, k, F.ngb, F.area));
        continue;
      }
      if (!(F.area > T.Amin)) {
        if (c.local_tol && F.ngb >= WALL0) // not summed below: its area is part of the allowance
          wall_tol[F.ngb - WALL0] += F.area;
        w_count(fmt("%s_faces_below_area_threshold", who));
        if (F.area > 1.e-3 * T.Amin)
          w_count(fmt("%s_faces_within_1000x_below_area_threshold", who));
        continue;
      }
      if (F.area < 10. * T.Amin)
        w_count(fmt("%s_faces_within_10x_above_area_threshold", who));
      const FaceGeom G = face_geometry(F);
      const double Pd = G.P * T.delta; // area uncertainty of the polygon
      if (std::fabs(G.N.norm() - F.area) > 2. * Pd + 1.e-12 * F.area)
        w_count(fmt("%s_faces_area_differs_from_vertex_polygon(info)", who));
      const V3 nrm = G.N / G.N.norm();
      // tolerance of a face centroid / plane offset derived from the vertex accuracy
      const double tol_mid = 2. * T.delta * (1. + 2. * G.P * G.D / F.area);
      if (F.ngb >= WALL0) {
        // wall face: lies in the wall, normal = outward wall normal
        const int w = (int)(F.ngb - WALL0);
        const int axis = w / 2;
        const double coord = (w % 2) ? c.anchor[axis] + c.sides[axis] : c.anchor[axis];
        wall_area[w] += F.area;
        if (c.local_tol) // area error of a polygon whose vertices are off by e: perimeter * e (factor 2)
          wall_tol[w] += 2. * G.P * ecell[i] + 64. * DBL_EPSILON * F.area;
        V3 wn(0.);
        wn[axis] = (w % 2) ? 1. : -1.;
        closed += F.area * wn;
        closed_tol += Pd;
        if (std::fabs(F.mid[axis] - coord) > tol_mid)
          bad("wall-face-off-wall", fmt("cell %zu wall face %d: midpoint %s is %.3g away from the wall (tol %.3g)",
                                        i, w, v3s(F.mid).c_str(), F.mid[axis] - coord, tol_mid));
        // the plane of the vertex polygon is the wall plane. The winding of the vertex list is not part of
        // the promised interface (users take the normal from get_wall_normal / the generator positions), so
        // the comparison is insensitive to the sign; inward windings are counted
        {
          const double sg = V3::dot_product(nrm, wn) < 0. ? -1. : 1.;
          if (sg < 0.)
            w_count(fmt("%s_faces_with_inward_vertex_winding(info)", who));
          if ((sg * nrm - wn).norm() > 2. * Pd / F.area + 1.e-9)
            bad("wall-face-orientation", fmt("cell %zu wall face %d: plane normal of the vertex polygon %s, wall normal %s",
                                             i, w, v3s(nrm).c_str(), v3s(wn).c_str()));
        }
        // generator on the inner side
        if (V3::dot_product(F.mid - c.gen[i], wn) < -tol_mid)
          bad("generator-outside-cell", fmt("cell %zu: generator %s beyond wall face %d", i,
                                            v3s(c.gen[i]).c_str(), w));
        continue;
      }
      if (F.ngb >= n) {
        bad("neighbour-index", fmt("cell %zu face %zu has neighbour index %u (%zu generators)", i, k, F.ngb, n));
        continue;
      }
      const size_t j = F.ngb;
      w_count(fmt("%s_faces_checked_against_partner", who));
      // generator inside: the face plane separates generator i from generator j, and is the bisector
      const V3 dij = c.gen[j] - c.gen[i];
      const double dist = dij.norm();
      const V3 u = dij / dist;
      const double s = V3::dot_product(F.mid - c.gen[i], u);
      closed += F.area * u;
      closed_tol += Pd;
      if (s < -tol_mid)
        bad("generator-outside-cell",
            fmt("cell %zu: generator %s lies beyond its face with cell %zu (signed distance %.3g)", i,
                v3s(c.gen[i]).c_str(), j, s));
      {
        const double e = std::fabs(s - 0.5 * dist);
        w_max(fmt("%s_max_bisector_offset_over_tol", who), e / tol_mid);
        if (e > tol_mid)
          bad("face-not-on-bisector",
              fmt("cells %zu/%zu: face midpoint %s is %.3g from the bisector plane (tol %.3g, area %.3g)", i, j,
                  v3s(F.mid).c_str(), s - 0.5 * dist, tol_mid, F.area));
        else if (e > 0.1 * tol_mid)
          w_count(fmt("%s_bisector_within_10x_of_tolerance", who));
      }
      // orientation: the face is perpendicular to the line joining the two generators (sign-insensitive,
      // see the wall faces)
      {
        const double sg = V3::dot_product(nrm, u) < 0. ? -1. : 1.;
        if (sg < 0.)
          w_count(fmt("%s_faces_with_inward_vertex_winding(info)", who));
        if ((sg * nrm - u).norm() > 2. * Pd / F.area + 1.e-9)
          bad("face-orientation", fmt("cells %zu/%zu: plane normal of the vertex polygon %s, direction to the "
                                      "neighbour %s (area %.3g)",
                                      i, j, v3s(nrm).c_str(), v3s(u).c_str(), F.area));
      }
      // partner: all faces of cell i with neighbour j taken together (a construction may split the
      // common face) against all faces of cell j with neighbour i
      if (partner_done.count(j))
        continue;
      partner_done.insert(j);
      struct Agg {
        double A = 0., P = 0., D = 0.;
        V3 M = V3(0.), N = V3(0.);
        int count = 0;
      } a, b;
      auto collect = [&](const CellD &cell, size_t ngb, const V3 &dir, Agg &g) {
        for (const FaceD &Ff : cell.faces) {
          if (Ff.ngb != ngb || !(Ff.area > 0.) || std::isnan(Ff.mid.x() + Ff.mid.y() + Ff.mid.z()))
            continue;
          const FaceGeom Gg = face_geometry(Ff);
          g.A += Ff.area;
          g.M += Ff.area * Ff.mid;
          g.N += (V3::dot_product(Gg.N, dir) < 0. ? -1. : 1.) * Gg.N;
          g.P += Gg.P;
          g.D = std::max(g.D, Gg.D);
          ++g.count;
        }
        if (g.A > 0.)
          g.M /= g.A;
      };
      collect(Ci, j, u, a);
      collect(D.cells[j], i, u, b);
      if (a.count > 1)
        w_count(fmt("%s_common_faces_split_in_several_polygons(info)", who));
      if (b.count == 0 && a.A <= 2. * a.D * T.extra) {
        // thinner than the vertex tolerance of this construction (only relevant for the old one,
        // whose plane test snaps vertices): negligible
        w_count(fmt("%s_faces_thinner_than_own_tolerance_without_partner", who));
        continue;
      }
      if (b.count == 0) {
        bad("face-without-partner", fmt("cell %zu has a face of area %.6g (midpoint %s) with cell %zu, which has no "
                                        "face with cell %zu",
                                        i, a.A, v3s(a.M).c_str(), j, i));
        continue;
      }
      const double tolA = 2. * (a.P + b.P) * T.delta + 1.e-12 * a.A;
      {
        const double e = std::fabs(b.A - a.A);
        w_max(fmt("%s_max_partner_area_error_over_tol", who), e / tolA);
        if (e > tolA)
          bad("partner-area", fmt("cells %zu/%zu: face areas %.17g and %.17g differ by %.3g (tol %.3g)", i, j, a.A,
                                  b.A, e, tolA));
        else if (e > 0.1 * tolA)
          w_count(fmt("%s_partner_area_within_10x_of_tolerance", who));
      }
      if (b.A > T.Amin) {
        const double e = (b.M - a.M).norm();
        const double tm = 2. * T.delta * (2. + 2. * a.P * a.D / a.A + 2. * b.P * b.D / b.A);
        w_max(fmt("%s_max_partner_midpoint_error_over_tol", who), e / tm);
        if (e > tm)
          bad("partner-midpoint", fmt("cells %zu/%zu: face midpoints %s and %s differ by %.3g (tol %.3g)", i, j,
                                      v3s(a.M).c_str(), v3s(b.M).c_str(), e, tm));
        else if (e > 0.1 * tm)
          w_count(fmt("%s_partner_midpoint_within_10x_of_tolerance", who));
        // opposite orientation: the outward normals are +-u by the per-polygon check; the area vectors
        // (brought to the same sign) of the two sides span the same plane
        const double en = (a.N - b.N).norm();
        if (en > 2. * (a.P + b.P) * T.delta + 1.e-12 * a.A)
          bad("partner-orientation", fmt("cells %zu/%zu: area vectors %s and %s do not match (|diff| %.3g)", i, j,
                                         v3s(a.N).c_str(), v3s(b.N).c_str(), en));
      }
    }
    if (closed.norm() > 2. * closed_tol + 1.e-12 * T.L * T.L)
      w_count(fmt("%s_cells_whose_area_vectors_do_not_sum_to_zero(info)", who));
  }
  // 2b. every vertex of every face above the area threshold lies inside the box and is not closer to another
  // generator than to its own (brute force over all generators). |v-g_i|^2 - |v-g_j|^2 is linear in v, so a
  // cell that misses the cut by generator j has a vertex strictly beyond the bisector plane of i and j: the
  // test is complete for missed cuts. A vertex position is granted the accuracy T.delta, which moves its
  // signed distance to any bisector plane by at most T.delta: tolerance 2 T.delta (factor 2 as elsewhere).
  {
    const double tolv = 2. * T.delta;
    double worst = 0., worst_out = 0.;
    std::string worst_detail, out_detail;
    long nvert = 0;
    for (size_t i = 0; i < n; ++i) {
      const V3 &gi = c.gen[i];
      for (const FaceD &F : D.cells[i].faces) {
        if (!(F.area > T.Amin))
          continue;
        for (const V3 &v : F.v) {
          ++nvert;
          for (int a = 0; a < 3; ++a) {
            const double out = std::max(c.anchor[a] - v[a], v[a] - (c.anchor[a] + c.sides[a]));
            if (out > worst_out) {
              worst_out = out;
              if (out > tolv)
                out_detail = fmt("cell %zu (generator %s): vertex %s of the face with %u lies %.3g outside the box "
                                 "(tol %.3g)", i, v3s(gi).c_str(), v3s(v).c_str(), F.ngb, out, tolv);
            }
          }
          const double r2 = (v - gi).norm2();
          for (size_t j = 0; j < n; ++j) {
            const double dx = v.x() - c.gen[j].x(), dy = v.y() - c.gen[j].y(), dz = v.z() - c.gen[j].z();
            const double d2 = dx * dx + dy * dy + dz * dz;
            if (d2 < r2 && j != i) {
              const double depth = (r2 - d2) / (2. * (c.gen[j] - gi).norm());
              if (depth > worst) {
                worst = depth;
                if (depth > tolv)
                  worst_detail = fmt("cell %zu (generator %s): vertex %s of the face with %u lies %.3g beyond the "
                                     "bisector plane with generator %zu %s, i.e. inside that cell (tol %.3g, %zu "
                                     "generators)", i, v3s(gi).c_str(), v3s(v).c_str(), F.ngb, depth, j,
                                     v3s(c.gen[j]).c_str(), tolv, n);
              }
            }
          }
        }
      }
    }
    w_count(fmt("%s_vertices_checked_against_all_generators", who), (double)nvert);
    w_max(fmt("%s_max_vertex_beyond_bisector_over_tol", who), worst / tolv);
    w_max(fmt("%s_max_vertex_outside_box_over_tol", who), worst_out / tolv);
    if (worst > tolv)
      bad("vertex-beyond-bisector", worst_detail);
    else if (worst > 0.1 * tolv)
      w_count(fmt("%s_vertex_beyond_bisector_within_10x_of_tolerance", who));
    if (worst_out > tolv)
      bad("vertex-outside-box", out_detail);
  }
  // the walls are covered exactly once
  for (int w = 0; w < 6; ++w) {
    const int axis = w / 2;
    const double A = c.sides[(axis + 1) % 3] * c.sides[(axis + 2) % 3];
    const double err = std::fabs(wall_area[w] - A) / A;
    w_max(fmt("%s_max_rel_wall_area_error", who), err);
    const double lim = c.local_tol ? wall_tol[w] / A : 10. * rel_sum;
    w_max(fmt("%s_max_wall_area_error_over_tol", who), err / lim);
    if (!(err <= lim))
      bad("wall-area-sum", fmt("faces on wall %d sum to %.17g, wall area %.17g", w, wall_area[w], A));
  }
  // 3. get_index = nearest generator
  size_t nq_bad = 0;
  for (size_t q = 0; q < queries.size(); ++q) {
    double dmin = DBL_MAX;
    size_t imin = 0;
    for (size_t i = 0; i < n; ++i) {
      const double d2 = (c.gen[i] - queries[q]).norm2();
      if (d2 < dmin) {
        dmin = d2;
        imin = i;
      }
    }
    const uint32_t r = D.qidx[q];
    w_count(fmt("%s_get_index_queries", who));
    if (r >= n) {
      if (nq_bad++ == 0)
        bad("get-index-range", fmt("get_index(%s) = %u with %zu generators", v3s(queries[q]).c_str(), r, n));
      continue;
    }
    const double dr = (c.gen[r] - queries[q]).norm();
    const double lim = std::sqrt(dmin) * (1. + 1.e-12) + 8. * DBL_EPSILON * T.L;
    if (dr > lim) {
      if (nq_bad++ == 0)
        bad("get-index-not-nearest", fmt("get_index(%s) = %u at distance %.17g, generator %zu is at %.17g",
                                         v3s(queries[q]).c_str(), r, dr, imin, std::sqrt(dmin)));
    } else if (r != imin)
      w_count(fmt("%s_get_index_ties", who));
  }
  return ok;
}

/// old against new (both valid)
static void compare(const Case &c, const GridD &N, const GridD &O, const Tol &T, const std::string &keyprefix) {
  const size_t n = c.gen.size();
  const double V = c.sides.x() * c.sides.y() * c.sides.z();
  auto bad = [&](const char *what, const std::string &detail) {
    w_violation(keyprefix + what + ":" + c.family, fmt("case %s: ", c.name.c_str()) + detail);
  };
  // area threshold for the neighbour relation: the old construction treats a vertex within
  // eps_old/|p| of a cutting plane as lying on it (eps_old = 2e-10 |sides|^2, |p| = half the generator
  // distance), so a face narrower than that may be missing: area <= diagonal * 2 eps_old / s_min
  double smin = DBL_MAX;
  for (size_t i = 0; i < n; ++i)
    for (size_t j = i + 1; j < n; ++j)
      smin = std::min(smin, (c.gen[i] - c.gen[j]).norm());
  const double eps_old = OLD_TOL_SPEC * c.sides.norm2();
  const double Acmp = std::max(T.Amin, 2. * c.sides.norm() * eps_old / smin);
  w_max("old_vs_new_neighbour_area_threshold_over_L2", Acmp / (T.L * T.L));
  bool vbad = false, cbad = false, nbad = false;
  for (size_t i = 0; i < n; ++i) {
    // surface area and extent of the cell (from the new construction) scale the allowance
    double Ai = 0., Di = 0.;
    for (const FaceD &F : N.cells[i].faces)
      if (F.area > T.Amin) {
        Ai += F.area;
        Di = std::max(Di, 2. * (F.mid - c.gen[i]).norm());
      }
    const double tolv = 1.e-10 * V + Ai * T.extra;
    const double ev = std::fabs(N.cells[i].vol - O.cells[i].vol);
    w_max("old_vs_new_max_volume_diff_over_tol", ev / tolv);
    w_max("old_vs_new_max_volume_diff_over_box_volume", ev / V);
    if (!(ev <= tolv)) {
      if (!vbad)
        bad("volume", fmt("cell %zu: new volume %.17g, old volume %.17g (difference %.3g, tol %.3g)", i,
                          N.cells[i].vol, O.cells[i].vol, ev, tolv));
      vbad = true;
    } else if (ev > 0.1 * tolv)
      w_count("old_vs_new_volume_within_10x_of_tolerance");
    const double tolc = 1.e-9 * T.L + T.extra * Ai * Di / N.cells[i].vol;
    const double ec = (N.cells[i].cen - O.cells[i].cen).norm();
    w_max("old_vs_new_max_centroid_diff_over_tol", ec / tolc);
    w_max("old_vs_new_max_centroid_diff_over_L", ec / T.L);
    if (!(ec <= tolc)) {
      if (!cbad)
        bad("centroid", fmt("cell %zu: new centroid %s, old centroid %s (distance %.3g, tol %.3g)", i,
                            v3s(N.cells[i].cen).c_str(), v3s(O.cells[i].cen).c_str(), ec, tolc));
      cbad = true;
    } else if (ec > 0.1 * tolc)
      w_count("old_vs_new_centroid_within_10x_of_tolerance");
    for (int dir = 0; dir < 2; ++dir) {
      const CellD &A = dir ? O.cells[i] : N.cells[i];
      const CellD &B = dir ? N.cells[i] : O.cells[i];
      for (const FaceD &F : A.faces) {
        if (!(F.area > Acmp))
          continue;
        if (F.area < 10. * Acmp)
          w_count("old_vs_new_faces_within_10x_of_neighbour_threshold");
        bool found = false;
        for (const FaceD &G : B.faces)
          if (G.ngb == F.ngb)
            found = true;
        w_count("old_vs_new_neighbour_relations_compared");
        if (!found && !nbad) {
          bad("neighbours", fmt("cell %zu: the %s construction has a face of area %.6g with %s %u, the %s one has none",
                                i, dir ? "old" : "new", F.area, F.ngb >= WALL0 ? "wall" : "cell", F.ngb,
                                dir ? "new" : "old"));
          nbad = true;
        }
      }
    }
  }
}

// ---------------------------------------------------------------------------
// precondition monitor and diagnosis of a failed new construction (reads private state)
// ---------------------------------------------------------------------------

/// every coordinate handed to the exact predicates must lie in [1,2) (C17 / NewVoronoiGrid.cpp:124-190):
/// rescaled generators, their six wall copies and the four corners of the enclosing tetrahedron
static bool rescaled_outside_range(const Case &c, std::string &what) {
  const NewVoronoiGrid g(c.gen, Box<>(c.anchor, c.sides));
  auto in_range = [](const V3 &p) {
    return p.x() >= 1. && p.x() < 2. && p.y() >= 1. && p.y() < 2. && p.z() >= 1. && p.z() < 2.;
  };
  for (int k = 0; k < 4; ++k) {
    const V3 p = g._real_rescaled_box.get_position(NEWVORONOICELL_BOX_CORNER0 + k, g._real_rescaled_positions[0]);
    if (!in_range(p)) {
      what = fmt("corner %d of the enclosing tetrahedron is rescaled to (%a,%a,%a) = %s", k, p.x(), p.y(), p.z(),
                 v3s(p).c_str());
      return true;
    }
  }
  for (size_t i = 0; i < c.gen.size(); ++i) {
    if (!in_range(g._real_rescaled_positions[i])) {
      what = fmt("generator %zu %s is rescaled to %s", i, v3s(c.gen[i]).c_str(),
                 v3s(g._real_rescaled_positions[i]).c_str());
      return true;
    }
    for (int w = 0; w < 6; ++w) {
      const V3 p = g._real_rescaled_box.get_position(NEWVORONOICELL_BOX_LEFT + w, g._real_rescaled_positions[i]);
      if (!in_range(p)) {
        what = fmt("wall copy %d of generator %zu is rescaled to %s", w, i, v3s(p).c_str());
        return true;
      }
    }
  }
  return false;
}

/// flattest tetrahedron (with the generator as vertex) in the Delaunay structures of all cells: the
/// predicates accept a tetrahedron on the rescaled coordinates, the geometry (circumcentres) is computed
/// from the real coordinates, where it may be flat (0/0) or a sliver (relative error eps / flatness).
/// flatness = 6 |volume| / (longest edge)^3.
static bool flat_real_tetrahedron(const Case &c, std::string &what) {
  if (c.gen.size() > 400)
    return false;
  const NewVoronoiGrid g(c.gen, Box<>(c.anchor, c.sides));
  NewVoronoiCellConstructor C;
  double fmin = DBL_MAX;
  for (size_t i = 0; i < c.gen.size(); ++i) {
    C.setup(i, g._real_generator_positions, g._real_voronoi_box, g._real_rescaled_positions, g._real_rescaled_box,
            true);
    for (size_t j = 0; j < c.gen.size(); ++j)
      if (j != i)
        C.intersect(j, g._real_rescaled_box, g._real_rescaled_positions, g._real_voronoi_box,
                    g._real_generator_positions);
    for (uint_fast32_t t = 0; t < C._tetrahedra_size; ++t) {
      const NewVoronoiTetrahedron &Tt = C._tetrahedra[t];
      if (!Tt.is_active())
        continue;
      bool has0 = false;
      V3 p[4];
      for (int k = 0; k < 4; ++k) {
        if (Tt.get_vertex(k) == 0)
          has0 = true;
        p[k] = C.get_position(C._vertices[Tt.get_vertex(k)], g._real_voronoi_box, g._real_generator_positions);
      }
      if (!has0)
        continue;
      const V3 a = p[1] - p[0], b = p[2] - p[0], d = p[3] - p[0];
      const double vol = std::fabs(V3::dot_product(a, V3::cross_product(b, d)));
      double l = 0.;
      for (int k = 0; k < 4; ++k)
        for (int m = k + 1; m < 4; ++m)
          l = std::max(l, (p[k] - p[m]).norm());
      const double f = vol / (l * l * l);
      if (f < fmin) {
        fmin = f;
        what = fmt("flattest Delaunay tetrahedron (cell %zu): %s %s %s %s, flatness 6|V|/l^3 = %.3g", i,
                   v3s(p[0]).c_str(), v3s(p[1]).c_str(), v3s(p[2]).c_str(), v3s(p[3]).c_str(), f);
      }
    }
  }
  // a circumcentre loses a factor 1/flatness: below 1e-5 the baseline accuracy 1e-10 is out of reach
  return fmin <= 1.e-5;
}

/// the diagnosis drives the real constructor again on an input it already mishandled: run it in a child
static std::string diagnose_forked(const Case &c, std::string &what) {
  int fd[2];
  if (pipe(fd) != 0)
    return ":unclassified";
  fflush(nullptr);
  const pid_t pid = fork();
  if (pid == 0) {
    close(fd[0]);
    alarm(60);
    std::string w;
    const bool flat = flat_real_tetrahedron(c, w);
    const std::string msg = (flat ? "1" : "0") + w;
    if (write(fd[1], msg.data(), msg.size()) < 0) {
    }
    _exit(0);
  }
  close(fd[1]);
  std::string msg;
  char buf[4096];
  ssize_t r;
  while ((r = read(fd[0], buf, sizeof(buf))) > 0)
    msg.append(buf, r);
  close(fd[0]);
  int status = 0;
  waitpid(pid, &status, 0);
  if (!(WIFEXITED(status) && WEXITSTATUS(status) == 0) || msg.empty())
    return ":unclassified";
  what = msg.substr(1);
  return msg[0] == '1' ? ":flat-real-tetrahedron" : ":unclassified";
}


// ---------------------------------------------------------------------------
// search-radius invariants, checked on every intermediate state of every cell (reads private state)
// ---------------------------------------------------------------------------
// Both grid classes stop the neighbour search of a cell as soon as the region covered by the searched
// blocks contains the sphere of radius 2 R_max around the generator, R_max = largest distance of a vertex of
// the current cell. Whatever the implementation, the value it uses for that decision has to bound the
// vertex distances of the cell *in every intermediate state*; if it is too small generators are skipped.
//  old: OldVoronoiCell::get_max_radius_squared() is documented as "squared maximum distance between the cell
//       generator and any of its vertices": demanded >= max |v|^2 (1 - 4 eps) over the stored vertices.
//  new: NewVoronoiCellConstructor::get_max_radius_squared() is documented as "maximum distance (squared)
//       between the cell generator and an arbitrary other generator that still could change the cell
//       structure": a generator changes the cell iff it lies inside the circumsphere of a tetrahedron that has
//       the cell generator as a vertex, i.e. within 2 r_circ: demanded >= 4 r_circ^2 (1 - tol) for every such
//       active tetrahedron; r_circ from an independent long double circumcentre; tol = 64 eps / flatness
//       (relative error of a circumcentre computed in double from a tetrahedron of that flatness, both sides),
//       tetrahedra with tol >= 0.5 are skipped and counted.
// Histories: the generators are inserted (a) in order of distance, (b) for sets of at most 120 generators also
// in index order (far generators first: many more intermediate states), without any pruning by the harness
// other than its own bound (distance^2 > 4 max vertex distance^2 (1 + 1e-9) for the old cell).
struct MonitorStats {
  long states_old = 0, states_new = 0, skipped_flat = 0;
  double worst_old = 0.; // largest (required - reported) / required
  double worst_new = 0.; // largest (required - reported) / required / tolerance
  double bad_new_def = 0.;
  std::string worst_new_detail;
  std::string bad_old, bad_new;
};

static void old_radius_state(const OldVoronoiCell &cell, size_t i, size_t last, const Case &c, MonitorStats &M) {
  double r2 = 0.;
  size_t arg = 0;
  for (size_t k = 0; k < cell._vertices.size(); ++k) {
    const double q = cell._vertices[k].norm2();
    if (q > r2) {
      r2 = q;
      arg = k;
    }
  }
  ++M.states_old;
  const double rep = cell.get_max_radius_squared();
  const double def = (r2 - rep) / r2;
  if (def > M.worst_old)
    M.worst_old = def;
  if (!(rep >= r2 * (1. - 4. * DBL_EPSILON)) && M.bad_old.empty())
    M.bad_old = fmt("case %s: cell %zu (generator %s) after the insertion of generator %zu: "
                    "OldVoronoiCell::get_max_radius_squared() = %.17g, but stored vertex %zu of %zu is at squared "
                    "distance %.17g from the generator",
                    c.name.c_str(), i, v3s(c.gen[i]).c_str(), last, rep, arg, cell._vertices.size(), r2);
}

static void monitor_old(const Case &c, MonitorStats &M) {
  const size_t n = c.gen.size();
  const Box<> box(c.anchor, c.sides);
  const double eps = OLD_TOL_SPEC * c.sides.norm2();
  std::vector< std::pair< double, size_t > > order(n);
  for (int hist = 0; hist < 2; ++hist) {
    if (hist == 1 && n > 120)
      break;
    for (size_t i = 0; i < n; ++i) {
      OldVoronoiCell cell(c.gen[i], box);
      old_radius_state(cell, i, i, c, M);
      for (size_t j = 0; j < n; ++j)
        order[j] = std::make_pair(hist == 0 ? (c.gen[j] - c.gen[i]).norm2() : (double)j, j);
      if (hist == 0)
        std::sort(order.begin(), order.end());
      for (size_t q = 0; q < n; ++q) {
        const size_t j = order[q].second;
        if (j == i)
          continue;
        // the harness' own bound: a generator farther than twice the largest vertex distance cannot cut
        double r2 = 0.;
        for (const V3 &v : cell._vertices)
          r2 = std::max(r2, v.norm2());
        const double d2 = (c.gen[j] - c.gen[i]).norm2();
        if (d2 > 4. * r2 * (1. + 1.e-9)) {
          if (hist == 0)
            break;
          continue;
        }
        cell.intersect(c.gen[j] - c.gen[i], j, eps);
        old_radius_state(cell, i, j, c, M);
      }
    }
  }
}

static void monitor_new(const Case &c, MonitorStats &M) {
  const size_t n = c.gen.size();
  const NewVoronoiGrid g(c.gen, Box<>(c.anchor, c.sides));
  NewVoronoiCellConstructor C;
  std::vector< std::pair< double, size_t > > order(n);
  auto state = [&](size_t i, size_t last) {
    ++M.states_new;
    const double rep = C.get_max_radius_squared();
    const V3 gi = c.gen[i];
    for (uint_fast32_t t = 0; t < C._tetrahedra_size; ++t) {
      const NewVoronoiTetrahedron &Tt = C._tetrahedra[t];
      if (!Tt.is_active())
        continue;
      int k0 = -1;
      for (int k = 0; k < 4; ++k)
        if (Tt.get_vertex(k) == 0)
          k0 = k;
      if (k0 < 0)
        continue;
      // reference: circumcentre relative to the generator in long double, from scratch
      V3 P[4];
      for (int k = 0; k < 4; ++k)
        P[k] = C.get_position(C._vertices[Tt.get_vertex(k)], g._real_voronoi_box, g._real_generator_positions);
      long double e[3][3];
      int m = 0;
      for (int k = 0; k < 4; ++k) {
        if (k == k0)
          continue;
        for (int a = 0; a < 3; ++a)
          e[m][a] = (long double)P[k][a] - gi[a];
        ++m;
      }
      auto cross = [](const long double *a, const long double *b, long double *o) {
        o[0] = a[1] * b[2] - a[2] * b[1];
        o[1] = a[2] * b[0] - a[0] * b[2];
        o[2] = a[0] * b[1] - a[1] * b[0];
      };
      long double l2[3], bc[3], ca[3], ab[3], x[3];
      for (int k = 0; k < 3; ++k)
        l2[k] = e[k][0] * e[k][0] + e[k][1] * e[k][1] + e[k][2] * e[k][2];
      cross(e[1], e[2], bc);
      cross(e[2], e[0], ca);
      cross(e[0], e[1], ab);
      const long double det = e[0][0] * bc[0] + e[0][1] * bc[1] + e[0][2] * bc[2];
      if (det == 0.) {
        ++M.skipped_flat;
        continue;
      }
      for (int a = 0; a < 3; ++a)
        x[a] = (l2[0] * bc[a] + l2[1] * ca[a] + l2[2] * ab[a]) / (2. * det);
      const double r2 = (double)(x[0] * x[0] + x[1] * x[1] + x[2] * x[2]);
      // tolerance: first-order running error bound of a double evaluation of the textbook formula
      //   m = v0 + R / V,  R_a = sum_k |r_k|^2 (r_i x r_j)_a,  V = 2 det(r_1, r_2, r_3),  r_k = v_k - v0
      // with v0 = first vertex of the tetrahedron (edges from a far vertex make the result a difference of
      // large numbers): |dR_a|, |dV| <= 16 eps sum |products| (every product of the sums carries at most 16
      // roundings: the edge differences, |r|^2, the 2x2 minors, the sums), one rounding each for 1/V, the
      // product, "+ v0" and "- generator"; d(r^2) = 2 r |dm| + 4 eps r^2 (norm2); factor 2 on top.
      long double rr[3][3], f[3];
      for (int k = 0; k < 3; ++k) {
        f[k] = 0.;
        for (int a = 0; a < 3; ++a) {
          rr[k][a] = (long double)P[k + 1][a] - P[0][a];
          f[k] += rr[k][a] * rr[k][a];
        }
      }
      const long double Vabs =
          2. * (fabsl(rr[0][0] * rr[1][1] * rr[2][2]) + fabsl(rr[0][1] * rr[1][2] * rr[2][0]) +
                fabsl(rr[0][2] * rr[1][0] * rr[2][1]) + fabsl(rr[0][2] * rr[1][1] * rr[2][0]) +
                fabsl(rr[1][2] * rr[2][1] * rr[0][0]) + fabsl(rr[2][2] * rr[0][1] * rr[1][0]));
      const long double Vv = 2. * (rr[0][0] * (rr[1][1] * rr[2][2] - rr[1][2] * rr[2][1]) -
                                   rr[0][1] * (rr[1][0] * rr[2][2] - rr[1][2] * rr[2][0]) +
                                   rr[0][2] * (rr[1][0] * rr[2][1] - rr[1][1] * rr[2][0]));
      long double dm2 = 0.;
      for (int a = 0; a < 3; ++a) {
        const int b1 = (a + 1) % 3, c1 = (a + 2) % 3;
        auto absx = [&](int i, int j) { return fabsl(rr[i][b1] * rr[j][c1]) + fabsl(rr[i][c1] * rr[j][b1]); };
        const long double Rabs = f[2] * absx(0, 1) + f[1] * absx(2, 0) + f[0] * absx(1, 2);
        const long double xa = fabsl(x[a] + gi[a] - P[0][a]); // component of the centre relative to v0
        const long double dma = DBL_EPSILON * ((16. * Rabs + 16. * xa * Vabs) / fabsl(Vv) + 2. * xa +
                                               fabsl(x[a] + gi[a]) + fabsl(P[0][a]) + fabsl(x[a]));
        dm2 += dma * dma;
      }
      const double tol = r2 > 0. ? (double)(2. * (2. * sqrtl(dm2) / std::sqrt(r2) + 4. * DBL_EPSILON)) : 1.;
      if (!(tol < 0.5)) {
        ++M.skipped_flat;
        continue;
      }
      w_max("monitor_new_largest_relative_tolerance", tol);
      const double need = 4. * r2;
      const double def = (need - rep) / need;
      const double over = def / tol;
      if (over > M.worst_new) {
        M.worst_new = over;
        if (g_verbose_stages)
          M.worst_new_detail = fmt("cell %zu after generator %zu: tetrahedron %u vertices %u %u %u %u: reported %.17g "
                                   "required %.17g tol %.3g", i, last, (unsigned)t,
                                   (unsigned)C._vertices[Tt.get_vertex(0)], (unsigned)C._vertices[Tt.get_vertex(1)],
                                   (unsigned)C._vertices[Tt.get_vertex(2)], (unsigned)C._vertices[Tt.get_vertex(3)], rep,
                                   need, tol);
      }
      if (!(rep >= need * (1. - tol)) && (M.bad_new.empty() || def > M.bad_new_def) && (M.bad_new_def = def, true))
        M.bad_new = fmt("case %s: cell %zu (generator %s) after the insertion of generator %zu: "
                        "NewVoronoiCellConstructor::get_max_radius_squared() = %.17g, but active tetrahedron %u "
                        "(vertices %u %u %u %u, slot %u of %u) has the generator as a vertex and circumradius^2 "
                        "%.17g: generators up to squared distance %.17g can still change the cell (rel. tol %.3g)",
                        c.name.c_str(), i, v3s(gi).c_str(), last, rep, (unsigned)t,
                        (unsigned)C._vertices[Tt.get_vertex(0)], (unsigned)C._vertices[Tt.get_vertex(1)],
                        (unsigned)C._vertices[Tt.get_vertex(2)], (unsigned)C._vertices[Tt.get_vertex(3)], (unsigned)t,
                        (unsigned)C._tetrahedra_size, r2, need, tol);
    }
  };
  for (int hist = 0; hist < 2; ++hist) {
    if (hist == 1 && n > 120)
      break;
    for (size_t i = 0; i < n; ++i) {
      C.setup(i, g._real_generator_positions, g._real_voronoi_box, g._real_rescaled_positions, g._real_rescaled_box,
              true);
      state(i, i);
      for (size_t j = 0; j < n; ++j)
        order[j] = std::make_pair(hist == 0 ? (c.gen[j] - c.gen[i]).norm2() : (double)j, j);
      if (hist == 0)
        std::sort(order.begin(), order.end());
      for (size_t q = 0; q < n; ++q) {
        const size_t j = order[q].second;
        if (j == i)
          continue;
        const uint_fast32_t before = C._vertices_size;
        C.intersect(j, g._real_rescaled_box, g._real_rescaled_positions, g._real_voronoi_box,
                    g._real_generator_positions);
        if (C._vertices_size != before)
          state(i, j);
      }
    }
  }
}

static bool identical(const GridD &A, const GridD &B, std::string &what) {
  if (A.cells.size() != B.cells.size()) {
    what = "cell count";
    return false;
  }
  for (size_t i = 0; i < A.cells.size(); ++i) {
    const CellD &a = A.cells[i], &b = B.cells[i];
    if (a.vol != b.vol || a.cen != b.cen || a.faces.size() != b.faces.size()) {
      what = fmt("cell %zu volume/centroid/face count", i);
      return false;
    }
    for (size_t k = 0; k < a.faces.size(); ++k) {
      const FaceD &f = a.faces[k], &g = b.faces[k];
      const bool area_same = (f.area == g.area) || (std::isnan(f.area) && std::isnan(g.area));
      if (f.ngb != g.ngb || !area_same || f.v.size() != g.v.size()) {
        what = fmt("cell %zu face %zu", i, k);
        return false;
      }
    }
  }
  if (A.qidx != B.qidx) {
    what = "get_index results";
    return false;
  }
  return true;
}

static std::vector< V3 > query_lattice(const Case &c) {
  std::vector< V3 > Q;
  double t[17];
  for (int k = 0; k < 16; ++k)
    t[k] = k / 16.;
  t[16] = 1. - std::ldexp(1., -20); // the box is half open at the top
  for (int i = 0; i < 17; ++i)
    for (int j = 0; j < 17; ++j)
      for (int k = 0; k < 17; ++k)
        Q.push_back(V3(c.anchor.x() + t[i] * c.sides.x(), c.anchor.y() + t[j] * c.sides.y(),
                       c.anchor.z() + t[k] * c.sides.z()));
  return Q;
}

/// everything for one case, inside the worker
static void run_case(const Case &c, int stage_timeout, bool verbose) {
  g_verbose_stages = verbose;
  g_case_t0 = std::chrono::steady_clock::now();
  const std::vector< V3 > Q = query_lattice(c);
  const Tol T = make_tol(c, false);
  const Tol TO = make_tol(c, true);
  long evals = 0;
  GridD N, O;
  // the incremental construction of a clustered / sheet set of 1000..2000 takes 10..30 s on an idle core
  // (factor capped at 4 so that a hang stays inside the hard limit of the driver)
  stage_timeout *= std::min(4, 1 + (int)(c.gen.size() / 250));
  alarm(stage_timeout);
  // precondition of the exact predicates
  w_begin("new-precondition");
  std::string regime;
  {
    std::string what;
    if (rescaled_outside_range(c, what)) {
      regime = ":rescaled-coordinate-outside-[1,2)";
      // the class is the box geometry, not the generator family
      w_violation(fmt("C15:new:rescaled-coordinate-outside-[1,2):box-sides=%gx%gx%g", c.sides.x(), c.sides.y(),
                      c.sides.z()),
                  fmt("case %s (box sides %s): %s; the exact predicates read the 52-bit mantissa and require "
                      "coordinates in [1,2)",
                      c.name.c_str(), v3s(c.sides).c_str(), what.c_str()));
    }
  }
  w_begin("new");
  construct(true, c, 1, Q, N);
  ++evals;
  w_begin("new-check");
  Findings fn;
  const bool nok = validate("new", c, N, Q, T, fn);
  w_count(nok ? "new_valid" : "new_invalid");
  if (!nok) {
    if (regime.empty()) {
      std::string what;
      regime = diagnose_forked(c, what);
      if (!what.empty())
        for (auto &f : fn)
          f.second += " [diagnosis: " + what + "]";
    }
    write_findings(fn, regime);
  }
  if (verbose)
    printf("  new construction: %s%s, %zu cells\n", nok ? "valid" : "INVALID", regime.c_str(), N.cells.size());
  if (c.threads > 1) {
    GridD N2;
    alarm(stage_timeout);
    w_begin("new-threads");
    construct(true, c, c.threads, Q, N2);
    ++evals;
    std::string what;
    if (!identical(N, N2, what))
      w_violation("C15:new:threads-differ-from-serial:" + c.family,
                  fmt("case %s: %d-thread construction differs from the serial one in %s", c.name.c_str(),
                      c.threads, what.c_str()));
    else
      w_count("new_threaded_identical_to_serial");
    Findings f2;
    if (!validate("new", c, N2, Q, T, f2) && nok)
      write_findings(f2, ":threaded");
  }
  if (c.run_old) {
    alarm(stage_timeout);
    w_begin("old");
    construct(false, c, 1, Q, O);
    ++evals;
    w_begin("old-check");
    // outside its domain the old construction is only observed
    Findings fo;
    // statistics of unjudged runs are kept apart
    const bool ook = validate(c.old_in_domain ? "old" : "old(outside-domain,info)", c, O, Q, TO, fo);
    if (c.old_in_domain)
      write_findings(fo, "");
    if (verbose)
      printf("  old construction: %s (%s its domain)\n", ook ? "valid" : "INVALID",
             c.old_in_domain ? "inside" : "outside");
    if (c.old_in_domain) {
      w_max("old_in_domain_smallest_margin_ratio(negated)", -c.margin_ratio);
      w_count(ook ? "old_valid" : "old_invalid");
      if (ook && nok)
        compare(c, N, O, TO, "C15:old-vs-new:");
    } else {
      w_count(ook ? "old_outside_domain_valid(info)" : "old_outside_domain_invalid(info)");
      if (!ook)
        w_count("old_outside_domain_invalid(info):" + c.family);
    }
    if (c.threads > 1) {
      GridD O2;
      alarm(stage_timeout);
      w_begin("old-threads");
      construct(false, c, c.threads, Q, O2);
      ++evals;
      std::string what;
      if (!identical(O, O2, what))
        w_violation("C15:old:threads-differ-from-serial:" + c.family,
                    fmt("case %s: %d-thread construction differs from the serial one in %s", c.name.c_str(),
                        c.threads, what.c_str()));
      else
        w_count("old_threaded_identical_to_serial");
    }
  }
  if (c.monitor) {
    MonitorStats M;
    alarm(4 * stage_timeout);
    w_begin("new-search-radius-monitor");
    monitor_new(c, M);
    if (!M.bad_new.empty())
      w_violation("C15:new:search-radius-below-circumsphere:" + c.family, M.bad_new);
    if (c.run_old) {
      w_begin(c.old_in_domain ? "old-search-radius-monitor" : "old(outside-domain)-search-radius-monitor");
      monitor_old(c, M);
      // the documented contract of get_max_radius_squared() does not depend on the tolerance domain
      if (!M.bad_old.empty())
        w_violation("C15:old:search-radius-below-vertex-distance:" + c.family, M.bad_old);
    }
    w_count("monitor_cell_states_new", (double)M.states_new);
    w_count("monitor_cell_states_old", (double)M.states_old);
    w_count("monitor_tetrahedra_skipped_as_too_flat", (double)M.skipped_flat);
    w_max("monitor_new_worst_deficit_over_tol", M.worst_new);
    w_max("monitor_old_worst_relative_deficit", M.worst_old);
    if (verbose && !M.worst_new_detail.empty())
      printf("  search-radius monitor, state closest to the tolerance: %s\n", M.worst_new_detail.c_str());
    if (verbose)
      printf("  search-radius monitor: %ld new / %ld old cell states, worst deficits %.3g / %.3g\n", M.states_new,
             M.states_old, M.worst_new, M.worst_old);
  }
  w_begin("end");
  alarm(0);
  w_count("cells", (double)c.gen.size());
  w_count("cases_of_family:" + c.family);
  w_max("largest_generator_count_of_family:" + c.family, (double)c.gen.size());
  w_max("smallest_generator_count_of_family(negated):" + c.family, -(double)c.gen.size());
  w_end(evals, 1);
}

// ---------------------------------------------------------------------------
// parent: worker pool
// ---------------------------------------------------------------------------
struct Shared {
  std::atomic< long > next;
  std::atomic< int > stop;
};

struct Provider {
  std::string mode;
  long seed;
  bool thorough;
  std::vector< Case > list;       // families / threads / generic
  std::vector< SpikeParam > spikes; // spikes (generated on demand)
  const std::vector< uint32_t > *masks = nullptr; // subsets
  std::vector< double > amps;                      // perturbation amplitudes of the subsets
  long nsub() const { return masks ? (long)(masks->size() * amps.size()) : 0; }
  long size() const { return nsub() + (long)list.size() + (long)spikes.size(); }
  Case get(long i) const {
    if (i < nsub())
      return subset_case((*masks)[i % masks->size()], amps[i / masks->size()], seed);
    if (i - nsub() < (long)list.size())
      return list[i - nsub()];
    return spike_case(spikes[i - nsub() - (long)list.size()]);
  }
  long find(const std::string &name) const {
    for (long i = 0; i < size(); ++i)
      if (get(i).name == name)
        return i;
    return -1;
  }
};

static Provider make_provider(const std::string &mode, bool thorough, long seed) {
  Provider P;
  P.mode = mode;
  P.seed = seed;
  P.thorough = thorough;
  if (mode == "subsets_exact" || mode == "subsets_perturbed" || mode == "near_degenerate") {
    P.masks = thorough ? &g_subsets.all : &g_subsets.reps;
    if (mode == "subsets_exact")
      P.amps = {0.};
    else if (mode == "subsets_perturbed")
      P.amps = {1.e-3};
    else {
      P.amps = {1.e-6, 1.e-9, 1.e-12, 1.e-14}; // nearly degenerate: from far above to just above round-off
      P.list = near_degenerate_shells(thorough, seed);
    }
  } else if (mode == "families") {
    P.list = family_cases(thorough, seed);
  } else if (mode == "generic") {
    P.list = generic_cases(thorough);
  } else if (mode == "spikes") {
    P.spikes = spike_params(thorough);
  } else if (mode == "threads") {
    P.list = thread_cases(thorough, seed);
  } else {
    fprintf(stderr, "unknown mode %s\n", mode.c_str());
    exit(2);
  }
  return P;
}

static void worker_main(const Provider &P, Shared *sh, const std::string &file, long rot, double deadline_left,
                        int stage_timeout) {
  g_wf = fopen(file.c_str(), "w");
  if (!g_wf)
    _exit(3);
  if (!freopen((file + ".err").c_str(), "w", stderr)) {
  }
  const auto t0 = std::chrono::steady_clock::now();
  const long n = P.size();
  while (true) {
    if (sh->stop.load())
      break;
    const double el = std::chrono::duration< double >(std::chrono::steady_clock::now() - t0).count();
    if (el > deadline_left) {
      sh->stop.store(1);
      break;
    }
    const long k = sh->next.fetch_add(1);
    if (k >= n)
      break;
    g_task = (k + rot) % n;
    const Case c = P.get(g_task);
    run_case(c, stage_timeout, false);
  }
  fclose(g_wf);
  _exit(0);
}

struct WorkerSlot {
  pid_t pid = -1;
  std::string file;
};

static std::string tail_of(const std::string &file, size_t n) {
  std::string s = read_file(file);
  if (s.size() > n)
    s = s.substr(s.size() - n);
  return one_line(s);
}

/// case number that attained the maximum of every "*over_tol*" quantity
static std::map< std::string, long > g_argmax;
/// parse one worker file into R; returns the unfinished task (or -1) and its stage
static void absorb(const std::string &file, Result &R, std::map< std::string, double > &cnt,
                   std::map< std::string, double > &mx, const Provider &P, long &open_task, std::string &open_stage,
                   std::set< long > &done) {
  const std::string txt = read_file(file);
  open_task = -1;
  size_t pos = 0;
  while (pos < txt.size()) {
    size_t e = txt.find('\n', pos);
    if (e == std::string::npos)
      break; // incomplete last line
    const std::string line = txt.substr(pos, e - pos);
    pos = e + 1;
    std::vector< std::string > f;
    size_t a = 0;
    while (true) {
      size_t b = line.find('\t', a);
      if (b == std::string::npos) {
        f.push_back(line.substr(a));
        break;
      }
      f.push_back(line.substr(a, b - a));
      a = b + 1;
    }
    if (f[0] == "B" && f.size() >= 3) {
      open_task = atol(f[1].c_str());
      open_stage = f[2];
    } else if (f[0] == "E" && f.size() >= 4) {
      const long t = atol(f[1].c_str());
      R.evaluations += atol(f[2].c_str());
      R.nontrivial += atol(f[3].c_str());
      done.insert(t);
      if (f.size() >= 5) {
        const double sec = atof(f[4].c_str());
        auto it = mx.find("slowest_case_seconds");
        if (it == mx.end() || sec > it->second) {
          mx["slowest_case_seconds"] = sec;
          mx["slowest_case_number"] = (double)t;
        }
        cnt["case_seconds_total"] += sec;
      }
      if (t % 97 == 0 || P.size() < 400) {
        const Case c = P.get(t);
        R.sample(fmt("{\"case\": \"%s\", \"family\": \"%s\", \"generators\": %zu, \"first\": \"%s\"}", c.name.c_str(),
                     c.family.c_str(), c.gen.size(), v3s(c.gen[0]).c_str()));
      }
      open_task = -1;
    } else if (f[0] == "V" && f.size() >= 4) {
      const long t = atol(f[1].c_str());
      const Case c = P.get(t);
      R.violation(f[2], f[3],
                  fmt("{\"mode\": \"%s\", \"case\": \"%s\", \"seed\": %ld}", P.mode.c_str(), c.name.c_str(), P.seed));
    } else if (f[0] == "C" && f.size() >= 3) {
      cnt[f[1]] += atof(f[2].c_str());
    } else if (f[0] == "M" && f.size() >= 3) {
      const double v = atof(f[2].c_str());
      auto it = mx.find(f[1]);
      if (it == mx.end() || v > it->second) {
        mx[f[1]] = v;
        if (f.size() >= 4 && f[1].find("over_tol") != std::string::npos)
          g_argmax[f[1]] = atol(f[3].c_str());
      }
    }
  }
}

static int run_pool(const Provider &P, Result &R, const Args &A, int nworkers, int stage_timeout) {
  const std::string tmp = fast_tmpdir();
  Shared *sh = (Shared *)mmap(nullptr, sizeof(Shared), PROT_READ | PROT_WRITE, MAP_SHARED | MAP_ANONYMOUS, -1, 0);
  new (sh) Shared();
  sh->next.store(0);
  sh->stop.store(0);
  const long n = P.size();
  const long rot = n ? (long)(((uint64_t)A.seed * 7919u) % (uint64_t)n) : 0;
  std::map< std::string, double > cnt, mx;
  std::set< long > done;
  std::vector< WorkerSlot > slots(nworkers);
  int serial = 0;
  long abnormal = 0;
  auto spawn = [&](WorkerSlot &S) {
    S.file = fmt("%s/c15_w%d_%d.txt", tmp.c_str(), (int)getpid(), serial++);
    fflush(nullptr);
    const double left = R.deadline - R.elapsed();
    pid_t pid = fork();
    if (pid == 0) {
      worker_main(P, sh, S.file, rot, left, stage_timeout);
      _exit(0);
    }
    S.pid = pid;
  };
  for (auto &S : slots)
    spawn(S);
  int live = nworkers;
  while (live > 0) {
    int status = 0;
    pid_t pid = waitpid(-1, &status, 0);
    if (pid < 0)
      break;
    WorkerSlot *S = nullptr;
    for (auto &s : slots)
      if (s.pid == pid)
        S = &s;
    if (!S)
      continue;
    long open_task;
    std::string open_stage;
    absorb(S->file, R, cnt, mx, P, open_task, open_stage, done);
    const bool clean = WIFEXITED(status) && WEXITSTATUS(status) == 0;
    if (!clean) {
      ++abnormal;
      std::string how = WIFSIGNALED(status)
                            ? (WTERMSIG(status) == SIGALRM
                                   ? fmt("timeout(>%ds)", stage_timeout)
                                   : (WTERMSIG(status) == SIGABRT ? std::string("abort")
                                                                  : fmt("signal-%d", WTERMSIG(status))))
                            : fmt("exit-%d", WEXITSTATUS(status));
      if (open_task >= 0) {
        const Case c = P.get(open_task);
        const bool is_old = open_stage.compare(0, 3, "old") == 0;
        const std::string msg = tail_of(S->file + ".err", 300);
        const std::string detail = fmt("case %s: the %s construction (stage %s) ended with %s; stderr: %s",
                                       c.name.c_str(), is_old ? "old" : "new", open_stage.c_str(), how.c_str(),
                                       msg.c_str());
        if (is_old && !c.old_in_domain) {
          cnt["old_outside_domain_abnormal_end(info)"] += 1;
          cnt["old_outside_domain_abnormal_end(info):" + c.family + ":" + how] += 1;
          R.evaluations += 1; // the new construction of this case completed
        } else {
          std::string regime, what;
          if (!is_old && rescaled_outside_range(c, what))
            regime = ":rescaled-coordinate-outside-[1,2)";
          R.violation(fmt("C15:%s:abnormal-end:%s:%s%s", is_old ? "old" : "new", c.family.c_str(),
                          how.substr(0, how.find('(')).c_str(), regime.c_str()),
                      detail + (what.empty() ? "" : " [" + what + "]"),
                      fmt("{\"mode\": \"%s\", \"case\": \"%s\", \"seed\": %ld}", P.mode.c_str(), c.name.c_str(),
                          P.seed));
        }
        done.insert(open_task);
      } else {
        R.violation("C15:harness:worker-died-between-cases", "worker ended with " + how);
      }
    }
    unlink(S->file.c_str());
    unlink((S->file + ".err").c_str());
    S->pid = -1;
    --live;
    // a worker that died is replaced while cases remain
    if (!clean && sh->next.load() < n && !sh->stop.load() && !R.out_of_time()) {
      spawn(*S);
      ++live;
    }
  }
  if ((long)done.size() < n)
    R.hit_deadline(fmt("mode %s: %zu of %ld cases done", P.mode.c_str(), done.size(), n));
  for (auto &kv : cnt)
    R.set(kv.first, kv.second);
  for (auto &kv : mx)
    R.set(kv.first, kv.second);
  for (auto &kv : g_argmax)
    if (mx[kv.first] > 0.01)
      R.set_str(kv.first + "@case", P.get(kv.second).name);
  if (mx.count("slowest_case_number")) {
    R.set_str("slowest_case", P.get((long)mx["slowest_case_number"]).name);
    R.extra.erase("slowest_case_number");
  }
  R.set("cases", (double)n);
  R.set("cases_done", (double)done.size());
  R.set("worker_processes_ended_abnormally", (double)abnormal);
  munmap(sh, sizeof(Shared));
  remove_fast_tmpdir(tmp);
  return 0;
}

// ---------------------------------------------------------------------------
int main(int argc, char **argv) {
  Args A = parse_args(argc, argv);
  Result R(A);
  build_subsets();
#ifdef VERIF_WITH_OPENMP
  const std::string defmode = "threads";
#else
  const std::string defmode = "families";
#endif
  std::string mode = A.get("mode", defmode);
  long seed = A.seed;
  // a construction stage of the largest case (12^3 generators) takes a few seconds
  const int stage_timeout = (int)A.geti("stage-timeout", A.thorough() ? 120 : 30);

  if (!A.replay.empty()) {
    const std::string txt = read_file(A.replay);
    const std::string rmode = replay_field(txt, "mode");
    const std::string rcase = replay_field(txt, "case");
    const std::string rseed = replay_field(txt, "seed");
    if (!rseed.empty())
      seed = atol(rseed.c_str());
    if (!rmode.empty())
      mode = rmode;
#ifndef VERIF_WITH_OPENMP
    if (mode == "threads") {
      printf("replay: a case of part 'threads' needs the c15_voronoi_omp binary\n");
      return R.finish(A);
    }
#endif
    Provider P = make_provider(mode, true, seed);
    long t = P.find(rcase);
    if (t < 0) {
      P = make_provider(mode, false, seed);
      t = P.find(rcase);
    }
    if (t < 0) {
      printf("replay: case %s not found in mode %s\n", rcase.c_str(), mode.c_str());
      return R.finish(A);
    }
    const Case c = P.get(t);
    printf("replay case %s (family %s), box anchor %s sides %s, %zu generators\n", c.name.c_str(), c.family.c_str(),
           v3s(c.anchor).c_str(), v3s(c.sides).c_str(), c.gen.size());
    for (size_t i = 0; i < c.gen.size() && i < 40; ++i)
      printf("  generator %zu: %s\n", i, v3s(c.gen[i]).c_str());
    fflush(nullptr);
    const std::string tmp = fast_tmpdir();
    const std::string file = fmt("%s/c15_replay_%d.txt", tmp.c_str(), (int)getpid());
    pid_t pid = fork();
    if (pid == 0) {
      g_wf = fopen(file.c_str(), "w");
      g_task = t;
      run_case(c, stage_timeout, true);
      fclose(g_wf);
      fflush(nullptr);
      _exit(0);
    }
    int status = 0;
    waitpid(pid, &status, 0);
    std::map< std::string, double > cnt, mx;
    std::set< long > done;
    long open_task;
    std::string open_stage;
    absorb(file, R, cnt, mx, P, open_task, open_stage, done);
    if (!(WIFEXITED(status) && WEXITSTATUS(status) == 0)) {
      printf("  child ended abnormally (status 0x%x) in stage %s\n", status, open_stage.c_str());
      const bool is_old = open_stage.compare(0, 3, "old") == 0;
      if (!(is_old && !c.old_in_domain))
        R.violation(fmt("C15:%s:abnormal-end:%s:replay", is_old ? "old" : "new", c.family.c_str()),
                    "construction ended abnormally in stage " + open_stage);
    }
    for (auto &kv : cnt)
      printf("  %s = %.17g\n", kv.first.c_str(), kv.second);
    for (auto &kv : mx)
      printf("  %s = %.6g\n", kv.first.c_str(), kv.second);
    for (auto &v : R.violations)
      printf("  VIOLATION %s :: %s\n", v.key.c_str(), v.detail.c_str());
    unlink(file.c_str());
    remove_fast_tmpdir(tmp);
    return R.finish(A);
  }

  if (OLDVORONOI_TOLERANCE != OLD_TOL_SPEC)
    R.violation("C15:old:tolerance-constant-changed",
                fmt("OLDVORONOI_TOLERANCE is %.17g, the documented value the allowances are derived from is %.17g",
                    (double)OLDVORONOI_TOLERANCE, OLD_TOL_SPEC));
  const Provider P = make_provider(mode, A.thorough(), seed);
  int nworkers = (int)A.geti("workers", mode == "threads" ? 4 : 16);
  run_pool(P, R, A, nworkers, stage_timeout);
  R.set_str("mode", mode);
  if (mode == "generic")
    R.set_str("alphabet",
              fmt("named deterministic generator sets (splitmix64 from fnv1a of the member name, independent of VERIF_SEED): "
                  "families uniform-random, clustered-power-law (3 clusters r = 0.3 u^2.5 + 10%% background, min. separation "
                  "1e-3%s), near-wall-random (30%% of the coordinates within 1e-3%s of a wall), nearly-coplanar-sheet (95%% "
                  "within 5e-4%s of a tilted plane); generator counts 2,3,4,5,9,10,11,15,16,19,20,39,40,42,43,99,100,101,159,"
                  "160,199,200,201 (block-count thresholds of PointLocations for 1 and 10 generators per block, job size 100) "
                  "and %s; boxes 1x1x1, 1x2x4, 1x1x100, unit cube at (-2,0.5,10); %ld sets in this tier; every cell of "
                  "every set additionally driven by hand through the search-radius monitor (insertion by distance, for <= 120 "
                  "generators also by index)",
                  A.thorough() ? " and 1e-5" : "", A.thorough() ? " and 1e-5" : "", A.thorough() ? " and 5e-3" : "",
                  A.thorough() ? "500, 1000, 1500, 2000 (2000: 24 uniform, 8 clustered 1e-3, 4 clustered 1e-5, 8 near-wall; sheets up to 1000)"
                               : "300 (sheet), 500, 1000, 2000 (2000: 2 uniform sets; clustered up to 500)",
                  P.size()));
  if (mode == "spikes")
    R.set_str("alphabet",
              fmt("spike members = (generators 60%s) x (3|4 cone neighbours) x (direction: %s) x (g at the block centre / "
                  "offset (0.3,0,0) / (-0.25,0.3,0.2) blocks) x (apex distance R 0.10,0.14,0.19,0.26) x (h at D/R = 0.9,1.3,"
                  "1.7,1.95 | 2.1: cuts / does not cut the apex) x (order of cone and back neighbours in the index list) x (g "
                  "first/last, specials before/after the fillers) x (box 1x1x1, 1x1x1@(-2,0.5,10), 1x2x4); members whose "
                  "special generators fall outside the box do not exist; %ld members in this tier (selection rule: "
                  "spike_params() in the harness / NOTES.md); search-radius monitor on every second member",
                  A.thorough() ? ", 270, 1250" : "", A.thorough() ? "6 axes, 6 face and 4 body diagonals, 2 generic" : "+x, -y, +z, (1,-1,0), (-1,1,1), (0.8,0.31,-0.52)",
                  P.size()));
  R.rule = "evaluations = grid constructions of the real code (new and old, serial and threaded) that ran to completion "
           "and were checked; non-trivial = generator sets completely processed. Per construction: volumes > 0 and "
           "summing to the box volume, every face above 1e-12 L^2 has a partner of equal area, opposite orientation and "
           "matching midpoint, lies on the bisector of the two generators, walls covered exactly once, generator "
           "inside its cell, every face vertex inside the box and not beyond the bisector plane with any other generator "
           "(brute force; complete for missed cuts), get_index on a 17^3 query lattice = brute-force nearest generator; "
           "old vs new: volumes, centroids, neighbour sets; parts generic/spikes: search radius reported by the cell "
           "classes >= the largest vertex / circumsphere distance in every intermediate state of every cell. Families are "
           "enumerated completely (subsets: all 2..4-subsets of the 3^3 "
           "lattice in the thorough tier, one representative per orbit of the 48 cube symmetries in the quick tier).";
  R.assumptions.push_back("the old (plane cutting) construction is bound by the property only on inputs that are farther "
                          "from degeneracy than its own tolerance OLDVORONOI_TOLERANCE (perturbed sets, clusters down to "
                          "2^-10); on exactly degenerate lattices/shells, clusters below 2^-10 and points 1e-9 from walls "
                          "its outcome is recorded in the evidence (info counters) and not judged");
  R.assumptions.push_back("generators strictly inside the box; query positions in the half-open box");
  return R.finish(A);
}
