// C15: both real Voronoi grid constructions (NewVoronoiGrid: incremental
// Delaunay with exact predicates; OldVoronoiGrid: plane cutting with a
// tolerance) on exhaustively enumerated generator families, checked against
// tessellation identities, a brute-force nearest-generator search and against
// each other. See NOTES.md for the families, the oracle and the tolerances.
//
// Every case runs inside a forked worker process: cmac_error() -> abort(), a
// segmentation fault or a hang (alarm) of the real code is a recorded outcome
// of that case and never takes the harness down.
//
// The same source is built twice: flavour `plain` (serial parts) and flavour
// `omp` (part "threads": serial against 4-thread construction).
#include "NewVoronoiGrid.hpp"
#include "OldVoronoiCell.hpp"
#include "OldVoronoiGrid.hpp"
#include "verif_common.hpp"

#include <algorithm>
#include <array>
#include <atomic>
#include <cfloat>
#include <csignal>
#include <functional>
#include <sys/mman.h>
#include <sys/wait.h>

using namespace verif;
typedef CoordinateVector<> V3;

// ---------------------------------------------------------------------------
// cases
// ---------------------------------------------------------------------------
struct Case {
  std::string name;   // unique; replay identifies the case by it
  std::string family; // stable class name used in violation keys
  V3 anchor, sides;
  std::vector< V3 > gen;
  bool run_old = true;
  bool old_in_domain = true; // the property binds the old construction on this input (set by finish_case)
  bool degenerate = false;   // exactly degenerate input (lattice, cospherical)
  double margin = 0.;        // distance (length) of the input from exact degeneracy / size of its smallest feature
  double margin_ratio = 0.;  // margin / (100 * snapping distance of the old construction)
  int threads = 1;           // >1: also construct with this many threads and compare
};

/// documented plane-test tolerance of the old construction (OldVoronoiCell.hpp:66). The allowances of
/// the check are derived from this specified value, not from whatever the code under test defines.
static const double OLD_TOL_SPEC = 2.e-10;

static const double PHI[3] = {1.4142135623730951, 1.7320508075688772, 2.2360679774997896};
static inline double frac(double x) { return x - std::floor(x); }
/// fixed irrational perturbation pattern in [-0.5,0.5)^3 for point number q
static V3 pattern(long q, long seed) {
  return V3(frac((q + 1) * PHI[0] + 0.137 * seed) - 0.5, frac((q + 1) * PHI[1] + 0.271 * seed) - 0.5,
            frac((q + 1) * PHI[2] + 0.419 * seed) - 0.5);
}

/// The old construction decides "vertex on the cutting plane" with an absolute tolerance eps_old =
/// OLD_TOL_SPEC * |sides|^2 on (squared) lengths, which snaps vertices within delta_old =
/// 4 eps_old / s_gen of a plane (s_gen: smallest generator distance). The property binds it only on
/// inputs whose distance from degeneracy (margin) is at least 100 delta_old.
static void finish_case(Case &c) {
  double s_gen = DBL_MAX;
  for (size_t i = 0; i < c.gen.size(); ++i)
    for (size_t j = i + 1; j < c.gen.size(); ++j)
      s_gen = std::min(s_gen, (c.gen[i] - c.gen[j]).norm());
  const double delta_old = 4. * OLD_TOL_SPEC * c.sides.norm2() / s_gen;
  if (c.margin < 0.)
    c.margin = 0.5 * s_gen; // generic sets: smallest feature
  c.margin_ratio = c.margin / (100. * delta_old);
  c.old_in_domain = !c.degenerate && c.margin_ratio >= 1.;
}

// ---- (i),(ii): subsets of the 3x3x3 lattice ---------------------------------
struct SubsetTable {
  std::vector< uint32_t > all;  // bit masks of all 2..4-subsets (20 826)
  std::vector< uint32_t > reps; // one representative per orbit of the 48 cube symmetries
};
static SubsetTable g_subsets;

static void build_subsets() {
  // the 48 symmetries of the cube acting on lattice indices (i,j,k) in {0,1,2}^3
  std::vector< std::array< int, 27 > > group;
  int perm[3] = {0, 1, 2};
  do {
    for (int flip = 0; flip < 8; ++flip) {
      std::array< int, 27 > g;
      for (int q = 0; q < 27; ++q) {
        int c[3] = {q / 9, (q / 3) % 3, q % 3}, d[3];
        for (int a = 0; a < 3; ++a) {
          d[a] = c[perm[a]];
          if (flip & (1 << a))
            d[a] = 2 - d[a];
        }
        g[q] = d[0] * 9 + d[1] * 3 + d[2];
      }
      group.push_back(g);
    }
  } while (std::next_permutation(perm, perm + 3));
  for (int k = 2; k <= 4; ++k) {
    std::vector< int > idx(k);
    for (int i = 0; i < k; ++i)
      idx[i] = i;
    while (true) {
      uint32_t m = 0;
      for (int i : idx)
        m |= 1u << i;
      g_subsets.all.push_back(m);
      uint32_t best = m;
      for (const auto &g : group) {
        uint32_t im = 0;
        for (int i : idx)
          im |= 1u << g[i];
        best = std::min(best, im);
      }
      if (best == m)
        g_subsets.reps.push_back(m);
      int i = k - 1;
      while (i >= 0 && idx[i] == 27 - k + i)
        --i;
      if (i < 0)
        break;
      ++idx[i];
      for (int j = i + 1; j < k; ++j)
        idx[j] = idx[j - 1] + 1;
    }
  }
}

static Case subset_case(uint32_t mask, double amp, long seed) {
  const bool perturbed = amp > 0.;
  Case c;
  c.anchor = V3(0.);
  c.sides = V3(1.);
  std::string ids;
  for (int q = 0; q < 27; ++q) {
    if (!(mask & (1u << q)))
      continue;
    V3 p(0.25 + 0.25 * (q / 9), 0.25 + 0.25 * ((q / 3) % 3), 0.25 + 0.25 * (q % 3));
    if (perturbed)
      p += amp * pattern(q, seed);
    c.gen.push_back(p);
    ids += (ids.empty() ? "" : ",") + fmt("%d", q);
  }
  if (amp == 0.) {
    c.family = fmt("lattice-subset-%zu-exact", c.gen.size());
    c.name = fmt("subsetE:%s", ids.c_str());
  } else if (amp == 1.e-3) {
    c.family = fmt("lattice-subset-%zu-perturbed", c.gen.size());
    c.name = fmt("subsetP:%s", ids.c_str());
  } else {
    c.family = fmt("lattice-subset-%zu-near-degenerate-%g", c.gen.size(), amp);
    c.name = fmt("subsetN%g:%s", amp, ids.c_str());
  }
  c.degenerate = !perturbed;
  c.run_old = perturbed; // (i): new construction only
  c.margin = 0.5 * amp;
  finish_case(c);
  return c;
}

// ---- (iii): families -------------------------------------------------------------
struct BoxShape {
  const char *name;
  V3 anchor, sides;
};
static const BoxShape BOXES[] = {
    {"1x1x1", V3(0.), V3(1.)},
    {"1x2x4", V3(0.), V3(1., 2., 4.)},
    {"1x1x100", V3(0.), V3(1., 1., 100.)},
    {"1x1x1@(-2,0.5,10)", V3(-2., 0.5, 10.), V3(1.)},
};

static Case lattice_case(int n, const BoxShape &B, double pert, long seed) {
  // pert: amplitude of the perturbation in units of the lattice spacing (0: exact)
  Case c;
  c.anchor = B.anchor;
  c.sides = B.sides;
  long q = 0;
  for (int i = 0; i < n; ++i)
    for (int j = 0; j < n; ++j)
      for (int k = 0; k < n; ++k, ++q) {
        V3 p((i + 0.5) / n, (j + 0.5) / n, (k + 0.5) / n);
        if (pert > 0.) {
          const V3 d = pattern(q, seed);
          p += V3(pert * d.x() / n, pert * d.y() / n, pert * d.z() / n);
        }
        c.gen.push_back(V3(B.anchor.x() + p.x() * B.sides.x(), B.anchor.y() + p.y() * B.sides.y(),
                           B.anchor.z() + p.z() * B.sides.z()));
      }
  c.degenerate = (pert == 0.);
  c.family = pert == 0. ? "lattice-exact" : fmt("lattice-perturbed-%g", pert);
  c.name = fmt("lattice:n=%d:box=%s:pert=%g", n, B.name, pert);
  c.margin = 0.5 * pert * std::min(B.sides.x(), std::min(B.sides.y(), B.sides.z())) / n;
  finish_case(c);
  return c;
}

/// points at 2^-k from a corner of the box (geometric cluster) plus a few far points
static Case cluster_case(int kmax, const BoxShape &B, int corner, long seed) {
  Case c;
  c.anchor = B.anchor;
  c.sides = B.sides;
  for (int k = 1; k <= kmax; ++k) {
    // direction pattern: irrational, strictly inside the positive octant
    const V3 d = pattern(k, seed);
    V3 u(0.6 + 0.7 * (d.x() + 0.5), 0.6 + 0.7 * (d.y() + 0.5), 0.6 + 0.7 * (d.z() + 0.5));
    const double s = std::ldexp(1., -k) * 0.7;
    V3 f(s * u.x(), s * u.y(), s * u.z()); // fractional position in (0,1)
    if (corner & 1)
      f[0] = 1. - f[0];
    if (corner & 2)
      f[1] = 1. - f[1];
    if (corner & 4)
      f[2] = 1. - f[2];
    c.gen.push_back(V3(B.anchor.x() + f.x() * B.sides.x(), B.anchor.y() + f.y() * B.sides.y(),
                       B.anchor.z() + f.z() * B.sides.z()));
  }
  c.family = fmt("cluster-2^-k(k<=%d)", kmax);
  c.name = fmt("cluster:kmax=%d:box=%s:corner=%d", kmax, B.name, corner);
  c.margin = -1.; // generic: smallest feature = half the smallest generator distance
  finish_case(c);
  return c;
}

/// generators 1e-9 (relative) from walls, edges and corners, plus interior points
static Case wall_case(int variant, const BoxShape &B, long seed) {
  Case c;
  c.anchor = B.anchor;
  c.sides = B.sides;
  const double e = 1.e-9;
  std::vector< V3 > f;
  if (variant == 0) {
    // one point next to every wall
    f = {V3(e, 0.4, 0.6), V3(1. - e, 0.55, 0.35), V3(0.3, e, 0.45), V3(0.65, 1. - e, 0.7), V3(0.45, 0.3, e),
         V3(0.6, 0.7, 1. - e), V3(0.5, 0.52, 0.48)};
  } else if (variant == 1) {
    // next to edges and corners
    f = {V3(e, e, 0.5), V3(1. - e, 0.5, 1. - e), V3(0.5, e, 1. - e), V3(e, e, e), V3(1. - e, 1. - e, 1. - e),
         V3(e, 1. - e, e), V3(0.4, 0.6, 0.5), V3(0.7, 0.3, 0.2)};
  } else if (variant == 2) {
    // a 3x3 sheet of points all 1e-9 from the same wall + interior points
    for (int i = 0; i < 3; ++i)
      for (int j = 0; j < 3; ++j) {
        const V3 d = pattern(3 * i + j, seed);
        f.push_back(V3(e, 0.2 + 0.3 * i + 0.01 * d.y(), 0.2 + 0.3 * j + 0.01 * d.z()));
      }
    f.push_back(V3(0.5, 0.5, 0.5));
    f.push_back(V3(0.8, 0.3, 0.6));
  } else {
    // lattice 3^3 whose outer layers sit 1e-9 from the walls
    const double t[3] = {e, 0.5, 1. - e};
    long q = 0;
    for (int i = 0; i < 3; ++i)
      for (int j = 0; j < 3; ++j)
        for (int k = 0; k < 3; ++k, ++q) {
          const V3 d = pattern(q, seed);
          f.push_back(V3(t[i] + (i == 1 ? 1.e-3 * d.x() : 0.), t[j] + (j == 1 ? 1.e-3 * d.y() : 0.),
                         t[k] + (k == 1 ? 1.e-3 * d.z() : 0.)));
        }
  }
  for (const V3 &p : f)
    c.gen.push_back(V3(B.anchor.x() + p.x() * B.sides.x(), B.anchor.y() + p.y() * B.sides.y(),
                       B.anchor.z() + p.z() * B.sides.z()));
  c.family = fmt("near-wall-1e-9-v%d", variant);
  c.name = fmt("wall:v=%d:box=%s", variant, B.name);
  // variant 3 is degenerate in its outer layers (exact planes of points)
  c.degenerate = (variant == 3);
  // distances of 1e-9 are far below the absolute tolerance of the old construction
  c.margin = e * std::min(B.sides.x(), std::min(B.sides.y(), B.sides.z()));
  finish_case(c);
  return c;
}

/// exactly cospherical shells (integer directions of equal length, power-of-two scale)
static Case shell_case(int shell, bool centre, double pert, const BoxShape &B, long seed) {
  Case c;
  c.anchor = B.anchor;
  c.sides = B.sides;
  std::vector< V3 > dirs;
  auto add_perms = [&](int a, int b, int cc) {
    int v[3] = {a, b, cc};
    std::sort(v, v + 3);
    do {
      for (int s = 0; s < 8; ++s) {
        V3 d((s & 1) ? -v[0] : v[0], (s & 2) ? -v[1] : v[1], (s & 4) ? -v[2] : v[2]);
        bool dup = false;
        for (const V3 &o : dirs)
          if (o == d)
            dup = true;
        if (!dup)
          dirs.push_back(d);
      }
    } while (std::next_permutation(v, v + 3));
  };
  double scale = 0.25;
  switch (shell) {
  case 0:
    add_perms(0, 0, 1); // octahedron, 6
    break;
  case 1:
    add_perms(1, 1, 1); // cube, 8
    break;
  case 2:
    add_perms(0, 1, 1); // cuboctahedron, 12
    break;
  case 3:
    add_perms(0, 1, 2); // 24 points, r^2 = 5
    scale = 0.125;
    break;
  default:
    add_perms(0, 0, 3); // 6 + 24 = 30 points, r^2 = 9
    add_perms(1, 2, 2);
    scale = 0.125;
    break;
  }
  long q = 0;
  if (centre)
    c.gen.push_back(V3(0.5, 0.5, 0.5));
  for (const V3 &d : dirs) {
    V3 f(0.5 + scale * d.x(), 0.5 + scale * d.y(), 0.5 + scale * d.z());
    if (pert > 0.)
      f += pert * pattern(q, seed);
    ++q;
    c.gen.push_back(f);
  }
  for (V3 &p : c.gen)
    p = V3(B.anchor.x() + p.x() * B.sides.x(), B.anchor.y() + p.y() * B.sides.y(),
           B.anchor.z() + p.z() * B.sides.z());
  c.degenerate = (pert == 0.);
  c.family = pert == 0. ? "cospherical-exact" : (pert >= 1.e-3 ? "cospherical-perturbed" : fmt("cospherical-near-degenerate-%g", pert));
  c.name = fmt("shell:s=%d:centre=%d:pert=%g:box=%s", shell, (int)centre, pert, B.name);
  c.margin = 0.5 * pert * std::min(B.sides.x(), std::min(B.sides.y(), B.sides.z()));
  finish_case(c);
  return c;
}

static std::vector< Case > family_cases(bool thorough, long seed) {
  std::vector< Case > L;
  const int nmax = thorough ? 12 : 6;
  const int nbox = 4;
  for (int n = 2; n <= nmax; ++n)
    for (int b = 0; b < nbox; ++b) {
      if (n > 8 && b == 3)
        continue; // the shifted cube repeats the unit cube; kept for the small sizes
      L.push_back(lattice_case(n, BOXES[b], 0., seed));
      L.push_back(lattice_case(n, BOXES[b], 1.e-3, seed));
      if (n <= 8 || b == 0)
        L.push_back(lattice_case(n, BOXES[b], 0.3, seed));
    }
  for (int b = 0; b < nbox; ++b)
    for (int corner = 0; corner < 8; ++corner) {
      if (!thorough && corner != 0 && corner != 7 && corner != 2)
        continue;
      L.push_back(cluster_case(4, BOXES[b], corner, seed));
      L.push_back(cluster_case(7, BOXES[b], corner, seed));
      L.push_back(cluster_case(10, BOXES[b], corner, seed));
      L.push_back(cluster_case(20, BOXES[b], corner, seed));
      if (thorough)
        L.push_back(cluster_case(30, BOXES[b], corner, seed));
    }
  for (int b = 0; b < nbox; ++b)
    for (int v = 0; v < 4; ++v)
      L.push_back(wall_case(v, BOXES[b], seed));
  for (int b = 0; b < nbox; ++b)
    for (int s = 0; s < 5; ++s)
      for (int centre = 0; centre < 2; ++centre) {
        L.push_back(shell_case(s, centre, 0., BOXES[b], seed));
        L.push_back(shell_case(s, centre, 1.e-3, BOXES[b], seed));

      }
  return L;
}

/// cospherical shells perturbed by amplitudes from far above to just above round-off
static std::vector< Case > near_degenerate_shells(bool thorough, long seed) {
  std::vector< Case > L;
  for (int b = 0; b < 4; ++b)
    for (int s = 0; s < 5; ++s)
      for (int centre = 0; centre < 2; ++centre)
        for (double amp : {1.e-6, 1.e-9, 1.e-12, 1.e-14}) {
          if (!thorough && b != 0 && amp != 1.e-9)
            continue;
          L.push_back(shell_case(s, centre, amp, BOXES[b], seed));
        }
  return L;
}

static std::vector< Case > thread_cases(bool thorough, long seed) {
  std::vector< Case > L;
  const int sizes_q[] = {5, 6, 7};
  const int sizes_t[] = {5, 6, 7, 8, 10, 12};
  const int *sz = thorough ? sizes_t : sizes_q;
  const int ns = thorough ? 6 : 3;
  for (int i = 0; i < ns; ++i)
    for (int b = 0; b < 3; ++b) {
      if (sz[i] > 8 && b == 1)
        continue;
      for (double pert : {0., 1.e-3, 0.3}) {
        Case c = lattice_case(sz[i], BOXES[b], pert, seed);
        c.threads = 4;
        c.name += ":threads=4";
        c.family += "-threads";
        L.push_back(c);
      }
    }
  return L;
}

// ---------------------------------------------------------------------------
// extracted grid data
// ---------------------------------------------------------------------------
struct FaceD {
  uint32_t ngb;
  double area;
  V3 mid;
  std::vector< V3 > v;
};
struct CellD {
  double vol;
  V3 cen;
  std::vector< FaceD > faces;
};
struct GridD {
  std::vector< CellD > cells;
  std::vector< uint32_t > qidx;
};

static const uint32_t WALL0 = 0xfffffffa; // first wall index of both constructions

static void extract(VoronoiGrid &g, size_t n, const std::vector< V3 > &queries, GridD &D) {
  D.cells.resize(n);
  for (size_t i = 0; i < n; ++i) {
    D.cells[i].vol = g.get_volume(i);
    D.cells[i].cen = g.get_centroid(i);
    const std::vector< VoronoiFace > f = g.get_faces(i);
    D.cells[i].faces.resize(f.size());
    for (size_t k = 0; k < f.size(); ++k) {
      FaceD &F = D.cells[i].faces[k];
      F.ngb = (uint32_t)f[k].get_neighbour();
      F.area = f[k].get_surface_area();
      F.mid = f[k].get_midpoint();
      F.v = f[k].get_vertices();
    }
  }
  D.qidx.resize(queries.size());
  for (size_t q = 0; q < queries.size(); ++q)
    D.qidx[q] = (uint32_t)g.get_index(queries[q]);
}

static void construct(bool is_new, const Case &c, int worksize, const std::vector< V3 > &queries, GridD &D) {
  const Box<> box(c.anchor, c.sides);
  if (is_new) {
    NewVoronoiGrid g(c.gen, box);
    g.compute_grid(worksize);
    extract(g, c.gen.size(), queries, D);
  } else {
    OldVoronoiGrid g(c.gen, box);
    g.compute_grid(worksize);
    extract(g, c.gen.size(), queries, D);
  }
}

// ---------------------------------------------------------------------------
// worker side reporting (append-only text file, one line per record)
// ---------------------------------------------------------------------------
static FILE *g_wf = nullptr;
static long g_task = -1;
static std::map< std::string, double > g_cnt, g_max;

static std::string one_line(std::string s) {
  for (char &ch : s)
    if (ch == '\n' || ch == '\t' || ch == '\r')
      ch = ' ';
  return s;
}
static void w_begin(const char *stage) {
  fprintf(g_wf, "B\t%ld\t%s\n", g_task, stage);
  fflush(g_wf);
}
static void w_violation(const std::string &key, const std::string &detail) {
  fprintf(g_wf, "V\t%ld\t%s\t%s\n", g_task, one_line(key).c_str(), one_line(detail).c_str());
  fflush(g_wf);
}
static void w_count(const std::string &k, double v = 1.) { g_cnt[k] += v; }
static void w_max(const std::string &k, double v) {
  auto it = g_max.find(k);
  if (it == g_max.end() || v > it->second)
    g_max[k] = v;
}
static void w_end(long evals, long nontrivial) {
  for (auto &kv : g_cnt)
    fprintf(g_wf, "C\t%s\t%.17g\n", kv.first.c_str(), kv.second);
  for (auto &kv : g_max)
    fprintf(g_wf, "M\t%s\t%.17g\n", kv.first.c_str(), kv.second);
  g_cnt.clear();
  g_max.clear();
  fprintf(g_wf, "E\t%ld\t%ld\t%ld\n", g_task, evals, nontrivial);
  fflush(g_wf);
}

// ---------------------------------------------------------------------------
// the oracle
// ---------------------------------------------------------------------------
static std::string v3s(const V3 &p) { return fmt("(%.17g,%.17g,%.17g)", p.x(), p.y(), p.z()); }

struct Tol {
  double L;       // largest box side
  double delta;   // absolute accuracy granted to a computed vertex position
  double Amin;    // faces below this area are ignored: 1e-12 L^2
  double rel_sum; // relative tolerance of the volume sum and of the wall area sums
  double extra;   // part of delta beyond the baseline 1e-10 L (conditioning / old tolerance)
};

/// Tolerances, derived once per case and construction:
///  baseline        delta0 = 1e-10 L                    (k = 4.5e5 eps; DESIGN.md value)
///  conditioning    d_fp   = 16 eps L^2 / s_min          circumcentres / plane intersections of points
///                  s_min apart (generators and their wall mirror images) lose a factor L / s_min
///  old tolerance   d_old  = 4 eps_old / s_gen,          eps_old = OLDVORONOI_TOLERANCE |sides|^2: the old
///                  construction snaps a vertex within eps_old / |p| (|p| = half a generator distance) of a
///                  cutting plane onto it
///  delta = max(delta0, d_fp [, d_old]);  rel_sum = max(1e-10, 12 (d_fp [+ d_old]) / L)
static Tol make_tol(const Case &c, bool is_old) {
  Tol T;
  T.L = std::max(c.sides.x(), std::max(c.sides.y(), c.sides.z()));
  double s_gen = DBL_MAX, s_wall = DBL_MAX;
  const size_t n = c.gen.size();
  for (size_t i = 0; i < n; ++i) {
    for (size_t j = i + 1; j < n; ++j)
      s_gen = std::min(s_gen, (c.gen[i] - c.gen[j]).norm());
    for (int a = 0; a < 3; ++a) {
      s_wall = std::min(s_wall, 2. * (c.gen[i][a] - c.anchor[a]));
      s_wall = std::min(s_wall, 2. * (c.anchor[a] + c.sides[a] - c.gen[i][a]));
    }
  }
  const double s_min = std::min(s_gen, s_wall);
  const double d_fp = 16. * DBL_EPSILON * T.L * T.L / s_min;
  const double d_old = is_old ? 4. * OLD_TOL_SPEC * c.sides.norm2() / s_gen : 0.;
  T.extra = d_fp + d_old;
  T.delta = std::max(1.e-10 * T.L, T.extra);
  T.Amin = 1.e-12 * T.L * T.L;
  T.rel_sum = std::max(1.e-10, 12. * T.extra / T.L);
  return T;
}

struct FaceGeom {
  V3 N;     // area vector from the ordered vertices (Newell)
  double P; // perimeter
  double D; // diameter (largest vertex distance from the first vertex, x2)
};
static FaceGeom face_geometry(const FaceD &F) {
  FaceGeom G;
  G.N = V3(0.);
  G.P = 0.;
  G.D = 0.;
  const size_t n = F.v.size();
  if (n == 0)
    return G;
  for (size_t k = 0; k < n; ++k) {
    const V3 a = F.v[k] - F.v[0];
    const V3 b = F.v[(k + 1) % n] - F.v[0];
    G.N += 0.5 * V3::cross_product(a, b);
    G.P += (F.v[(k + 1) % n] - F.v[k]).norm();
    G.D = std::max(G.D, 2. * a.norm());
  }
  return G;
}

/// all checks on one constructed grid. `who` = "new" | "old". Returns true if no violation.
typedef std::vector< std::pair< std::string, std::string > > Findings;
static void write_findings(const Findings &F, const std::string &suffix) {
  std::set< std::string > seen;
  for (const auto &f : F)
    if (seen.insert(f.first).second) // first of each class per case
      w_violation(f.first + suffix, f.second);
}

static bool validate(const char *who, const Case &c, const GridD &D, const std::vector< V3 > &queries,
                     const Tol &T, Findings &found) {
  const size_t n = c.gen.size();
  bool ok = true;
  const std::string pre = fmt("C15:%s:", who);
  auto bad = [&](const char *what, const std::string &detail) {
    ok = false;
    found.push_back(std::make_pair(pre + what + ":" + c.family, fmt("case %s: ", c.name.c_str()) + detail));
  };
  const double V = c.sides.x() * c.sides.y() * c.sides.z();
  // tolerance of the sums: every vertex may be off by T.extra, which moves every face
  double surface = 0.;
  for (size_t i = 0; i < n; ++i)
    for (const FaceD &F : D.cells[i].faces)
      if (F.area > 0. && std::isfinite(F.area))
        surface += F.area;
  const double rel_sum = std::max(T.rel_sum, T.extra * surface / V);
  // 1. volumes
  double sum = 0.;
  for (size_t i = 0; i < n; ++i) {
    const double v = D.cells[i].vol;
    if (!(v > 0.) || !std::isfinite(v))
      bad("volume-not-positive", fmt("cell %zu of %zu has volume %.17g (generator %s)", i, n, v,
                                     v3s(c.gen[i]).c_str()));
    sum += v;
  }
  {
    const double err = std::fabs(sum - V) / V;
    w_max(fmt("%s_max_rel_volume_sum_error", who), std::isfinite(err) ? err : 1e300);
    w_max(fmt("%s_max_volume_sum_error_over_tol", who), std::isfinite(err) ? err / rel_sum : 1e300);
    if (!(err <= rel_sum))
      bad("volume-sum", fmt("cell volumes sum to %.17g, box volume %.17g (relative error %.3g, %zu cells)",
                            sum, V, err, n));
    else if (err > 0.1 * rel_sum)
      w_count(fmt("%s_volume_sum_within_10x_of_tolerance", who));
  }
  // 2. faces
  std::vector< double > wall_area(6, 0.);
  for (size_t i = 0; i < n; ++i) {
    const CellD &Ci = D.cells[i];
    V3 closed(0.);
    double closed_tol = 0.;
    std::set< size_t > partner_done;
    for (size_t k = 0; k < Ci.faces.size(); ++k) {
      const FaceD &F = Ci.faces[k];
      w_count(fmt("%s_faces", who));
      if (std::isnan(F.area) || F.area < 0.) {
        // NaN appears for faces of exactly zero area (0/0 midpoint); a NaN or negative *area* is wrong
        bad("face-area-invalid", fmt("cell %zu face %zu (neighbour %u) has area %g", i, k, F.ngb, F.area));
        continue;
      }
      if (!(F.area > T.Amin)) {
        w_count(fmt("%s_faces_below_area_threshold", who));
        if (F.area > 1.e-3 * T.Amin)
          w_count(fmt("%s_faces_within_1000x_below_area_threshold", who));
        continue;
      }
      if (F.area < 10. * T.Amin)
        w_count(fmt("%s_faces_within_10x_above_area_threshold", who));
      const FaceGeom G = face_geometry(F);
      const double Pd = G.P * T.delta; // area uncertainty of the polygon
      if (std::fabs(G.N.norm() - F.area) > 2. * Pd + 1.e-12 * F.area)
        w_count(fmt("%s_faces_area_differs_from_vertex_polygon(info)", who));
      const V3 nrm = G.N / G.N.norm();
      // tolerance of a face centroid / plane offset derived from the vertex accuracy
      const double tol_mid = 2. * T.delta * (1. + 2. * G.P * G.D / F.area);
      if (F.ngb >= WALL0) {
        // wall face: lies in the wall, normal = outward wall normal
        const int w = (int)(F.ngb - WALL0);
        const int axis = w / 2;
        const double coord = (w % 2) ? c.anchor[axis] + c.sides[axis] : c.anchor[axis];
        wall_area[w] += F.area;
        V3 wn(0.);
        wn[axis] = (w % 2) ? 1. : -1.;
        closed += F.area * wn;
        closed_tol += Pd;
        if (std::fabs(F.mid[axis] - coord) > tol_mid)
          bad("wall-face-off-wall", fmt("cell %zu wall face %d: midpoint %s is %.3g away from the wall (tol %.3g)",
                                        i, w, v3s(F.mid).c_str(), F.mid[axis] - coord, tol_mid));
        // the plane of the vertex polygon is the wall plane. The winding of the vertex list is not part of
        // the promised interface (users take the normal from get_wall_normal / the generator positions), so
        // the comparison is insensitive to the sign; inward windings are counted
        {
          const double sg = V3::dot_product(nrm, wn) < 0. ? -1. : 1.;
          if (sg < 0.)
            w_count(fmt("%s_faces_with_inward_vertex_winding(info)", who));
          if ((sg * nrm - wn).norm() > 2. * Pd / F.area + 1.e-9)
            bad("wall-face-orientation", fmt("cell %zu wall face %d: plane normal of the vertex polygon %s, wall normal %s",
                                             i, w, v3s(nrm).c_str(), v3s(wn).c_str()));
        }
        // generator on the inner side
        if (V3::dot_product(F.mid - c.gen[i], wn) < -tol_mid)
          bad("generator-outside-cell", fmt("cell %zu: generator %s beyond wall face %d", i,
                                            v3s(c.gen[i]).c_str(), w));
        continue;
      }
      if (F.ngb >= n) {
        bad("neighbour-index", fmt("cell %zu face %zu has neighbour index %u (%zu generators)", i, k, F.ngb, n));
        continue;
      }
      const size_t j = F.ngb;
      w_count(fmt("%s_faces_checked_against_partner", who));
      // generator inside: the face plane separates generator i from generator j, and is the bisector
      const V3 dij = c.gen[j] - c.gen[i];
      const double dist = dij.norm();
      const V3 u = dij / dist;
      const double s = V3::dot_product(F.mid - c.gen[i], u);
      closed += F.area * u;
      closed_tol += Pd;
      if (s < -tol_mid)
        bad("generator-outside-cell",
            fmt("cell %zu: generator %s lies beyond its face with cell %zu (signed distance %.3g)", i,
                v3s(c.gen[i]).c_str(), j, s));
      {
        const double e = std::fabs(s - 0.5 * dist);
        w_max(fmt("%s_max_bisector_offset_over_tol", who), e / tol_mid);
        if (e > tol_mid)
          bad("face-not-on-bisector",
              fmt("cells %zu/%zu: face midpoint %s is %.3g from the bisector plane (tol %.3g, area %.3g)", i, j,
                  v3s(F.mid).c_str(), s - 0.5 * dist, tol_mid, F.area));
        else if (e > 0.1 * tol_mid)
          w_count(fmt("%s_bisector_within_10x_of_tolerance", who));
      }
      // orientation: the face is perpendicular to the line joining the two generators (sign-insensitive,
      // see the wall faces)
      {
        const double sg = V3::dot_product(nrm, u) < 0. ? -1. : 1.;
        if (sg < 0.)
          w_count(fmt("%s_faces_with_inward_vertex_winding(info)", who));
        if ((sg * nrm - u).norm() > 2. * Pd / F.area + 1.e-9)
          bad("face-orientation", fmt("cells %zu/%zu: plane normal of the vertex polygon %s, direction to the "
                                      "neighbour %s (area %.3g)",
                                      i, j, v3s(nrm).c_str(), v3s(u).c_str(), F.area));
      }
      // partner: all faces of cell i with neighbour j taken together (a construction may split the
      // common face) against all faces of cell j with neighbour i
      if (partner_done.count(j))
        continue;
      partner_done.insert(j);
      struct Agg {
        double A = 0., P = 0., D = 0.;
        V3 M = V3(0.), N = V3(0.);
        int count = 0;
      } a, b;
      auto collect = [&](const CellD &cell, size_t ngb, const V3 &dir, Agg &g) {
        for (const FaceD &Ff : cell.faces) {
          if (Ff.ngb != ngb || !(Ff.area > 0.) || std::isnan(Ff.mid.x() + Ff.mid.y() + Ff.mid.z()))
            continue;
          const FaceGeom Gg = face_geometry(Ff);
          g.A += Ff.area;
          g.M += Ff.area * Ff.mid;
          g.N += (V3::dot_product(Gg.N, dir) < 0. ? -1. : 1.) * Gg.N;
          g.P += Gg.P;
          g.D = std::max(g.D, Gg.D);
          ++g.count;
        }
        if (g.A > 0.)
          g.M /= g.A;
      };
      collect(Ci, j, u, a);
      collect(D.cells[j], i, u, b);
      if (a.count > 1)
        w_count(fmt("%s_common_faces_split_in_several_polygons(info)", who));
      if (b.count == 0 && a.A <= 2. * a.D * T.extra) {
        // thinner than the vertex tolerance of this construction (only relevant for the old one,
        // whose plane test snaps vertices): negligible
        w_count(fmt("%s_faces_thinner_than_own_tolerance_without_partner", who));
        continue;
      }
      if (b.count == 0) {
        bad("face-without-partner", fmt("cell %zu has a face of area %.6g (midpoint %s) with cell %zu, which has no "
                                        "face with cell %zu",
                                        i, a.A, v3s(a.M).c_str(), j, i));
        continue;
      }
      const double tolA = 2. * (a.P + b.P) * T.delta + 1.e-12 * a.A;
      {
        const double e = std::fabs(b.A - a.A);
        w_max(fmt("%s_max_partner_area_error_over_tol", who), e / tolA);
        if (e > tolA)
          bad("partner-area", fmt("cells %zu/%zu: face areas %.17g and %.17g differ by %.3g (tol %.3g)", i, j, a.A,
                                  b.A, e, tolA));
        else if (e > 0.1 * tolA)
          w_count(fmt("%s_partner_area_within_10x_of_tolerance", who));
      }
      if (b.A > T.Amin) {
        const double e = (b.M - a.M).norm();
        const double tm = 2. * T.delta * (2. + 2. * a.P * a.D / a.A + 2. * b.P * b.D / b.A);
        w_max(fmt("%s_max_partner_midpoint_error_over_tol", who), e / tm);
        if (e > tm)
          bad("partner-midpoint", fmt("cells %zu/%zu: face midpoints %s and %s differ by %.3g (tol %.3g)", i, j,
                                      v3s(a.M).c_str(), v3s(b.M).c_str(), e, tm));
        else if (e > 0.1 * tm)
          w_count(fmt("%s_partner_midpoint_within_10x_of_tolerance", who));
        // opposite orientation: the outward normals are +-u by the per-polygon check; the area vectors
        // (brought to the same sign) of the two sides span the same plane
        const double en = (a.N - b.N).norm();
        if (en > 2. * (a.P + b.P) * T.delta + 1.e-12 * a.A)
          bad("partner-orientation", fmt("cells %zu/%zu: area vectors %s and %s do not match (|diff| %.3g)", i, j,
                                         v3s(a.N).c_str(), v3s(b.N).c_str(), en));
      }
    }
    if (closed.norm() > 2. * closed_tol + 1.e-12 * T.L * T.L)
      w_count(fmt("%s_cells_whose_area_vectors_do_not_sum_to_zero(info)", who));
  }
  // the walls are covered exactly once
  for (int w = 0; w < 6; ++w) {
    const int axis = w / 2;
    const double A = c.sides[(axis + 1) % 3] * c.sides[(axis + 2) % 3];
    const double err = std::fabs(wall_area[w] - A) / A;
    w_max(fmt("%s_max_rel_wall_area_error", who), err);
    if (!(err <= 10. * rel_sum))
      bad("wall-area-sum", fmt("faces on wall %d sum to %.17g, wall area %.17g", w, wall_area[w], A));
  }
  // 3. get_index = nearest generator
  size_t nq_bad = 0;
  for (size_t q = 0; q < queries.size(); ++q) {
    double dmin = DBL_MAX;
    size_t imin = 0;
    for (size_t i = 0; i < n; ++i) {
      const double d2 = (c.gen[i] - queries[q]).norm2();
      if (d2 < dmin) {
        dmin = d2;
        imin = i;
      }
    }
    const uint32_t r = D.qidx[q];
    w_count(fmt("%s_get_index_queries", who));
    if (r >= n) {
      if (nq_bad++ == 0)
        bad("get-index-range", fmt("get_index(%s) = %u with %zu generators", v3s(queries[q]).c_str(), r, n));
      continue;
    }
    const double dr = (c.gen[r] - queries[q]).norm();
    const double lim = std::sqrt(dmin) * (1. + 1.e-12) + 8. * DBL_EPSILON * T.L;
    if (dr > lim) {
      if (nq_bad++ == 0)
        bad("get-index-not-nearest", fmt("get_index(%s) = %u at distance %.17g, generator %zu is at %.17g",
                                         v3s(queries[q]).c_str(), r, dr, imin, std::sqrt(dmin)));
    } else if (r != imin)
      w_count(fmt("%s_get_index_ties", who));
  }
  return ok;
}

/// old against new (both valid)
static void compare(const Case &c, const GridD &N, const GridD &O, const Tol &T, const std::string &keyprefix) {
  const size_t n = c.gen.size();
  const double V = c.sides.x() * c.sides.y() * c.sides.z();
  auto bad = [&](const char *what, const std::string &detail) {
    w_violation(keyprefix + what + ":" + c.family, fmt("case %s: ", c.name.c_str()) + detail);
  };
  // area threshold for the neighbour relation: the old construction treats a vertex within
  // eps_old/|p| of a cutting plane as lying on it (eps_old = 2e-10 |sides|^2, |p| = half the generator
  // distance), so a face narrower than that may be missing: area <= diagonal * 2 eps_old / s_min
  double smin = DBL_MAX;
  for (size_t i = 0; i < n; ++i)
    for (size_t j = i + 1; j < n; ++j)
      smin = std::min(smin, (c.gen[i] - c.gen[j]).norm());
  const double eps_old = OLD_TOL_SPEC * c.sides.norm2();
  const double Acmp = std::max(T.Amin, 2. * c.sides.norm() * eps_old / smin);
  w_max("old_vs_new_neighbour_area_threshold_over_L2", Acmp / (T.L * T.L));
  bool vbad = false, cbad = false, nbad = false;
  for (size_t i = 0; i < n; ++i) {
    // surface area and extent of the cell (from the new construction) scale the allowance
    double Ai = 0., Di = 0.;
    for (const FaceD &F : N.cells[i].faces)
      if (F.area > T.Amin) {
        Ai += F.area;
        Di = std::max(Di, 2. * (F.mid - c.gen[i]).norm());
      }
    const double tolv = 1.e-10 * V + Ai * T.extra;
    const double ev = std::fabs(N.cells[i].vol - O.cells[i].vol);
    w_max("old_vs_new_max_volume_diff_over_tol", ev / tolv);
    w_max("old_vs_new_max_volume_diff_over_box_volume", ev / V);
    if (!(ev <= tolv)) {
      if (!vbad)
        bad("volume", fmt("cell %zu: new volume %.17g, old volume %.17g (difference %.3g, tol %.3g)", i,
                          N.cells[i].vol, O.cells[i].vol, ev, tolv));
      vbad = true;
    } else if (ev > 0.1 * tolv)
      w_count("old_vs_new_volume_within_10x_of_tolerance");
    const double tolc = 1.e-9 * T.L + T.extra * Ai * Di / N.cells[i].vol;
    const double ec = (N.cells[i].cen - O.cells[i].cen).norm();
    w_max("old_vs_new_max_centroid_diff_over_tol", ec / tolc);
    w_max("old_vs_new_max_centroid_diff_over_L", ec / T.L);
    if (!(ec <= tolc)) {
      if (!cbad)
        bad("centroid", fmt("cell %zu: new centroid %s, old centroid %s (distance %.3g, tol %.3g)", i,
                            v3s(N.cells[i].cen).c_str(), v3s(O.cells[i].cen).c_str(), ec, tolc));
      cbad = true;
    } else if (ec > 0.1 * tolc)
      w_count("old_vs_new_centroid_within_10x_of_tolerance");
    for (int dir = 0; dir < 2; ++dir) {
      const CellD &A = dir ? O.cells[i] : N.cells[i];
      const CellD &B = dir ? N.cells[i] : O.cells[i];
      for (const FaceD &F : A.faces) {
        if (!(F.area > Acmp))
          continue;
        if (F.area < 10. * Acmp)
          w_count("old_vs_new_faces_within_10x_of_neighbour_threshold");
        bool found = false;
        for (const FaceD &G : B.faces)
          if (G.ngb == F.ngb)
            found = true;
        w_count("old_vs_new_neighbour_relations_compared");
        if (!found && !nbad) {
          bad("neighbours", fmt("cell %zu: the %s construction has a face of area %.6g with %s %u, the %s one has none",
                                i, dir ? "old" : "new", F.area, F.ngb >= WALL0 ? "wall" : "cell", F.ngb,
                                dir ? "new" : "old"));
          nbad = true;
        }
      }
    }
  }
}

// ---------------------------------------------------------------------------
// precondition monitor and diagnosis of a failed new construction (reads private state)
// ---------------------------------------------------------------------------

/// every coordinate handed to the exact predicates must lie in [1,2) (C17 / NewVoronoiGrid.cpp:124-190):
/// rescaled generators, their six wall copies and the four corners of the enclosing tetrahedron
static bool rescaled_outside_range(const Case &c, std::string &what) {
  const NewVoronoiGrid g(c.gen, Box<>(c.anchor, c.sides));
  auto in_range = [](const V3 &p) {
    return p.x() >= 1. && p.x() < 2. && p.y() >= 1. && p.y() < 2. && p.z() >= 1. && p.z() < 2.;
  };
  for (int k = 0; k < 4; ++k) {
    const V3 p = g._real_rescaled_box.get_position(NEWVORONOICELL_BOX_CORNER0 + k, g._real_rescaled_positions[0]);
    if (!in_range(p)) {
      what = fmt("corner %d of the enclosing tetrahedron is rescaled to (%a,%a,%a) = %s", k, p.x(), p.y(), p.z(),
                 v3s(p).c_str());
      return true;
    }
  }
  for (size_t i = 0; i < c.gen.size(); ++i) {
    if (!in_range(g._real_rescaled_positions[i])) {
      what = fmt("generator %zu %s is rescaled to %s", i, v3s(c.gen[i]).c_str(),
                 v3s(g._real_rescaled_positions[i]).c_str());
      return true;
    }
    for (int w = 0; w < 6; ++w) {
      const V3 p = g._real_rescaled_box.get_position(NEWVORONOICELL_BOX_LEFT + w, g._real_rescaled_positions[i]);
      if (!in_range(p)) {
        what = fmt("wall copy %d of generator %zu is rescaled to %s", w, i, v3s(p).c_str());
        return true;
      }
    }
  }
  return false;
}

/// flattest tetrahedron (with the generator as vertex) in the Delaunay structures of all cells: the
/// predicates accept a tetrahedron on the rescaled coordinates, the geometry (circumcentres) is computed
/// from the real coordinates, where it may be flat (0/0) or a sliver (relative error eps / flatness).
/// flatness = 6 |volume| / (longest edge)^3.
static bool flat_real_tetrahedron(const Case &c, std::string &what) {
  if (c.gen.size() > 400)
    return false;
  const NewVoronoiGrid g(c.gen, Box<>(c.anchor, c.sides));
  NewVoronoiCellConstructor C;
  double fmin = DBL_MAX;
  for (size_t i = 0; i < c.gen.size(); ++i) {
    C.setup(i, g._real_generator_positions, g._real_voronoi_box, g._real_rescaled_positions, g._real_rescaled_box,
            true);
    for (size_t j = 0; j < c.gen.size(); ++j)
      if (j != i)
        C.intersect(j, g._real_rescaled_box, g._real_rescaled_positions, g._real_voronoi_box,
                    g._real_generator_positions);
    for (uint_fast32_t t = 0; t < C._tetrahedra_size; ++t) {
      const NewVoronoiTetrahedron &Tt = C._tetrahedra[t];
      if (!Tt.is_active())
        continue;
      bool has0 = false;
      V3 p[4];
      for (int k = 0; k < 4; ++k) {
        if (Tt.get_vertex(k) == 0)
          has0 = true;
        p[k] = C.get_position(C._vertices[Tt.get_vertex(k)], g._real_voronoi_box, g._real_generator_positions);
      }
      if (!has0)
        continue;
      const V3 a = p[1] - p[0], b = p[2] - p[0], d = p[3] - p[0];
      const double vol = std::fabs(V3::dot_product(a, V3::cross_product(b, d)));
      double l = 0.;
      for (int k = 0; k < 4; ++k)
        for (int m = k + 1; m < 4; ++m)
          l = std::max(l, (p[k] - p[m]).norm());
      const double f = vol / (l * l * l);
      if (f < fmin) {
        fmin = f;
        what = fmt("flattest Delaunay tetrahedron (cell %zu): %s %s %s %s, flatness 6|V|/l^3 = %.3g", i,
                   v3s(p[0]).c_str(), v3s(p[1]).c_str(), v3s(p[2]).c_str(), v3s(p[3]).c_str(), f);
      }
    }
  }
  // a circumcentre loses a factor 1/flatness: below 1e-5 the baseline accuracy 1e-10 is out of reach
  return fmin <= 1.e-5;
}

/// the diagnosis drives the real constructor again on an input it already mishandled: run it in a child
static std::string diagnose_forked(const Case &c, std::string &what) {
  int fd[2];
  if (pipe(fd) != 0)
    return ":unclassified";
  fflush(nullptr);
  const pid_t pid = fork();
  if (pid == 0) {
    close(fd[0]);
    alarm(60);
    std::string w;
    const bool flat = flat_real_tetrahedron(c, w);
    const std::string msg = (flat ? "1" : "0") + w;
    if (write(fd[1], msg.data(), msg.size()) < 0) {
    }
    _exit(0);
  }
  close(fd[1]);
  std::string msg;
  char buf[4096];
  ssize_t r;
  while ((r = read(fd[0], buf, sizeof(buf))) > 0)
    msg.append(buf, r);
  close(fd[0]);
  int status = 0;
  waitpid(pid, &status, 0);
  if (!(WIFEXITED(status) && WEXITSTATUS(status) == 0) || msg.empty())
    return ":unclassified";
  what = msg.substr(1);
  return msg[0] == '1' ? ":flat-real-tetrahedron" : ":unclassified";
}

static bool identical(const GridD &A, const GridD &B, std::string &what) {
  if (A.cells.size() != B.cells.size()) {
    what = "cell count";
    return false;
  }
  for (size_t i = 0; i < A.cells.size(); ++i) {
    const CellD &a = A.cells[i], &b = B.cells[i];
    if (a.vol != b.vol || a.cen != b.cen || a.faces.size() != b.faces.size()) {
      what = fmt("cell %zu volume/centroid/face count", i);
      return false;
    }
    for (size_t k = 0; k < a.faces.size(); ++k) {
      const FaceD &f = a.faces[k], &g = b.faces[k];
      const bool area_same = (f.area == g.area) || (std::isnan(f.area) && std::isnan(g.area));
      if (f.ngb != g.ngb || !area_same || f.v.size() != g.v.size()) {
        what = fmt("cell %zu face %zu", i, k);
        return false;
      }
    }
  }
  if (A.qidx != B.qidx) {
    what = "get_index results";
    return false;
  }
  return true;
}

static std::vector< V3 > query_lattice(const Case &c) {
  std::vector< V3 > Q;
  double t[17];
  for (int k = 0; k < 16; ++k)
    t[k] = k / 16.;
  t[16] = 1. - std::ldexp(1., -20); // the box is half open at the top
  for (int i = 0; i < 17; ++i)
    for (int j = 0; j < 17; ++j)
      for (int k = 0; k < 17; ++k)
        Q.push_back(V3(c.anchor.x() + t[i] * c.sides.x(), c.anchor.y() + t[j] * c.sides.y(),
                       c.anchor.z() + t[k] * c.sides.z()));
  return Q;
}

/// everything for one case, inside the worker
static void run_case(const Case &c, int stage_timeout, bool verbose) {
  const std::vector< V3 > Q = query_lattice(c);
  const Tol T = make_tol(c, false);
  const Tol TO = make_tol(c, true);
  long evals = 0;
  GridD N, O;
  alarm(stage_timeout);
  // precondition of the exact predicates
  w_begin("new-precondition");
  std::string regime;
  {
    std::string what;
    if (rescaled_outside_range(c, what)) {
      regime = ":rescaled-coordinate-outside-[1,2)";
      // the class is the box geometry, not the generator family
      w_violation(fmt("C15:new:rescaled-coordinate-outside-[1,2):box-sides=%gx%gx%g", c.sides.x(), c.sides.y(),
                      c.sides.z()),
                  fmt("case %s (box sides %s): %s; the exact predicates read the 52-bit mantissa and require "
                      "coordinates in [1,2)",
                      c.name.c_str(), v3s(c.sides).c_str(), what.c_str()));
    }
  }
  w_begin("new");
  construct(true, c, 1, Q, N);
  ++evals;
  w_begin("new-check");
  Findings fn;
  const bool nok = validate("new", c, N, Q, T, fn);
  w_count(nok ? "new_valid" : "new_invalid");
  if (!nok) {
    if (regime.empty()) {
      std::string what;
      regime = diagnose_forked(c, what);
      if (!what.empty())
        for (auto &f : fn)
          f.second += " [diagnosis: " + what + "]";
    }
    write_findings(fn, regime);
  }
  if (verbose)
    printf("  new construction: %s%s, %zu cells\n", nok ? "valid" : "INVALID", regime.c_str(), N.cells.size());
  if (c.threads > 1) {
    GridD N2;
    alarm(stage_timeout);
    w_begin("new-threads");
    construct(true, c, c.threads, Q, N2);
    ++evals;
    std::string what;
    if (!identical(N, N2, what))
      w_violation("C15:new:threads-differ-from-serial:" + c.family,
                  fmt("case %s: %d-thread construction differs from the serial one in %s", c.name.c_str(),
                      c.threads, what.c_str()));
    else
      w_count("new_threaded_identical_to_serial");
    Findings f2;
    if (!validate("new", c, N2, Q, T, f2) && nok)
      write_findings(f2, ":threaded");
  }
  if (c.run_old) {
    alarm(stage_timeout);
    w_begin("old");
    construct(false, c, 1, Q, O);
    ++evals;
    w_begin("old-check");
    // outside its domain the old construction is only observed
    Findings fo;
    // statistics of unjudged runs are kept apart
    const bool ook = validate(c.old_in_domain ? "old" : "old(outside-domain,info)", c, O, Q, TO, fo);
    if (c.old_in_domain)
      write_findings(fo, "");
    if (verbose)
      printf("  old construction: %s (%s its domain)\n", ook ? "valid" : "INVALID",
             c.old_in_domain ? "inside" : "outside");
    if (c.old_in_domain) {
      w_max("old_in_domain_smallest_margin_ratio(negated)", -c.margin_ratio);
      w_count(ook ? "old_valid" : "old_invalid");
      if (ook && nok)
        compare(c, N, O, TO, "C15:old-vs-new:");
    } else {
      w_count(ook ? "old_outside_domain_valid(info)" : "old_outside_domain_invalid(info)");
      if (!ook)
        w_count("old_outside_domain_invalid(info):" + c.family);
    }
    if (c.threads > 1) {
      GridD O2;
      alarm(stage_timeout);
      w_begin("old-threads");
      construct(false, c, c.threads, Q, O2);
      ++evals;
      std::string what;
      if (!identical(O, O2, what))
        w_violation("C15:old:threads-differ-from-serial:" + c.family,
                    fmt("case %s: %d-thread construction differs from the serial one in %s", c.name.c_str(),
                        c.threads, what.c_str()));
      else
        w_count("old_threaded_identical_to_serial");
    }
  }
  alarm(0);
  w_count("cells", (double)c.gen.size());
  w_end(evals, 1);
}

// ---------------------------------------------------------------------------
// parent: worker pool
// ---------------------------------------------------------------------------
struct Shared {
  std::atomic< long > next;
  std::atomic< int > stop;
};

struct Provider {
  std::string mode;
  long seed;
  bool thorough;
  std::vector< Case > list;       // families / threads
  const std::vector< uint32_t > *masks = nullptr; // subsets
  std::vector< double > amps;                      // perturbation amplitudes of the subsets
  long nsub() const { return masks ? (long)(masks->size() * amps.size()) : 0; }
  long size() const { return nsub() + (long)list.size(); }
  Case get(long i) const {
    if (i < nsub())
      return subset_case((*masks)[i % masks->size()], amps[i / masks->size()], seed);
    return list[i - nsub()];
  }
  long find(const std::string &name) const {
    for (long i = 0; i < size(); ++i)
      if (get(i).name == name)
        return i;
    return -1;
  }
};

static Provider make_provider(const std::string &mode, bool thorough, long seed) {
  Provider P;
  P.mode = mode;
  P.seed = seed;
  P.thorough = thorough;
  if (mode == "subsets_exact" || mode == "subsets_perturbed" || mode == "near_degenerate") {
    P.masks = thorough ? &g_subsets.all : &g_subsets.reps;
    if (mode == "subsets_exact")
      P.amps = {0.};
    else if (mode == "subsets_perturbed")
      P.amps = {1.e-3};
    else {
      P.amps = {1.e-6, 1.e-9, 1.e-12, 1.e-14}; // nearly degenerate: from far above to just above round-off
      P.list = near_degenerate_shells(thorough, seed);
    }
  } else if (mode == "families") {
    P.list = family_cases(thorough, seed);
  } else if (mode == "threads") {
    P.list = thread_cases(thorough, seed);
  } else {
    fprintf(stderr, "unknown mode %s\n", mode.c_str());
    exit(2);
  }
  return P;
}

static void worker_main(const Provider &P, Shared *sh, const std::string &file, long rot, double deadline_left,
                        int stage_timeout) {
  g_wf = fopen(file.c_str(), "w");
  if (!g_wf)
    _exit(3);
  if (!freopen((file + ".err").c_str(), "w", stderr)) {
  }
  const auto t0 = std::chrono::steady_clock::now();
  const long n = P.size();
  while (true) {
    if (sh->stop.load())
      break;
    const double el = std::chrono::duration< double >(std::chrono::steady_clock::now() - t0).count();
    if (el > deadline_left) {
      sh->stop.store(1);
      break;
    }
    const long k = sh->next.fetch_add(1);
    if (k >= n)
      break;
    g_task = (k + rot) % n;
    const Case c = P.get(g_task);
    run_case(c, stage_timeout, false);
  }
  fclose(g_wf);
  _exit(0);
}

struct WorkerSlot {
  pid_t pid = -1;
  std::string file;
};

static std::string tail_of(const std::string &file, size_t n) {
  std::string s = read_file(file);
  if (s.size() > n)
    s = s.substr(s.size() - n);
  return one_line(s);
}

/// parse one worker file into R; returns the unfinished task (or -1) and its stage
static void absorb(const std::string &file, Result &R, std::map< std::string, double > &cnt,
                   std::map< std::string, double > &mx, const Provider &P, long &open_task, std::string &open_stage,
                   std::set< long > &done) {
  const std::string txt = read_file(file);
  open_task = -1;
  size_t pos = 0;
  while (pos < txt.size()) {
    size_t e = txt.find('\n', pos);
    if (e == std::string::npos)
      break; // incomplete last line
    const std::string line = txt.substr(pos, e - pos);
    pos = e + 1;
    std::vector< std::string > f;
    size_t a = 0;
    while (true) {
      size_t b = line.find('\t', a);
      if (b == std::string::npos) {
        f.push_back(line.substr(a));
        break;
      }
      f.push_back(line.substr(a, b - a));
      a = b + 1;
    }
    if (f[0] == "B" && f.size() >= 3) {
      open_task = atol(f[1].c_str());
      open_stage = f[2];
    } else if (f[0] == "E" && f.size() >= 4) {
      const long t = atol(f[1].c_str());
      R.evaluations += atol(f[2].c_str());
      R.nontrivial += atol(f[3].c_str());
      done.insert(t);
      if (t % 97 == 0 || P.size() < 400) {
        const Case c = P.get(t);
        R.sample(fmt("{\"case\": \"%s\", \"family\": \"%s\", \"generators\": %zu, \"first\": \"%s\"}", c.name.c_str(),
                     c.family.c_str(), c.gen.size(), v3s(c.gen[0]).c_str()));
      }
      open_task = -1;
    } else if (f[0] == "V" && f.size() >= 4) {
      const long t = atol(f[1].c_str());
      const Case c = P.get(t);
      R.violation(f[2], f[3],
                  fmt("{\"mode\": \"%s\", \"case\": \"%s\", \"seed\": %ld}", P.mode.c_str(), c.name.c_str(), P.seed));
    } else if (f[0] == "C" && f.size() >= 3) {
      cnt[f[1]] += atof(f[2].c_str());
    } else if (f[0] == "M" && f.size() >= 3) {
      const double v = atof(f[2].c_str());
      auto it = mx.find(f[1]);
      if (it == mx.end() || v > it->second)
        mx[f[1]] = v;
    }
  }
}

static int run_pool(const Provider &P, Result &R, const Args &A, int nworkers, int stage_timeout) {
  const std::string tmp = fast_tmpdir();
  Shared *sh = (Shared *)mmap(nullptr, sizeof(Shared), PROT_READ | PROT_WRITE, MAP_SHARED | MAP_ANONYMOUS, -1, 0);
  new (sh) Shared();
  sh->next.store(0);
  sh->stop.store(0);
  const long n = P.size();
  const long rot = n ? (long)(((uint64_t)A.seed * 7919u) % (uint64_t)n) : 0;
  std::map< std::string, double > cnt, mx;
  std::set< long > done;
  std::vector< WorkerSlot > slots(nworkers);
  int serial = 0;
  long abnormal = 0;
  auto spawn = [&](WorkerSlot &S) {
    S.file = fmt("%s/c15_w%d_%d.txt", tmp.c_str(), (int)getpid(), serial++);
    fflush(nullptr);
    const double left = R.deadline - R.elapsed();
    pid_t pid = fork();
    if (pid == 0) {
      worker_main(P, sh, S.file, rot, left, stage_timeout);
      _exit(0);
    }
    S.pid = pid;
  };
  for (auto &S : slots)
    spawn(S);
  int live = nworkers;
  while (live > 0) {
    int status = 0;
    pid_t pid = waitpid(-1, &status, 0);
    if (pid < 0)
      break;
    WorkerSlot *S = nullptr;
    for (auto &s : slots)
      if (s.pid == pid)
        S = &s;
    if (!S)
      continue;
    long open_task;
    std::string open_stage;
    absorb(S->file, R, cnt, mx, P, open_task, open_stage, done);
    const bool clean = WIFEXITED(status) && WEXITSTATUS(status) == 0;
    if (!clean) {
      ++abnormal;
      std::string how = WIFSIGNALED(status)
                            ? (WTERMSIG(status) == SIGALRM
                                   ? fmt("timeout(>%ds)", stage_timeout)
                                   : (WTERMSIG(status) == SIGABRT ? std::string("abort")
                                                                  : fmt("signal-%d", WTERMSIG(status))))
                            : fmt("exit-%d", WEXITSTATUS(status));
      if (open_task >= 0) {
        const Case c = P.get(open_task);
        const bool is_old = open_stage.compare(0, 3, "old") == 0;
        const std::string msg = tail_of(S->file + ".err", 300);
        const std::string detail = fmt("case %s: the %s construction (stage %s) ended with %s; stderr: %s",
                                       c.name.c_str(), is_old ? "old" : "new", open_stage.c_str(), how.c_str(),
                                       msg.c_str());
        if (is_old && !c.old_in_domain) {
          cnt["old_outside_domain_abnormal_end(info)"] += 1;
          cnt["old_outside_domain_abnormal_end(info):" + c.family + ":" + how] += 1;
          R.evaluations += 1; // the new construction of this case completed
        } else {
          std::string regime, what;
          if (!is_old && rescaled_outside_range(c, what))
            regime = ":rescaled-coordinate-outside-[1,2)";
          R.violation(fmt("C15:%s:abnormal-end:%s:%s%s", is_old ? "old" : "new", c.family.c_str(),
                          how.substr(0, how.find('(')).c_str(), regime.c_str()),
                      detail + (what.empty() ? "" : " [" + what + "]"),
                      fmt("{\"mode\": \"%s\", \"case\": \"%s\", \"seed\": %ld}", P.mode.c_str(), c.name.c_str(),
                          P.seed));
        }
        done.insert(open_task);
      } else {
        R.violation("C15:harness:worker-died-between-cases", "worker ended with " + how);
      }
    }
    unlink(S->file.c_str());
    unlink((S->file + ".err").c_str());
    S->pid = -1;
    --live;
    // a worker that died is replaced while cases remain
    if (!clean && sh->next.load() < n && !sh->stop.load() && !R.out_of_time()) {
      spawn(*S);
      ++live;
    }
  }
  if ((long)done.size() < n)
    R.hit_deadline(fmt("mode %s: %zu of %ld cases done", P.mode.c_str(), done.size(), n));
  for (auto &kv : cnt)
    R.set(kv.first, kv.second);
  for (auto &kv : mx)
    R.set(kv.first, kv.second);
  R.set("cases", (double)n);
  R.set("cases_done", (double)done.size());
  R.set("worker_processes_ended_abnormally", (double)abnormal);
  munmap(sh, sizeof(Shared));
  remove_fast_tmpdir(tmp);
  return 0;
}

// ---------------------------------------------------------------------------
int main(int argc, char **argv) {
  Args A = parse_args(argc, argv);
  Result R(A);
  build_subsets();
#ifdef VERIF_WITH_OPENMP
  const std::string defmode = "threads";
#else
  const std::string defmode = "families";
#endif
  std::string mode = A.get("mode", defmode);
  long seed = A.seed;
  // a construction stage of the largest case (12^3 generators) takes a few seconds
  const int stage_timeout = (int)A.geti("stage-timeout", A.thorough() ? 120 : 30);

  if (!A.replay.empty()) {
    const std::string txt = read_file(A.replay);
    const std::string rmode = replay_field(txt, "mode");
    const std::string rcase = replay_field(txt, "case");
    const std::string rseed = replay_field(txt, "seed");
    if (!rseed.empty())
      seed = atol(rseed.c_str());
    if (!rmode.empty())
      mode = rmode;
#ifndef VERIF_WITH_OPENMP
    if (mode == "threads") {
      printf("replay: a case of part 'threads' needs the c15_voronoi_omp binary\n");
      return R.finish(A);
    }
#endif
    Provider P = make_provider(mode, true, seed);
    long t = P.find(rcase);
    if (t < 0) {
      P = make_provider(mode, false, seed);
      t = P.find(rcase);
    }
    if (t < 0) {
      printf("replay: case %s not found in mode %s\n", rcase.c_str(), mode.c_str());
      return R.finish(A);
    }
    const Case c = P.get(t);
    printf("replay case %s (family %s), box anchor %s sides %s, %zu generators\n", c.name.c_str(), c.family.c_str(),
           v3s(c.anchor).c_str(), v3s(c.sides).c_str(), c.gen.size());
    for (size_t i = 0; i < c.gen.size() && i < 40; ++i)
      printf("  generator %zu: %s\n", i, v3s(c.gen[i]).c_str());
    fflush(nullptr);
    const std::string tmp = fast_tmpdir();
    const std::string file = fmt("%s/c15_replay_%d.txt", tmp.c_str(), (int)getpid());
    pid_t pid = fork();
    if (pid == 0) {
      g_wf = fopen(file.c_str(), "w");
      g_task = t;
      run_case(c, stage_timeout, true);
      fclose(g_wf);
      fflush(nullptr);
      _exit(0);
    }
    int status = 0;
    waitpid(pid, &status, 0);
    std::map< std::string, double > cnt, mx;
    std::set< long > done;
    long open_task;
    std::string open_stage;
    absorb(file, R, cnt, mx, P, open_task, open_stage, done);
    if (!(WIFEXITED(status) && WEXITSTATUS(status) == 0)) {
      printf("  child ended abnormally (status 0x%x) in stage %s\n", status, open_stage.c_str());
      const bool is_old = open_stage.compare(0, 3, "old") == 0;
      if (!(is_old && !c.old_in_domain))
        R.violation(fmt("C15:%s:abnormal-end:%s:replay", is_old ? "old" : "new", c.family.c_str()),
                    "construction ended abnormally in stage " + open_stage);
    }
    for (auto &kv : cnt)
      printf("  %s = %.17g\n", kv.first.c_str(), kv.second);
    for (auto &kv : mx)
      printf("  %s = %.6g\n", kv.first.c_str(), kv.second);
    for (auto &v : R.violations)
      printf("  VIOLATION %s :: %s\n", v.key.c_str(), v.detail.c_str());
    unlink(file.c_str());
    remove_fast_tmpdir(tmp);
    return R.finish(A);
  }

  if (OLDVORONOI_TOLERANCE != OLD_TOL_SPEC)
    R.violation("C15:old:tolerance-constant-changed",
                fmt("OLDVORONOI_TOLERANCE is %.17g, the documented value the allowances are derived from is %.17g",
                    (double)OLDVORONOI_TOLERANCE, OLD_TOL_SPEC));
  const Provider P = make_provider(mode, A.thorough(), seed);
  int nworkers = (int)A.geti("workers", mode == "threads" ? 4 : 16);
  run_pool(P, R, A, nworkers, stage_timeout);
  R.set_str("mode", mode);
  R.rule = "evaluations = grid constructions of the real code (new and old, serial and threaded) that ran to completion "
           "and were checked; non-trivial = generator sets completely processed. Per construction: volumes > 0 and "
           "summing to the box volume, every face above 1e-12 L^2 has a partner of equal area, opposite orientation and "
           "matching midpoint, lies on the bisector of the two generators, walls covered exactly once, generator "
           "inside its cell, get_index on a 17^3 query lattice = brute-force nearest generator; old vs new: volumes, "
           "centroids, neighbour sets. Families are enumerated completely (subsets: all 2..4-subsets of the 3^3 "
           "lattice in the thorough tier, one representative per orbit of the 48 cube symmetries in the quick tier).";
  R.assumptions.push_back("the old (plane cutting) construction is bound by the property only on inputs that are farther "
                          "from degeneracy than its own tolerance OLDVORONOI_TOLERANCE (perturbed sets, clusters down to "
                          "2^-10); on exactly degenerate lattices/shells, clusters below 2^-10 and points 1e-9 from walls "
                          "its outcome is recorded in the evidence (info counters) and not judged");
  R.assumptions.push_back("generators strictly inside the box; query positions in the half-open box");
  return R.finish(A);
}
