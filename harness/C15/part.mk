# C15: both Voronoi grid constructions; serial parts on flavour plain, threaded part on flavour omp.
# -fno-access-control: the precondition monitor reads the rescaled box / positions of NewVoronoiGrid.
$(eval $(call HARNESS,c15_voronoi,$(V)/harness/C15/c15_voronoi.cpp,plain,-O2 -fno-access-control,))
$(eval $(call HARNESS,c15_voronoi_omp,$(V)/harness/C15/c15_voronoi.cpp,omp,-O2 -fno-access-control,))
