CHECK = {
    "id": "C14",
    "level": "fault_enumeration",
    "engine": "E2",
    "technique": "enumeration of all dump/process-restart histories inside a bound on the real RestartManager, "
                 "with the process killed at every interposed file-system operation of every dump",
    "level_text": "For every backup count 0..8 and every history of dumps and process restarts inside the bound the real "
                  "get_restart_writer/RestartWriter are executed with rename, fopen/open, write/writev, fclose and unlink "
                  "interposed; the directory after every dump is compared with a reference model (deque of payload ids) and "
                  "the dump is re-executed once per recorded operation (plus a torn variant of every write) in a child that "
                  "is killed there; the parent then reads every file back through the real RestartReader, and a fresh manager (new process) takes 3 (quick) / max(3,B+2) (thorough) further dumps in the directory the crash left, each of which must succeed and keep the rotation (reference model restarted from the files on disk, gaps closed). The set of crash "
                  "points of a dump is finite and every one is executed, so fault enumeration is the natural level.",
    "level_note": "A kill is modelled as process death between (or in the middle of) system calls with the kernel's view of "
                  "the files surviving (no power loss / no reordering of metadata and data on the disk, no fsync semantics). "
                  "Payloads are 12 KB so that the stream buffer is flushed several times during a dump.",
    "quick_deadline": 90,
    "thorough_deadline": 900,
    "parts": [{"name": "restart", "bin": "c14_restart"}],
    "assumptions": [
        "process death only: files keep what the kernel had accepted at the moment of the kill (no power failure, no fsync modelling)",
        "one process uses a restart directory at a time",
    ],
}
