// C14: restart dump rotation and crash safety of the real RestartManager /
// RestartWriter, by fault enumeration.
//
// For every backup count B and every history over {D = take a dump with a new
// payload, R = process restart: a new RestartManager on the same directory}
// inside the stated bound:
//  * the dump is first executed in a forked child with every file-system call
//    of the process interposed (rename, fopen/open, write/writev, fclose,
//    remove/unlink) -> event trace + exit status (an abort() of the real code
//    is an outcome, not a harness crash);
//  * the directory after the dump is compared with a boring reference model
//    (deque of at most B payload ids, newest first);
//  * for every event of the trace (and a torn variant of every write) the dump
//    is executed again in a forked child that is killed with _exit at that
//    event; the parent then inspects the directory: with B >= 1 a complete
//    dump of the previous state must still be on disk and readable through
//    the real RestartReader; a fresh manager (new process) must then be able
//    to take several further dumps in the directory the crash left behind,
//    and the rotation must hold again (reference model restarted from the
//    files on disk: restart.dump, then the existing backups newest first with
//    gaps closed; an incomplete restart.dump is an entry like any other).
// One worker process per B (own directory), results merged by the parent.
#include "RestartManager.hpp"
#include "RestartReader.hpp"
#include "RestartWriter.hpp"
#include "verif_common.hpp"

#include <algorithm>
#include <deque>
#include <dirent.h>
#include <dlfcn.h>
#include <fcntl.h>
#include <memory>
#include <sys/mman.h>
#include <sys/resource.h>
#include <sys/uio.h>
#include <sys/wait.h>

using namespace verif;

// ---------------------------------------------------------------------------
// interposition of the file-system calls made by the code under test
// ---------------------------------------------------------------------------
struct Event {
  char kind; // R rename, O open (truncating/creating), W write, C close, U unlink,
             // G get_restart_writer returned, P payload write call returned, X writer deleted
  int ret;   // return value (-999: not executed)
  int err;
  long n; // bytes (W), index (P)
  char a[48];
  char b[48];
};
static const int MAXEV = 400;
static const int MAXREC = 12;
struct Shared {
  volatile int nev;
  Event ev[MAXEV];
  // recovery dumps after a crash (taken by one fresh manager in one child)
  volatile int rec_done;      // dumps completed
  char rec_diff[MAXREC][32];  // rotation difference class after each of them ("" = equal)
  char rec_text[MAXREC][420]; // directory and model after each of them
};
static Shared *g_sh = nullptr;
static volatile int g_armed = 0;
static int g_crash_ev = -1;  // event index at which the process dies
static int g_crash_var = 0;  // 0: before the operation, 1: after half of a write
static std::string g_dir;    // directory of this worker (no trailing slash)
static int g_fds[16];
static FILE *g_files[16];
static int g_nfd = 0;
static const int CRASH_EXIT = 77;

static const char *base_in_dir(const char *p) {
  if (!p)
    return nullptr;
  size_t n = g_dir.size();
  if (strncmp(p, g_dir.c_str(), n) == 0 && p[n] == '/')
    return p + n + 1;
  return nullptr;
}
static int ev_begin(char kind, const char *a, const char *b, long n) {
  int j = g_sh->nev;
  if (j >= MAXEV)
    _exit(99);
  Event &e = g_sh->ev[j];
  e.kind = kind;
  e.ret = -999;
  e.err = 0;
  e.n = n;
  snprintf(e.a, sizeof(e.a), "%s", a ? a : "");
  snprintf(e.b, sizeof(e.b), "%s", b ? b : "");
  g_sh->nev = j + 1;
  if (j == g_crash_ev && g_crash_var == 0)
    _exit(CRASH_EXIT);
  return j;
}
static void ev_end(int j, int ret, int err) {
  g_sh->ev[j].ret = ret;
  g_sh->ev[j].err = err;
}
static void point(char kind, long n) {
  if (g_armed)
    ev_begin(kind, "", "", n);
}
static bool tracked_fd(int fd) {
  for (int i = 0; i < g_nfd; ++i)
    if (g_fds[i] == fd)
      return true;
  return false;
}
static void track(int fd, FILE *f) {
  if (g_nfd < 16) {
    g_fds[g_nfd] = fd;
    g_files[g_nfd] = f;
    ++g_nfd;
  }
}

template < typename F > static F real(const char *name) {
  void *p = dlsym(RTLD_NEXT, name);
  if (!p) {
    fprintf(stderr, "c14: dlsym(%s) failed\n", name);
    _exit(98);
  }
  return (F)p;
}

extern "C" {
int rename(const char *a, const char *b) {
  static auto r = real< int (*)(const char *, const char *) >("rename");
  if (!g_armed)
    return r(a, b);
  const char *ba = base_in_dir(a), *bb = base_in_dir(b);
  int j = ev_begin('R', ba ? ba : a, bb ? bb : b, 0);
  int ret = r(a, b);
  int e = errno;
  ev_end(j, ret, ret ? e : 0);
  errno = e;
  return ret;
}
static FILE *fopen_common(const char *which, const char *p, const char *m) {
  auto r = real< FILE *(*)(const char *, const char *) >(which);
  const char *bp = g_armed ? base_in_dir(p) : nullptr;
  if (!bp || !m || (m[0] != 'w' && m[0] != 'a' && !strchr(m, '+')))
    return r(p, m);
  int j = ev_begin('O', bp, m, 0);
  FILE *f = r(p, m);
  int e = errno;
  ev_end(j, f ? 0 : -1, f ? 0 : e);
  if (f)
    track(fileno(f), f);
  errno = e;
  return f;
}
FILE *fopen(const char *p, const char *m) { return fopen_common("fopen", p, m); }
FILE *fopen64(const char *p, const char *m) { return fopen_common("fopen64", p, m); }
static int open_common(const char *which, const char *p, int fl, mode_t mode) {
  auto r = real< int (*)(const char *, int, ...) >(which);
  const char *bp = g_armed ? base_in_dir(p) : nullptr;
  if (!bp || !(fl & (O_WRONLY | O_RDWR | O_CREAT | O_TRUNC)))
    return r(p, fl, mode);
  int j = ev_begin('O', bp, (fl & O_TRUNC) ? "O_TRUNC" : "open-w", 0);
  int fd = r(p, fl, mode);
  int e = errno;
  ev_end(j, fd >= 0 ? 0 : -1, fd >= 0 ? 0 : e);
  if (fd >= 0)
    track(fd, nullptr);
  errno = e;
  return fd;
}
int open(const char *p, int fl, ...) {
  mode_t mode = 0;
  if (fl & O_CREAT) {
    va_list ap;
    va_start(ap, fl);
    mode = va_arg(ap, int);
    va_end(ap);
  }
  return open_common("open", p, fl, mode);
}
int open64(const char *p, int fl, ...) {
  mode_t mode = 0;
  if (fl & O_CREAT) {
    va_list ap;
    va_start(ap, fl);
    mode = va_arg(ap, int);
    va_end(ap);
  }
  return open_common("open64", p, fl, mode);
}
ssize_t write(int fd, const void *buf, size_t n) {
  static auto r = real< ssize_t (*)(int, const void *, size_t) >("write");
  if (!g_armed || !tracked_fd(fd))
    return r(fd, buf, n);
  int j = ev_begin('W', "", "", (long)n);
  if (j == g_crash_ev && g_crash_var == 1) {
    r(fd, buf, n / 2);
    _exit(CRASH_EXIT);
  }
  ssize_t ret = r(fd, buf, n);
  int e = errno;
  ev_end(j, (int)ret, ret < 0 ? e : 0);
  errno = e;
  return ret;
}
ssize_t writev(int fd, const struct iovec *v, int c) {
  static auto r = real< ssize_t (*)(int, const struct iovec *, int) >("writev");
  static auto rw = real< ssize_t (*)(int, const void *, size_t) >("write");
  if (!g_armed || !tracked_fd(fd))
    return r(fd, v, c);
  long tot = 0;
  for (int i = 0; i < c; ++i)
    tot += (long)v[i].iov_len;
  int j = ev_begin('W', "v", "", tot);
  if (j == g_crash_ev && g_crash_var == 1) {
    long left = tot / 2;
    for (int i = 0; i < c && left > 0; ++i) {
      long k = std::min< long >(left, (long)v[i].iov_len);
      rw(fd, v[i].iov_base, k);
      left -= k;
    }
    _exit(CRASH_EXIT);
  }
  ssize_t ret = r(fd, v, c);
  int e = errno;
  ev_end(j, (int)ret, ret < 0 ? e : 0);
  errno = e;
  return ret;
}
int fclose(FILE *f) {
  static auto r = real< int (*)(FILE *) >("fclose");
  bool mine = false;
  if (g_armed)
    for (int i = 0; i < g_nfd; ++i)
      if (g_files[i] == f)
        mine = true;
  if (!mine)
    return r(f);
  int j = ev_begin('C', "", "", 0);
  int ret = r(f);
  int e = errno;
  ev_end(j, ret, ret ? e : 0);
  errno = e;
  return ret;
}
int close(int fd) {
  static auto r = real< int (*)(int) >("close");
  bool mine = false;
  if (g_armed)
    for (int i = 0; i < g_nfd; ++i)
      if (g_fds[i] == fd && g_files[i] == nullptr)
        mine = true;
  if (!mine)
    return r(fd);
  int j = ev_begin('C', "fd", "", 0);
  int ret = r(fd);
  int e = errno;
  ev_end(j, ret, ret ? e : 0);
  errno = e;
  return ret;
}
int remove(const char *p) {
  static auto r = real< int (*)(const char *) >("remove");
  const char *bp = g_armed ? base_in_dir(p) : nullptr;
  if (!bp)
    return r(p);
  int j = ev_begin('U', bp, "", 0);
  int ret = r(p);
  int e = errno;
  ev_end(j, ret, ret ? e : 0);
  errno = e;
  return ret;
}
int unlink(const char *p) {
  static auto r = real< int (*)(const char *) >("unlink");
  const char *bp = g_armed ? base_in_dir(p) : nullptr;
  if (!bp)
    return r(p);
  int j = ev_begin('U', bp, "", 0);
  int ret = r(p);
  int e = errno;
  ev_end(j, ret, ret ? e : 0);
  errno = e;
  return ret;
}
}

// ---------------------------------------------------------------------------
// payload: written through the real RestartWriter, read back through the real
// RestartReader
// ---------------------------------------------------------------------------
static const uint64_t MAGIC_HEAD = 0x43313448454144ull; // "C14HEAD"
static const uint64_t MAGIC_TAIL = 0x4331345441494cull; // "C14TAIL"
static const int NBLK = 3;
static const size_t BLKLEN = 4000;
static const int NPAYLOADCALLS = 4 + NBLK + 2;
static const size_t PAYLOAD_BYTES = 4 * 8 + NBLK * (8 + BLKLEN) + 2 * 8;

static std::string block(uint64_t id, int blk) {
  std::string s(BLKLEN, 'a');
  uint64_t x = id * 0x9E3779B97F4A7C15ull + (uint64_t)blk * 0xBF58476D1CE4E5B9ull + 1;
  for (size_t i = 0; i < BLKLEN; ++i) {
    x ^= x << 13;
    x ^= x >> 7;
    x ^= x << 17;
    s[i] = (char)('a' + (x % 26)); // never NUL: RestartReader reads strings as C strings
  }
  return s;
}
static void write_payload(RestartWriter &w, uint64_t id, uint64_t B) {
  long k = 0;
  w.write(MAGIC_HEAD);
  point('P', ++k);
  w.write(id);
  point('P', ++k);
  w.write(B);
  point('P', ++k);
  const uint64_t nblk = NBLK;
  w.write(nblk);
  point('P', ++k);
  uint64_t h = 1469598103934665603ull;
  for (int b = 0; b < NBLK; ++b) {
    const std::string s = block(id, b);
    h = fnv1a(s, h);
    w.write(s);
    point('P', ++k);
  }
  w.write(h);
  point('P', ++k);
  const uint64_t tail = MAGIC_TAIL ^ id;
  w.write(tail);
  point('P', ++k);
}

enum Status { MISSING = 0, INCOMPLETE = 1, CORRUPT = 2, COMPLETE = 3 };
struct FileInfo {
  Status status = MISSING;
  long id = -1; // payload id if a header could be read
  long size = -1;
  uint64_t hash = 0; // of the bytes, for files that are not complete dumps
  /// what the reference model tracks: the payload id of a complete dump, or a negative
  /// pseudo id for an incomplete file (the manager cannot tell, it rotates it like a dump)
  long entry() const {
    return status == COMPLETE ? id : -(long)(1000 + hash % 1000000000000ull);
  }
};
/// read a payload through the real RestartReader (the reader has no error
/// reporting, so the size is checked first)
static FileInfo read_payload_reader(RestartReader &r, long size) {
  FileInfo f;
  f.size = size;
  if (size < 16) {
    f.status = INCOMPLETE;
    return f;
  }
  const uint64_t head = r.read< uint64_t >();
  const uint64_t id = r.read< uint64_t >();
  if (head != MAGIC_HEAD) {
    f.status = CORRUPT;
    return f;
  }
  f.id = (long)id;
  if ((size_t)size != PAYLOAD_BYTES) {
    f.status = INCOMPLETE;
    return f;
  }
  r.read< uint64_t >(); // B
  const uint64_t nblk = r.read< uint64_t >();
  if (nblk != NBLK) {
    f.status = CORRUPT;
    return f;
  }
  uint64_t h = 1469598103934665603ull;
  for (int b = 0; b < NBLK; ++b) {
    const std::string s = r.read< std::string >();
    if (s != block(id, b)) {
      f.status = CORRUPT;
      return f;
    }
    h = fnv1a(s, h);
  }
  const uint64_t hh = r.read< uint64_t >();
  const uint64_t tail = r.read< uint64_t >();
  f.status = (hh == h && tail == (MAGIC_TAIL ^ id)) ? COMPLETE : CORRUPT;
  return f;
}
static FileInfo read_payload(const std::string &path) {
  struct stat st;
  if (stat(path.c_str(), &st) != 0)
    return FileInfo();
  RestartReader r(path);
  FileInfo f = read_payload_reader(r, (long)st.st_size);
  if (f.status != COMPLETE)
    f.hash = fnv1a(read_file(path));
  return f;
}

typedef std::map< std::string, FileInfo > Listing;
static Listing list_dir() {
  Listing l;
  DIR *d = opendir(g_dir.c_str());
  if (!d)
    return l;
  while (struct dirent *e = readdir(d)) {
    std::string n = e->d_name;
    if (n == "." || n == "..")
      continue;
    l[n] = read_payload(g_dir + "/" + n);
  }
  closedir(d);
  return l;
}
static const char *status_name(Status s) {
  static const char *n[] = {"missing", "incomplete", "corrupt", "complete"};
  return n[s];
}
static std::string listing_str(const Listing &l) {
  std::string s = "{";
  for (auto &kv : l) {
    if (s.size() > 1)
      s += ", ";
    s += kv.first + "=";
    if (kv.second.status == COMPLETE)
      s += fmt("#%ld", kv.second.id);
    else
      s += fmt("%s(id %ld, %ld bytes)", status_name(kv.second.status), kv.second.id,
               kv.second.size);
  }
  return s + "}";
}

typedef std::map< std::string, std::string > Snapshot;
static Snapshot snapshot_dir() {
  Snapshot s;
  DIR *d = opendir(g_dir.c_str());
  if (!d)
    return s;
  while (struct dirent *e = readdir(d)) {
    std::string n = e->d_name;
    if (n == "." || n == "..")
      continue;
    s[n] = read_file(g_dir + "/" + n);
  }
  closedir(d);
  return s;
}
static void wipe_dir() {
  DIR *d = opendir(g_dir.c_str());
  if (!d) {
    mkdir(g_dir.c_str(), 0700);
    return;
  }
  std::vector< std::string > names;
  while (struct dirent *e = readdir(d)) {
    std::string n = e->d_name;
    if (n != "." && n != "..")
      names.push_back(n);
  }
  closedir(d);
  for (auto &n : names)
    unlink((g_dir + "/" + n).c_str());
}
static void restore_dir(const Snapshot &s) {
  wipe_dir();
  for (auto &kv : s) {
    FILE *f = fopen((g_dir + "/" + kv.first).c_str(), "wb");
    if (!f) {
      perror("c14 restore");
      exit(4);
    }
    fwrite(kv.second.data(), 1, kv.second.size(), f);
    fclose(f);
  }
}

// ---------------------------------------------------------------------------
// reference model of the directory
// ---------------------------------------------------------------------------
struct Model {
  int B = 0;
  bool has_cur = false;
  long cur = -1;
  std::deque< long > back; // newest first
  void dump(long id) {
    if (has_cur && B > 0) {
      back.push_front(cur);
      while ((int)back.size() > B)
        back.pop_back();
    }
    cur = id;
    has_cur = true;
  }
  std::map< std::string, long > expected() const {
    std::map< std::string, long > e;
    if (has_cur)
      e["restart.dump"] = cur;
    for (size_t i = 0; i < back.size(); ++i)
      e[fmt("restart.%zu.back", i)] = back[i];
    return e;
  }
  std::string str() const {
    std::string s = "{";
    for (auto &kv : expected())
      s += (s.size() > 1 ? ", " : "") + kv.first +
           (kv.second >= 0 ? fmt("=#%ld", kv.second) : std::string("=<incomplete file>"));
    return s + "}";
  }
};
/// class of the first difference between the directory and the model ("" if none)
static std::string rotation_difference(const Listing &l, const Model &m) {
  auto exp = m.expected();
  auto it = l.find("restart.dump");
  if (m.has_cur && (it == l.end() || it->second.entry() != m.cur))
    return "dump-not-newest";
  std::set< long > on_disk;
  for (auto &kv : l)
    on_disk.insert(kv.second.entry());
  for (auto &kv : exp)
    if (!on_disk.count(kv.second))
      return "previous-dump-lost";
  for (auto &kv : exp) {
    auto f = l.find(kv.first);
    if (f == l.end() || f->second.entry() != kv.second)
      return "backup-misplaced";
  }
  for (auto &kv : l)
    if (!exp.count(kv.first))
      return "unexpected-file";
  return "";
}

// ---------------------------------------------------------------------------
// the operation under test
// ---------------------------------------------------------------------------
static void do_dump(RestartManager &m, long id, int B) {
  RestartWriter *w = m.get_restart_writer(nullptr);
  point('G', 0);
  write_payload(*w, (uint64_t)id, (uint64_t)B);
  delete w;
  point('X', 0);
}
static RestartManager *new_manager(int B) {
  return new RestartManager(g_dir, 1.e30, (uint_fast32_t)B, 1.e30, "");
}

struct State {
  std::unique_ptr< RestartManager > mgr;
  Model model;
  long next_id = 1;
  int restarts = 0;
};
/// rebuild the state reached by a history (all of whose dumps are known to succeed)
static void rebuild(const std::string &hist, int B, State &s) {
  wipe_dir();
  s.mgr.reset(new_manager(B));
  s.model = Model();
  s.model.B = B;
  s.next_id = 1;
  s.restarts = 0;
  for (char c : hist) {
    if (c == 'D') {
      do_dump(*s.mgr, s.next_id, B);
      s.model.dump(s.next_id);
      ++s.next_id;
    } else {
      s.mgr.reset(new_manager(B));
      ++s.restarts;
    }
  }
}

struct ChildResult {
  bool exited = false;
  int code = 0;
  int sig = 0;
  std::vector< Event > events;
  std::string err;
  std::string outcome() const {
    if (exited)
      return fmt("exit %d", code);
    return fmt("signal %d%s", sig, sig == SIGABRT ? " (abort)" : "");
  }
};
static std::string g_errfile;
/// run one dump in a forked child; crash_ev < 0: run to completion with tracing
static ChildResult run_child(RestartManager *mgr, int B, long id, int crash_ev, int crash_var,
                             bool fresh_manager) {
  g_sh->nev = 0;
  fflush(stdout);
  fflush(stderr);
  pid_t pid = fork();
  if (pid < 0) {
    perror("fork");
    exit(5);
  }
  if (pid == 0) {
    struct rlimit rl = {0, 0};
    setrlimit(RLIMIT_CORE, &rl);
    int fd = open(g_errfile.c_str(), O_WRONLY | O_CREAT | O_TRUNC, 0600);
    if (fd >= 0) {
      dup2(fd, 2);
      close(fd);
    }
    RestartManager *m = fresh_manager ? new_manager(B) : mgr;
    g_crash_ev = crash_ev;
    g_crash_var = crash_var;
    g_nfd = 0;
    g_armed = 1;
    do_dump(*m, id, B);
    g_armed = 0;
    _exit(0);
  }
  int st = 0;
  while (waitpid(pid, &st, 0) < 0 && errno == EINTR) {
  }
  ChildResult r;
  if (WIFEXITED(st)) {
    r.exited = true;
    r.code = WEXITSTATUS(st);
  } else if (WIFSIGNALED(st)) {
    r.sig = WTERMSIG(st);
  }
  int n = g_sh->nev;
  for (int i = 0; i < n && i < MAXEV; ++i)
    r.events.push_back(g_sh->ev[i]);
  r.err = read_file(g_errfile);
  return r;
}

/// the reference model of a directory as a crash left it: what is in restart.dump, and the
/// backups that exist, newest first (holes closed); an incomplete file is an entry like any other
static Model model_of_directory(const Listing &l, int B) {
  Model m;
  m.B = B;
  auto it = l.find("restart.dump");
  if (it != l.end()) {
    m.has_cur = true;
    m.cur = it->second.entry();
  }
  for (int i = 0; i < B; ++i) {
    auto f = l.find(fmt("restart.%d.back", i));
    if (f != l.end())
      m.back.push_back(f->second.entry());
  }
  return m;
}
struct RecoveryResult {
  ChildResult child;
  int done = 0;
  std::vector< std::string > diff, text;
};
/// a new process (fresh manager) takes n dumps in the current directory; after each of them the
/// child itself compares the directory with the model continued from `start`
static RecoveryResult run_recovery(int B, long first_id, int n, Model start) {
  g_sh->nev = 0;
  g_sh->rec_done = 0;
  fflush(stdout);
  fflush(stderr);
  pid_t pid = fork();
  if (pid < 0) {
    perror("fork");
    exit(5);
  }
  if (pid == 0) {
    struct rlimit rl = {0, 0};
    setrlimit(RLIMIT_CORE, &rl);
    int fd = open(g_errfile.c_str(), O_WRONLY | O_CREAT | O_TRUNC, 0600);
    if (fd >= 0) {
      dup2(fd, 2);
      close(fd);
    }
    RestartManager *m = new_manager(B);
    g_crash_ev = -1;
    for (int k = 0; k < n; ++k) {
      g_sh->nev = 0; // keep the trace of the dump in progress only
      g_nfd = 0;
      g_armed = 1;
      do_dump(*m, first_id + k, B);
      g_armed = 0;
      start.dump(first_id + k);
      const Listing l = list_dir();
      const std::string d = rotation_difference(l, start);
      snprintf(g_sh->rec_diff[k], sizeof(g_sh->rec_diff[k]), "%s", d.c_str());
      snprintf(g_sh->rec_text[k], sizeof(g_sh->rec_text[k]), "directory %s, model %s",
               listing_str(l).c_str(), start.str().c_str());
      g_sh->rec_done = k + 1;
    }
    _exit(0);
  }
  int st = 0;
  while (waitpid(pid, &st, 0) < 0 && errno == EINTR) {
  }
  RecoveryResult r;
  if (WIFEXITED(st)) {
    r.child.exited = true;
    r.child.code = WEXITSTATUS(st);
  } else if (WIFSIGNALED(st))
    r.child.sig = WTERMSIG(st);
  for (int i = 0; i < g_sh->nev && i < MAXEV; ++i)
    r.child.events.push_back(g_sh->ev[i]);
  r.child.err = read_file(g_errfile);
  r.done = g_sh->rec_done;
  for (int k = 0; k < r.done; ++k) {
    r.diff.push_back(g_sh->rec_diff[k]);
    r.text.push_back(g_sh->rec_text[k]);
  }
  return r;
}

static std::string event_class(const Event &e) {
  switch (e.kind) {
  case 'R':
    return strcmp(e.a, "restart.dump") == 0 ? "rename-current" : "rename-shift";
  case 'O':
    return "open-truncate";
  case 'W':
    return "write";
  case 'C':
    return "close";
  case 'U':
    return "unlink";
  case 'G':
    return "writer-returned";
  case 'P':
    return "payload-call";
  case 'X':
    return "writer-deleted";
  }
  return "other";
}
static std::string event_str(const Event &e) {
  switch (e.kind) {
  case 'R':
    return fmt("rename(%s,%s)=%d%s", e.a, e.b, e.ret, e.ret == -1 ? fmt(" errno %d", e.err).c_str() : "");
  case 'O':
    return fmt("open(%s,%s)=%d", e.a, e.b, e.ret);
  case 'W':
    return fmt("write(%ld bytes)=%d", e.n, e.ret);
  case 'C':
    return fmt("close=%d", e.ret);
  case 'U':
    return fmt("unlink(%s)=%d", e.a, e.ret);
  case 'G':
    return "[get_restart_writer returned]";
  case 'P':
    return fmt("[payload call %ld done]", e.n);
  case 'X':
    return "[writer deleted]";
  }
  return "?";
}
static std::string trace_str(const std::vector< Event > &ev) {
  std::string s;
  for (size_t i = 0; i < ev.size(); ++i)
    s += (i ? " ; " : "") + fmt("%zu:", i) + event_str(ev[i]);
  return s;
}
static bool is_fs(const Event &e) { return strchr("ROWCU", e.kind) != nullptr; }
/// class of a dump that did not complete (from the child's status and the last traced operation)
static std::string failure_cause(const ChildResult &t) {
  std::string cause = t.exited ? fmt("exit-%d", t.code) : fmt("signal-%d", t.sig);
  if (!t.events.empty()) {
    const Event &last = t.events.back();
    if (is_fs(last) && last.ret == -1)
      cause = event_class(last) + fmt("-failed-errno-%d", last.err) + (t.sig == SIGABRT ? "-abort" : "");
    else if (t.sig == SIGABRT)
      cause = "abort-after-" + event_class(last);
  } else if (t.sig == SIGABRT)
    cause = "abort-before-any-operation";
  return cause;
}

// ---------------------------------------------------------------------------
// per-B worker
// ---------------------------------------------------------------------------
struct Bounds {
  int A;  // dumps before the first process restart
  int Bb; // dumps after the first restart: min(B + extra, cap)
  int Cc; // dumps after the second restart
  int recovery; // dumps a fresh manager takes in the directory every crash leaves behind
};
struct Worker {
  int B;
  Bounds bd;
  Result *R;
  uint64_t recov_dumps = 0;
  uint64_t edges = 0, crash_runs = 0, crash_nontrivial = 0, rot_checks = 0, recov_runs = 0,
           fs_events = 0, blocked = 0, lost_B0 = 0, rebuild_checks = 0, histories = 0,
           reader_checks = 0;
  std::map< std::string, std::string > first_canon; // history -> listing (replay determinism)

  std::string replay_json(const std::string &hist, int ev, int var) const {
    return fmt("{\"B\": %d, \"history\": \"%s\", \"crash_event\": %d, \"variant\": %d}", B,
               hist.c_str(), ev, var);
  }
  std::string regime(const State &s) const {
    return s.restarts ? "restarted-manager" : "first-manager";
  }

  /// examine the edge hist -> hist+"D"; false if the dump failed (no continuation)
  bool examine_edge(const std::string &hist, bool verbose = false, int only_ev = -2,
                    int only_var = 0) {
    State s;
    rebuild(hist, B, s);
    ++edges;
    const Listing before = list_dir();
    // replay determinism: the directory rebuilt in-process must be the one the traced child
    // produced when this history was executed for the first time
    {
      std::string key = hist;
      while (!key.empty() && key.back() == 'R')
        key.pop_back();
      auto it = first_canon.find(key);
      if (it != first_canon.end()) {
        ++rebuild_checks;
        const std::string canon = listing_str(before);
        if (it->second != canon)
          R->violation("C14:harness:rebuild-not-deterministic",
                       fmt("B=%d history %s: first %s, rebuilt %s", B, hist.c_str(), it->second.c_str(),
                           canon.c_str()));
      }
    }
    const Snapshot snap = snapshot_dir();
    const long id = s.next_id;
    const std::string reg = regime(s);
    // 1. traced execution to completion
    ChildResult t = run_child(s.mgr.get(), B, id, -1, 0, false);
    ++R->evaluations;
    fs_events += t.events.size();
    if (verbose)
      printf("B=%d history %s + D(#%ld): %s\n  before: %s\n  trace: %s\n", B, hist.c_str(), id,
             t.outcome().c_str(), listing_str(before).c_str(), trace_str(t.events).c_str());
    if (!(t.exited && t.code == 0)) {
      std::string cause = t.exited ? fmt("exit-%d", t.code) : fmt("signal-%d", t.sig);
      if (!t.events.empty()) {
        const Event &last = t.events.back();
        if (is_fs(last) && last.ret == -1)
          cause = event_class(last) + fmt("-failed-errno-%d", last.err) +
                  (t.sig == SIGABRT ? "-abort" : "");
        else if (t.sig == SIGABRT)
          cause = "abort-after-" + event_class(last);
      } else if (t.sig == SIGABRT)
        cause = "abort-before-any-operation";
      std::string msg = t.err;
      for (char &c : msg)
        if (c == '\n')
          c = ' ';
      R->violation("C14:dump-fails:" + reg + ":" + cause,
                   fmt("B=%d, history %s, dump of payload #%ld does not complete: %s; directory before "
                       "%s; operations: %s; stderr: %.300s",
                       B, hist.c_str(), id, t.outcome().c_str(), listing_str(before).c_str(),
                       trace_str(t.events).c_str(), msg.c_str()),
                   replay_json(hist, -1, 0));
      if (verbose)
        printf("  stderr: %s\n", t.err.c_str());
      ++blocked;
      return false;
    }
    // 2. rotation against the reference model
    Model after = s.model;
    after.dump(id);
    {
      const Listing l = list_dir();
      first_canon[hist + "D"] = listing_str(l);
      ++rot_checks;
      std::string shape;
      for (auto &kv : l)
        shape += kv.first + fmt(":%d:%ld;", (int)kv.second.status, id - kv.second.id);
      R->distinct.insert(fnv1a(fmt("rot|%d|%s|%d|", B, shape.c_str(), s.restarts ? 1 : 0)));
      const std::string diff = rotation_difference(l, after);
      if (verbose)
        printf("  after: %s\n  model: %s  %s\n", listing_str(l).c_str(), after.str().c_str(),
               diff.empty() ? "(equal)" : diff.c_str());
      if (!diff.empty())
        R->violation("C14:rotation:" + reg + ":" + diff,
                     fmt("B=%d, history %s then dump #%ld: directory %s, reference model %s "
                         "(before the dump: %s); operations: %s",
                         B, hist.c_str(), id, listing_str(l).c_str(), after.str().c_str(),
                         listing_str(before).c_str(), trace_str(t.events).c_str()),
                     replay_json(hist, -1, 0));
      // the manager's own reader must deliver the newest payload
      ++reader_checks;
      RestartReader *rr = s.mgr->get_restart_reader(nullptr);
      struct stat st;
      long sz = stat((g_dir + "/restart.dump").c_str(), &st) == 0 ? (long)st.st_size : -1;
      FileInfo fi = read_payload_reader(*rr, sz);
      delete rr;
      if (fi.status != COMPLETE || fi.id != id)
        R->violation("C14:reader:" + reg + ":newest-not-readable",
                     fmt("B=%d, history %s then dump #%ld: get_restart_reader gives %s id %ld", B,
                         hist.c_str(), id, status_name(fi.status), fi.id),
                     replay_json(hist, -1, 0));
    }
    // 3. crash at every event
    bool reported_loss = false;
    std::string last_fs = "start";
    for (int j = 0; j < (int)t.events.size(); ++j) {
      const int nvar = t.events[j].kind == 'W' ? 2 : 1;
      for (int var = 0; var < nvar; ++var) {
        if (only_ev != -2 && (j != only_ev || var != only_var))
          continue;
        restore_dir(snap);
        ChildResult c = run_child(s.mgr.get(), B, id, j, var, false);
        ++crash_runs;
        ++R->evaluations;
        if (!(c.exited && c.code == CRASH_EXIT)) {
          R->violation("C14:harness:crash-point-not-reached",
                       fmt("B=%d history %s event %d: child ended with %s", B, hist.c_str(), j,
                           c.outcome().c_str()),
                       replay_json(hist, j, var));
          continue;
        }
        const Listing l = list_dir();
        bool prev_ok = true;
        if (s.model.has_cur) {
          prev_ok = false;
          for (auto &kv : l)
            if (kv.second.status == COMPLETE && kv.second.id == s.model.cur)
              prev_ok = true;
        }
        std::string where = var ? "torn-write" : ("before-" + event_class(t.events[j]));
        if (verbose)
          printf("  crash at %d (%s, after %s): %s -> previous #%ld %s\n", j, where.c_str(),
                 last_fs.c_str(), listing_str(l).c_str(), s.model.cur,
                 prev_ok ? "present" : "LOST");
        if (s.model.has_cur && B >= 1) {
          ++crash_nontrivial;
          std::string shape;
          for (auto &kv : l)
            shape += kv.first + fmt(":%d:%ld;", (int)kv.second.status, id - kv.second.id);
          R->distinct.insert(fnv1a(fmt("crash|%d|%s|%s|%d|%d", B, shape.c_str(),
                                       event_class(t.events[j]).c_str(), var, s.restarts ? 1 : 0)));
          if (!prev_ok) {
            if (!reported_loss || only_ev != -2) {
              reported_loss = true;
              R->violation(
                  "C14:crash-loses-previous:" + reg + ":after-" + (var ? "torn-write" : last_fs),
                  fmt("B=%d, history %s, process killed during the dump of #%ld at operation %d (%s; "
                      "last completed file-system operation: %s): no complete copy of the previous "
                      "dump #%ld is left; directory %s; before the dump %s; operations of the dump: %s",
                      B, hist.c_str(), id, j, where.c_str(),
                      j > 0 ? event_str(t.events[j - 1]).c_str() : "none", s.model.cur,
                      listing_str(l).c_str(), listing_str(before).c_str(),
                      trace_str(t.events).c_str()),
                  replay_json(hist, j, var));
            } else
              ++R->violation_count;
          }
        } else if (s.model.has_cur && !prev_ok)
          ++lost_B0;
        // 4. a new process (fresh manager) must be able to keep dumping into what the crash left
        //    behind, and the rotation must hold again starting from that directory
        if (bd.recovery > 0) {
          const long rid = id + 1000;
          const std::string crashed_after = var ? "torn-write" : last_fs;
          const Model start = model_of_directory(l, B);
          RecoveryResult rr = run_recovery(B, rid, bd.recovery, start);
          ++recov_runs;
          recov_dumps += rr.done;
          R->evaluations += 1 + rr.done;
          if (verbose)
            printf("    recovery by a new manager: %d of %d dumps completed, %s\n", rr.done, bd.recovery,
                   rr.child.outcome().c_str());
          for (int k = 0; k < rr.done; ++k) {
            if (verbose)
              printf("      after recovery dump %d: %s %s\n", k + 1, rr.text[k].c_str(),
                     rr.diff[k].empty() ? "(equal)" : rr.diff[k].c_str());
            if (!rr.diff[k].empty()) {
              R->violation(fmt("C14:rotation:after-crash-restart:%s:crashed-after-%s", rr.diff[k].c_str(),
                               crashed_after.c_str()),
                           fmt("B=%d, history %s, process killed at operation %d (%s) of dump #%ld leaving %s; "
                               "a new manager then dumps #%ld..: after its dump %d: %s",
                               B, hist.c_str(), j, where.c_str(), id, listing_str(l).c_str(), rid, k + 1,
                               rr.text[k].c_str()),
                           replay_json(hist, j, var));
              break; // later differences are consequences
            }
          }
          if (!(rr.child.exited && rr.child.code == 0)) {
            std::string msg = rr.child.err;
            for (char &ch : msg)
              if (ch == '\n')
                ch = ' ';
            R->violation(fmt("C14:dump-fails:after-crash-restart:%s:crashed-after-%s:recovery-dump-%d",
                             failure_cause(rr.child).c_str(), crashed_after.c_str(), rr.done + 1),
                         fmt("B=%d, history %s, process killed at operation %d (%s) of dump #%ld leaving %s; a "
                             "new manager then takes dumps #%ld..: its dump %d does not complete: %s; operations "
                             "of that dump: %s; %s; stderr: %.300s",
                             B, hist.c_str(), j, where.c_str(), id, listing_str(l).c_str(), rid, rr.done + 1,
                             rr.child.outcome().c_str(), trace_str(rr.child.events).c_str(),
                             rr.done ? ("after the previous one: " + rr.text[rr.done - 1]).c_str() : "",
                             msg.c_str()),
                         replay_json(hist, j, var));
          }
        }
      }
      if (is_fs(t.events[j]))
        last_fs = event_class(t.events[j]);
    }
    return true;
  }

  void chain(const std::string &prefix, int maxd, int level) {
    std::string h = prefix;
    for (int d = 1; d <= maxd; ++d) {
      if (R->out_of_time()) {
        R->hit_deadline(fmt("B=%d at history %s", B, h.c_str()));
        return;
      }
      const bool ok = examine_edge(h);
      ++histories;
      if (R->samples.size() < 2 && d == std::min(maxd, 3) && level <= 1)
        R->sample(fmt("{\"B\": %d, \"history\": \"%sD\", \"dump_ok\": %s}", B, h.c_str(),
                      ok ? "true" : "false"));
      if (!ok)
        break;
      h += "D";
      if (level == 0)
        chain(h + "R", bd.Bb, 1);
      else if (level == 1)
        chain(h + "R", bd.Cc, 2);
    }
    if (level == 0)
      chain(prefix + "R", bd.Bb, 1); // process restart on an empty directory
  }
};

static Bounds bounds_for(const Args &A, int B) {
  Bounds b;
  if (A.thorough()) {
    b.A = 20;
    b.Bb = B + 3;
    b.Cc = 2;
  } else {
    b.A = (int)A.geti("quick-dumps", 10);
    b.Bb = std::min(B + 2, 5);
    b.Cc = 1;
  }
  b.recovery = A.thorough() ? std::min(MAXREC, std::max(3, B + 2)) : 3;
  if (A.kv.count("recovery-dumps"))
    b.recovery = std::min(MAXREC, (int)A.geti("recovery-dumps", 3));
  return b;
}

static void setup_worker_dirs(const std::string &tmp, int B) {
  g_dir = tmp + fmt("/c14_B%d", B);
  mkdir(g_dir.c_str(), 0700);
  g_errfile = tmp + fmt("/c14_B%d.err", B);
  if (!g_sh) {
    g_sh = (Shared *)mmap(nullptr, sizeof(Shared), PROT_READ | PROT_WRITE,
                          MAP_SHARED | MAP_ANONYMOUS, -1, 0);
    if (g_sh == MAP_FAILED) {
      perror("mmap");
      exit(6);
    }
  }
}

static void write_worker_result(const std::string &file, Worker &w, Result &R) {
  FILE *f = fopen(file.c_str(), "w");
  fprintf(f, "C\t%" PRIu64 "\t%" PRIu64 "\t%" PRIu64 "\t%" PRIu64 "\t%" PRIu64 "\t%" PRIu64
             "\t%" PRIu64 "\t%" PRIu64 "\t%" PRIu64 "\t%" PRIu64 "\t%" PRIu64 "\t%" PRIu64 "\t%" PRIu64 "\t%" PRIu64 "\n",
          R.evaluations, w.edges, w.crash_runs, w.crash_nontrivial, w.rot_checks, w.recov_runs,
          w.fs_events, w.blocked, w.lost_B0, w.rebuild_checks, w.histories, R.violation_count,
          w.reader_checks, w.recov_dumps);
  for (uint64_t h : R.distinct)
    fprintf(f, "H\t%" PRIu64 "\n", h);
  for (auto &s : R.samples)
    fprintf(f, "S\t%s\n", s.c_str());
  for (auto &c : R.caps)
    fprintf(f, "K\t%s\n", c.c_str());
  for (auto &v : R.violations) {
    std::string d = v.detail;
    for (char &c : d)
      if (c == '\n' || c == '\t')
        c = ' ';
    fprintf(f, "V\t%s\t%s\t%s\n", v.key.c_str(), v.replay.c_str(), d.c_str());
  }
  fclose(f);
}

int main(int argc, char **argv) {
  Args A = parse_args(argc, argv);
  Result R(A);
  const std::string tmp = fast_tmpdir();
  R.rule = "one case = (backup count B, history over D=dump/R=new manager on the same directory, "
           "event of the last dump at which the process is killed | none); the events are all "
           "rename/open/write/close/unlink calls the real code makes (interposed), the return of "
           "get_restart_writer, every payload write call and the writer's destruction, plus a torn "
           "variant of every write; distinct non-trivial = distinct (B, regime, event class, resulting "
           "directory shape [file names, completeness, age of the payload in each file]) among the "
           "cases where the oracle is not vacuous (crash really injected, B>=1 and a previous dump "
           "exists) plus distinct directory shapes after completed dumps";

  if (!A.replay.empty()) {
    const std::string txt = read_file(A.replay);
    const std::string rp = replay_field(txt, "replay");
    const int B = atoi(replay_field(rp, "B").c_str());
    const std::string hist = replay_field(rp, "history");
    const int ev = atoi(replay_field(rp, "crash_event").c_str());
    const int var = atoi(replay_field(rp, "variant").c_str());
    setup_worker_dirs(tmp, B);
    Worker w;
    w.B = B;
    w.bd = bounds_for(A, B);
    w.R = &R;
    printf("replay: B=%d history=%s crash_event=%d variant=%d\n", B, hist.c_str(), ev, var);
    // make sure the prefix is executable (every dump of it runs in a child first)
    bool ok = true;
    for (size_t i = 0; i < hist.size() && ok; ++i)
      if (hist[i] == 'D') {
        Result dummy(A);
        Worker pw = w;
        pw.R = &dummy;
        ok = pw.examine_edge(hist.substr(0, i), false, -3, 0);
        if (!ok)
          printf("the prefix %s already fails at its last dump\n", hist.substr(0, i + 1).c_str());
      }
    if (ok)
      w.examine_edge(hist, true, ev < 0 ? -3 : ev, var);
    remove_fast_tmpdir(tmp);
    return R.finish(A);
  }

  std::vector< int > Bs;
  if (A.kv.count("B"))
    Bs.push_back((int)A.geti("B", 1));
  else if (A.thorough())
    for (int b = 0; b <= 8; ++b)
      Bs.push_back(b);
  else
    Bs = {0, 1, 2, 3, 5, 8}; // quick: sub-lattice of the backup counts
  // one worker process per B; heavier ones first
  std::vector< pid_t > pids;
  for (int i = (int)Bs.size() - 1; i >= 0; --i) {
    const int B = Bs[i];
    fflush(stdout);
    pid_t pid = fork();
    if (pid == 0) {
      setup_worker_dirs(tmp, B);
      Result RW(A);
      Worker w;
      w.B = B;
      w.bd = bounds_for(A, B);
      w.R = &RW;
      w.chain("", w.bd.A, 0);
      write_worker_result(tmp + fmt("/c14_B%d.res", B), w, RW);
      _exit(0);
    }
    pids.push_back(pid);
  }
  for (pid_t p : pids) {
    int st;
    while (waitpid(p, &st, 0) < 0 && errno == EINTR) {
    }
  }
  uint64_t tot[14] = {0};
  std::string perB = "{";
  for (int B : Bs) {
    const std::string txt = read_file(tmp + fmt("/c14_B%d.res", B));
    if (txt.empty()) {
      R.violation(fmt("C14:harness:worker-died:B=%d", B), "the worker process for this backup count "
                                                           "did not deliver a result");
      R.cap(fmt("worker B=%d died", B));
      continue;
    }
    std::istringstream in(txt);
    std::string line;
    while (std::getline(in, line)) {
      if (line.size() < 2)
        continue;
      std::vector< std::string > f;
      size_t p = 2;
      const int nf = line[0] == 'V' ? 3 : (line[0] == 'C' ? 14 : 1);
      for (int k = 0; k < nf - 1; ++k) {
        size_t q = line.find('\t', p);
        if (q == std::string::npos)
          break;
        f.push_back(line.substr(p, q - p));
        p = q + 1;
      }
      f.push_back(line.substr(p));
      switch (line[0]) {
      case 'C': {
        uint64_t v[14] = {0};
        for (size_t k = 0; k < f.size() && k < 14; ++k)
          v[k] = strtoull(f[k].c_str(), nullptr, 10);
        for (int k = 0; k < 14; ++k)
          tot[k] += v[k];
        perB += fmt("%s\"%d\": {\"dump_edges\": %" PRIu64 ", \"crash_runs\": %" PRIu64
                    ", \"failed_dumps\": %" PRIu64 "}",
                    perB.size() > 1 ? ", " : "", B, v[1], v[2], v[7]);
        break;
      }
      case 'H':
        R.distinct.insert(strtoull(f[0].c_str(), nullptr, 10));
        break;
      case 'S':
        R.sample(f[0]);
        break;
      case 'K':
        R.cap(f[0]);
        break;
      case 'V':
        if (f.size() == 3) {
          R.violation(f[0], f[2], f[1]);
        }
        break;
      }
    }
  }
  perB += "}";
  R.evaluations = tot[0];
  // violation_count: the workers counted every occurrence
  if (tot[11] > R.violation_count)
    R.violation_count = tot[11];
  R.set("dump_edges", (double)tot[1]);
  R.set("crash_runs", (double)tot[2]);
  R.set("crash_runs_with_oracle", (double)tot[3]);
  R.set("rotation_checks", (double)tot[4]);
  R.set("recovery_runs", (double)tot[5]);
  R.set("events_traced", (double)tot[6]);
  R.set("dumps_failed_subtree_not_continued", (double)tot[7]);
  R.set("crashes_losing_previous_with_0_backups_allowed", (double)tot[8]);
  R.set("rebuild_determinism_checks", (double)tot[9]);
  R.set("histories", (double)tot[10]);
  R.set("reader_checks", (double)tot[12]);
  R.set("recovery_dumps", (double)tot[13]);
  R.set_json("per_backup_count", perB);
  {
    Bounds b = bounds_for(A, 8);
    std::string bl;
    for (int bb : Bs)
      bl += fmt("%s%d", bl.empty() ? "" : ",", bb);
    R.set_str("bound", fmt("B in {%s}; D^a a<=%d; then R D^b b<=min-rule(%d for B=8); then R D^c c<=%d; "
                           "crash at every event of every dump + torn writes; after every crash a new manager "
                           "takes %d (quick) / max(3,B+2) (thorough) dumps, rotation checked after each",
                           bl.c_str(), b.A, b.Bb, b.Cc, 3));
  }
  remove_fast_tmpdir(tmp);
  return R.finish(A);
}
