# harness executables (name, sources, flavour, extra compile flags, extra link flags)
# -rdynamic: the interposed rename/fopen64/write/writev/fclose of the harness must be visible to libstdc++/libc callers
$(eval $(call HARNESS,c14_restart,$(V)/harness/C14/c14_restart.cpp,plain,,-ldl -rdynamic))
