// C09 - a run stopped and restarted continues exactly as if it had never
// stopped (whole-program part).
//
// The real simulation executable (build/plain/CMacIonize --task-based-rhd, one
// thread, radiation off) is run on tiny boxes with a restart dump after every
// step. For every configuration
//   geometry x subgrid layout x optional components
// the reference dumps D[j], j = 1..6 come from uninterrupted runs from scratch
// to step j (--number-of-steps j). Enumerated stop/restart histories:
//   * every single stop k in 1..5, continued to every j in k+1..6
//     (15 restarted legs per configuration);
//   * every subset of {1..5} as a chain of stop points (32 chains, up to 5
//     restarts in a row, odd and even) on the chain configurations (quick: ten
//     slots over components, layouts and inverse-cell-size classes; thorough:
//     all).
// Layouts: 1x1x1, 2x1x1 (periodic x), 2x2x1, 1x2x3 (periodic z). Components:
// mask, turbulence forcing, supernova source with feedback, random source list
// (without / with its log file and subgrid copies), external gravity; all of
// them with parameters that differ from each other and from the defaults.
// Oracle: the dump written after step j by a restarted leg equals D[j] byte
// for byte except
//   (1) bytes [0,192): the four Timer objects (12 timeval) that lead the dump,
//   (2) the 8-byte random_seed field, which must equal the value predicted by
//       re-seeding (RandomGenerator(seed read from the dump) drawn once per
//       step) - it is checked, not ignored;
// and every snapshot a restarted leg writes has the same content (all groups,
// attributes, datasets; raw data bytes) as the snapshot with the same index of
// the uninterrupted run, except the attribute RuntimePars@Creation time (HDF5
// object header time stamps are not part of the canonical content); the log
// file of the source list after a restarted leg equals the one after the
// uninterrupted run.
#include "c09_util.hpp"

#include "ParameterFile.hpp"
#include "RandomGenerator.hpp"
#include "SimulationBox.hpp"

#include <cinttypes>
#include <map>

using namespace c09;
using verif::fmt;

static const int NSTEP = 6;
static const size_t TIMER_BYTES = 192; // 4 Timer x 3 timeval x 16 bytes
static const double PARSEC = 3.0856775814913673e16;

static std::string g_exe;
static RunServer g_server; // helper processes that start the runs and read the snapshots
static const char *SOURCE_LOG = "UniformRandom_source_positions.txt";
static std::string g_base;
static bool g_verbose = false;
static bool g_keep = false; // C09_KEEP=1: leave the run directories in place

// ---------------------------------------------------------------------------
// configurations
// ---------------------------------------------------------------------------
enum {
  COMP_MASK = 1,    // RescaledICHydroMask
  COMP_TURB = 2,    // AlveliusTurbulenceForcing
  COMP_SN = 4,      // SingleSupernova source + stellar feedback
  COMP_URAND = 8,   // UniformRandom source list
  COMP_GRAV = 16,   // external gravity of a point mass
  COMP_COPIES = 32, // source copy level 2: subgrid copies in the creator
  COMP_SRCLOG = 64  // the UniformRandom source list keeps its log file
};
// seed of the photon random stream: not the default (42)
static const int RUN_SEED = 4711;

struct Geometry {
  std::string name;
  double side[3];   // in `unit`
  std::string unit; // "m" or "pc"
  int ncell[3] = {6, 6, 6}; // cells per axis of the whole grid
  bool cubic() const { return side[0] == side[1] && side[1] == side[2]; }
  double side_m(int i) const { return side[i] * (unit == "pc" ? PARSEC : 1.); }
};

struct Layout {
  int nsub[3];
  int periodic_axis; // -1: no periodic axis
  std::string name() const { return fmt("%dx%dx%d", nsub[0], nsub[1], nsub[2]); }
};


struct Config {
  Geometry geo;
  Layout lay;
  unsigned comps = 0;
  // derived at run time
  bool inv_differs = false; // n/s != 1/(s/n) on some axis
  std::string inv_detail;
  // association orders of derived cell quantities: bit i set = pair i disagrees
  // 0: (dx*dy)*dz vs dx*(dy*dz)   1: (dx*dy)*dz vs (dx*dz)*dy   2: dx*(dy*dz) vs (dx*dz)*dy
  // 3: 1/V vs (1/dx)*(1/dy)*(1/dz) (any order)   4: area x size vs V/size relations
  unsigned assoc_pairs = 0;
  std::string assoc_detail;
  bool chains = false;
  // single stops continued to every later step (true) or to the next and the
  // last step only (false; the step before the last is compared through the
  // backup dump, the steps in between through the snapshots)
  bool every_target = true;
  // set from the 'none' configuration of the same group
  double dt1 = 0.;       // first time step
  double t_end_step2 = 0.;
  double t_end_step3 = 0.;

  std::string comp_name() const {
    if (!comps)
      return "none";
    std::string s;
    auto add = [&](const char *n) { s += (s.empty() ? "" : "+") + std::string(n); };
    if (comps & COMP_MASK)
      add("mask");
    if (comps & COMP_TURB)
      add("turbulence");
    if (comps & COMP_SN)
      add("supernova-source");
    if (comps & COMP_URAND)
      add("random-source-list");
    if (comps & COMP_SRCLOG)
      add("source-log");
    if (comps & COMP_GRAV)
      add("external-gravity");
    if (comps & COMP_COPIES)
      add("subgrid-copies");
    return s;
  }
  std::string inv_class() const {
    return std::string(inv_differs ? "non-dyadic-cell-size" : "exact-inverse-cell-size") +
           ((assoc_pairs & 7u) ? "+non-associative-cell-products" : "");
  }
  std::string key_suffix() const {
    return inv_class() + (comps ? ":" + comp_name() : std::string());
  }
  std::string label() const {
    return geo.name + "/" + lay.name() + "/" + comp_name();
  }
  std::string json(const std::string &extra = "") const {
    return fmt("{\"geometry\": \"%s\", \"sides\": [\"%a\", \"%a\", \"%a\"], \"unit\": \"%s\", "
               "\"cells\": [%d, %d, %d], \"layout\": \"%s\", \"components\": %u%s}",
               geo.name.c_str(), geo.side[0], geo.side[1], geo.side[2], geo.unit.c_str(), geo.ncell[0],
               geo.ncell[1], geo.ncell[2], lay.name().c_str(), comps, extra.c_str());
  }
};

// ---------------------------------------------------------------------------
// parameter files
// ---------------------------------------------------------------------------
static const char *FIXED_RATES =
    "CrossSections:\n  type: FixedValue\n  hydrogen_0: 6.3e-18 cm^2\n  helium_0: 0. m^2\n"
    "  carbon_1: 0. m^2\n  carbon_2: 0. m^2\n  nitrogen_0: 0. m^2\n  nitrogen_1: 0. m^2\n"
    "  nitrogen_2: 0. m^2\n  oxygen_0: 0. m^2\n  oxygen_1: 0. m^2\n  neon_0: 0. m^2\n"
    "  neon_1: 0. m^2\n  sulphur_1: 0. m^2\n  sulphur_2: 0. m^2\n  sulphur_3: 0. m^2\n"
    "RecombinationRates:\n  type: FixedValue\n  hydrogen_1: 2.7e-13 cm^3 s^-1\n"
    "  helium_1: 0. m^3 s^-1\n  carbon_2: 0. m^3 s^-1\n  carbon_3: 0. m^3 s^-1\n"
    "  nitrogen_1: 0. m^3 s^-1\n  nitrogen_2: 0. m^3 s^-1\n  nitrogen_3: 0. m^3 s^-1\n"
    "  oxygen_1: 0. m^3 s^-1\n  oxygen_2: 0. m^3 s^-1\n  neon_1: 0. m^3 s^-1\n"
    "  neon_2: 0. m^3 s^-1\n  sulphur_2: 0. m^3 s^-1\n  sulphur_3: 0. m^3 s^-1\n"
    "  sulphur_4: 0. m^3 s^-1\n";

static std::string vec3(const double *v, const std::string &unit) {
  return fmt("[%.17g %s, %.17g %s, %.17g %s]", v[0], unit.c_str(), v[1], unit.c_str(), v[2],
             unit.c_str());
}

static void anchor_of(const Geometry &g, double *a) {
  for (int i = 0; i < 3; ++i)
    a[i] = (g.unit == "m") ? 0. : -0.5 * g.side[i];
}

static double min_cell_m(const Geometry &g) {
  double m = 1e300;
  for (int i = 0; i < 3; ++i)
    m = std::min(m, g.side_m(i) / g.ncell[i]);
  return m;
}

static double total_time(const Geometry &g) {
  // about 100 CFL-limited steps (sound speed + bulk speed ~ 2e4 m/s, CFL 0.2)
  return 100. * 0.2 * min_cell_m(g) / 2.e4;
}

static std::string blocks_text(const Geometry &g) {
  double a[3], am[3], sm[3];
  anchor_of(g, a);
  for (int i = 0; i < 3; ++i) {
    sm[i] = g.side_m(i);
    am[i] = a[i] * (g.unit == "pc" ? PARSEC : 1.);
  }
  double c0[3], s0[3], c1[3], s1[3], c2[3], s2[3];
  for (int i = 0; i < 3; ++i) {
    c0[i] = am[i] + 0.5 * sm[i];
    s0[i] = 1.01 * sm[i];
    c1[i] = am[i] + 0.37 * sm[i];
    s1[i] = 0.45 * sm[i];
    c2[i] = am[i] + 0.72 * sm[i];
    s2[i] = 0.31 * sm[i];
  }
  std::string t = "number of blocks: 3\n";
  t += "block[0]:\n  origin: " + vec3(c0, "m") + "\n  sides: " + vec3(s0, "m") +
       "\n  type: cube\n  number density: 100. cm^-3\n  initial temperature: 8000. K\n"
       "  initial velocity: [1. km s^-1, 0.5 km s^-1, -0.25 km s^-1]\n";
  t += "block[1]:\n  origin: " + vec3(c1, "m") + "\n  sides: " + vec3(s1, "m") +
       "\n  type: cube\n  number density: 300. cm^-3\n  initial temperature: 10000. K\n"
       "  initial velocity: [-2. km s^-1, 1. km s^-1, 0.5 km s^-1]\n";
  t += "block[2]:\n  origin: " + vec3(c2, "m") + "\n  sides: " + vec3(s2, "m") +
       "\n  type: sphere\n  number density: 30. cm^-3\n  initial temperature: 20000. K\n"
       "  initial velocity: [0.3 km s^-1, -1.5 km s^-1, 2. km s^-1]\n";
  return t;
}

// Parameters of the optional components. Rule: no two parameters that play
// different roles have the same value, and none has the default value of the
// code (defaults in comments), so that a field that is swapped with another
// one, or lost and replaced by its default in a write/read pair, changes the
// continuation.
static const double MASK_CENTRE[3] = {0.55, 0.45, 0.6}; // fractions of the box sides (default centre 0)
static const double MASK_RADIUS = 0.3;                  // of the shortest side (default 1 m)
static const double MASK_SCALE_DENSITY = 0.3;           // default 0.01
static const double MASK_SCALE_VELOCITY = 0.8;          // default 1
static const double MASK_SCALE_PRESSURE = 0.6;          // default 0.01
static const double MASK_DELTA_T = 0.37;                // of the total time (default 5000 yr)
static const double TURB_KMIN = 0.9, TURB_KMAX = 2., TURB_KPEAK = 1.6; // defaults 1, 3, 2.5 (kmax: an integer)
static const double TURB_CONCENTRATION = 0.3;           // default 0.2
static const double TURB_START = 3.3;                   // forcing steps the generator is forwarded (default 0)
static const int TURB_SEED = 17, URAND_SEED = 77;       // defaults 42
static const double URAND_BOX_ANCHOR[3] = {0.1, 0.2, 0.15}, URAND_BOX_SIDES[3] = {0.8, 0.6, 0.7};
// in units of the first time step: sources live at most 8 steps, the list is
// updated every 1.5 steps and is evolved over one update by its constructor
// (defaults 1 Myr, 0.1 Myr, 0), so the dumped list has seen sources die and be
// replaced (log with removal lines, source indices that are not 0..4)
static const double URAND_LIFETIME = 8., URAND_INTERVAL = 1.5, URAND_START = 1.6;
static const double SOURCE_POS[3] = {0.6, 0.35, 0.7};
static const double GRAV_POS[3] = {0.43, 0.58, 0.27};
static const int COPY_LEVEL = 2;                        // default 4; 0 without COMP_COPIES

static std::string param_text(const Config &c) {
  const Geometry &g = c.geo;
  double a[3];
  anchor_of(g, a);
  const int pa = c.lay.periodic_axis;
  const char *per[3], *bnd[3];
  for (int i = 0; i < 3; ++i) {
    per[i] = (pa == i) ? "true" : "false";
    bnd[i] = (pa == i) ? "periodic" : "reflective";
  }
  const double T = total_time(g);
  std::string t = FIXED_RATES;
  t += "DensityFunction:\n  type: BlockSyntax\n  filename: blocks.yml\n";
  t += fmt("DensityGrid:\n  number of cells: [%d, %d, %d]\n", g.ncell[0], g.ncell[1], g.ncell[2]);
  t += fmt("DensitySubGridCreator:\n  number of subgrids: [%d, %d, %d]\n  periodicity: [%s, %s, %s]\n",
           c.lay.nsub[0], c.lay.nsub[1], c.lay.nsub[2], per[0], per[1], per[2]);
  t += "DensityGridWriter:\n  type: Gadget\n  padding: 3\n  prefix: snap_\n";
  t += "Hydro:\n  polytropic index: 1.6666667\n";
  t += fmt("HydroBoundaryManager:\n  boundary x high: %s\n  boundary x low: %s\n"
           "  boundary y high: %s\n  boundary y low: %s\n"
           "  boundary z high: %s\n  boundary z low: %s\n",
           bnd[0], bnd[0], bnd[1], bnd[1], bnd[2], bnd[2]);
  t += "SimulationBox:\n  anchor: " + vec3(a, g.unit) +
       fmt("\n  periodicity: [%s, %s, %s]\n", per[0], per[1], per[2]) + "  sides: " + vec3(g.side, g.unit) + "\n";
  t += "TemperatureCalculator:\n  do temperature calculation: false\n";
  t += "PhotonSourceSpectrum:\n  type: Monochromatic\n  frequency: 3.28847e+15 Hz\n";
  t += "RestartManager:\n  output interval: 0. s\n";
  // source distribution (a discrete source distribution is mandatory in this mode)
  double pos[3];
  for (int i = 0; i < 3; ++i)
    pos[i] = a[i] + SOURCE_POS[i] * g.side[i];
  if (c.comps & COMP_SN) {
    // explodes after step 3; energy ~ 20 x thermal energy of one cell
    const double vcell = (g.side_m(0) / g.ncell[0]) * (g.side_m(1) / g.ncell[1]) * (g.side_m(2) / g.ncell[2]);
    const double ecell = 1.5 * 2. * 1.e8 * 1.380649e-23 * 8000. * vcell;
    const double lifetime = 0.5 * (c.t_end_step2 + c.t_end_step3);
    t += "PhotonSourceDistribution:\n  type: SingleSupernova\n  position: " + vec3(pos, g.unit) +
         fmt("\n  lifetime: %.17g s\n  luminosity: 1.e+49 s^-1\n  energy: %.17g J\n", lifetime,
             20. * ecell);
  } else if (c.comps & COMP_URAND) {
    double ua[3], us[3];
    for (int i = 0; i < 3; ++i) {
      ua[i] = a[i] + URAND_BOX_ANCHOR[i] * g.side[i];
      us[i] = URAND_BOX_SIDES[i] * g.side[i];
    }
    t += "PhotonSourceDistribution:\n  type: UniformRandom\n  number of sources: 5\n"
         "  source luminosity: 1.e+48 s^-1\n  box anchor: " +
         vec3(ua, g.unit) + "\n  box sides: " + vec3(us, g.unit) +
         fmt("\n  random seed: %d\n  source lifetime: %.17g s\n  update interval: %.17g s\n"
             "  starting time: %.17g s\n  output sources: %s\n",
             URAND_SEED, URAND_LIFETIME * c.dt1, URAND_INTERVAL * c.dt1, URAND_START * c.dt1,
             (c.comps & COMP_SRCLOG) ? "true" : "false");
  } else {
    t += "PhotonSourceDistribution:\n  type: SingleStar\n  luminosity: 1.e+49 s^-1\n  position: " +
         vec3(pos, g.unit) + "\n";
  }
  t += fmt("TaskBasedRadiationHydrodynamicsSimulation:\n  number of iterations: 1\n  number of photons: 100\n"
           "  random seed: %d\n  do radiation: false\n  number of buffers: 64\n  number of tasks: 4096\n"
           "  queue size per thread: 1024\n  shared queue size: 1024\n  source copy level: %d\n",
           RUN_SEED, (c.comps & COMP_COPIES) ? COPY_LEVEL : 0);
  t += fmt("  total time: %.17g s\n  snapshot time: %.17g s\n", T, T / 100.);
  if (c.comps & COMP_MASK)
    t += "  use mask: true\n";
  if (c.comps & COMP_TURB)
    t += "  turbulent forcing: true\n";
  if (c.comps & COMP_SN)
    t += "  do stellar feedback: true\n";
  if (c.comps & COMP_GRAV)
    t += "  external gravity: true\n";
  if (c.comps & COMP_MASK) {
    double cen[3];
    double rmin = 1e300;
    for (int i = 0; i < 3; ++i) {
      cen[i] = a[i] + MASK_CENTRE[i] * g.side[i];
      rmin = std::min(rmin, g.side[i]);
    }
    t += "HydroMask:\n  type: RescaledIC\n  center: " + vec3(cen, g.unit) +
         fmt("\n  radius: %.17g %s\n  scale factor density: %.17g\n  scale factor velocity: %.17g\n"
             "  scale factor pressure: %.17g\n  delta t: %.17g s\n",
             MASK_RADIUS * rmin, g.unit.c_str(), MASK_SCALE_DENSITY, MASK_SCALE_VELOCITY, MASK_SCALE_PRESSURE,
             MASK_DELTA_T * T);
  }
  if (c.comps & COMP_TURB) {
    // several driving steps per hydro step; acceleration ~ 300 m/s per step
    const double dtf = c.dt1 / 2.5;
    const double acc = 300. / c.dt1;
    t += fmt("TurbulenceForcing:\n  time step: %.17g s\n  forcing power: %.17g m^2 s^-3\n"
             "  random seed: %d\n  minimum wave number: %.17g\n  maximum wave number: %.17g\n"
             "  peak forcing wave number: %.17g\n  concentration factor: %.17g\n  starting time: %.17g s\n",
             dtf, acc * acc * dtf, TURB_SEED, TURB_KMIN, TURB_KMAX, TURB_KPEAK, TURB_CONCENTRATION,
             TURB_START * dtf);
  }
  if (c.comps & COMP_GRAV) {
    // point mass off every cell centre; ~300 m/s per step at 0.3 box sides
    double gp[3], smin = 1e300;
    for (int i = 0; i < 3; ++i) {
      gp[i] = a[i] + GRAV_POS[i] * g.side[i];
      smin = std::min(smin, g.side_m(i));
    }
    const double r = 0.3 * smin;
    const double mass = (300. / c.dt1) * r * r / 6.67408e-11;
    t += "ExternalPotential:\n  type: PointMass\n  position: " + vec3(gp, g.unit) + fmt("\n  mass: %.17g kg\n", mass);
  }
  return t;
}

// ---------------------------------------------------------------------------
// dump layout (independent reading of the leading part of the dump)
// ---------------------------------------------------------------------------
struct DumpInfo {
  bool ok = false;
  size_t seed_offset = 0;
  int64_t lastsnap = 0, lastrad = 0, seed = 0;
  // tail
  int64_t num_step = 0;
  double requested = 0., actual = 0., current = 0.;
  bool has_next = false;
};

static bool rd8(const std::string &d, size_t &off, uint64_t &v) {
  if (off + 8 > d.size())
    return false;
  memcpy(&v, d.data() + off, 8);
  off += 8;
  return true;
}
static bool skip_string(const std::string &d, size_t &off, std::string *out = nullptr) {
  uint64_t n;
  if (!rd8(d, off, n) || off + n > d.size())
    return false;
  if (out)
    *out = d.substr(off, n);
  off += n;
  return true;
}
static bool skip_map(const std::string &d, size_t &off) {
  uint64_t n;
  if (!rd8(d, off, n) || n > 100000)
    return false;
  for (uint64_t i = 0; i < n; ++i)
    if (!skip_string(d, off) || !skip_string(d, off))
      return false;
  return true;
}

/// `expected_seed` (known for the uninterrupted run) selects among the
/// candidate sizes of the scalar part of the mask block, so that a change of
/// the mask's dump format does not blind the comparison
static DumpInfo parse_dump(const std::string &d, bool has_mask, int64_t expected_seed) {
  DumpInfo none;
  for (size_t extra = 0; extra <= (has_mask ? 32u : 0u); extra += 8) {
    DumpInfo di;
    size_t off = TIMER_BYTES;
    if (!skip_map(d, off) || !skip_map(d, off))
      return none;
    if (has_mask) {
      // tag, centre(3) radius2 scale(3) delta_t | snap_n | density [..] pressure |
      // n x velocity(3) | m x (key, offset)
      std::string tag;
      if (!skip_string(d, off, &tag))
        return none;
      off += 8 * 8 + 8 + 2 * 8 + extra;
      uint64_t n, m;
      if (!rd8(d, off, n) || n > 100000)
        continue;
      off += 24 * n;
      if (!rd8(d, off, m) || m > 100000)
        continue;
      off += 16 * m;
    }
    uint64_t v;
    if (!rd8(d, off, v))
      continue;
    di.lastsnap = (int64_t)v;
    if (!rd8(d, off, v))
      continue;
    di.lastrad = (int64_t)v;
    di.seed_offset = off;
    if (!rd8(d, off, v))
      continue;
    di.seed = (int64_t)v;
    if (di.lastsnap < 0 || di.lastsnap > 100000 || di.lastrad < 0 || di.lastrad > 100000 ||
        di.seed != expected_seed)
      continue;
    if (d.size() < off + 33)
      continue;
    size_t t = d.size() - 33;
    memcpy(&di.num_step, d.data() + t, 8);
    memcpy(&di.requested, d.data() + t + 8, 8);
    di.has_next = d[t + 16] != 0;
    memcpy(&di.actual, d.data() + t + 17, 8);
    memcpy(&di.current, d.data() + t + 25, 8);
    di.ok = true;
    return di;
  }
  return none;
}

/// the seed the code draws after one more step from a generator seeded with s
struct SeedChain {
  RandomGenerator gen;
  explicit SeedChain(int_fast32_t s) : gen(s) {}
  int64_t next() {
    int_fast32_t v = gen.get_random_integer();
    return (int64_t)v;
  }
};

// ---------------------------------------------------------------------------
// one leg: a run from scratch or from a dump up to step `to`
// ---------------------------------------------------------------------------
struct LegOut {
  RunResult rr;
  std::string dump, back;
  std::map< int, H5Canon > snaps;
  std::string srclog; // the source log file as the run left it
  bool has_srclog = false;
  double canon_wall = 0.;
  std::string log_tail;
  bool ran_ok() const { return rr.exit_code == 0 && !dump.empty(); }
};

static const std::vector< std::string > SNAP_SKIP = {"/RuntimePars/@Creation time"};

/// `from_log`: content of the source log file found in the run directory when
/// the run is restarted (only used with COMP_SRCLOG)
static LegOut run_leg(const Config &c, const std::string &dir, const std::string &from_dump, int to,
                      const std::string &from_log = "") {
  LegOut o;
  rm_rf(dir);
  mkdir_p(dir);
  write_file(dir + "/p.param", param_text(c));
  write_file(dir + "/blocks.yml", blocks_text(c.geo));
  std::vector< std::string > argv = {g_exe, "--params", "p.param", "--task-based-rhd", "--threads", "1",
                                     "--number-of-steps", fmt("%d", to)};
  if (!from_dump.empty()) {
    write_file(dir + "/restart.dump", from_dump);
    if (c.comps & COMP_SRCLOG)
      write_file(dir + "/" + SOURCE_LOG, from_log);
    argv.push_back("--restart");
    argv.push_back(".");
  }
  // the run and the reading of its snapshots are done by a helper process
  // (c09_util.hpp); without one, by this thread and a forked reader
  ServedRun sr = g_server.run(dir, argv, "log.txt", 120.);
  bool canon_ok = sr.canon_ok;
  std::string canon_failure = "helper could not read the snapshots";
  if (sr.served) {
    o.rr = sr.rr;
    o.canon_wall = sr.canon_wall;
  } else {
    o.rr = run_in(dir, argv, "log.txt", 120.);
    RunResult cr = run_forked([&]() { return canon_main(dir, SNAP_SKIP); }, 120.);
    o.canon_wall = cr.wall;
    canon_ok = cr.exit_code == 0;
    canon_failure = cr.describe();
  }
  o.dump = verif::read_file(dir + "/restart.dump");
  o.back = verif::read_file(dir + "/restart.0.back");
  if (!from_dump.empty() && o.dump == from_dump && o.rr.exit_code != 0)
    o.dump.clear(); // nothing was written by this leg
  o.has_srclog = file_exists(dir + "/" + SOURCE_LOG);
  if (o.has_srclog)
    o.srclog = verif::read_file(dir + "/" + SOURCE_LOG);
  // canonical content of the snapshots, as written by the helper
  {
    std::vector< std::pair< int, H5Canon > > all;
    if (canon_ok && canon_read(dir + "/canon.bin", all)) {
      for (auto &a : all)
        o.snaps[a.first] = a.second;
    } else {
      // never silently without snapshots: every snapshot file counts as unreadable
      for (auto &f : list_dir(dir))
        if (snapshot_index(f) >= 0)
          o.snaps[snapshot_index(f)].text = "<unreadable: " + canon_failure + ">";
    }
  }
  if (o.rr.exit_code != 0)
    o.log_tail = tail_of(dir + "/log.txt", 500);
  if (!g_keep)
    rm_rf(dir);
  return o;
}

// ---------------------------------------------------------------------------
// comparison of a dump against the reference dump of the same step
// ---------------------------------------------------------------------------
struct DumpDiff {
  bool equal = true;
  bool size_differs = false;
  size_t first = 0, count = 0;
  bool seed_ok = true;
  int64_t seed_got = 0, seed_want = 0;
  std::string text() const {
    if (equal && seed_ok)
      return "equal";
    std::string s;
    if (size_differs)
      s += "size differs; ";
    if (!equal)
      s += fmt("%zu byte(s) differ outside the timers and the seed field, first at offset %zu; ", count, first);
    if (!seed_ok)
      s += fmt("seed field holds %" PRId64 ", re-seeding predicts %" PRId64 "; ", seed_got, seed_want);
    return s;
  }
};

static DumpDiff compare_dump(const std::string &got, const std::string &ref, size_t seed_off,
                             int64_t seed_want) {
  DumpDiff dd;
  if (got.size() != ref.size()) {
    dd.size_differs = true;
    dd.equal = false;
  }
  size_t n = std::min(got.size(), ref.size());
  for (size_t i = TIMER_BYTES; i < n; ++i) {
    if (i >= seed_off && i < seed_off + 8)
      continue;
    if (got[i] != ref[i]) {
      if (dd.count == 0)
        dd.first = i;
      ++dd.count;
      dd.equal = false;
    }
  }
  if (got.size() >= seed_off + 8) {
    memcpy(&dd.seed_got, got.data() + seed_off, 8);
    dd.seed_want = seed_want;
    dd.seed_ok = dd.seed_got == seed_want;
  } else
    dd.seed_ok = false;
  return dd;
}

static std::string where_in_dump(size_t off, size_t seed_off, size_t size) {
  if (off < seed_off - 16)
    return "parameters/mask block";
  if (off < seed_off)
    return "snapshot/radiation counters";
  if (off >= size - 33)
    return "step counter/time step tail";
  if (off >= size - 33 - 40)
    return "time line";
  return "grid/turbulence/source state";
}

// ---------------------------------------------------------------------------
// the check of one configuration
// ---------------------------------------------------------------------------
struct Tally {
  uint64_t evaluations = 0, nontrivial = 0, runs = 0, snapshot_compares = 0, legs = 0, chains = 0;
  uint64_t srclog_compares = 0, chain_legs_odd = 0, chain_legs_even = 0;
  double run_wall = 0., canon_wall = 0.;
};

struct Ctx {
  verif::Result *R;
  std::mutex mtx;
  Tally tally;
  int min_source_changes = 1000; // over the configurations with a source log
  void add(const Tally &t) {
    std::lock_guard< std::mutex > g(mtx);
    tally.evaluations += t.evaluations;
    tally.nontrivial += t.nontrivial;
    tally.runs += t.runs;
    tally.snapshot_compares += t.snapshot_compares;
    tally.legs += t.legs;
    tally.chains += t.chains;
    tally.run_wall += t.run_wall;
    tally.canon_wall += t.canon_wall;
    tally.srclog_compares += t.srclog_compares;
    tally.chain_legs_odd += t.chain_legs_odd;
    tally.chain_legs_even += t.chain_legs_even;
  }
};

struct RefData {
  std::vector< LegOut > ref; // 1..NSTEP
  std::vector< DumpInfo > info;
  std::vector< int64_t > seeds; // seed expected in the dump after step j of the uninterrupted run
  bool ok = false;
};

/// compare the outcome of a restarted leg ending at step `to`
static bool judge_leg(Ctx &ctx, Tally &tl, const Config &c, const RefData &rd, const LegOut &leg,
                      int from, int to, int64_t seed_want, const std::string &history,
                      const std::string &replay) {
  bool good = true;
  ++tl.legs;
  if (!leg.ran_ok()) {
    ctx.R->violation("C09:restarted-run-failed:" + c.comp_name(),
                     fmt("%s: restart from the dump after step %d towards step %d ended with %s (history %s); log tail: %s",
                         c.label().c_str(), from, to, leg.rr.describe().c_str(), history.c_str(),
                         leg.log_tail.c_str()),
                     replay);
    return false;
  }
  const std::string &ref = rd.ref[to].dump;
  DumpDiff dd = compare_dump(leg.dump, ref, rd.info[to].seed_offset, seed_want);
  ++tl.evaluations;
  if (!dd.equal) {
    good = false;
    ctx.R->violation("C09:continuation-differs:" + c.key_suffix(),
                     fmt("%s: dump after step %d of the run restarted at step %d (history %s) differs from the "
                         "uninterrupted run: %s(first difference in the %s; dump size %zu, seed field at %zu); %s",
                         c.label().c_str(), to, from, history.c_str(), dd.text().c_str(),
                         where_in_dump(dd.first, rd.info[to].seed_offset, ref.size()).c_str(), ref.size(),
                         rd.info[to].seed_offset, (c.inv_detail + "; " + c.assoc_detail).c_str()),
                     replay);
  } else if (!dd.seed_ok) {
    good = false;
    ctx.R->violation("C09:seed-field-unexpected:" + c.key_suffix(),
                     fmt("%s: dump after step %d of the run restarted at step %d (history %s): %s",
                         c.label().c_str(), to, from, history.c_str(), dd.text().c_str()),
                     replay);
  }
  // the previous dump kept as backup, when this leg made at least two steps
  if (to - from >= 2 && !leg.back.empty()) {
    // its seed is one draw earlier: recompute from the dump the leg started from
    ++tl.evaluations;
    const std::string &refb = rd.ref[to - 1].dump;
    DumpDiff db = compare_dump(leg.back, refb, rd.info[to - 1].seed_offset, 0);
    if (!db.equal) {
      good = false;
      ctx.R->violation("C09:continuation-differs:" + c.key_suffix(),
                       fmt("%s: backup dump (step %d) of the run restarted at step %d (history %s) differs: %s",
                           c.label().c_str(), to - 1, from, history.c_str(), db.text().c_str()),
                       replay);
    }
  }
  // snapshots written by this leg against the uninterrupted run to the same step
  for (auto &s : leg.snaps) {
    ++tl.snapshot_compares;
    ++tl.evaluations;
    auto it = rd.ref[to].snaps.find(s.first);
    if (it == rd.ref[to].snaps.end()) {
      good = false;
      ctx.R->violation("C09:snapshot-set-differs:" + c.key_suffix(),
                       fmt("%s: run restarted at step %d to step %d wrote snapshot %d, the uninterrupted run to step %d did not",
                           c.label().c_str(), from, to, s.first, to),
                       replay);
      continue;
    }
    if (s.second.text != it->second.text) {
      good = false;
      ctx.R->violation("C09:snapshot-differs:" + c.key_suffix(),
                       fmt("%s: snapshot %d of the run restarted at step %d (to step %d, history %s) differs from the "
                           "uninterrupted run, first in %s",
                           c.label().c_str(), s.first, from, to, history.c_str(),
                           h5_first_difference(s.second, it->second).c_str()),
                       replay);
    }
  }
  // the log file the source list keeps: the restarted run truncates it to the
  // position stored in the dump and continues
  if (c.comps & COMP_SRCLOG) {
    ++tl.srclog_compares;
    ++tl.evaluations;
    if (leg.srclog != rd.ref[to].srclog) {
      good = false;
      size_t off = 0;
      while (off < std::min(leg.srclog.size(), rd.ref[to].srclog.size()) && leg.srclog[off] == rd.ref[to].srclog[off])
        ++off;
      ctx.R->violation("C09:source-log-differs:" + c.key_suffix(),
                       fmt("%s: source log after the run restarted at step %d to step %d (history %s) has %zu bytes, "
                           "after the uninterrupted run %zu bytes, first difference at %zu",
                           c.label().c_str(), from, to, history.c_str(), leg.srclog.size(),
                           rd.ref[to].srclog.size(), off),
                       replay);
    }
  }
  // the final snapshot (largest index of the reference) must have been written
  if (!rd.ref[to].snaps.empty()) {
    int last = rd.ref[to].snaps.rbegin()->first;
    if (!leg.snaps.count(last)) {
      good = false;
      ctx.R->violation("C09:snapshot-set-differs:" + c.key_suffix(),
                       fmt("%s: run restarted at step %d to step %d did not write the final snapshot %d",
                           c.label().c_str(), from, to, last),
                       replay);
    }
  }
  return good;
}

static bool make_reference(Ctx &ctx, Tally &tl, const Config &c, const std::string &dir, RefData &rd) {
  rd.ref.assign(NSTEP + 1, LegOut());
  rd.info.assign(NSTEP + 1, DumpInfo());
  rd.seeds.assign(NSTEP + 1, 0);
  SeedChain sc(RUN_SEED);
  for (int j = 1; j <= NSTEP; ++j) {
    rd.ref[j] = run_leg(c, dir + fmt("/ref%d", j), "", j);
    ++tl.runs;
    tl.run_wall += rd.ref[j].rr.wall;
    tl.canon_wall += rd.ref[j].canon_wall;
    rd.seeds[j] = sc.next();
    if (!rd.ref[j].ran_ok()) {
      ctx.R->violation("C09:uninterrupted-run-failed:" + c.comp_name(),
                       fmt("%s: run from scratch to step %d ended with %s; log tail: %s", c.label().c_str(), j,
                           rd.ref[j].rr.describe().c_str(), rd.ref[j].log_tail.c_str()),
                       c.json());
      return false;
    }
    rd.info[j] = parse_dump(rd.ref[j].dump, c.comps & COMP_MASK, rd.seeds[j]);
    if (!rd.info[j].ok || rd.info[j].num_step != j) {
      ctx.R->violation("C09:dump-layout-unexpected:" + c.key_suffix(),
                       fmt("%s: dump after step %d could not be read as timers|parameters|[mask]|counters|seed...|tail "
                           "with the seed field holding %" PRId64 " (draw %d of RandomGenerator(%d)) and the step "
                           "counter %d (read %" PRId64 ")",
                           c.label().c_str(), j, rd.seeds[j], j, RUN_SEED, j, rd.info[j].num_step),
                       c.json());
      return false;
    }
    if (rd.info[j].seed != rd.seeds[j]) {
      ctx.R->violation("C09:seed-field-unexpected:" + c.key_suffix(),
                       fmt("%s: uninterrupted run, dump after step %d holds seed %" PRId64 ", expected %" PRId64,
                           c.label().c_str(), j, rd.info[j].seed, rd.seeds[j]),
                       c.json());
      return false;
    }
  }
  // the run to step 6 went through the same states as the shorter runs
  for (int j = 2; j <= NSTEP; ++j) {
    ++tl.evaluations;
    DumpDiff dd = compare_dump(rd.ref[j].back, rd.ref[j - 1].dump, rd.info[j - 1].seed_offset, rd.seeds[j - 1]);
    if (!dd.equal || !dd.seed_ok) {
      ctx.R->violation("C09:uninterrupted-run-not-reproducible:" + c.key_suffix(),
                       fmt("%s: the backup dump of the run to step %d differs from the dump of the run to step %d: %s",
                           c.label().c_str(), j, j - 1, dd.text().c_str()),
                       c.json());
      return false;
    }
  }
  // the source log of a shorter run is the beginning of the log of a longer one
  if (c.comps & COMP_SRCLOG)
    for (int j = 1; j <= NSTEP; ++j) {
      ++tl.evaluations;
      const std::string &lj = rd.ref[j].srclog, &ln = rd.ref[NSTEP].srclog;
      if (!rd.ref[j].has_srclog || lj.empty() || lj.size() > ln.size() || ln.compare(0, lj.size(), lj) != 0) {
        ctx.R->violation("C09:uninterrupted-run-not-reproducible:" + c.key_suffix(),
                         fmt("%s: the source log of the run to step %d (%zu bytes, present: %d) is not the beginning "
                             "of the log of the run to step %d (%zu bytes)",
                             c.label().c_str(), j, lj.size(), (int)rd.ref[j].has_srclog, NSTEP, ln.size()),
                         c.json());
        return false;
      }
    }
  rd.ok = true;
  return true;
}

/// number of steps after which the grid state still changes (non-trivial run)
static int evolving_steps(const RefData &rd) {
  int n = 0;
  for (int j = 2; j <= NSTEP; ++j) {
    const std::string &a = rd.ref[j].dump, &b = rd.ref[j - 1].dump;
    size_t so = rd.info[j].seed_offset + 8;
    size_t diff = 0;
    for (size_t i = so; i + 33 + 40 < std::min(a.size(), b.size()); ++i)
      diff += a[i] != b[i];
    if (diff > 100)
      ++n;
  }
  return n;
}

static void check_config(Ctx &ctx, Config &c, const std::string &dir, RefData &rd, long only_chain = -1,
                         int only_k = -1) {
  Tally tl;
  if (ctx.R->out_of_time()) {
    ctx.R->hit_deadline("configuration " + c.label() + " not run");
    return;
  }
  if (!make_reference(ctx, tl, c, dir, rd)) {
    ctx.add(tl);
    return;
  }
  const int evolving = evolving_steps(rd);
  if (evolving < NSTEP - 1)
    ctx.R->cap(fmt("%s: the state changed in only %d of %d steps", c.label().c_str(), evolving, NSTEP - 1));
  if (c.comps & COMP_SRCLOG) {
    // steps after which the log has grown. Recorded, not required: the
    // simulation only updates the source list inside the radiation step, which a
    // pure hydrodynamics run does not have (see the assumptions)
    int changes = 0;
    for (int j = 2; j <= NSTEP; ++j)
      changes += rd.ref[j].srclog.size() > rd.ref[j - 1].srclog.size();
    std::lock_guard< std::mutex > g(ctx.mtx);
    ctx.min_source_changes = std::min(ctx.min_source_changes, changes);
  }

  // --- every single stop k, continued to every later step j
  if (only_chain < 0) {
    for (int k = 1; k < NSTEP; ++k) {
      if (only_k > 0 && k != only_k)
        continue;
      bool counted = false;
      for (int j = k + 1; j <= NSTEP; ++j) {
        if (!c.every_target && only_k < 0 && j != k + 1 && j != NSTEP)
          continue;
        // the log file found at the restart: as it was when the dump was written
        // (even k) or as a run that went on to the last step before it was
        // killed left it (odd k; the restart has to truncate it)
        LegOut leg = run_leg(c, dir + fmt("/s%d_%d", k, j), rd.ref[k].dump, j,
                             (k % 2) ? rd.ref[NSTEP].srclog : rd.ref[k].srclog);
        ++tl.runs;
        tl.run_wall += leg.rr.wall;
        tl.canon_wall += leg.canon_wall;
        SeedChain sc((int_fast32_t)rd.seeds[k]);
        int64_t want = 0;
        for (int s = k; s < j; ++s)
          want = sc.next();
        judge_leg(ctx, tl, c, rd, leg, k, j, want, fmt("stop@%d", k), c.json(fmt(", \"stop\": %d", k)));
        if (!counted) {
          ++tl.nontrivial;
          counted = true;
        }
        if (ctx.R->out_of_time())
          break;
      }
    }
  }

  // --- every subset of {1..5} as a chain of stop points
  if (c.chains || only_chain >= 0) {
    for (long mask = 0; mask < (1 << (NSTEP - 1)); ++mask) {
      if (only_chain >= 0 && mask != only_chain)
        continue;
      if (ctx.R->out_of_time()) {
        ctx.R->hit_deadline("chains of " + c.label() + " cut short");
        break;
      }
      std::vector< int > stops;
      for (int k = 1; k < NSTEP; ++k)
        if (mask & (1 << (k - 1)))
          stops.push_back(k);
      ++tl.chains;
      if (stops.size() < 2 && only_chain < 0)
        continue; // the empty chain is the reference, single stops are done above
      if (stops.empty())
        continue;
      std::string hist = "chain";
      for (int s : stops)
        hist += fmt("@%d", s);
      std::string replay = c.json(fmt(", \"chain\": %ld", mask));
      std::string cur = rd.ref[stops[0]].dump; // first leg = uninterrupted run to the first stop
      std::string cur_log = rd.ref[stops[0]].srclog;
      ((stops.size() % 2) ? tl.chain_legs_odd : tl.chain_legs_even)++;
      int64_t cur_seed = rd.seeds[stops[0]];
      int from = stops[0];
      bool alive = true;
      for (size_t i = 0; i < stops.size() && alive; ++i) {
        int to = (i + 1 < stops.size()) ? stops[i + 1] : NSTEP;
        LegOut leg = run_leg(c, dir + fmt("/c%ld_%d", mask, to), cur, to, cur_log);
        ++tl.runs;
        tl.run_wall += leg.rr.wall;
        tl.canon_wall += leg.canon_wall;
        SeedChain sc((int_fast32_t)cur_seed);
        int64_t want = 0;
        for (int s = from; s < to; ++s)
          want = sc.next();
        alive = judge_leg(ctx, tl, c, rd, leg, from, to, want, hist, replay);
        if (!leg.ran_ok())
          break;
        cur = leg.dump;
        cur_log = leg.srclog;
        cur_seed = want;
        from = to;
      }
      ++tl.nontrivial;
    }
  }
  ctx.add(tl);
}

// ---------------------------------------------------------------------------
// inverse cell size class of a configuration, with the expressions of the
// two constructors (DensitySubGridCreator / DensitySubGrid)
// ---------------------------------------------------------------------------
static void classify(Config &c, const std::string &dir) {
  mkdir_p(dir);
  write_file(dir + "/classify.param", param_text(c));
  ParameterFile params(dir + "/classify.param");
  SimulationBox sb(params);
  const Box<> box = sb.get_box();
  c.inv_differs = false;
  c.inv_detail = "";
  double d[3];
  for (int i = 0; i < 3; ++i) {
    const int_fast32_t nsub = c.lay.nsub[i];
    const int_fast32_t ncell = c.geo.ncell[i] / c.lay.nsub[i];
    const double s = box.get_sides()[i] / nsub; // DensitySubGridCreator::_subgrid_sides
    const double cell = s / ncell;               // DensitySubGrid::_cell_size
    d[i] = cell;
    const double inv_ctor = ncell / s;           // DensitySubGrid(box, ncell)
    const double inv_restart = 1. / cell;        // DensitySubGrid(RestartReader&)
    if (inv_ctor != inv_restart) {
      c.inv_differs = true;
      c.inv_detail += fmt("axis %d: subgrid side %a, %d cells: n/s = %a, 1/(s/n) = %a; ", i, s, (int)ncell,
                          inv_ctor, inv_restart);
    }
  }
  if (!c.inv_differs)
    c.inv_detail = "n/s == 1/(s/n) on all axes";
  // derived quantities: the code computes V = (dx*dy)*dz, areas dy*dz, dx*dz,
  // dx*dy and 1/V; any recomputation in another association order is
  // bit-identical only where these agree
  {
    const double v1 = (d[0] * d[1]) * d[2], v2 = d[0] * (d[1] * d[2]), v3 = (d[0] * d[2]) * d[1];
    c.assoc_pairs = 0;
    if (v1 != v2)
      c.assoc_pairs |= 1u;
    if (v1 != v3)
      c.assoc_pairs |= 2u;
    if (v2 != v3)
      c.assoc_pairs |= 4u;
    const double i1 = 1. / v1;
    const double ix = 1. / d[0], iy = 1. / d[1], iz = 1. / d[2];
    if (i1 != (ix * iy) * iz || i1 != ix * (iy * iz) || i1 != (ix * iz) * iy)
      c.assoc_pairs |= 8u;
    if (v1 / d[0] != d[1] * d[2] || v1 / d[1] != d[0] * d[2] || v1 / d[2] != d[0] * d[1])
      c.assoc_pairs |= 16u;
    c.assoc_detail = fmt("cell %a x %a x %a: (dx*dy)*dz = %a, dx*(dy*dz) = %a, (dx*dz)*dy = %a; 1/V %s product of "
                         "inverse sizes; V/size %s face areas",
                         d[0], d[1], d[2], v1, v2, v3, (c.assoc_pairs & 8u) ? "!=" : "==",
                         (c.assoc_pairs & 16u) ? "!=" : "==");
  }
  unlink((dir + "/classify.param").c_str());
  unlink((dir + "/classify.param.used-values").c_str());
}

// ---------------------------------------------------------------------------
int main(int argc, char **argv) {
  if (argc == 3 && strcmp(argv[1], "--canon") == 0)
    return canon_main(argv[2], SNAP_SKIP); // by hand: canonical content of the snapshots of a run directory
  g_server.start(16, SNAP_SKIP); // before any thread is started and anything is allocated
  verif::Args A = verif::parse_args(argc, argv);
  verif::Result R(A);
  const char *vb = getenv("VERIF_BUILD");
  g_exe = std::string(vb && *vb ? vb : "/verif/build") + "/plain/CMacIonize";
  if (!file_exists(g_exe)) {
    fprintf(stderr, "simulation executable %s not found\n", g_exe.c_str());
    return 3;
  }
  const std::string tmp = verif::fast_tmpdir();
  g_base = tmp + "/c09_restart";
  rm_rf(g_base);
  mkdir_p(g_base);
  g_verbose = !A.replay.empty();
  g_keep = getenv("C09_KEEP") != nullptr;

  // candidate boxes; the class (n/s == 1/(s/n) or not) is evaluated at run time
  std::vector< Geometry > fixed = {
      {"unit-box", {1., 1., 1.}, "m"},
      {"2pc-box", {2., 2., 2.}, "pc"},
      {"2.512pc-box", {2.512, 2.512, 2.512}, "pc"},
  };
  std::vector< Geometry > extra_candidates;
  for (double s : {1.1, 0.3, 5.3, 7.7, 1.7, 3.3, 0.9, 4.1, 2.9, 6.1, 3., 10.})
    extra_candidates.push_back({fmt("%gpc-box", s), {s, s, s}, "pc"});
  // layouts: the geometry classes are selected on the first three (1 or 2
  // subgrids per axis); all_layouts adds one with a different number of
  // subgrids (1, 2, >= 3) AND of cells per subgrid on every axis, periodic in z
  std::vector< Layout > layouts = {{{1, 1, 1}, -1}, {{2, 1, 1}, 0}, {{2, 2, 1}, -1}};
  std::vector< Layout > all_layouts = layouts;
  all_layouts.push_back({{1, 2, 3}, 2});

  auto differs_somewhere = [&](const Geometry &g) {
    int n = 0;
    for (auto &l : layouts) {
      Config c;
      c.geo = g;
      c.lay = l;
      classify(c, g_base);
      n += c.inv_differs;
    }
    return n;
  };
  std::vector< Geometry > geos = fixed;
  // one more cubic box of the class "differs on every layout" and the anisotropic box
  int n_diff_all = 0, n_equal_all = 0;
  for (auto &g : geos) {
    int d = differs_somewhere(g);
    n_diff_all += d == (int)layouts.size();
    n_equal_all += d == 0;
  }
  size_t rot = (size_t)(A.seed % (long)extra_candidates.size());
  for (size_t i = 0; i < extra_candidates.size() && n_diff_all < 2; ++i) {
    const Geometry &g = extra_candidates[(i + rot) % extra_candidates.size()];
    if (differs_somewhere(g) == (int)layouts.size()) {
      geos.push_back(g);
      ++n_diff_all;
    }
  }
  for (size_t i = 0; i < extra_candidates.size() && n_equal_all < 2; ++i) {
    const Geometry &g = extra_candidates[(i + rot) % extra_candidates.size()];
    if (differs_somewhere(g) == 0) {
      geos.push_back(g);
      ++n_equal_all;
    }
  }
  geos.push_back({"anisotropic-box", {2., 3., 2.512}, "pc"});
  // anisotropic boxes whose derived cell quantities depend on the association
  // order: chosen from a candidate list until every pair of orders of
  // dx*dy*dz disagrees on some chosen geometry and at least two are chosen
  unsigned n_assoc = 0, pairs_covered = 0;
  {
    std::vector< Geometry > cand;
    auto add = [&](double x, double y, double z, int nx, int ny, int nz) {
      Geometry g{fmt("%gx%gx%gm-%dx%dx%d", x, y, z, nx, ny, nz), {x, y, z}, "m"};
      g.ncell[0] = nx;
      g.ncell[1] = ny;
      g.ncell[2] = nz;
      cand.push_back(g);
    };
    add(1., 1., 2., 10, 10, 12);
    const double sv[] = {0.7, 0.9, 1.1, 1.3, 1.7, 3.};
    for (double x : sv)
      for (double y : sv)
        for (double z : sv)
          if (!(x == y && y == z))
            add(x, y, z, 6, 6, 6);
    add(1.1, 0.7, 0.9, 8, 8, 8);
    const size_t rot2 = cand.size() > 1 ? 1 + (size_t)(A.seed % (long)(cand.size() - 1)) : 0;
    for (size_t i = 0; i < cand.size() && (n_assoc < 2 || (pairs_covered & 7u) != 7u) && n_assoc < 3; ++i) {
      // the first candidate (the 1x1x2 m / 10x10x12 box) is always looked at first
      const Geometry &g = cand[i == 0 ? 0 : 1 + (i - 1 + rot2 - 1) % (cand.size() - 1)];
      unsigned all = 7u, any = 0;
      for (auto &l : layouts) {
        Config c;
        c.geo = g;
        c.lay = l;
        classify(c, g_base);
        all &= c.assoc_pairs;
        any |= c.assoc_pairs;
      }
      if ((any & 7u) == 0)
        continue;
      // take it if it adds a pair of orders not yet seen to disagree, or if
      // fewer than two are chosen
      if (n_assoc < 2 || (all & ~pairs_covered & 7u)) {
        geos.push_back(g);
        ++n_assoc;
        pairs_covered |= all;
      }
    }
  }
  R.set("geometries_with_non_associative_cell_products", n_assoc);
  R.set("product_order_pairs_covered_bitmask", pairs_covered & 7u);
  if (n_assoc < 2) {
    R.violation("C09:geometry-alphabet-incomplete",
                fmt("need two anisotropic boxes for which (dx*dy)*dz, dx*(dy*dz), (dx*dz)*dy do not all agree, found %u",
                    n_assoc));
    return R.finish(A);
  }
  R.set("geometries_inverse_differs_on_all_layouts", n_diff_all);
  R.set("geometries_inverse_equal_on_all_layouts", n_equal_all);
  if (n_diff_all < 2 || n_equal_all < 2) {
    R.violation("C09:geometry-alphabet-incomplete",
                fmt("need two boxes with n/s != 1/(s/n) and two with equality, found %d and %d", n_diff_all,
                    n_equal_all));
    return R.finish(A);
  }

  // optional components: every one alone, the source list also with its log
  // file and subgrid copies; thorough adds combinations
  const unsigned URAND_FULL = COMP_URAND | COMP_SRCLOG | COMP_COPIES;
  std::vector< unsigned > compsets = {0, COMP_MASK, COMP_TURB, COMP_SN, COMP_URAND, COMP_GRAV, URAND_FULL};
  if (A.thorough()) {
    for (unsigned cs : {(unsigned)COMP_COPIES, (unsigned)(COMP_URAND | COMP_SRCLOG),
                        (unsigned)(COMP_MASK | COMP_TURB), (unsigned)(COMP_MASK | COMP_SN),
                        (unsigned)(COMP_TURB | COMP_SN), (unsigned)(COMP_MASK | COMP_TURB | COMP_SN),
                        (unsigned)(COMP_MASK | COMP_TURB | COMP_URAND), (unsigned)(COMP_MASK | COMP_GRAV),
                        (unsigned)(COMP_MASK | COMP_TURB | COMP_SN | COMP_GRAV | COMP_COPIES),
                        (unsigned)(COMP_MASK | COMP_GRAV | URAND_FULL)})
      compsets.push_back(cs);
  }

  // groups = geometry x layout; the 'none' configuration of a group runs first
  // (its step times parametrise the others)
  struct Group {
    std::vector< Config > cfgs;
    bool base_ok = false;
    double dt1 = 0., t_end_step2 = 0., t_end_step3 = 0.; // of the 'none' configuration
  };
  std::vector< Group > groups;
  std::string geos_123;
  for (auto &g : geos) {
    for (auto &l : all_layouts) {
      if (l.nsub[2] == 3)
        geos_123 += (geos_123.empty() ? "" : ", ") + g.name;
      bool divisible = true;
      for (int i = 0; i < 3; ++i)
        divisible = divisible && g.ncell[i] % l.nsub[i] == 0;
      if (!divisible)
        continue;
      Group gr;
      for (unsigned cs : compsets) {
        if ((cs & COMP_TURB) && !g.cubic())
          continue; // the forcing is defined for cubic boxes only
        Config c;
        c.geo = g;
        c.lay = l;
        c.comps = cs;
        classify(c, g_base);
        gr.cfgs.push_back(c);
      }
      groups.push_back(gr);
    }
  }
  R.set_str("geometries_with_layout_1x2x3", geos_123);
  // chain configurations (every subset of the stop points, i.e. 2..5 restarts
  // in a row, odd and even): thorough = every configuration; quick = the first
  // configuration that fits each of the slots below
  struct Slot {
    const char *what;
    int inv; // 1: n/s != 1/(s/n), 0: equal, -1: any
    unsigned comps;
    int nsub[3];
    bool taken;
  };
  std::vector< Slot > slots = {{"none on 2x2x1, inverse cell size differs", 1, 0, {2, 2, 1}, false},
                               {"turbulence on 2x1x1, inverse cell size exact", 0, COMP_TURB, {2, 1, 1}, false},
                               {"mask on 1x2x3", -1, COMP_MASK, {1, 2, 3}, false},
                               {"supernova on 1x1x1", -1, COMP_SN, {1, 1, 1}, false},
                               {"source list with log and subgrid copies on 2x2x1", -1, URAND_FULL, {2, 2, 1}, false},
                               {"external gravity on 1x2x3", -1, COMP_GRAV, {1, 2, 3}, false},
                               {"none on 1x2x3, inverse cell size exact", 0, 0, {1, 2, 3}, false},
                               {"mask on 2x2x1, inverse cell size differs", 1, COMP_MASK, {2, 2, 1}, false},
                               {"turbulence on 2x2x1, inverse cell size differs", 1, COMP_TURB, {2, 2, 1}, false},
                               {"source list without log on 2x1x1", -1, COMP_URAND, {2, 1, 1}, false}};
  std::string chain_list;
  for (auto &gr : groups)
    for (auto &c : gr.cfgs) {
      if (A.thorough()) {
        c.chains = true;
        continue;
      }
      for (auto &sl : slots)
        if (!sl.taken && (sl.inv < 0 || sl.inv == (int)c.inv_differs) && sl.comps == c.comps &&
            sl.nsub[0] == c.lay.nsub[0] && sl.nsub[1] == c.lay.nsub[1] && sl.nsub[2] == c.lay.nsub[2]) {
          sl.taken = true;
          c.chains = true;
          c.every_target = true;
          chain_list += (chain_list.empty() ? "" : ", ") + c.label();
          break;
        }
    }
  if (!A.thorough())
    for (auto &sl : slots)
      if (!sl.taken)
        R.cap(std::string("no configuration for the chain slot: ") + sl.what);

  Ctx ctx;
  ctx.R = &R;
  auto parametrise = [](Config &c, const RefData &base) {
    c.dt1 = base.info[1].actual;
    c.t_end_step2 = base.info[1].current;
    c.t_end_step3 = base.info[2].current;
  };

  if (!A.replay.empty()) {
    std::string txt = verif::read_file(A.replay);
    std::string gname = verif::replay_field(txt, "geometry");
    std::string lname = verif::replay_field(txt, "layout");
    unsigned comps = (unsigned)atol(verif::replay_field(txt, "components").c_str());
    std::string chain = verif::replay_field(txt, "chain");
    std::string stop = verif::replay_field(txt, "stop");
    bool found = false;
    for (auto &gr : groups) {
      if (gr.cfgs.empty() || gr.cfgs[0].geo.name != gname || gr.cfgs[0].lay.name() != lname)
        continue;
      Config cc = gr.cfgs[0];
      cc.comps = comps;
      classify(cc, g_base);
      if (comps != 0) {
        Tally tl;
        RefData base;
        if (!make_reference(ctx, tl, gr.cfgs[0], g_base + "/replay_base", base))
          break;
        parametrise(cc, base);
      }
      std::string dir = g_base + "/replay_" + fmt("%u", cc.comps);
      RefData rd;
      found = true;
      printf("replaying %s (%s; %s)\n", cc.label().c_str(), cc.inv_class().c_str(), cc.inv_detail.c_str());
      check_config(ctx, cc, dir, rd, chain.empty() ? -1 : atol(chain.c_str()), stop.empty() ? -1 : atoi(stop.c_str()));
      for (int j = 1; j <= NSTEP && rd.ok; ++j)
        printf("  uninterrupted run, step %d: dump %zu bytes, seed field at %zu = %" PRId64 ", dt %.17g, t %.17g\n",
               j, rd.ref[j].dump.size(), rd.info[j].seed_offset, rd.info[j].seed, rd.info[j].actual,
               rd.info[j].current);
      if (g_keep)
        printf("run directories kept under %s\n", dir.c_str());
      else
        printf("(set C09_KEEP=1 to keep the run directories)\n");
      break;
    }
    if (!found)
      printf("replay: configuration %s/%s/%u not in the enumerated set\n", gname.c_str(), lname.c_str(), comps);
    R.evaluations = ctx.tally.evaluations;
    R.nontrivial = ctx.tally.nontrivial;
    for (auto &v : R.violations)
      printf("VIOLATION %s :: %s\n", v.key.c_str(), v.detail.c_str());
    g_server.stop();
    if (!g_keep) {
      rm_rf(g_base);
      verif::remove_fast_tmpdir(tmp);
    }
    return R.finish(A);
  }

  std::atomic< uint64_t > nconfigs(0), nconf_differs(0), nconf_equal(0);
  std::mutex cnt_mtx;
  std::map< std::string, uint64_t > per_component, per_layout;
  auto run_config = [&](size_t gi, size_t ci) {
    Group &gr = groups[gi];
    Config &c = gr.cfgs[ci];
    RefData rd;
    check_config(ctx, c, g_base + fmt("/g%zu_c%zu", gi, ci), rd);
    ++nconfigs;
    (c.inv_differs ? nconf_differs : nconf_equal)++;
    {
      std::lock_guard< std::mutex > g(cnt_mtx);
      ++per_component[c.comp_name()];
      ++per_layout[c.lay.name()];
    }
    if (rd.ok && c.chains)
      R.sample(c.json(fmt(", \"class\": \"%s\", \"dump_bytes\": %zu, \"dt_step1\": %.6g, \"chains\": true",
                          c.inv_class().c_str(), rd.ref[NSTEP].dump.size(), rd.info[1].actual)));
    if (c.comps == 0 && rd.ok) {
      gr.base_ok = true;
      gr.dt1 = rd.info[1].actual;
      gr.t_end_step2 = rd.info[1].current;
      gr.t_end_step3 = rd.info[2].current;
    }
  };
  // phase 1: the plain configuration of every group; phase 2: all the others,
  // as independent work items, those with chains first (they take longest)
  parallel_for(groups.size(), 16, [&](size_t gi) { run_config(gi, 0); });
  std::vector< std::pair< size_t, size_t > > items;
  for (int pass = 0; pass < 2; ++pass)
    for (size_t gi = 0; gi < groups.size(); ++gi)
      for (size_t ci = 1; ci < groups[gi].cfgs.size(); ++ci)
        if (groups[gi].base_ok && groups[gi].cfgs[ci].chains == (pass == 0))
          items.push_back({gi, ci});
  parallel_for(items.size(), 16, [&](size_t i) {
    Group &gr = groups[items[i].first];
    Config &c = gr.cfgs[items[i].second];
    c.dt1 = gr.dt1;
    c.t_end_step2 = gr.t_end_step2;
    c.t_end_step3 = gr.t_end_step3;
    run_config(items[i].first, items[i].second);
  });

  R.evaluations = ctx.tally.evaluations;
  R.nontrivial = ctx.tally.nontrivial;
  R.rule = "evaluation = one byte comparison of a dump (or one content comparison of a snapshot or of the source "
           "log) written by a restarted run against the uninterrupted run; non-trivial case = one (configuration, "
           "stop history) whose run really continued from a dump (each single stop k and each chain with >= 2 stops "
           "counted once), in configurations whose state changes at every step";
  R.set("configurations", (double)nconfigs.load());
  R.set("configurations_inverse_cell_size_differs", (double)nconf_differs.load());
  R.set("configurations_inverse_cell_size_equal", (double)nconf_equal.load());
  R.set("simulation_runs", (double)ctx.tally.runs);
  R.set("restarted_legs", (double)ctx.tally.legs);
  R.set("chains", (double)ctx.tally.chains);
  R.set("chains_with_odd_number_of_restarts", (double)ctx.tally.chain_legs_odd);
  R.set("chains_with_even_number_of_restarts", (double)ctx.tally.chain_legs_even);
  R.set("snapshot_comparisons", (double)ctx.tally.snapshot_compares);
  R.set("source_log_comparisons", (double)ctx.tally.srclog_compares);
  R.set("source_list_changes_min_steps", (double)ctx.min_source_changes);
  R.set("simulation_run_wall_sum_s", ctx.tally.run_wall);
  R.set("snapshot_reader_wall_sum_s", ctx.tally.canon_wall);
  R.set("run_helper_processes", (double)g_server.size());
  std::string gl;
  for (auto &g : geos)
    gl += (gl.empty() ? "" : ", ") + g.name;
  R.set_str("geometries", gl);
  {
    std::string js = "{";
    for (auto &kv : per_component)
      js += fmt("%s\"%s\": %llu", js.size() > 1 ? ", " : "", kv.first.c_str(), (unsigned long long)kv.second);
    R.set_json("configurations_per_component_set", js + "}");
    js = "{";
    for (auto &kv : per_layout)
      js += fmt("%s\"%s\": %llu", js.size() > 1 ? ", " : "", kv.first.c_str(), (unsigned long long)kv.second);
    R.set_json("configurations_per_layout", js + "}");
  }
  R.set_str("chain_configurations", A.thorough() ? "all" : chain_list);
  R.set_str("single_stop_targets", "every stop k in 1..5 continued to every step j in k+1..6 on every configuration");
  R.set_str("component_parameters",
            fmt("mask: centre (%g, %g, %g) x sides, radius %g x shortest side, scale factors density %g / velocity %g "
                "/ pressure %g, delta t %g x total time; turbulence: k in [%g, %g], peak %g, concentration %g, seed "
                "%d, generator forwarded %g forcing steps; source list: seed %d, box anchor (%g, %g, %g) sides (%g, "
                "%g, %g) x box; point mass at (%g, %g, %g) x sides; source copy level %d; photon seed %d",
                MASK_CENTRE[0], MASK_CENTRE[1], MASK_CENTRE[2], MASK_RADIUS, MASK_SCALE_DENSITY, MASK_SCALE_VELOCITY,
                MASK_SCALE_PRESSURE, MASK_DELTA_T, TURB_KMIN, TURB_KMAX, TURB_KPEAK, TURB_CONCENTRATION, TURB_SEED,
                TURB_START, URAND_SEED, URAND_BOX_ANCHOR[0], URAND_BOX_ANCHOR[1], URAND_BOX_ANCHOR[2],
                URAND_BOX_SIDES[0], URAND_BOX_SIDES[1], URAND_BOX_SIDES[2], GRAV_POS[0], GRAV_POS[1], GRAV_POS[2],
                COPY_LEVEL, RUN_SEED));
  R.assumptions.push_back("documented exceptions masked: bytes [0,192) of the dump (four Timer objects); the 8-byte "
                          "random_seed field is not masked but compared with the value re-seeding must produce; "
                          "snapshot attribute RuntimePars@Creation time and HDF5 object header time stamps");
  R.assumptions.push_back("BlockSyntaxHydroMask refuses to be dumped (HydroMask::write_restart_file -> cmac_error "
                          "'Restarting not supported for this mask'), so the mask component is RescaledICHydroMask, the "
                          "only mask HydroMaskFactory::restart accepts");
  R.assumptions.push_back("turbulence forcing is not combined with the anisotropic boxes (AlveliusTurbulenceForcing "
                          "requires a cubic box)");
  R.assumptions.push_back("TaskBasedRadiationHydrodynamicsSimulation updates the source list (PhotonSourceDistribution::"
                          "update) only inside the radiation step; with 'do radiation: false' (the property is about pure "
                          "hydrodynamics runs, and a restarted radiation step is re-seeded on purpose) the UniformRandom "
                          "list is therefore dumped and restored but does not move during the run "
                          "(source_list_changes_min_steps); its evolution after a restore is decided in the component part "
                          "(update() of the original and of the restored object)");
  R.assumptions.push_back("a restart happens in a directory that holds the dump and, for the source list with a log "
                          "file, that log file as it was when the dump was written or as a run that went on to the "
                          "last step left it; nothing else of the stopped run is present");
  g_server.stop();
  if (!g_keep) {
    rm_rf(g_base);
    verif::remove_fast_tmpdir(tmp);
  }
  return R.finish(A);
}
