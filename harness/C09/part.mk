# harness executables (name, sources, flavour, extra compile flags, extra link flags)
$(eval $(call HARNESS,c09_restart,$(V)/harness/C09/c09_restart.cpp,plain,-fno-access-control -pthread,-pthread))
$(eval $(call HARNESS,c09_components,$(V)/harness/C09/c09_components.cpp,plain,-fno-access-control,))
$(B)/bin/c09_restart: $(V)/harness/C09/c09_util.hpp
