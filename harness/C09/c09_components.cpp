// C09 - component level: every restartable class that can be instantiated
// cheaply is written, read back through its restart constructor and written
// again.
//
// For every (class, state) of the enumeration below
//   A  = bytes written by the original object O
//   R1 = object restored from A inside memory pre-filled with 0xAB
//   R2 = object restored from A inside memory pre-filled with 0x54
//   B  = bytes written by R1
// oracles
//   redump      : A == B
//   initialised : every listed member of R1 and R2 holds the same bytes (a
//                 member the restart constructor never assigns keeps the fill
//                 pattern, which differs between R1 and R2)
//   restored    : every listed value member of R1 equals the member of O
//                 (derived quantities included: they are functions of the
//                 dumped state), pointer members agree in being null or not
//   future      : where the class has behaviour, the same operation applied to
//                 O and R1 leaves both with identical dumps.
#include "verif_common.hpp"

#include "AlveliusTurbulenceForcing.hpp"
#include "AsciiFilePhotonSourceDistribution.hpp"
#include "Box.hpp"
#include "CaproniPhotonSourceDistribution.hpp"
#include "CoordinateVector.hpp"
#include "DensitySubGrid.hpp"
#include "DensitySubGridCreator.hpp"
#include "DiscPatchPhotonSourceDistribution.hpp"
#include "HomogeneousDensityFunction.hpp"
#include "Hydro.hpp"
#include "HydroDensitySubGrid.hpp"
#include "HydroVariables.hpp"
#include "IonizationVariables.hpp"
#include "LiveOutputManager.hpp"
#include "ParameterFile.hpp"
#include "RandomGenerator.hpp"
#include "RescaledICHydroMask.hpp"
#include "RestartReader.hpp"
#include "RestartWriter.hpp"
#include "SingleStarPhotonSourceDistribution.hpp"
#include "SingleSupernovaPhotonSourceDistribution.hpp"
#include "TimeLine.hpp"
#include "Timer.hpp"
#include "UniformRandomPhotonSourceDistribution.hpp"
#include "UnitConverter.hpp"
#include "YAMLDictionary.hpp"

#include <cstddef>
#include <functional>
#include <new>

using verif::fmt;

#include <csetjmp>
#include <csignal>

static std::string g_dir;
static sigjmp_buf g_jb;
static volatile sig_atomic_t g_crash_signal = 0;
static std::string g_current_class, g_current_state;
static void crash_handler(int sig) {
  g_crash_signal = sig;
  siglongjmp(g_jb, 1);
}
static verif::Result *g_R;
static uint64_t g_classes = 0;
static std::set< std::string > g_class_names;

// ---------------------------------------------------------------------------
enum Kind { VALUE, POINTER };
struct Field {
  const char *name;
  size_t offset, size;
  Kind kind;
};
#define FV(T, m)                                                                                   \
  Field { #m, offsetof(T, m), sizeof(((T *)nullptr)->m), VALUE }
#define FP(T, m)                                                                                   \
  Field { #m, offsetof(T, m), sizeof(((T *)nullptr)->m), POINTER }

template < class T > std::string dump_of(const T &o, const std::string &file) {
  {
    RestartWriter w(file);
    o.write_restart_file(w);
  }
  return verif::read_file(file);
}

template < class T > struct Holder {
  void *mem = nullptr;
  T *obj = nullptr;
  Holder() {}
  Holder(const Holder &) = delete;
  ~Holder() {
    if (obj)
      obj->~T();
    if (mem)
      ::operator delete(mem);
  }
  void restore(unsigned char fill, const std::string &file) {
    mem = ::operator new(sizeof(T));
    memset(mem, fill, sizeof(T));
    RestartReader r(file);
    obj = new (mem) T(r);
  }
};

static std::string hexbytes(const void *p, size_t n) {
  std::string s;
  const unsigned char *c = (const unsigned char *)p;
  for (size_t i = 0; i < n && i < 24; ++i)
    s += fmt("%02x", c[i]);
  if (n > 24)
    s += "..";
  return s;
}

/// the generic check; returns the restored object R1 through `use` for the
/// class specific "future" oracle
template < class T >
void check_object(const std::string &cls, const std::string &state, const T &orig,
                  const std::vector< Field > &fields,
                  const std::function< void(T &, const std::string &) > &future = nullptr,
                  T *orig_mutable = nullptr, const std::string &key_tag = "") {
  if (!g_class_names.count(cls)) {
    g_class_names.insert(cls);
    ++g_classes;
  }
  g_current_state = state;
  const std::string fa = g_dir + "/a.dump", fb = g_dir + "/b.dump";
  const std::string A = dump_of(orig, fa);
  Holder< T > r1, r2;
  r1.restore(0xAB, fa);
  r2.restore(0x54, fa);
  const std::string replay = fmt("{\"class\": \"%s\", \"state\": \"%s\"}", cls.c_str(), state.c_str());
  const std::string tag = key_tag.empty() ? "" : ":" + key_tag;
  if (!A.empty())
    g_R->distinct.insert(verif::fnv1a(A, verif::fnv1a(cls)));
  // members first: a pointer member left uninitialised makes every further
  // use of the restored object (re-dump, destructor) meaningless
  bool wild_pointer = false;
  for (auto &f : fields) {
    ++g_R->evaluations;
    const char *p1 = (const char *)r1.obj + f.offset;
    const char *p2 = (const char *)r2.obj + f.offset;
    const char *po = (const char *)&orig + f.offset;
    bool unassigned = memcmp(p1, p2, f.size) != 0;
    if (f.kind == POINTER) {
      // two restored objects own different allocations; unassigned = both
      // still hold the fill patterns
      unassigned = true;
      for (size_t i = 0; i < f.size; ++i)
        unassigned = unassigned && (unsigned char)p1[i] == 0xAB && (unsigned char)p2[i] == 0x54;
    }
    if (unassigned) {
      g_R->violation("C09:restart-constructor-leaves-uninitialised:" + cls + "::" + f.name,
                     fmt("%s (%s): member %s (offset %zu, %zu bytes) keeps the fill pattern of the memory the "
                         "object was restored into (%s vs %s): the restart constructor never assigns it",
                         cls.c_str(), state.c_str(), f.name, f.offset, f.size, hexbytes(p1, f.size).c_str(),
                         hexbytes(p2, f.size).c_str()),
                     replay);
      if (f.kind == POINTER)
        wild_pointer = true;
      continue;
    }
    if (f.kind == VALUE) {
      if (memcmp(p1, po, f.size) != 0)
        g_R->violation("C09:restored-state-differs:" + cls + "::" + f.name + tag,
                       fmt("%s (%s): member %s of the restored object is %s, of the original %s", cls.c_str(),
                           state.c_str(), f.name, hexbytes(p1, f.size).c_str(), hexbytes(po, f.size).c_str()),
                       replay);
    } else {
      bool n1 = true, no = true;
      for (size_t i = 0; i < f.size; ++i) {
        n1 = n1 && p1[i] == 0;
        no = no && po[i] == 0;
      }
      if (n1 != no)
        g_R->violation("C09:restored-state-differs:" + cls + "::" + f.name + tag,
                       fmt("%s (%s): pointer member %s is %s in the restored object and %s in the original",
                           cls.c_str(), state.c_str(), f.name, n1 ? "null" : "set", no ? "null" : "set"),
                       replay);
    }
  }
  if (wild_pointer) {
    // do not run destructors or writers over a wild pointer
    r1.obj = nullptr;
    r2.obj = nullptr;
    g_R->add("objects_not_redumped_because_of_wild_pointer", 1);
    return;
  }
  const std::string B = dump_of(*r1.obj, fb);
  ++g_R->evaluations;
  if (A != B) {
    size_t off = 0;
    while (off < std::min(A.size(), B.size()) && A[off] == B[off])
      ++off;
    g_R->violation("C09:component-redump-differs:" + cls + tag,
                   fmt("%s (%s): write -> read -> write gives different bytes (sizes %zu/%zu, first difference "
                       "at offset %zu)",
                       cls.c_str(), state.c_str(), A.size(), B.size(), off),
                   replay);
  }
  if (future && orig_mutable) {
    ++g_R->evaluations;
    future(*orig_mutable, "orig");
    future(*r1.obj, "restored");
    const std::string A2 = dump_of(*orig_mutable, fa);
    const std::string B2 = dump_of(*r1.obj, fb);
    if (A2 != B2) {
      size_t off = 0, cnt = 0;
      for (size_t i = 0; i < std::min(A2.size(), B2.size()); ++i)
        if (A2[i] != B2[i]) {
          if (!cnt)
            off = i;
          ++cnt;
        }
      g_R->violation("C09:restored-object-behaves-differently:" + cls + tag,
                     fmt("%s (%s): after the same operation the original and the restored object dump different "
                         "bytes (%zu differ, first at %zu of %zu)",
                         cls.c_str(), state.c_str(), cnt, off, A2.size()),
                     replay);
    }
  }
}

// ---------------------------------------------------------------------------
static void fill_ionization(IonizationVariables &v, int seed) {
  v.set_number_density(1.e8 + seed * 3.7e6);
  v.set_temperature(8000. + 13. * seed);
  for (int i = 0; i < NUMBER_OF_IONNAMES; ++i) {
    v.set_ionic_fraction(i, 1. / (3. + i + seed));
    v._mean_intensity[i] = 1.e-3 * (i + 1) + seed;
  }
  for (int i = 0; i < NUMBER_OF_REEMISSIONPROBABILITIES; ++i)
    v._reemission_probabilities[i] = 0.1 * i + 0.01 * seed;
  for (int i = 0; i < NUMBER_OF_HEATINGTERMS; ++i)
    v._heating[i] = 2.5e-20 * (i + 1) * (seed + 1);
  v._cosmic_ray_factor = 0.25 + seed;
}

static void fill_hydro(HydroVariables &v, int seed) {
  for (int i = 0; i < 5; ++i) {
    v._primitives[i] = 1.e-19 * (i + 1) + 1.e-21 * seed;
    v._conserved[i] = 3.e30 / (i + 2) + seed;
    v._delta_conserved[i] = -1.e10 * (i + 1) + 0.1 * seed;
    v._primitive_gradients[i] = CoordinateVector<>(1.e-30 * i, -2.e-31 * seed, 3.e-33);
  }
  v._gravitational_acceleration = CoordinateVector<>(1.e-10, 2.e-11 * seed, -3.e-12);
  v._energy_rate_term = 4.e20 + seed;
  v._energy_term = -7.e25 + seed;
}

/// the evolving source lists append to a log file in the working directory;
/// the original and the restored object must each continue from the file as it
/// was when the dump was written
static std::string g_log_after[2];
template < class S > std::function< void(S &, const std::string &) >
with_source_log(const std::string &fname, std::function< void(S &) > op) {
  return [fname, op](S &x, const std::string &who) {
    const std::string bak = fname + ".at_dump";
    if (who == "orig") {
      FILE *f = fopen(bak.c_str(), "wb");
      std::string c = verif::read_file(fname);
      fwrite(c.data(), 1, c.size(), f);
      fclose(f);
    } else {
      std::string c = verif::read_file(bak);
      FILE *f = fopen(fname.c_str(), "wb"); // same inode, truncated
      fwrite(c.data(), 1, c.size(), f);
      fclose(f);
    }
    op(x);
    g_log_after[who == "orig" ? 0 : 1] = verif::read_file(fname);
  };
}
static void compare_source_logs(const std::string &cls, const std::string &state, bool output) {
  if (!output)
    return;
  ++g_R->evaluations;
  if (g_log_after[0] != g_log_after[1])
    g_R->violation("C09:restored-object-behaves-differently:" + cls + ":source-log",
                   fmt("%s (%s): the source log file continued by the restored object (%zu bytes) differs from "
                       "the one continued by the original (%zu bytes)",
                       cls.c_str(), state.c_str(), g_log_after[1].size(), g_log_after[0].size()),
                   fmt("{\"class\": \"%s\"}", cls.c_str()));
}

struct BoxSpec {
  const char *name;
  double side;
};

static bool inverse_differs(double side, int ncell) {
  const double cs = side / ncell;
  return ncell / side != 1. / cs;
}

// ---------------------------------------------------------------------------
int main(int argc, char **argv) {
  verif::Args A = verif::parse_args(argc, argv);
  verif::Result R(A);
  g_R = &R;
  const std::string tmp = verif::fast_tmpdir();
  g_dir = tmp + "/c09_components";
  mkdir(g_dir.c_str(), 0700);
  if (chdir(g_dir.c_str()) != 0) {
    perror("chdir");
    return 3;
  }
  const std::string only = A.replay.empty() ? "" : verif::replay_field(verif::read_file(A.replay), "class");
  // a crash (SIGSEGV, abort from cmac_error) inside the block of one class ends
  // that block and is reported; the other classes are still checked
  signal(SIGSEGV, crash_handler);
  signal(SIGABRT, crash_handler);
  signal(SIGBUS, crash_handler);
  signal(SIGFPE, crash_handler);
  auto flush_crash = [&]() {
    if (g_crash_signal) {
      R.violation("C09:component-crash:" + g_current_class,
                  fmt("%s (%s): signal %d while writing/reading/operating the restored object",
                      g_current_class.c_str(), g_current_state.c_str(), (int)g_crash_signal),
                  fmt("{\"class\": \"%s\"}", g_current_class.c_str()));
      g_crash_signal = 0;
    }
  };
  auto next_class = [&](const char *cls) {
    flush_crash();
    g_current_class = cls;
    g_current_state = "";
    return only.empty() || only == cls;
  };
#define WANT(cls) (next_class(cls) && sigsetjmp(g_jb, 1) == 0)

  // box sides exactly as a parameter file gives them ("2.512 pc" -> m)
  auto pc = [](double x) { return UnitConverter::to_SI< QUANTITY_LENGTH >(x, "pc"); };
  const double PC = pc(1.);
  // subgrid boxes: side values from both inverse-cell-size classes, found by
  // evaluating both expressions
  std::vector< std::pair< std::string, double > > sides = {{"1m", 1.}, {"2pc", pc(2.)}, {"2.512pc", pc(2.512)}};
  {
    int nd = 0, ne = 0;
    for (auto &s : sides)
      for (int n : {3, 6}) {
        nd += inverse_differs(s.second, n);
        ne += !inverse_differs(s.second, n);
      }
    for (double s : {1.1, 0.3, 5.3, 7.7, 1.7, 3.3, 0.9, 4.1, 2.9, 6.1}) {
      if (nd >= 3 && ne >= 3)
        break;
      bool d = inverse_differs(pc(s), 3) || inverse_differs(pc(s), 6);
      if ((d && nd < 3) || (!d && ne < 3)) {
        sides.push_back({fmt("%gpc", s), pc(s)});
        nd += d;
        ne += !d;
      }
    }
    R.set("subgrid_boxes_inverse_differs", nd);
    R.set("subgrid_boxes_inverse_equal", ne);
  }

  // --- CoordinateVector, Box, Timer
  if (WANT("CoordinateVector")) {
    for (int s = 0; s < 4; ++s) {
      CoordinateVector<> v(1.5 * s, -2.e300 * s, 4.9e-324 * s);
      check_object< CoordinateVector<> >("CoordinateVector", fmt("v%d", s), v,
                                          {FV(CoordinateVector<>, _x), FV(CoordinateVector<>, _y),
                                           FV(CoordinateVector<>, _z)});
    }
  }
  if (WANT("Box")) {
    Box<> b(CoordinateVector<>(-1., 2., 3.5), CoordinateVector<>(2.512 * PC, 1., 7.));
    check_object< Box<> >("Box", "b0", b, {FV(Box<>, _anchor), FV(Box<>, _sides)});
  }
  if (WANT("Timer")) {
    Timer t;
    t.start();
    t.stop();
    check_object< Timer >("Timer", "stopped", t, {FV(Timer, _start), FV(Timer, _stop), FV(Timer, _diff)});
  }

  // --- TimeLine in several states
  if (WANT("TimeLine")) {
    const std::vector< Field > f = {FV(TimeLine, _minimum_timestep), FV(TimeLine, _maximum_timestep),
                                    FV(TimeLine, _conversion_factors), FV(TimeLine, _current_time)};
    for (int nadv = 0; nadv < 6; ++nadv)
      for (double total : {1., 3.1536e13, 0.7}) {
        TimeLine tl(0.1 * total, 1.1 * total, 1.e-6 * total, 0.13 * total, nullptr);
        double dt, t;
        for (int i = 0; i < nadv; ++i)
          tl.advance(0.031 * total * (1 + i % 3), dt, t);
        check_object< TimeLine >(
            "TimeLine", fmt("total=%g advanced %d", total, nadv), tl, f,
            [&](TimeLine &x, const std::string &) {
              double a, b;
              x.advance(0.017 * total, a, b);
            },
            &tl);
      }
  }

  // --- RandomGenerator at several positions of several streams
  if (WANT("RandomGenerator")) {
    const std::vector< Field > f = {FV(RandomGenerator, _xdbl), FV(RandomGenerator, _carry),
                                    FV(RandomGenerator, _ir),   FV(RandomGenerator, _jr),
                                    FV(RandomGenerator, _ir_old), FV(RandomGenerator, _pr)};
    for (int seed : {1, 42, 77, 2147483647})
      for (int ndraw : {0, 1, 11, 12, 13, 203, 1000}) {
        RandomGenerator g(seed);
        for (int i = 0; i < ndraw; ++i)
          g.get_uniform_random_double();
        check_object< RandomGenerator >(
            "RandomGenerator", fmt("seed %d after %d draws", seed, ndraw), g, f,
            [&](RandomGenerator &x, const std::string &) {
              for (int i = 0; i < 30; ++i)
                x.get_uniform_random_double();
            },
            &g);
      }
  }

  // --- cell variables
  if (WANT("HydroVariables")) {
    const std::vector< Field > f = {FV(HydroVariables, _primitives),
                                    FV(HydroVariables, _conserved),
                                    FV(HydroVariables, _delta_conserved),
                                    FV(HydroVariables, _primitive_gradients),
                                    FV(HydroVariables, _gravitational_acceleration),
                                    FV(HydroVariables, _energy_rate_term),
                                    FV(HydroVariables, _energy_term)};
    for (int s = 0; s < 4; ++s) {
      HydroVariables v;
      if (s)
        fill_hydro(v, s);
      check_object< HydroVariables >("HydroVariables", fmt("fill %d", s), v, f);
    }
  }
  if (WANT("IonizationVariables")) {
    std::vector< Field > f = {FV(IonizationVariables, _number_density),
                              FV(IonizationVariables, _temperature),
                              FV(IonizationVariables, _ionic_fractions),
                              FV(IonizationVariables, _mean_intensity),
                              FV(IonizationVariables, _reemission_probabilities),
                              FV(IonizationVariables, _heating),
                              FV(IonizationVariables, _cosmic_ray_factor),
                              FP(IonizationVariables, _tracker)};
    for (int s = 0; s < 4; ++s) {
      IonizationVariables v;
      if (s)
        fill_ionization(v, s);
      check_object< IonizationVariables >("IonizationVariables", fmt("fill %d", s), v, f);
    }
  }

  // --- subgrids on boxes of both inverse-cell-size classes
  const std::vector< Field > dsg_fields = {FV(DensitySubGrid, _ngbs),
                                           FV(DensitySubGrid, _active_buffers),
                                           FV(DensitySubGrid, _computational_cost),
                                           FV(DensitySubGrid, _anchor),
                                           FV(DensitySubGrid, _cell_size),
                                           FV(DensitySubGrid, _inv_cell_size),
                                           FV(DensitySubGrid, _number_of_cells),
                                           FV(DensitySubGrid, _owning_thread),
                                           FV(DensitySubGrid, _largest_buffer_index),
                                           FV(DensitySubGrid, _largest_buffer_size),
                                           FP(DensitySubGrid, _ionization_variables)};
  std::vector< Field > hsg_fields = dsg_fields;
  hsg_fields.push_back(FV(HydroDensitySubGrid, _cell_volume));
  hsg_fields.push_back(FV(HydroDensitySubGrid, _inverse_cell_volume));
  hsg_fields.push_back(FV(HydroDensitySubGrid, _cell_areas));
  hsg_fields.push_back(FP(HydroDensitySubGrid, _hydro_variables));
  hsg_fields.push_back(FP(HydroDensitySubGrid, _primitive_variable_limiters));
  Hydro hydro(5. / 3., 100., 1.e4, 1.e99, false);

  // subgrid boxes: cubic cells of both inverse-cell-size classes, and
  // anisotropic cells for which the association order of the derived
  // quantities matters: (dx*dy)*dz, dx*(dy*dz), (dx*dz)*dy do not all agree
  struct SubSpec {
    std::string state, tag;
    double box[6];
    int n[3];
  };
  std::vector< SubSpec > specs;
  for (auto &sd : sides)
    for (int n : {3, 6}) {
      const bool differs = inverse_differs(sd.second, n);
      SubSpec sp;
      sp.tag = differs ? "non-dyadic-cell-size" : "";
      const double b[6] = {-0.5 * sd.second, 0.25 * sd.second, 0., sd.second, sd.second, 2. * sd.second};
      memcpy(sp.box, b, sizeof(b));
      sp.n[0] = n;
      sp.n[1] = n;
      sp.n[2] = 2 * n;
      sp.state = fmt("side %s, %d cells (n/s %s 1/(s/n))", sd.first.c_str(), n, differs ? "!=" : "==");
      specs.push_back(sp);
    }
  {
    struct Cand {
      double s[3];
      int n[3];
    };
    std::vector< Cand > cand = {{{1., 1., 2.}, {10, 10, 12}}, {{0.5, 0.5, 2.}, {5, 5, 12}}};
    const double sv[] = {0.7, 0.9, 1.1, 1.3, 1.7, 3.};
    for (double x : sv)
      for (double y : sv)
        for (double z : sv)
          if (!(x == y && y == z))
            for (int n : {3, 6})
              cand.push_back({{x, y, z}, {n, n, n}});
    unsigned covered = 0, nsel = 0, nagree = 0;
    for (auto &c : cand) {
      const double dx = c.s[0] / c.n[0], dy = c.s[1] / c.n[1], dz = c.s[2] / c.n[2];
      const double v1 = (dx * dy) * dz, v2 = dx * (dy * dz), v3 = (dx * dz) * dy;
      const unsigned pairs = (v1 != v2 ? 1u : 0u) | (v1 != v3 ? 2u : 0u) | (v2 != v3 ? 4u : 0u);
      bool take = false;
      if (pairs == 0 && nagree < 1) {
        take = true; // one anisotropic box on which all orders agree
        ++nagree;
      } else if (pairs && (nsel < 2 || (pairs & ~covered)) && nsel < 5) {
        take = true;
        ++nsel;
        covered |= pairs;
      }
      if (!take)
        continue;
      SubSpec sp;
      bool invd = false;
      for (int i = 0; i < 3; ++i)
        invd = invd || inverse_differs(c.s[i], c.n[i]);
      sp.tag = pairs ? "non-associative-cell-products" : (invd ? "non-dyadic-cell-size" : "");
      const double b[6] = {-0.5 * c.s[0], 0.25 * c.s[1], 0., c.s[0], c.s[1], c.s[2]};
      memcpy(sp.box, b, sizeof(b));
      for (int i = 0; i < 3; ++i)
        sp.n[i] = c.n[i];
      sp.state = fmt("box %g x %g x %g m, %d x %d x %d cells: (dx*dy)*dz = %a, dx*(dy*dz) = %a, (dx*dz)*dy = %a",
                     c.s[0], c.s[1], c.s[2], c.n[0], c.n[1], c.n[2], v1, v2, v3);
      specs.push_back(sp);
    }
    R.set("subgrid_boxes_non_associative_cell_products", nsel);
    R.set("subgrid_product_order_pairs_covered_bitmask", covered);
    if (nsel < 2)
      R.violation("C09:geometry-alphabet-incomplete",
                  fmt("need two subgrid boxes for which the orders of dx*dy*dz do not all agree, found %u", nsel));
  }
  for (auto &sp : specs) {
    {
      const std::string &tag = sp.tag;
      const double *box = sp.box;
      const CoordinateVector< int_fast32_t > ncell(sp.n[0], sp.n[1], sp.n[2]);
      const std::string &state = sp.state;
      const int ntot = sp.n[0] * sp.n[1] * sp.n[2];
      if (WANT("DensitySubGrid")) {
        DensitySubGrid g(box, ncell);
        for (int i = 0; i < TRAVELDIRECTION_NUMBER; ++i) {
          g._ngbs[i] = (i * 7) % 5;
          g._active_buffers[i] = NEIGHBOUR_OUTSIDE;
        }
        for (int i = 0; i < ntot; ++i)
          fill_ionization(g._ionization_variables[i], i % 5);
        check_object< DensitySubGrid >("DensitySubGrid", state, g, dsg_fields, nullptr, nullptr, tag);
      }
      if (WANT("HydroDensitySubGrid")) {
        HydroDensitySubGrid g(box, ncell);
        for (int i = 0; i < TRAVELDIRECTION_NUMBER; ++i) {
          g._ngbs[i] = (i * 7) % 5;
          g._active_buffers[i] = NEIGHBOUR_OUTSIDE;
        }
        // a smooth, non-uniform gas state
        int idx = 0;
        for (auto it = g.hydro_begin(); it != g.hydro_end(); ++it, ++idx) {
          IonizationVariables &iv = it.get_ionization_variables();
          iv.set_number_density(1.e8 * (1. + 0.3 * std::sin(0.9 * idx)));
          iv.set_temperature(8000. + 500. * std::cos(0.37 * idx));
          iv.set_ionic_fraction(ION_H_n, 1.e-6);
          it.get_hydro_variables().set_primitives_velocity(
              CoordinateVector<>(1.e3 * std::sin(0.5 * idx), -5.e2 * std::cos(0.3 * idx), 2.e2));
        }
        g.initialize_hydrodynamic_variables(hydro, true);
        check_object< HydroDensitySubGrid >(
            "HydroDensitySubGrid", state, g, hsg_fields,
            [&](HydroDensitySubGrid &x, const std::string &) {
              // one isolated hydro step of the subgrid: gradients, limiter,
              // prediction, fluxes, conserved and primitive update
              const double dt = 0.05 * x._cell_size[0] / 2.e4;
              x.inner_gradient_sweep(hydro);
              x.apply_slope_limiter(hydro);
              x.predict_primitive_variables(hydro, 0.5 * dt);
              x.inner_flux_sweep(hydro, dt);
              x.update_conserved_variables(dt);
              x.update_primitive_variables(hydro);
            },
            &g, tag);
      }
    }
  }

  // --- the subgrid creator (whole grid) on all three layouts
  if (WANT("DensitySubGridCreator")) {
    for (auto &sd : sides)
      for (int lay = 0; lay < 3; ++lay) {
        const int nsub[3] = {lay >= 1 ? 2 : 1, lay >= 2 ? 2 : 1, 1};
        bool differs = false;
        for (int i = 0; i < 3; ++i)
          differs = differs || inverse_differs(sd.second / nsub[i], 6 / nsub[i]);
        Box<> box(CoordinateVector<>(-0.5 * sd.second), CoordinateVector<>(sd.second));
        DensitySubGridCreator< HydroDensitySubGrid > gc(box, CoordinateVector< int_fast32_t >(6),
                                                         CoordinateVector< int_fast32_t >(nsub[0], nsub[1], nsub[2]),
                                                         CoordinateVector< bool >(lay == 1, false, false));
        HomogeneousDensityFunction df(1.e8, 8000.);
        gc.initialize(df);
        for (auto it = gc.begin(); it != gc.original_end(); ++it)
          (*it).initialize_hydrodynamic_variables(hydro, true);
        typedef DensitySubGridCreator< HydroDensitySubGrid > GC;
        check_object< GC >("DensitySubGridCreator", fmt("side %s layout %dx%dx%d", sd.first.c_str(), nsub[0], nsub[1], nsub[2]),
                           gc,
                           {FV(GC, _box), FV(GC, _subgrid_sides), FV(GC, _number_of_subgrids),
                            FV(GC, _subgrid_number_of_cells), FV(GC, _periodicity)},
                           nullptr, nullptr, differs ? "non-dyadic-cell-size" : "");
      }
  }

  // --- parameter dictionaries
  if (WANT("ParameterFile")) {
    const std::string pf = g_dir + "/p.param";
    FILE *f = fopen(pf.c_str(), "w");
    fputs("SimulationBox:\n  anchor: [-1. pc, -1. pc, -1. pc]\n  sides: [2.512 pc, 2. pc, 2. pc]\n"
          "Block:\n  name: some text with spaces\n  Sub:\n    value: 1.e-3\n    flag: true\n"
          "List:\n  items: [1, 2, 3]\n",
          f);
    fclose(f);
    for (int used = 0; used < 3; ++used) {
      ParameterFile p(pf);
      if (used >= 1)
        p.get_physical_vector< QUANTITY_LENGTH >("SimulationBox:sides");
      if (used >= 2) {
        p.get_value< double >("Block:Sub:value", 2.);
        p.get_value< std::string >("Block:absent key", "a default");
        p.get_physical_value< QUANTITY_TIME >("Other:time", "3. Myr");
      }
      check_object< ParameterFile >("ParameterFile", fmt("%d groups of values used", used), p, {});
      check_object< YAMLDictionary >("YAMLDictionary", fmt("%d groups of values used", used), p._yaml_dictionary, {});
    }
  }

  // --- turbulence forcing
  if (WANT("AlveliusTurbulenceForcing")) {
    typedef AlveliusTurbulenceForcing ATF;
    const std::vector< Field > f = {FV(ATF, _number_of_subgrids), FV(ATF, _number_of_cells), FV(ATF, _time_step),
                                    FV(ATF, _number_of_driving_steps)};
    for (int lay = 0; lay < 3; ++lay)
      for (int nupd = 0; nupd < 3; ++nupd) {
        const int nsub[3] = {lay >= 1 ? 2 : 1, lay >= 2 ? 2 : 1, 1};
        Box<> box(CoordinateVector<>(-1.), CoordinateVector<>(2.));
        ATF t(CoordinateVector< int_fast32_t >(nsub[0], nsub[1], nsub[2]),
              CoordinateVector< int_fast32_t >(6 / nsub[0], 6 / nsub[1], 6 / nsub[2]), box, 1., 2., 1.5, 0.2, 2.7e-4,
              17, 0.5, 0.);
        for (int i = 0; i < nupd; ++i)
          t.update_turbulence(1.3 * (i + 1));
        check_object< ATF >(
            "AlveliusTurbulenceForcing", fmt("layout %dx%dx%d after %d updates", nsub[0], nsub[1], nsub[2], nupd), t,
            f, [&](ATF &x, const std::string &) { x.update_turbulence(1.3 * (nupd + 1) + 2.1); }, &t);
      }
  }

  // --- mask
  if (WANT("RescaledICHydroMask")) {
    typedef RescaledICHydroMask M;
    const std::vector< Field > f = {FV(M, _center),       FV(M, _radius2),       FV(M, _scale_factors),
                                    FV(M, _delta_t),      FV(M, _snap_n),        FV(M, _mask_density),
                                    FV(M, _mask_velocity), FV(M, _mask_pressure)};
    for (int moving = 0; moving < 2; ++moving) {
      const double box[6] = {0., 0., 0., 1., 1., 1.};
      HydroDensitySubGrid g(box, CoordinateVector< int_fast32_t >(6));
      int idx = 0;
      for (auto it = g.hydro_begin(); it != g.hydro_end(); ++it, ++idx) {
        IonizationVariables &iv = it.get_ionization_variables();
        iv.set_number_density(1.e8 * (1. + 0.3 * std::sin(0.9 * idx)));
        iv.set_temperature(8000.);
        iv.set_ionic_fraction(ION_H_n, 1.e-6);
        if (moving)
          it.get_hydro_variables().set_primitives_velocity(
              CoordinateVector<>(1.e3 * (1. + std::sin(0.5 * idx)), -5.e2, 2.e2));
      }
      g.initialize_hydrodynamic_variables(hydro, true);
      M m(CoordinateVector<>(0.55), 0.3, 0.5, 0.8, 0.5, 0.);
      m.initialize_mask(0, g);
      // the future of a mask = what it does to a subgrid
      HydroDensitySubGrid g1(g), g2(g);
      for (int i = 0; i < TRAVELDIRECTION_NUMBER; ++i) // not set by the constructors
        g1._ngbs[i] = g2._ngbs[i] = NEIGHBOUR_OUTSIDE;
      std::string after_orig, after_restored;
      check_object< M >(
          "RescaledICHydroMask", moving ? "gas moving inside the mask" : "gas at rest", m, f,
          [&](M &x, const std::string &who) {
            HydroDensitySubGrid &t = (who == "orig") ? g1 : g2;
            x.apply_mask(0, t, 1.e-6, 1.e-6);
            (who == "orig" ? after_orig : after_restored) = dump_of(t, g_dir + "/sg.dump");
          },
          &m);
      ++R.evaluations;
      size_t ndiff = 0, first = 0;
      for (size_t i = 0; i < std::min(after_orig.size(), after_restored.size()); ++i)
        if (after_orig[i] != after_restored[i]) {
          if (!ndiff)
            first = i;
          ++ndiff;
        }
      if (after_orig != after_restored)
        R.violation("C09:restored-object-behaves-differently:RescaledICHydroMask",
                    fmt("RescaledICHydroMask (%s): apply_mask of the restored mask leaves the subgrid in a different "
                        "state than apply_mask of the original mask (%zu bytes of the subgrid dump differ, first at "
                        "%zu of %zu)",
                        moving ? "gas moving inside the mask" : "gas at rest", ndiff, first, after_orig.size()),
                    "{\"class\": \"RescaledICHydroMask\"}");
    }
  }

  // --- source distributions
  if (WANT("SingleStarPhotonSourceDistribution")) {
    typedef SingleStarPhotonSourceDistribution S;
    S s(CoordinateVector<>(1., 2., 3.), 1.e49);
    check_object< S >("SingleStarPhotonSourceDistribution", "s0", s, {FV(S, _position), FV(S, _luminosity)});
  }
  if (WANT("SingleSupernovaPhotonSourceDistribution")) {
    typedef SingleSupernovaPhotonSourceDistribution S;
    for (int exploded = 0; exploded < 2; ++exploded) {
      S s(CoordinateVector<>(1., 2., 3.), 5., 1.e49, 1.e44);
      if (exploded)
        s.done_stellar_feedback();
      check_object< S >("SingleSupernovaPhotonSourceDistribution", exploded ? "exploded" : "alive", s,
                        {FV(S, _position), FV(S, _lifetime), FV(S, _luminosity), FV(S, _energy),
                         FV(S, _has_exploded)});
    }
  }
  if (WANT("UniformRandomPhotonSourceDistribution")) {
    typedef UniformRandomPhotonSourceDistribution S;
    const std::vector< Field > f = {FV(S, _source_lifetime),  FV(S, _source_luminosity), FV(S, _number_of_sources),
                                    FV(S, _box),              FV(S, _update_interval),   FV(S, _number_of_updates),
                                    FP(S, _output_file)};
    for (int output = 0; output < 2; ++output)
      for (int nupd = 0; nupd < 3; ++nupd) {
        S s(10., 1.e48, 5, CoordinateVector<>(-1.), CoordinateVector<>(2.), 77, 1.5, 4., output);
        for (int i = 0; i < nupd; ++i)
          s.update(4. + 1.6 * (i + 1));
        check_object< S >(
            "UniformRandomPhotonSourceDistribution",
            fmt("%s source file, %d updates", output ? "with" : "no", nupd), s, f,
            with_source_log< S >("UniformRandom_source_positions.txt", [&](S &x) { x.update(4. + 1.6 * (nupd + 1) + 7.); }), &s);
        compare_source_logs("UniformRandomPhotonSourceDistribution", fmt("%d updates", nupd), output);
      }
  }
  if (WANT("DiscPatchPhotonSourceDistribution")) {
    typedef DiscPatchPhotonSourceDistribution S;
    const std::vector< Field > f = {FV(S, _source_lifetime), FV(S, _source_luminosity), FV(S, _source_probability),
                                    FV(S, _average_number_of_sources), FV(S, _anchor_x), FV(S, _anchor_y),
                                    FV(S, _sides_x), FV(S, _sides_y), FV(S, _origin_z), FV(S, _scaleheight_z),
                                    FV(S, _update_interval), FV(S, _number_of_updates), FP(S, _output_file)};
    for (int output = 0; output < 2; ++output)
      for (int nupd = 0; nupd < 3; ++nupd) {
        S s(10., 1.e48, 6, -1., 2., -1., 2., 0., 0.3, 91, 1.5, 4., output);
        for (int i = 0; i < nupd; ++i)
          s.update(4. + 1.6 * (i + 1));
        check_object< S >(
            "DiscPatchPhotonSourceDistribution", fmt("%s source file, %d updates", output ? "with" : "no", nupd), s,
            f, with_source_log< S >("DiscPatch_source_positions.txt", [&](S &x) { x.update(4. + 1.6 * (nupd + 1) + 7.); }), &s);
        compare_source_logs("DiscPatchPhotonSourceDistribution", fmt("%d updates", nupd), output);
      }
  }
  if (WANT("CaproniPhotonSourceDistribution")) {
    typedef CaproniPhotonSourceDistribution S;
    const std::vector< Field > f = {FV(S, _number_function_norm), FV(S, _UV_luminosity_norm), FV(S, _boost_factor),
                                    FV(S, _IMF_A), FV(S, _IMF_B), FV(S, _IMF_C), FV(S, _OB_mass_limit_in_Msol),
                                    FV(S, _update_interval), FV(S, _number_of_updates),
                                    FV(S, _total_source_luminosity), FV(S, _Oflag), FP(S, _output_file)};
    const double Msol = 1.98855e30;
    for (int output = 0; output < 2; ++output)
      for (int nupd = 0; nupd < 2; ++nupd) {
        S s(1., 1., 8. * Msol, 15. * Msol, 120. * Msol, -2.3, 42, 3.e13, 0., 1., output);
        for (int i = 0; i < nupd; ++i)
          s.update(3.1e13 * (i + 1));
        check_object< S >(
            "CaproniPhotonSourceDistribution", fmt("%s source file, %d updates", output ? "with" : "no", nupd), s, f,
            with_source_log< S >("Caproni_source_positions.txt", [&](S &x) { x.update(3.1e13 * (nupd + 3)); }), &s);
        compare_source_logs("CaproniPhotonSourceDistribution", fmt("%d updates", nupd), output);
      }
  }

  // --- live output counter
  if (WANT("LiveOutputManager")) {
    ++R.evaluations;
    LiveOutputManager a(CoordinateVector< int_fast32_t >(1), CoordinateVector< int_fast32_t >(4), false, true, false,
                        true, 1.e-25, 1.e-19, 10, true, 5.e4, 10, 1.);
    a._next_output = 7;
    {
      RestartWriter w(g_dir + "/a.dump");
      a.write_restart_info(w);
    }
    LiveOutputManager b(CoordinateVector< int_fast32_t >(1), CoordinateVector< int_fast32_t >(4), false, true, false,
                        true, 1.e-25, 1.e-19, 10, true, 5.e4, 10, 1.);
    {
      RestartReader r(g_dir + "/a.dump");
      b.read_restart_info(r);
    }
    {
      RestartWriter w(g_dir + "/b.dump");
      b.write_restart_info(w);
    }
    if (verif::read_file(g_dir + "/a.dump") != verif::read_file(g_dir + "/b.dump") || b._next_output != 7)
      R.violation("C09:component-redump-differs:LiveOutputManager", "output counter not restored",
                  "{\"class\": \"LiveOutputManager\"}");
    if (!g_class_names.count("LiveOutputManager")) {
      g_class_names.insert("LiveOutputManager");
      ++g_classes;
    }
  }

  flush_crash();
  R.rule = "evaluation = one oracle decision (re-dump equality, one member of one restored object, one future "
           "comparison); distinct non-trivial case = one (class, dumped byte image) pair with a non-empty image";
  R.set("classes", (double)g_classes);
  std::string cl;
  for (auto &c : g_class_names)
    cl += (cl.empty() ? "" : ", ") + c;
  R.set_str("class_list", cl);
  R.assumptions.push_back("legacy classes with restart constructors that need a full legacy grid (DensityGrid, "
                          "CartesianDensityGrid, DensityGridFactory, StatisticsLogger) and AsciiFilePhotonSourceDistribution "
                          "are not instantiated here");
  if (!A.replay.empty())
    for (auto &v : R.violations)
      printf("VIOLATION %s :: %s\n", v.key.c_str(), v.detail.c_str());
  if (chdir("/") != 0) {
  }
  std::string cmd = "rm -rf '" + g_dir + "'";
  if (system(cmd.c_str())) {
  }
  verif::remove_fast_tmpdir(tmp);
  return R.finish(A);
}
