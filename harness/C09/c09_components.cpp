// C09 - component level: every restartable class that can be instantiated
// cheaply is written, read back through its restart constructor and written
// again.
//
// For every (class, state) of the enumeration below
//   A  = bytes written by the original object O
//   R1 = object restored from A inside memory pre-filled with 0xAB
//   R2 = object restored from A inside memory pre-filled with 0x54
//   B  = bytes written by R1
// oracles
//   redump      : A == B
//   initialised : every listed member of R1 and R2 holds the same bytes (a
//                 member the restart constructor never assigns keeps the fill
//                 pattern, which differs between R1 and R2)
//   restored    : every listed value member of R1 equals the member of O
//                 (derived quantities included: they are functions of the
//                 dumped state), pointer members agree in being null or not
//   future      : where the class has behaviour, the same operation applied to
//                 O and R1 leaves both with identical dumps.
//   chain       : R1 is dumped and restored again (G2), G2 dumped and restored
//                 (G3): an even and a further odd number of restarts. Every
//                 generation must dump A and hold O's values (a defect that
//                 cancels after two restarts is reported for generation 1 and
//                 3, one that needs two restarts to appear for generation 2);
//                 the future operation is applied to G2 as well.
//
// Alphabet rule for the states below: parameters that play different roles get
// different values (per axis, per quantity), none of them the default of the
// code; repeatable things (subgrids, sources, modes, updates, output counters)
// appear 0, 1, 2 and >= 3 times.
#include "verif_common.hpp"

#include "AlveliusTurbulenceForcing.hpp"
#include "AsciiFilePhotonSourceDistribution.hpp"
#include "Box.hpp"
#include "CaproniPhotonSourceDistribution.hpp"
#include "CoordinateVector.hpp"
#include "DensitySubGrid.hpp"
#include "DensitySubGridCreator.hpp"
#include "DiscPatchPhotonSourceDistribution.hpp"
#include "HomogeneousDensityFunction.hpp"
#include "Hydro.hpp"
#include "HydroDensitySubGrid.hpp"
#include "HydroVariables.hpp"
#include "IonizationVariables.hpp"
#include "LiveOutputManager.hpp"
#include "ParameterFile.hpp"
#include "RandomGenerator.hpp"
#include "RescaledICHydroMask.hpp"
#include "RestartReader.hpp"
#include "RestartWriter.hpp"
#include "SingleStarPhotonSourceDistribution.hpp"
#include "SingleSupernovaPhotonSourceDistribution.hpp"
#include "TimeLine.hpp"
#include "Timer.hpp"
#include "UniformRandomPhotonSourceDistribution.hpp"
#include "UnitConverter.hpp"
#include "YAMLDictionary.hpp"

#include <cstddef>
#include <functional>
#include <memory>
#include <new>

using verif::fmt;

#include <csetjmp>
#include <csignal>

static std::string g_dir;
static sigjmp_buf g_jb;
static volatile sig_atomic_t g_crash_signal = 0;
static std::string g_current_class, g_current_state;
static void crash_handler(int sig) {
  g_crash_signal = sig;
  siglongjmp(g_jb, 1);
}
static verif::Result *g_R;
static uint64_t g_classes = 0, g_generations = 0;
static std::set< std::string > g_class_names;

// ---------------------------------------------------------------------------
enum Kind { VALUE, POINTER, MISSING };
struct Field {
  const char *name;
  size_t offset, size;
  Kind kind;
};
// The member tables below name PRIVATE members. A member that does not exist (any more) in the class -
// renamed or removed by a change of the code - must not break the build of the whole check: it becomes a
// MISSING entry, which is skipped by the member-wise oracles and listed in the evidence
// (white_box_members_missing); the byte-level oracles (re-dump, restored object behaves like the original)
// do not depend on member names.
static std::set< std::string > g_missing_members;
template < class T, class F >
auto field_or_missing(const char *cls, const char *name, Kind kind, F f, int) -> decltype(f((T *)nullptr), Field{}) {
  (void)cls;
  alignas(T) static char storage[sizeof(T)];
  T *p = reinterpret_cast< T * >(storage);
  const std::pair< const char *, size_t > a = f(p);
  return Field{name, (size_t)(a.first - storage), a.second, kind};
}
template < class T, class F > Field field_or_missing(const char *cls, const char *name, Kind, F, long) {
  g_missing_members.insert(std::string(cls) + "::" + name);
  return Field{name, 0, 0, MISSING};
}
#define FIELD_OF(T, m, kind)                                                                        \
  field_or_missing< T >(#T, #m, kind,                                                              \
                        [](auto *p) -> decltype((void)p->m, std::pair< const char *, size_t >()) { \
                          return {reinterpret_cast< const char * >(&p->m), sizeof(p->m)};          \
                        },                                                                         \
                        0)
#define FV(T, m) FIELD_OF(T, m, VALUE)
#define FP(T, m) FIELD_OF(T, m, POINTER)

template < class T > std::string dump_of(const T &o, const std::string &file) {
  {
    RestartWriter w(file);
    o.write_restart_file(w);
  }
  return verif::read_file(file);
}

template < class T > struct Holder {
  void *mem = nullptr;
  T *obj = nullptr;
  Holder() {}
  Holder(const Holder &) = delete;
  ~Holder() {
    if (obj)
      obj->~T();
    if (mem)
      ::operator delete(mem);
  }
  void restore(unsigned char fill, const std::string &file) {
    mem = ::operator new(sizeof(T));
    memset(mem, fill, sizeof(T));
    RestartReader r(file);
    obj = new (mem) T(r);
  }
};

static std::string hexbytes(const void *p, size_t n) {
  std::string s;
  const unsigned char *c = (const unsigned char *)p;
  for (size_t i = 0; i < n && i < 24; ++i)
    s += fmt("%02x", c[i]);
  if (n > 24)
    s += "..";
  return s;
}

/// the generic check; returns the restored object R1 through `use` for the
/// class specific "future" oracle
template < class T >
void check_object(const std::string &cls, const std::string &state, const T &orig,
                  const std::vector< Field > &fields,
                  const std::function< void(T &, const std::string &) > &future = nullptr,
                  T *orig_mutable = nullptr, const std::string &key_tag = "") {
  if (!g_class_names.count(cls)) {
    g_class_names.insert(cls);
    ++g_classes;
  }
  g_current_state = state;
  const std::string fa = g_dir + "/a.dump", fb = g_dir + "/b.dump";
  const std::string A = dump_of(orig, fa);
  Holder< T > r1, r2;
  r1.restore(0xAB, fa);
  r2.restore(0x54, fa);
  const std::string replay = fmt("{\"class\": \"%s\", \"state\": \"%s\"}", cls.c_str(), state.c_str());
  const std::string tag = key_tag.empty() ? "" : ":" + key_tag;
  if (!A.empty())
    g_R->distinct.insert(verif::fnv1a(A, verif::fnv1a(cls)));
  // members first: a pointer member left uninitialised makes every further
  // use of the restored object (re-dump, destructor) meaningless
  bool wild_pointer = false;
  for (auto &f : fields) {
    if (f.kind == MISSING)
      continue;
    ++g_R->evaluations;
    const char *p1 = (const char *)r1.obj + f.offset;
    const char *p2 = (const char *)r2.obj + f.offset;
    const char *po = (const char *)&orig + f.offset;
    bool unassigned = memcmp(p1, p2, f.size) != 0;
    if (f.kind == POINTER) {
      // two restored objects own different allocations; unassigned = both
      // still hold the fill patterns
      unassigned = true;
      for (size_t i = 0; i < f.size; ++i)
        unassigned = unassigned && (unsigned char)p1[i] == 0xAB && (unsigned char)p2[i] == 0x54;
    }
    if (unassigned) {
      g_R->violation("C09:restart-constructor-leaves-uninitialised:" + cls + "::" + f.name,
                     fmt("%s (%s): member %s (offset %zu, %zu bytes) keeps the fill pattern of the memory the "
                         "object was restored into (%s vs %s): the restart constructor never assigns it",
                         cls.c_str(), state.c_str(), f.name, f.offset, f.size, hexbytes(p1, f.size).c_str(),
                         hexbytes(p2, f.size).c_str()),
                     replay);
      if (f.kind == POINTER)
        wild_pointer = true;
      continue;
    }
    if (f.kind == VALUE) {
      if (memcmp(p1, po, f.size) != 0)
        g_R->violation("C09:restored-state-differs:" + cls + "::" + f.name + tag,
                       fmt("%s (%s): member %s of the restored object is %s, of the original %s", cls.c_str(),
                           state.c_str(), f.name, hexbytes(p1, f.size).c_str(), hexbytes(po, f.size).c_str()),
                       replay);
    } else {
      bool n1 = true, no = true;
      for (size_t i = 0; i < f.size; ++i) {
        n1 = n1 && p1[i] == 0;
        no = no && po[i] == 0;
      }
      if (n1 != no)
        g_R->violation("C09:restored-state-differs:" + cls + "::" + f.name + tag,
                       fmt("%s (%s): pointer member %s is %s in the restored object and %s in the original",
                           cls.c_str(), state.c_str(), f.name, n1 ? "null" : "set", no ? "null" : "set"),
                       replay);
    }
  }
  if (wild_pointer) {
    // do not run destructors or writers over a wild pointer
    r1.obj = nullptr;
    r2.obj = nullptr;
    g_R->add("objects_not_redumped_because_of_wild_pointer", 1);
    return;
  }
  const std::string B = dump_of(*r1.obj, fb);
  ++g_R->evaluations;
  if (A != B) {
    size_t off = 0;
    while (off < std::min(A.size(), B.size()) && A[off] == B[off])
      ++off;
    g_R->violation("C09:component-redump-differs:" + cls + tag,
                   fmt("%s (%s): write -> read -> write gives different bytes (sizes %zu/%zu, first difference "
                       "at offset %zu)",
                       cls.c_str(), state.c_str(), A.size(), B.size(), off),
                   replay);
  }
  // restore chain: generation 2 from the dump of generation 1, generation 3
  // from the dump of generation 2
  const std::string fc = g_dir + "/c.dump", fd = g_dir + "/d.dump";
  Holder< T > r3, r4;
  {
    Holder< T > *gen[2] = {&r3, &r4};
    const std::string *from[2] = {&fb, &fc}, *to[2] = {&fc, &fd};
    for (int gi = 0; gi < 2; ++gi) {
      gen[gi]->restore(gi ? 0x54 : 0xAB, *from[gi]);
      const char *pg = (const char *)gen[gi]->obj;
      bool wild = false;
      for (auto &f : fields) {
        ++g_R->evaluations;
        const char *po = (const char *)&orig + f.offset;
        if (f.kind == VALUE && memcmp(pg + f.offset, po, f.size) != 0)
          g_R->violation("C09:restored-state-differs:" + cls + "::" + f.name + tag + fmt(":generation-%d", gi + 2),
                         fmt("%s (%s): member %s after %d dump/restore cycles is %s, of the original %s", cls.c_str(),
                             state.c_str(), f.name, gi + 2, hexbytes(pg + f.offset, f.size).c_str(),
                             hexbytes(po, f.size).c_str()),
                         replay);
        if (f.kind == POINTER) {
          bool fill = true;
          for (size_t i = 0; i < f.size; ++i)
            fill = fill && (unsigned char)pg[f.offset + i] == (gi ? 0x54 : 0xAB);
          wild = wild || fill;
        }
      }
      if (wild) { // already reported for generation 1
        gen[gi]->obj = nullptr;
        if (gi == 0)
          r4.obj = nullptr;
        break;
      }
      const std::string C = dump_of(*gen[gi]->obj, *to[gi]);
      ++g_R->evaluations;
      ++g_generations;
      if (C != A) {
        size_t off = 0;
        while (off < std::min(A.size(), C.size()) && A[off] == C[off])
          ++off;
        g_R->violation("C09:component-redump-differs:" + cls + tag + fmt(":generation-%d", gi + 2),
                       fmt("%s (%s): the dump after %d dump/restore cycles differs from the first dump (sizes %zu/%zu, "
                           "first difference at offset %zu)",
                           cls.c_str(), state.c_str(), gi + 2, A.size(), C.size(), off),
                       replay);
      }
    }
  }
  if (future && orig_mutable) {
    ++g_R->evaluations;
    future(*orig_mutable, "orig");
    future(*r1.obj, "restored");
    const std::string A2 = dump_of(*orig_mutable, fa);
    const std::string B2 = dump_of(*r1.obj, fb);
    auto differ = [&](const std::string &X, const char *which, const std::string &ktag) {
      if (A2 == X)
        return;
      size_t off = 0, cnt = 0;
      for (size_t i = 0; i < std::min(A2.size(), X.size()); ++i)
        if (A2[i] != X[i]) {
          if (!cnt)
            off = i;
          ++cnt;
        }
      g_R->violation("C09:restored-object-behaves-differently:" + cls + tag + ktag,
                     fmt("%s (%s): after the same operation the original and the %s object dump different "
                         "bytes (%zu differ, first at %zu of %zu)",
                         cls.c_str(), state.c_str(), which, cnt, off, A2.size()),
                     replay);
    };
    differ(B2, "restored", "");
    if (r3.obj) {
      ++g_R->evaluations;
      future(*r3.obj, "restored-twice");
      differ(dump_of(*r3.obj, fc), "twice restored", ":generation-2");
    }
  }
}

// ---------------------------------------------------------------------------
static void fill_ionization(IonizationVariables &v, int seed) {
  v.set_number_density(1.e8 + seed * 3.7e6);
  v.set_temperature(8000. + 13. * seed);
  for (int i = 0; i < NUMBER_OF_IONNAMES; ++i) {
    v.set_ionic_fraction(i, 1. / (3. + i + seed));
    v._mean_intensity[i] = 1.e-3 * (i + 1) + seed;
  }
  for (int i = 0; i < NUMBER_OF_REEMISSIONPROBABILITIES; ++i)
    v._reemission_probabilities[i] = 0.1 * i + 0.01 * seed;
  for (int i = 0; i < NUMBER_OF_HEATINGTERMS; ++i)
    v._heating[i] = 2.5e-20 * (i + 1) * (seed + 1);
  v._cosmic_ray_factor = 0.25 + seed;
}

static void fill_hydro(HydroVariables &v, int seed) {
  for (int i = 0; i < 5; ++i) {
    v._primitives[i] = 1.e-19 * (i + 1) + 1.e-21 * seed;
    v._conserved[i] = 3.e30 / (i + 2) + seed;
    v._delta_conserved[i] = -1.e10 * (i + 1) + 0.1 * seed;
    v._primitive_gradients[i] = CoordinateVector<>(1.e-30 * i, -2.e-31 * seed, 3.e-33);
  }
  v._gravitational_acceleration = CoordinateVector<>(1.e-10, 2.e-11 * seed, -3.e-12);
  v._energy_rate_term = 4.e20 + seed;
  v._energy_term = -7.e25 + seed;
}

/// the evolving source lists append to a log file in the working directory;
/// the original and the restored object must each continue from the file as it
/// was when the dump was written
static std::string g_log_after[3]; // orig, restored, restored-twice
template < class S > std::function< void(S &, const std::string &) >
with_source_log(const std::string &fname, std::function< void(S &) > op) {
  return [fname, op](S &x, const std::string &who) {
    const std::string bak = fname + ".at_dump";
    if (who == "orig") {
      FILE *f = fopen(bak.c_str(), "wb");
      std::string c = verif::read_file(fname);
      fwrite(c.data(), 1, c.size(), f);
      fclose(f);
    } else {
      std::string c = verif::read_file(bak);
      FILE *f = fopen(fname.c_str(), "wb"); // same inode, truncated
      fwrite(c.data(), 1, c.size(), f);
      fclose(f);
    }
    op(x);
    g_log_after[who == "orig" ? 0 : (who == "restored" ? 1 : 2)] = verif::read_file(fname);
  };
}
static void compare_source_logs(const std::string &cls, const std::string &state, bool output) {
  if (!output)
    return;
  for (int g = 1; g <= 2; ++g) {
    ++g_R->evaluations;
    if (g_log_after[0] != g_log_after[g])
      g_R->violation("C09:restored-object-behaves-differently:" + cls + ":source-log" + (g == 2 ? ":generation-2" : ""),
                     fmt("%s (%s): the source log file continued by the %s object (%zu bytes) differs from "
                         "the one continued by the original (%zu bytes)",
                         cls.c_str(), state.c_str(), g == 1 ? "restored" : "twice restored", g_log_after[g].size(),
                         g_log_after[0].size()),
                     fmt("{\"class\": \"%s\"}", cls.c_str()));
  }
}

struct BoxSpec {
  const char *name;
  double side;
};

static bool inverse_differs(double side, int ncell) {
  const double cs = side / ncell;
  return ncell / side != 1. / cs;
}

// ---------------------------------------------------------------------------
int main(int argc, char **argv) {
  verif::Args A = verif::parse_args(argc, argv);
  verif::Result R(A);
  g_R = &R;
  const std::string tmp = verif::fast_tmpdir();
  g_dir = tmp + "/c09_components";
  mkdir(g_dir.c_str(), 0700);
  if (chdir(g_dir.c_str()) != 0) {
    perror("chdir");
    return 3;
  }
  const std::string only = A.replay.empty() ? "" : verif::replay_field(verif::read_file(A.replay), "class");
  // a crash (SIGSEGV, abort from cmac_error) inside the block of one class ends
  // that block and is reported; the other classes are still checked
  signal(SIGSEGV, crash_handler);
  signal(SIGABRT, crash_handler);
  signal(SIGBUS, crash_handler);
  signal(SIGFPE, crash_handler);
  auto flush_crash = [&]() {
    if (g_crash_signal) {
      R.violation("C09:component-crash:" + g_current_class,
                  fmt("%s (%s): signal %d while writing/reading/operating the restored object",
                      g_current_class.c_str(), g_current_state.c_str(), (int)g_crash_signal),
                  fmt("{\"class\": \"%s\"}", g_current_class.c_str()));
      g_crash_signal = 0;
    }
  };
  auto next_class = [&](const char *cls) {
    flush_crash();
    g_current_class = cls;
    g_current_state = "";
    return only.empty() || only == cls;
  };
#define WANT(cls) (next_class(cls) && sigsetjmp(g_jb, 1) == 0)

  // box sides exactly as a parameter file gives them ("2.512 pc" -> m)
  auto pc = [](double x) { return UnitConverter::to_SI< QUANTITY_LENGTH >(x, "pc"); };
  const double PC = pc(1.);
  // subgrid boxes: side values from both inverse-cell-size classes, found by
  // evaluating both expressions
  std::vector< std::pair< std::string, double > > sides = {{"1m", 1.}, {"2pc", pc(2.)}, {"2.512pc", pc(2.512)}};
  {
    int nd = 0, ne = 0;
    for (auto &s : sides)
      for (int n : {3, 6}) {
        nd += inverse_differs(s.second, n);
        ne += !inverse_differs(s.second, n);
      }
    for (double s : {1.1, 0.3, 5.3, 7.7, 1.7, 3.3, 0.9, 4.1, 2.9, 6.1}) {
      if (nd >= 3 && ne >= 3)
        break;
      bool d = inverse_differs(pc(s), 3) || inverse_differs(pc(s), 6);
      if ((d && nd < 3) || (!d && ne < 3)) {
        sides.push_back({fmt("%gpc", s), pc(s)});
        nd += d;
        ne += !d;
      }
    }
    R.set("subgrid_boxes_inverse_differs", nd);
    R.set("subgrid_boxes_inverse_equal", ne);
  }

  // --- CoordinateVector, Box, Timer
  if (WANT("CoordinateVector")) {
    for (int s = 0; s < 4; ++s) {
      CoordinateVector<> v(1.5 * s, -2.e300 * s, 4.9e-324 * s);
      check_object< CoordinateVector<> >("CoordinateVector", fmt("v%d", s), v,
                                          {FV(CoordinateVector<>, _x), FV(CoordinateVector<>, _y),
                                           FV(CoordinateVector<>, _z)});
    }
  }
  if (WANT("Box")) {
    Box<> b(CoordinateVector<>(-1., 2., 3.5), CoordinateVector<>(2.512 * PC, 1., 7.));
    check_object< Box<> >("Box", "b0", b, {FV(Box<>, _anchor), FV(Box<>, _sides)});
  }
  if (WANT("Timer")) {
    Timer t;
    t.start();
    t.stop();
    check_object< Timer >("Timer", "stopped", t, {FV(Timer, _start), FV(Timer, _stop), FV(Timer, _diff)});
  }

  // --- TimeLine in several states
  if (WANT("TimeLine")) {
    const std::vector< Field > f = {FV(TimeLine, _minimum_timestep), FV(TimeLine, _maximum_timestep),
                                    FV(TimeLine, _conversion_factors), FV(TimeLine, _current_time)};
    for (int nadv = 0; nadv < 6; ++nadv)
      for (double total : {1., 3.1536e13, 0.7}) {
        TimeLine tl(0.1 * total, 1.1 * total, 1.e-6 * total, 0.13 * total, nullptr);
        double dt, t;
        for (int i = 0; i < nadv; ++i)
          tl.advance(0.031 * total * (1 + i % 3), dt, t);
        check_object< TimeLine >(
            "TimeLine", fmt("total=%g advanced %d", total, nadv), tl, f,
            [&](TimeLine &x, const std::string &) {
              double a, b;
              x.advance(0.017 * total, a, b);
            },
            &tl);
      }
  }

  // --- RandomGenerator at several positions of several streams
  if (WANT("RandomGenerator")) {
    const std::vector< Field > f = {FV(RandomGenerator, _xdbl), FV(RandomGenerator, _carry),
                                    FV(RandomGenerator, _ir),   FV(RandomGenerator, _jr),
                                    FV(RandomGenerator, _ir_old), FV(RandomGenerator, _pr)};
    for (int seed : {1, 42, 77, 2147483647})
      for (int ndraw : {0, 1, 11, 12, 13, 203, 1000}) {
        RandomGenerator g(seed);
        for (int i = 0; i < ndraw; ++i)
          g.get_uniform_random_double();
        check_object< RandomGenerator >(
            "RandomGenerator", fmt("seed %d after %d draws", seed, ndraw), g, f,
            [&](RandomGenerator &x, const std::string &) {
              for (int i = 0; i < 30; ++i)
                x.get_uniform_random_double();
            },
            &g);
      }
  }

  // --- cell variables
  if (WANT("HydroVariables")) {
    const std::vector< Field > f = {FV(HydroVariables, _primitives),
                                    FV(HydroVariables, _conserved),
                                    FV(HydroVariables, _delta_conserved),
                                    FV(HydroVariables, _primitive_gradients),
                                    FV(HydroVariables, _gravitational_acceleration),
                                    FV(HydroVariables, _energy_rate_term),
                                    FV(HydroVariables, _energy_term)};
    for (int s = 0; s < 4; ++s) {
      HydroVariables v;
      if (s)
        fill_hydro(v, s);
      check_object< HydroVariables >("HydroVariables", fmt("fill %d", s), v, f);
    }
  }
  if (WANT("IonizationVariables")) {
    std::vector< Field > f = {FV(IonizationVariables, _number_density),
                              FV(IonizationVariables, _temperature),
                              FV(IonizationVariables, _ionic_fractions),
                              FV(IonizationVariables, _mean_intensity),
                              FV(IonizationVariables, _reemission_probabilities),
                              FV(IonizationVariables, _heating),
                              FV(IonizationVariables, _cosmic_ray_factor),
                              FP(IonizationVariables, _tracker)};
    for (int s = 0; s < 4; ++s) {
      IonizationVariables v;
      if (s)
        fill_ionization(v, s);
      check_object< IonizationVariables >("IonizationVariables", fmt("fill %d", s), v, f);
    }
  }

  // --- subgrids on boxes of both inverse-cell-size classes
  const std::vector< Field > dsg_fields = {FV(DensitySubGrid, _ngbs),
                                           FV(DensitySubGrid, _active_buffers),
                                           FV(DensitySubGrid, _computational_cost),
                                           FV(DensitySubGrid, _anchor),
                                           FV(DensitySubGrid, _cell_size),
                                           FV(DensitySubGrid, _inv_cell_size),
                                           FV(DensitySubGrid, _number_of_cells),
                                           FV(DensitySubGrid, _owning_thread),
                                           FV(DensitySubGrid, _largest_buffer_index),
                                           FV(DensitySubGrid, _largest_buffer_size),
                                           FP(DensitySubGrid, _ionization_variables)};
  std::vector< Field > hsg_fields = dsg_fields;
  hsg_fields.push_back(FV(HydroDensitySubGrid, _cell_volume));
  hsg_fields.push_back(FV(HydroDensitySubGrid, _inverse_cell_volume));
  hsg_fields.push_back(FV(HydroDensitySubGrid, _cell_areas));
  hsg_fields.push_back(FP(HydroDensitySubGrid, _hydro_variables));
  hsg_fields.push_back(FP(HydroDensitySubGrid, _primitive_variable_limiters));
  Hydro hydro(5. / 3., 100., 1.e4, 1.e99, false);

  // subgrid boxes: cubic cells of both inverse-cell-size classes, and
  // anisotropic cells for which the association order of the derived
  // quantities matters: (dx*dy)*dz, dx*(dy*dz), (dx*dz)*dy do not all agree
  struct SubSpec {
    std::string state, tag;
    double box[6];
    int n[3];
  };
  std::vector< SubSpec > specs;
  for (auto &sd : sides)
    for (int n : {3, 6}) {
      const bool differs = inverse_differs(sd.second, n);
      SubSpec sp;
      sp.tag = differs ? "non-dyadic-cell-size" : "";
      const double b[6] = {-0.5 * sd.second, 0.25 * sd.second, 0., sd.second, sd.second, 2. * sd.second};
      memcpy(sp.box, b, sizeof(b));
      sp.n[0] = n;
      sp.n[1] = n;
      sp.n[2] = 2 * n;
      sp.state = fmt("side %s, %d cells (n/s %s 1/(s/n))", sd.first.c_str(), n, differs ? "!=" : "==");
      specs.push_back(sp);
    }
  {
    struct Cand {
      double s[3];
      int n[3];
    };
    // first: boxes on which the three sides, the three cell counts and the
    // three cell sizes are all different (always taken, see `forced`)
    std::vector< Cand > cand = {{{0.7, 0.9, 1.1}, {3, 4, 5}}, {{1.3, 0.7, 0.9}, {5, 2, 3}},
                                {{1., 1., 2.}, {10, 10, 12}}, {{0.5, 0.5, 2.}, {5, 5, 12}}};
    const size_t forced = 2;
    const double sv[] = {0.7, 0.9, 1.1, 1.3, 1.7, 3.};
    for (double x : sv)
      for (double y : sv)
        for (double z : sv)
          if (!(x == y && y == z))
            for (int n : {3, 6})
              cand.push_back({{x, y, z}, {n, n, n}});
    unsigned covered = 0, nsel = 0, nagree = 0;
    unsigned nforced = 0;
    for (size_t ic = 0; ic < cand.size(); ++ic) {
      auto &c = cand[ic];
      const double dx = c.s[0] / c.n[0], dy = c.s[1] / c.n[1], dz = c.s[2] / c.n[2];
      const double v1 = (dx * dy) * dz, v2 = dx * (dy * dz), v3 = (dx * dz) * dy;
      const unsigned pairs = (v1 != v2 ? 1u : 0u) | (v1 != v3 ? 2u : 0u) | (v2 != v3 ? 4u : 0u);
      bool take = false;
      if (ic < forced) {
        take = true;
        ++nforced;
        if (pairs) {
          ++nsel;
          covered |= pairs;
        }
      } else if (pairs == 0 && nagree < 1) {
        take = true; // one anisotropic box on which all orders agree
        ++nagree;
      } else if (pairs && (nsel < 2 || (pairs & ~covered)) && nsel < 5 + forced) {
        take = true;
        ++nsel;
        covered |= pairs;
      }
      if (!take)
        continue;
      SubSpec sp;
      bool invd = false;
      for (int i = 0; i < 3; ++i)
        invd = invd || inverse_differs(c.s[i], c.n[i]);
      sp.tag = pairs ? "non-associative-cell-products" : (invd ? "non-dyadic-cell-size" : "");
      const double b[6] = {-0.5 * c.s[0], 0.25 * c.s[1], 0., c.s[0], c.s[1], c.s[2]};
      memcpy(sp.box, b, sizeof(b));
      for (int i = 0; i < 3; ++i)
        sp.n[i] = c.n[i];
      sp.state = fmt("box %g x %g x %g m, %d x %d x %d cells: (dx*dy)*dz = %a, dx*(dy*dz) = %a, (dx*dz)*dy = %a",
                     c.s[0], c.s[1], c.s[2], c.n[0], c.n[1], c.n[2], v1, v2, v3);
      specs.push_back(sp);
    }
    R.set("subgrid_boxes_non_associative_cell_products", nsel);
    R.set("subgrid_boxes_with_all_sides_cell_counts_and_cell_sizes_different", nforced);
    R.set("subgrid_product_order_pairs_covered_bitmask", covered);
    if (nsel < 2)
      R.violation("C09:geometry-alphabet-incomplete",
                  fmt("need two subgrid boxes for which the orders of dx*dy*dz do not all agree, found %u", nsel));
  }
  for (auto &sp : specs) {
    {
      const std::string &tag = sp.tag;
      const double *box = sp.box;
      const CoordinateVector< int_fast32_t > ncell(sp.n[0], sp.n[1], sp.n[2]);
      const std::string &state = sp.state;
      const int ntot = sp.n[0] * sp.n[1] * sp.n[2];
      if (WANT("DensitySubGrid")) {
        DensitySubGrid g(box, ncell);
        for (int i = 0; i < TRAVELDIRECTION_NUMBER; ++i) {
          g._ngbs[i] = (i * 7) % 5;
          g._active_buffers[i] = NEIGHBOUR_OUTSIDE;
        }
        g._owning_thread = 3; // not the 0 of the constructor
        for (int i = 0; i < ntot; ++i)
          fill_ionization(g._ionization_variables[i], i % 5);
        check_object< DensitySubGrid >("DensitySubGrid", state, g, dsg_fields, nullptr, nullptr, tag);
      }
      if (WANT("HydroDensitySubGrid")) {
        HydroDensitySubGrid g(box, ncell);
        for (int i = 0; i < TRAVELDIRECTION_NUMBER; ++i) {
          g._ngbs[i] = (i * 7) % 5;
          g._active_buffers[i] = NEIGHBOUR_OUTSIDE;
        }
        g._owning_thread = 5;
        // a smooth, non-uniform gas state
        int idx = 0;
        for (auto it = g.hydro_begin(); it != g.hydro_end(); ++it, ++idx) {
          IonizationVariables &iv = it.get_ionization_variables();
          iv.set_number_density(1.e8 * (1. + 0.3 * std::sin(0.9 * idx)));
          iv.set_temperature(8000. + 500. * std::cos(0.37 * idx));
          iv.set_ionic_fraction(ION_H_n, 1.e-6);
          it.get_hydro_variables().set_primitives_velocity(
              CoordinateVector<>(1.e3 * std::sin(0.5 * idx), -5.e2 * std::cos(0.3 * idx), 2.e2));
          // fields a pure hydro step of an isolated subgrid does not touch but
          // the dump has to carry (external gravity, stellar feedback, cooling)
          it.get_hydro_variables().set_gravitational_acceleration(
              CoordinateVector<>(1.e-9 * (1 + idx % 7), -2.e-10 * (1 + idx % 5), 3.e-11 * (1 + idx % 3)));
          it.get_hydro_variables()._energy_rate_term = 4.e-20 * (1 + idx % 4);
          it.get_hydro_variables()._energy_term = -7.e-25 * (1 + idx % 6);
        }
        g.initialize_hydrodynamic_variables(hydro, true);
        check_object< HydroDensitySubGrid >(
            "HydroDensitySubGrid", state, g, hsg_fields,
            [&](HydroDensitySubGrid &x, const std::string &) {
              // one isolated hydro step of the subgrid: gradients, limiter,
              // prediction, fluxes, conserved and primitive update
              const double dt = 0.05 * x._cell_size[0] / 2.e4;
              x.inner_gradient_sweep(hydro);
              x.apply_slope_limiter(hydro);
              x.predict_primitive_variables(hydro, 0.5 * dt);
              x.inner_flux_sweep(hydro, dt);
              x.update_conserved_variables(dt);
              x.update_primitive_variables(hydro);
            },
            &g, tag);
      }
    }
  }

  // --- the subgrid creator (whole grid): 1, 2 and 3 subgrids per axis, cubic
  // boxes with 6^3 cells on the first three layouts; an anisotropic box with
  // different cell and subgrid counts on every axis and each axis periodic in
  // turn; without and with subgrid copies (levels 0, 1, 2 -> 0, 1, 3 copies)
  if (WANT("DensitySubGridCreator")) {
    typedef DensitySubGridCreator< HydroDensitySubGrid > GC;
    struct CreatorSpec {
      double side[3];
      int ncell[3], nsub[3], periodic_axis;
      std::vector< uint_fast8_t > levels; // empty: no copies
      std::string name;
    };
    std::vector< CreatorSpec > cs;
    for (auto &sd : sides)
      for (int lay = 0; lay < 3; ++lay)
        cs.push_back({{sd.second, sd.second, sd.second},
                      {6, 6, 6},
                      {lay >= 1 ? 2 : 1, lay >= 2 ? 2 : 1, 1},
                      lay == 1 ? 0 : -1,
                      {},
                      "side " + sd.first});
    for (auto &sd : sides) {
      // subgrid index = (ix * ny + iy) * nz + iz; neighbouring levels differ by at most 1
      cs.push_back({{sd.second, 0.8 * sd.second, 1.3 * sd.second}, {6, 4, 9}, {1, 2, 3}, 1, {}, "sides (1, 0.8, 1.3) x " + sd.first});
      cs.push_back({{sd.second, 0.8 * sd.second, 1.3 * sd.second}, {6, 4, 9}, {1, 2, 3}, 2, {}, "sides (1, 0.8, 1.3) x " + sd.first});
      cs.push_back({{sd.second, 0.8 * sd.second, 1.3 * sd.second}, {6, 4, 9}, {1, 2, 3}, 1, {2, 1, 0, 1, 1, 0},
                    "sides (1, 0.8, 1.3) x " + sd.first});
      cs.push_back({{1.3 * sd.second, sd.second, 0.8 * sd.second}, {9, 6, 4}, {3, 1, 2}, 0, {1, 0, 0, 0, 0, 0},
                    "sides (1.3, 1, 0.8) x " + sd.first});
    }
    uint64_t ncopies_states[3] = {0, 0, 0}; // creators with 0, 1, >= 2 copies
    for (auto &c : cs) {
      bool differs = false;
      for (int i = 0; i < 3; ++i)
        differs = differs || inverse_differs(c.side[i] / c.nsub[i], c.ncell[i] / c.nsub[i]);
      Box<> box(CoordinateVector<>(-0.5 * c.side[0], 0.25 * c.side[1], 0.1 * c.side[2]),
                CoordinateVector<>(c.side[0], c.side[1], c.side[2]));
      GC gc(box, CoordinateVector< int_fast32_t >(c.ncell[0], c.ncell[1], c.ncell[2]),
            CoordinateVector< int_fast32_t >(c.nsub[0], c.nsub[1], c.nsub[2]),
            CoordinateVector< bool >(c.periodic_axis == 0, c.periodic_axis == 1, c.periodic_axis == 2));
      HomogeneousDensityFunction df(1.e8, 8000.);
      gc.initialize(df);
      for (auto it = gc.begin(); it != gc.original_end(); ++it)
        (*it).initialize_hydrodynamic_variables(hydro, true);
      size_t ncopy = 0;
      if (!c.levels.empty()) {
        std::vector< uint_fast8_t > lv = c.levels;
        gc.create_copies(lv);
        ncopy = gc._originals.size();
      }
      ++ncopies_states[ncopy == 0 ? 0 : (ncopy == 1 ? 1 : 2)];
      check_object< GC >("DensitySubGridCreator",
                         fmt("%s, %dx%dx%d cells, layout %dx%dx%d, periodic axis %d, %zu subgrid copies", c.name.c_str(),
                             c.ncell[0], c.ncell[1], c.ncell[2], c.nsub[0], c.nsub[1], c.nsub[2], c.periodic_axis,
                             ncopy),
                         gc,
                         {FV(GC, _box), FV(GC, _subgrid_sides), FV(GC, _number_of_subgrids),
                          FV(GC, _subgrid_number_of_cells), FV(GC, _periodicity)},
                         nullptr, nullptr, differs ? "non-dyadic-cell-size" : "");
    }
    R.set("creator_states_without_copies", (double)ncopies_states[0]);
    R.set("creator_states_with_one_copy", (double)ncopies_states[1]);
    R.set("creator_states_with_two_or_more_copies", (double)ncopies_states[2]);
  }

  // --- parameter dictionaries
  if (WANT("ParameterFile")) {
    const std::string pf = g_dir + "/p.param";
    FILE *f = fopen(pf.c_str(), "w");
    fputs("SimulationBox:\n  anchor: [-1. pc, -1. pc, -1. pc]\n  sides: [2.512 pc, 2. pc, 2. pc]\n"
          "Block:\n  name: some text with spaces\n  Sub:\n    value: 1.e-3\n    flag: true\n"
          "List:\n  items: [1, 2, 3]\n",
          f);
    fclose(f);
    for (int used = 0; used < 3; ++used) {
      ParameterFile p(pf);
      if (used >= 1)
        p.get_physical_vector< QUANTITY_LENGTH >("SimulationBox:sides");
      if (used >= 2) {
        p.get_value< double >("Block:Sub:value", 2.);
        p.get_value< std::string >("Block:absent key", "a default");
        p.get_physical_value< QUANTITY_TIME >("Other:time", "3. Myr");
      }
      check_object< ParameterFile >("ParameterFile", fmt("%d groups of values used", used), p, {});
      check_object< YAMLDictionary >("YAMLDictionary", fmt("%d groups of values used", used), p._yaml_dictionary, {});
    }
  }

  // --- turbulence forcing: the three layouts of the runs on 6^3 cells, and a
  // grid with 1, 2, 3 subgrids of 7, 5, 4 cells (all six numbers different) with
  // wave number windows that hold 0, 3, 7 and 16 modes (the maximum wave number
  // is an integer: the mode table steps from -kmax in units of 1); generator forwarded
  // to a non-zero starting time; 0, 1, 2 updates before the dump
  if (WANT("AlveliusTurbulenceForcing")) {
    typedef AlveliusTurbulenceForcing ATF;
    const std::vector< Field > f = {FV(ATF, _number_of_subgrids), FV(ATF, _number_of_cells), FV(ATF, _time_step),
                                    FV(ATF, _number_of_driving_steps)};
    struct TurbSpec {
      int nsub[3], ncell[3];
      double kmin, kmax, kpeak, conc, start;
    };
    std::vector< TurbSpec > ts;
    for (int lay = 0; lay < 3; ++lay) {
      const int nsub[3] = {lay >= 1 ? 2 : 1, lay >= 2 ? 2 : 1, 1};
      ts.push_back({{nsub[0], nsub[1], nsub[2]}, {6 / nsub[0], 6 / nsub[1], 6 / nsub[2]}, 0.9, 2., 1.6, 0.3, 0.});
    }
    ts.push_back({{1, 2, 3}, {7, 5, 4}, 1.2, 1., 1.1, 0.3, 1.7});   // empty window: no mode
    ts.push_back({{1, 2, 3}, {7, 5, 4}, 0.9, 1., 0.95, 0.25, 1.7}); // |k| = 1: 3 modes
    ts.push_back({{1, 2, 3}, {7, 5, 4}, 1.5, 2., 1.7, 0.35, 0.});   // |k| = sqrt(3), 2: 7 modes
    ts.push_back({{3, 1, 2}, {4, 7, 5}, 0.9, 2., 1.6, 0.3, 1.7});   // 16 modes
    std::set< size_t > mode_counts;
    for (auto &t0 : ts)
      for (int nupd = 0; nupd < 3; ++nupd) {
        Box<> box(CoordinateVector<>(-1.), CoordinateVector<>(2.));
        ATF t(CoordinateVector< int_fast32_t >(t0.nsub[0], t0.nsub[1], t0.nsub[2]),
              CoordinateVector< int_fast32_t >(t0.ncell[0], t0.ncell[1], t0.ncell[2]), box, t0.kmin, t0.kmax, t0.kpeak,
              t0.conc, 2.7e-4, 17, 0.5, t0.start);
        mode_counts.insert(t._kforce.size());
        for (int i = 0; i < nupd; ++i)
          t.update_turbulence(1.3 * (i + 1));
        check_object< ATF >(
            "AlveliusTurbulenceForcing",
            fmt("layout %dx%dx%d of %dx%dx%d cells, %zu modes, start %g, after %d updates", t0.nsub[0], t0.nsub[1],
                t0.nsub[2], t0.ncell[0], t0.ncell[1], t0.ncell[2], t._kforce.size(), t0.start, nupd),
            t, f, [&](ATF &x, const std::string &) { x.update_turbulence(1.3 * (nupd + 1) + 2.1); }, &t);
      }
    std::string mc;
    for (size_t m : mode_counts)
      mc += fmt("%s%zu", mc.empty() ? "" : ", ", m);
    R.set_str("turbulence_mode_counts", mc);
  }

  // --- mask. Parameters all different and none the default (scale factors
  // 0.01 / 1 / 0.01, delta t 5000 yr); 0, 1, 2, 3 subgrids registered with the
  // mask, of which the sphere covers cells in 0 to 3; gas at rest / moving
  // inside the mask; mass accretion output counter 0 (the only value the task
  // based simulation produces) and 1, 2, 3 (RadiationHydrodynamicsSimulation
  // with delta t > 0: apply_mask(DensityGrid &) increments it, first at t = 0)
  if (WANT("RescaledICHydroMask")) {
    typedef RescaledICHydroMask M;
    const std::vector< Field > f = {FV(M, _center),       FV(M, _radius2),       FV(M, _scale_factors),
                                    FV(M, _delta_t),      FV(M, _snap_n),        FV(M, _mask_density),
                                    FV(M, _mask_velocity), FV(M, _mask_pressure)};
    const double SF_DENSITY = 0.3, SF_VELOCITY = 0.8, SF_PRESSURE = 0.6, DELTA_T = 2.5e-7;
    uint64_t nstates = 0;
    std::set< size_t > cells_in_mask, subgrids_registered;
    for (int nreg = 0; nreg <= 3; ++nreg)
      for (int moving = 0; moving < 2; ++moving)
        for (int snap = 0; snap <= 3; ++snap) {
          if (snap > 0 && !(nreg == 2 && moving == 1) && !(nreg == 3 && snap == 3))
            continue; // the counter is crossed with one state of the rest (+ one more)
          // three subgrids side by side along x, 4 x 5 x 6 cells each
          std::vector< std::unique_ptr< HydroDensitySubGrid > > grids;
          for (int ig = 0; ig < 3; ++ig) {
            const double box[6] = {0.8 * ig, 0., 0., 0.8, 1., 1.2};
            grids.emplace_back(new HydroDensitySubGrid(box, CoordinateVector< int_fast32_t >(4, 5, 6)));
            HydroDensitySubGrid &g = *grids.back();
            int idx = 100 * ig;
            for (auto it = g.hydro_begin(); it != g.hydro_end(); ++it, ++idx) {
              IonizationVariables &iv = it.get_ionization_variables();
              iv.set_number_density(1.e8 * (1. + 0.3 * std::sin(0.9 * idx)));
              iv.set_temperature(8000. + 300. * std::cos(0.7 * idx));
              iv.set_ionic_fraction(ION_H_n, 1.e-6);
              if (moving)
                it.get_hydro_variables().set_primitives_velocity(
                    CoordinateVector<>(1.e3 * (1. + std::sin(0.5 * idx)), -5.e2, 2.e2 * std::cos(0.2 * idx)));
            }
            g.initialize_hydrodynamic_variables(hydro, true);
            for (int i = 0; i < TRAVELDIRECTION_NUMBER; ++i) // not set by the constructors
              g._ngbs[i] = NEIGHBOUR_OUTSIDE;
          }
          // sphere centred in the middle subgrid, reaching into both others for
          // nreg = 3; the subgrids are registered in the order 1, 0, 2 with
          // indices 7, 3, 11, so that offsets and keys are not 0, 1, 2
          const int order[3] = {1, 0, 2};
          const uint_fast32_t index[3] = {7, 3, 11};
          M m(CoordinateVector<>(1.21, 0.45, 0.65), nreg == 1 ? 0.05 : 0.52, SF_DENSITY, SF_VELOCITY, SF_PRESSURE,
              DELTA_T);
          for (int i = 0; i < nreg; ++i)
            m.initialize_mask(index[order[i]], *grids[order[i]]);
          m._snap_n = snap;
          cells_in_mask.insert(m._mask_velocities.size());
          subgrids_registered.insert(m._subgrid_offsets.size());
          ++nstates;
          // the future of a mask = what it does to the subgrids it knows
          std::map< std::string, std::vector< std::unique_ptr< HydroDensitySubGrid > > > copies;
          for (const char *who : {"orig", "restored", "restored-twice"})
            for (int ig = 0; ig < 3; ++ig)
              copies[who].emplace_back(new HydroDensitySubGrid(*grids[ig]));
          std::map< std::string, std::string > after;
          const std::string state =
              fmt("%d subgrids registered, %zu cells in the mask, gas %s, output counter %d", nreg,
                  m._mask_velocities.size(), moving ? "moving" : "at rest", snap);
          check_object< M >(
              "RescaledICHydroMask", state, m, f,
              [&](M &x, const std::string &who) {
                for (int i = 0; i < nreg; ++i) {
                  HydroDensitySubGrid &t = *copies[who][order[i]];
                  for (int j = 0; j < TRAVELDIRECTION_NUMBER; ++j)
                    t._ngbs[j] = NEIGHBOUR_OUTSIDE;
                  x.apply_mask(index[order[i]], t, 1.e-6, 1.e-6);
                  after[who] += dump_of(t, g_dir + "/sg.dump");
                }
              },
              &m, snap ? "mass-output-counter-nonzero" : "");
          for (const char *who : {"restored", "restored-twice"}) {
            ++R.evaluations;
            const std::string &ao = after["orig"], &ar = after[who];
            if (ao == ar)
              continue;
            size_t ndiff = 0, first = 0;
            for (size_t i = 0; i < std::min(ao.size(), ar.size()); ++i)
              if (ao[i] != ar[i]) {
                if (!ndiff)
                  first = i;
                ++ndiff;
              }
            R.violation(std::string("C09:restored-object-behaves-differently:RescaledICHydroMask") +
                            (std::string(who) == "restored" ? "" : ":generation-2"),
                        fmt("RescaledICHydroMask (%s): apply_mask of the %s mask leaves the subgrids in a different "
                            "state than apply_mask of the original mask (%zu bytes of the subgrid dumps differ, first "
                            "at %zu of %zu)",
                            state.c_str(), who, ndiff, first, ao.size()),
                        fmt("{\"class\": \"RescaledICHydroMask\", \"state\": \"%s\"}", state.c_str()));
          }
        }
    R.set("mask_states", (double)nstates);
    std::string l1, l2;
    for (size_t v : cells_in_mask)
      l1 += fmt("%s%zu", l1.empty() ? "" : ", ", v);
    for (size_t v : subgrids_registered)
      l2 += fmt("%s%zu", l2.empty() ? "" : ", ", v);
    R.set_str("mask_cells_in_mask", l1);
    R.set_str("mask_subgrids_registered", l2);
    R.set_str("mask_parameters", fmt("scale factors density %g / velocity %g / pressure %g, delta t %g s, centre (1.21, "
                                     "0.45, 0.65), output counter 0..3",
                                     SF_DENSITY, SF_VELOCITY, SF_PRESSURE, DELTA_T));
  }

  // --- source distributions
  if (WANT("SingleStarPhotonSourceDistribution")) {
    typedef SingleStarPhotonSourceDistribution S;
    S s(CoordinateVector<>(1., 2., 3.), 1.e49);
    check_object< S >("SingleStarPhotonSourceDistribution", "s0", s, {FV(S, _position), FV(S, _luminosity)});
  }
  if (WANT("SingleSupernovaPhotonSourceDistribution")) {
    typedef SingleSupernovaPhotonSourceDistribution S;
    for (int exploded = 0; exploded < 2; ++exploded) {
      S s(CoordinateVector<>(1., 2., 3.), 5., 1.e49, 1.e44);
      if (exploded)
        s.done_stellar_feedback();
      check_object< S >("SingleSupernovaPhotonSourceDistribution", exploded ? "exploded" : "alive", s,
                        {FV(S, _position), FV(S, _lifetime), FV(S, _luminosity), FV(S, _energy),
                         FV(S, _has_exploded)});
    }
  }
  if (WANT("UniformRandomPhotonSourceDistribution")) {
    typedef UniformRandomPhotonSourceDistribution S;
    const std::vector< Field > f = {FV(S, _source_lifetime),  FV(S, _source_luminosity), FV(S, _number_of_sources),
                                    FV(S, _box),              FV(S, _update_interval),   FV(S, _number_of_updates),
                                    FP(S, _output_file)};
    for (int output = 0; output < 2; ++output)
      for (int nsrc : {0, 1, 2, 5})
      for (int nupd = 0; nupd < 3; ++nupd) {
        S s(10., 1.e48, nsrc, CoordinateVector<>(-1., -0.7, -1.2), CoordinateVector<>(2., 1.4, 2.6), 77, 1.5, 4., output);
        for (int i = 0; i < nupd; ++i)
          s.update(4. + 1.6 * (i + 1));
        check_object< S >(
            "UniformRandomPhotonSourceDistribution",
            fmt("%s source file, %d sources, %d updates", output ? "with" : "no", nsrc, nupd), s, f,
            with_source_log< S >("UniformRandom_source_positions.txt", [&](S &x) { x.update(4. + 1.6 * (nupd + 1) + 7.); }), &s);
        compare_source_logs("UniformRandomPhotonSourceDistribution", fmt("%d updates", nupd), output);
      }
  }
  if (WANT("DiscPatchPhotonSourceDistribution")) {
    typedef DiscPatchPhotonSourceDistribution S;
    const std::vector< Field > f = {FV(S, _source_lifetime), FV(S, _source_luminosity), FV(S, _source_probability),
                                    FV(S, _average_number_of_sources), FV(S, _anchor_x), FV(S, _anchor_y),
                                    FV(S, _sides_x), FV(S, _sides_y), FV(S, _origin_z), FV(S, _scaleheight_z),
                                    FV(S, _update_interval), FV(S, _number_of_updates), FP(S, _output_file)};
    for (int output = 0; output < 2; ++output)
      for (int nupd = 0; nupd < 3; ++nupd) {
        S s(10., 1.e48, 6, -1., 2., -0.7, 1.4, 0.1, 0.3, 91, 1.5, 4., output);
        for (int i = 0; i < nupd; ++i)
          s.update(4. + 1.6 * (i + 1));
        check_object< S >(
            "DiscPatchPhotonSourceDistribution", fmt("%s source file, %d updates", output ? "with" : "no", nupd), s,
            f, with_source_log< S >("DiscPatch_source_positions.txt", [&](S &x) { x.update(4. + 1.6 * (nupd + 1) + 7.); }), &s);
        compare_source_logs("DiscPatchPhotonSourceDistribution", fmt("%d updates", nupd), output);
      }
  }
  if (WANT("CaproniPhotonSourceDistribution")) {
    typedef CaproniPhotonSourceDistribution S;
    const std::vector< Field > f = {FV(S, _number_function_norm), FV(S, _UV_luminosity_norm), FV(S, _boost_factor),
                                    FV(S, _IMF_A), FV(S, _IMF_B), FV(S, _IMF_C), FV(S, _OB_mass_limit_in_Msol),
                                    FV(S, _update_interval), FV(S, _number_of_updates),
                                    FV(S, _total_source_luminosity), FV(S, _Oflag), FP(S, _output_file)};
    const double Msol = 1.98855e30;
    for (int output = 0; output < 2; ++output)
      for (int nupd = 0; nupd < 2; ++nupd) {
        // number function norm, UV luminosity norm, boost factor, IMF slope, seed: all
        // different and none the default (1, 1, 1, -2.3, 42)
        S s(1.3, 0.7, 8.5 * Msol, 15. * Msol, 120. * Msol, -2.2, 43, 3.e13, 0., 1.9, output);
        for (int i = 0; i < nupd; ++i)
          s.update(3.1e13 * (i + 1));
        check_object< S >(
            "CaproniPhotonSourceDistribution", fmt("%s source file, %d updates", output ? "with" : "no", nupd), s, f,
            with_source_log< S >("Caproni_source_positions.txt", [&](S &x) { x.update(3.1e13 * (nupd + 3)); }), &s);
        compare_source_logs("CaproniPhotonSourceDistribution", fmt("%d updates", nupd), output);
      }
  }

  // --- live output counter
  if (WANT("LiveOutputManager")) {
    ++R.evaluations;
    LiveOutputManager a(CoordinateVector< int_fast32_t >(1), CoordinateVector< int_fast32_t >(4), false, true, false,
                        true, 1.e-25, 1.e-19, 10, true, 5.e4, 10, 1.);
    a._next_output = 7;
    {
      RestartWriter w(g_dir + "/a.dump");
      a.write_restart_info(w);
    }
    LiveOutputManager b(CoordinateVector< int_fast32_t >(1), CoordinateVector< int_fast32_t >(4), false, true, false,
                        true, 1.e-25, 1.e-19, 10, true, 5.e4, 10, 1.);
    {
      RestartReader r(g_dir + "/a.dump");
      b.read_restart_info(r);
    }
    {
      RestartWriter w(g_dir + "/b.dump");
      b.write_restart_info(w);
    }
    if (verif::read_file(g_dir + "/a.dump") != verif::read_file(g_dir + "/b.dump") || b._next_output != 7)
      R.violation("C09:component-redump-differs:LiveOutputManager", "output counter not restored",
                  "{\"class\": \"LiveOutputManager\"}");
    if (!g_class_names.count("LiveOutputManager")) {
      g_class_names.insert("LiveOutputManager");
      ++g_classes;
    }
  }

  flush_crash();
  R.rule = "evaluation = one oracle decision (re-dump equality, one member of one restored object, one future "
           "comparison); distinct non-trivial case = one (class, dumped byte image) pair with a non-empty image";
  R.set("classes", (double)g_classes);
  R.set("restore_chain_dumps_generation_2_and_3", (double)g_generations);
  std::string cl;
  for (auto &c : g_class_names)
    cl += (cl.empty() ? "" : ", ") + c;
  R.set_str("class_list", cl);
  R.assumptions.push_back("legacy classes with restart constructors that need a full legacy grid (DensityGrid, "
                          "CartesianDensityGrid, DensityGridFactory, StatisticsLogger) and AsciiFilePhotonSourceDistribution "
                          "are not instantiated here");
  if (!A.replay.empty())
    for (auto &v : R.violations)
      printf("VIOLATION %s :: %s\n", v.key.c_str(), v.detail.c_str());
  if (chdir("/") != 0) {
  }
  std::string cmd = "rm -rf '" + g_dir + "'";
  if (system(cmd.c_str())) {
  }
  verif::remove_fast_tmpdir(tmp);
  {
    std::string m;
    for (auto &x : g_missing_members)
      m += (m.empty() ? "" : ", ") + x;
    R.set("white_box_members_missing", (double)g_missing_members.size());
    if (!g_missing_members.empty()) {
      R.cap("white-box member table out of date (members not found in the class, skipped by the member-wise oracles): " + m);
      fprintf(stderr, "NOTE: white-box member table out of date: %s\n", m.c_str());
    }
  }
  return R.finish(A);
}
