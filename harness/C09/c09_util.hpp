// Helpers of the C09 harnesses: run the simulation executable in a private
// directory, read/compare files, canonical content of an HDF5 snapshot.
#ifndef C09_UTIL_HPP
#define C09_UTIL_HPP

#include "verif_common.hpp"

#include <dirent.h>
#include <fcntl.h>
#include <signal.h>
#include <sys/stat.h>
#include <sys/types.h>
#include <sys/wait.h>
#include <unistd.h>

#include <algorithm>
#include <atomic>
#include <functional>
#include <mutex>
#include <string>
#include <thread>
#include <vector>

#include <hdf5.h>

namespace c09 {

inline void mkdir_p(const std::string &d) {
  std::string cur;
  for (size_t i = 0; i < d.size(); ++i) {
    cur += d[i];
    if (d[i] == '/' || i + 1 == d.size())
      mkdir(cur.c_str(), 0700);
  }
}

inline void rm_rf(const std::string &d) {
  DIR *dir = opendir(d.c_str());
  if (!dir) {
    unlink(d.c_str());
    return;
  }
  while (struct dirent *e = readdir(dir)) {
    std::string n = e->d_name;
    if (n == "." || n == "..")
      continue;
    std::string p = d + "/" + n;
    struct stat st;
    if (lstat(p.c_str(), &st) == 0 && S_ISDIR(st.st_mode))
      rm_rf(p);
    else
      unlink(p.c_str());
  }
  closedir(dir);
  rmdir(d.c_str());
}

inline std::vector< std::string > list_dir(const std::string &d) {
  std::vector< std::string > out;
  DIR *dir = opendir(d.c_str());
  if (!dir)
    return out;
  while (struct dirent *e = readdir(dir)) {
    std::string n = e->d_name;
    if (n != "." && n != "..")
      out.push_back(n);
  }
  closedir(dir);
  std::sort(out.begin(), out.end());
  return out;
}

inline bool file_exists(const std::string &f) {
  struct stat st;
  return stat(f.c_str(), &st) == 0;
}

inline void write_file(const std::string &name, const std::string &content) {
  FILE *f = fopen(name.c_str(), "wb");
  if (!f) {
    perror(name.c_str());
    exit(3);
  }
  fwrite(content.data(), 1, content.size(), f);
  fclose(f);
}

struct RunResult {
  int exit_code = -1; // exit status, or 128+signal, or -2 for timeout
  bool timed_out = false;
  double wall = 0.;
  std::string describe() const {
    if (timed_out)
      return "timeout (killed)";
    if (exit_code >= 128)
      return verif::fmt("killed by signal %d", exit_code - 128);
    return verif::fmt("exit status %d", exit_code);
  }
};

/// run argv in directory dir with stdout+stderr appended to dir/logname
inline RunResult run_in(const std::string &dir, const std::vector< std::string > &argv,
                        const std::string &logname, double timeout_s,
                        const std::vector< std::string > &env_extra = {}) {
  RunResult r;
  std::vector< char * > av;
  for (auto &a : argv)
    av.push_back(const_cast< char * >(a.c_str()));
  av.push_back(nullptr);
  std::string logpath = dir + "/" + logname;
  auto t0 = std::chrono::steady_clock::now();
  pid_t pid = fork();
  if (pid < 0) {
    perror("fork");
    exit(3);
  }
  if (pid == 0) {
    // child: only async-signal-safe calls
    if (chdir(dir.c_str()) != 0)
      _exit(126);
    int fd = open(logpath.c_str(), O_WRONLY | O_CREAT | O_APPEND, 0600);
    if (fd >= 0) {
      dup2(fd, 1);
      dup2(fd, 2);
      close(fd);
    }
    int nul = open("/dev/null", O_RDONLY);
    if (nul >= 0) {
      dup2(nul, 0);
      close(nul);
    }
    for (auto &e : env_extra)
      putenv(const_cast< char * >(e.c_str()));
    execv(av[0], av.data());
    _exit(127);
  }
  int status = 0;
  for (;;) {
    pid_t w = waitpid(pid, &status, WNOHANG);
    if (w == pid)
      break;
    double el =
        std::chrono::duration< double >(std::chrono::steady_clock::now() - t0).count();
    if (el > timeout_s) {
      kill(pid, SIGKILL);
      waitpid(pid, &status, 0);
      r.timed_out = true;
      break;
    }
    usleep(el < 0.2 ? 1000 : 10000);
  }
  r.wall = std::chrono::duration< double >(std::chrono::steady_clock::now() - t0).count();
  if (r.timed_out)
    r.exit_code = -2;
  else if (WIFEXITED(status))
    r.exit_code = WEXITSTATUS(status);
  else if (WIFSIGNALED(status))
    r.exit_code = 128 + WTERMSIG(status);
  return r;
}

inline std::string tail_of(const std::string &file, size_t n = 600) {
  std::string s = verif::read_file(file);
  if (s.size() > n)
    s = s.substr(s.size() - n);
  return s;
}

/// simple work queue over 0..n-1 with nthread std::threads
inline void parallel_for(size_t n, unsigned nthread, const std::function< void(size_t) > &f) {
  std::atomic< size_t > next(0);
  std::vector< std::thread > th;
  nthread = std::max(1u, std::min< unsigned >(nthread, (unsigned)std::max< size_t >(n, 1)));
  for (unsigned t = 0; t < nthread; ++t)
    th.emplace_back([&]() {
      for (;;) {
        size_t i = next.fetch_add(1);
        if (i >= n)
          return;
        f(i);
      }
    });
  for (auto &t : th)
    t.join();
}

// ---------------------------------------------------------------------------
// canonical content of an HDF5 file: every group, attribute and dataset with
// its name, type class/size, shape and raw data, in name order. Object header
// time stamps kept by the HDF5 library are not part of it; attributes listed
// in `skip` (full path "group/attribute") are left out.
// ---------------------------------------------------------------------------
inline std::mutex &h5_mutex() {
  static std::mutex m;
  return m;
}

struct H5Canon {
  std::string text;                      // canonical byte string
  std::vector< std::string > skipped;    // attributes left out
  std::vector< std::string > entries;    // names, for reporting
  std::vector< size_t > entry_offsets;   // offset in text of each entry
};

inline void h5_add_entry(H5Canon &c, const std::string &name, const std::string &meta,
                         const std::string &data) {
  c.entries.push_back(name);
  c.entry_offsets.push_back(c.text.size());
  c.text += name;
  c.text += '\0';
  c.text += meta;
  c.text += '\0';
  uint64_t n = data.size();
  c.text.append(reinterpret_cast< const char * >(&n), 8);
  c.text += data;
}

inline std::string h5_type_meta(hid_t type, hid_t space) {
  std::string m = verif::fmt("class=%d size=%zu", (int)H5Tget_class(type), (size_t)H5Tget_size(type));
  int nd = H5Sget_simple_extent_ndims(space);
  hsize_t dims[8] = {0};
  if (nd > 0 && nd <= 8)
    H5Sget_simple_extent_dims(space, dims, nullptr);
  m += verif::fmt(" rank=%d", nd);
  for (int i = 0; i < nd && i < 8; ++i)
    m += verif::fmt(" %llu", (unsigned long long)dims[i]);
  return m;
}

inline void h5_attributes(hid_t obj, const std::string &path, H5Canon &c,
                          const std::vector< std::string > &skip) {
  int na = H5Aget_num_attrs(obj);
  std::vector< std::pair< std::string, int > > names;
  for (int i = 0; i < na; ++i) {
    hid_t a = H5Aopen_idx(obj, (unsigned)i);
    char buf[512];
    H5Aget_name(a, sizeof(buf), buf);
    names.push_back({buf, i});
    H5Aclose(a);
  }
  std::sort(names.begin(), names.end());
  for (auto &nm : names) {
    std::string full = path + "@" + nm.first;
    if (std::find(skip.begin(), skip.end(), full) != skip.end()) {
      c.skipped.push_back(full);
      continue;
    }
    hid_t a = H5Aopen_idx(obj, (unsigned)nm.second);
    hid_t type = H5Aget_type(a);
    hid_t space = H5Aget_space(a);
    hssize_t npts = H5Sget_simple_extent_npoints(space);
    size_t sz = H5Tget_size(type) * (size_t)std::max< hssize_t >(npts, 1);
    std::string data(sz, '\0');
    H5Aread(a, type, &data[0]);
    h5_add_entry(c, full, h5_type_meta(type, space), data);
    H5Sclose(space);
    H5Tclose(type);
    H5Aclose(a);
  }
}

inline void h5_group(hid_t grp, const std::string &path, H5Canon &c,
                     const std::vector< std::string > &skip) {
  h5_add_entry(c, path + "/", "group", "");
  h5_attributes(grp, path + "/", c, skip);
  hsize_t n = 0;
  H5Gget_num_objs(grp, &n);
  std::vector< std::pair< std::string, int > > names;
  for (hsize_t i = 0; i < n; ++i) {
    char buf[512];
    H5Gget_objname_by_idx(grp, i, buf, sizeof(buf));
    names.push_back({buf, (int)H5Gget_objtype_by_idx(grp, i)});
  }
  std::sort(names.begin(), names.end());
  for (auto &nm : names) {
    std::string p = path + "/" + nm.first;
    if (nm.second == H5G_GROUP) {
      hid_t g = H5Gopen2(grp, nm.first.c_str(), H5P_DEFAULT);
      h5_group(g, p, c, skip);
      H5Gclose(g);
    } else if (nm.second == H5G_DATASET) {
      hid_t d = H5Dopen2(grp, nm.first.c_str(), H5P_DEFAULT);
      hid_t type = H5Dget_type(d);
      hid_t space = H5Dget_space(d);
      hssize_t npts = H5Sget_simple_extent_npoints(space);
      size_t sz = H5Tget_size(type) * (size_t)std::max< hssize_t >(npts, 0);
      std::string data(sz, '\0');
      if (sz)
        H5Dread(d, type, H5S_ALL, H5S_ALL, H5P_DEFAULT, &data[0]);
      h5_add_entry(c, p, h5_type_meta(type, space), data);
      h5_attributes(d, p, c, skip);
      H5Sclose(space);
      H5Tclose(type);
      H5Dclose(d);
    } else {
      h5_add_entry(c, p, verif::fmt("other object type %d", nm.second), "");
    }
  }
}

inline bool h5_canon(const std::string &file, H5Canon &c, const std::vector< std::string > &skip) {
  std::lock_guard< std::mutex > g(h5_mutex());
  H5Eset_auto2(H5E_DEFAULT, nullptr, nullptr);
  hid_t f = H5Fopen(file.c_str(), H5F_ACC_RDONLY, H5P_DEFAULT);
  if (f < 0)
    return false;
  hid_t root = H5Gopen2(f, "/", H5P_DEFAULT);
  h5_group(root, "", c, skip);
  H5Gclose(root);
  H5Fclose(f);
  return true;
}

/// name of the first entry in which two canonical strings differ
inline std::string h5_first_difference(const H5Canon &a, const H5Canon &b) {
  size_t n = std::min(a.text.size(), b.text.size());
  size_t off = 0;
  while (off < n && a.text[off] == b.text[off])
    ++off;
  if (off == n && a.text.size() == b.text.size())
    return "";
  std::string name = "?";
  for (size_t i = 0; i < a.entries.size(); ++i)
    if (a.entry_offsets[i] <= off)
      name = a.entries[i];
  return name;
}

} // namespace c09

#endif
