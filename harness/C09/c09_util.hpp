// Helpers of the C09 harnesses: run the simulation executable in a private
// directory, read/compare files, canonical content of an HDF5 snapshot.
#ifndef C09_UTIL_HPP
#define C09_UTIL_HPP

#include "verif_common.hpp"

#include <dirent.h>
#include <fcntl.h>
#include <signal.h>
#include <sys/stat.h>
#include <sys/types.h>
#include <sys/wait.h>
#include <unistd.h>

#include <algorithm>
#include <cstring>
#include <atomic>
#include <condition_variable>
#include <functional>
#include <mutex>
#include <string>
#include <thread>
#include <vector>

#include <hdf5.h>

namespace c09 {

inline void mkdir_p(const std::string &d) {
  std::string cur;
  for (size_t i = 0; i < d.size(); ++i) {
    cur += d[i];
    if (d[i] == '/' || i + 1 == d.size())
      mkdir(cur.c_str(), 0700);
  }
}

inline void rm_rf(const std::string &d) {
  DIR *dir = opendir(d.c_str());
  if (!dir) {
    unlink(d.c_str());
    return;
  }
  while (struct dirent *e = readdir(dir)) {
    std::string n = e->d_name;
    if (n == "." || n == "..")
      continue;
    std::string p = d + "/" + n;
    struct stat st;
    if (lstat(p.c_str(), &st) == 0 && S_ISDIR(st.st_mode))
      rm_rf(p);
    else
      unlink(p.c_str());
  }
  closedir(dir);
  rmdir(d.c_str());
}

inline std::vector< std::string > list_dir(const std::string &d) {
  std::vector< std::string > out;
  DIR *dir = opendir(d.c_str());
  if (!dir)
    return out;
  while (struct dirent *e = readdir(dir)) {
    std::string n = e->d_name;
    if (n != "." && n != "..")
      out.push_back(n);
  }
  closedir(dir);
  std::sort(out.begin(), out.end());
  return out;
}

inline bool file_exists(const std::string &f) {
  struct stat st;
  return stat(f.c_str(), &st) == 0;
}

inline void write_file(const std::string &name, const std::string &content) {
  FILE *f = fopen(name.c_str(), "wb");
  if (!f) {
    perror(name.c_str());
    exit(3);
  }
  fwrite(content.data(), 1, content.size(), f);
  fclose(f);
}

struct RunResult {
  int exit_code = -1; // exit status, or 128+signal, or -2 for timeout
  bool timed_out = false;
  double wall = 0.;
  std::string describe() const {
    if (timed_out)
      return "timeout (killed)";
    if (exit_code >= 128)
      return verif::fmt("killed by signal %d", exit_code - 128);
    return verif::fmt("exit status %d", exit_code);
  }
};

/// run argv in directory dir with stdout+stderr appended to dir/logname
inline RunResult run_in(const std::string &dir, const std::vector< std::string > &argv,
                        const std::string &logname, double timeout_s,
                        const std::vector< std::string > &env_extra = {}) {
  RunResult r;
  std::vector< char * > av;
  for (auto &a : argv)
    av.push_back(const_cast< char * >(a.c_str()));
  av.push_back(nullptr);
  std::string logpath = dir + "/" + logname;
  auto t0 = std::chrono::steady_clock::now();
  pid_t pid = fork();
  if (pid < 0) {
    perror("fork");
    exit(3);
  }
  if (pid == 0) {
    // child: only async-signal-safe calls
    if (chdir(dir.c_str()) != 0)
      _exit(126);
    int fd = open(logpath.c_str(), O_WRONLY | O_CREAT | O_APPEND, 0600);
    if (fd >= 0) {
      dup2(fd, 1);
      dup2(fd, 2);
      close(fd);
    }
    int nul = open("/dev/null", O_RDONLY);
    if (nul >= 0) {
      dup2(nul, 0);
      close(nul);
    }
    for (auto &e : env_extra)
      putenv(const_cast< char * >(e.c_str()));
    execv(av[0], av.data());
    _exit(127);
  }
  int status = 0;
  for (;;) {
    pid_t w = waitpid(pid, &status, WNOHANG);
    if (w == pid)
      break;
    double el =
        std::chrono::duration< double >(std::chrono::steady_clock::now() - t0).count();
    if (el > timeout_s) {
      kill(pid, SIGKILL);
      waitpid(pid, &status, 0);
      r.timed_out = true;
      break;
    }
    usleep(el < 0.2 ? 1000 : 10000);
  }
  r.wall = std::chrono::duration< double >(std::chrono::steady_clock::now() - t0).count();
  if (r.timed_out)
    r.exit_code = -2;
  else if (WIFEXITED(status))
    r.exit_code = WEXITSTATUS(status);
  else if (WIFSIGNALED(status))
    r.exit_code = 128 + WTERMSIG(status);
  return r;
}

inline std::string tail_of(const std::string &file, size_t n = 600) {
  std::string s = verif::read_file(file);
  if (s.size() > n)
    s = s.substr(s.size() - n);
  return s;
}

/// simple work queue over 0..n-1 with nthread std::threads
inline void parallel_for(size_t n, unsigned nthread, const std::function< void(size_t) > &f) {
  std::atomic< size_t > next(0);
  std::vector< std::thread > th;
  nthread = std::max(1u, std::min< unsigned >(nthread, (unsigned)std::max< size_t >(n, 1)));
  for (unsigned t = 0; t < nthread; ++t)
    th.emplace_back([&]() {
      for (;;) {
        size_t i = next.fetch_add(1);
        if (i >= n)
          return;
        f(i);
      }
    });
  for (auto &t : th)
    t.join();
}

// ---------------------------------------------------------------------------
// canonical content of an HDF5 file: every group, attribute and dataset with
// its name, type class/size, shape and raw data, in name order. Object header
// time stamps kept by the HDF5 library are not part of it; attributes listed
// in `skip` (full path "group/attribute") are left out.
// ---------------------------------------------------------------------------
inline std::mutex &h5_mutex() {
  static std::mutex m;
  return m;
}

struct H5Canon {
  std::string text;                      // canonical byte string
  std::vector< std::string > skipped;    // attributes left out
  std::vector< std::string > entries;    // names, for reporting
  std::vector< size_t > entry_offsets;   // offset in text of each entry
};

inline void h5_add_entry(H5Canon &c, const std::string &name, const std::string &meta,
                         const std::string &data) {
  c.entries.push_back(name);
  c.entry_offsets.push_back(c.text.size());
  c.text += name;
  c.text += '\0';
  c.text += meta;
  c.text += '\0';
  uint64_t n = data.size();
  c.text.append(reinterpret_cast< const char * >(&n), 8);
  c.text += data;
}

inline std::string h5_type_meta(hid_t type, hid_t space) {
  std::string m = verif::fmt("class=%d size=%zu", (int)H5Tget_class(type), (size_t)H5Tget_size(type));
  int nd = H5Sget_simple_extent_ndims(space);
  hsize_t dims[8] = {0};
  if (nd > 0 && nd <= 8)
    H5Sget_simple_extent_dims(space, dims, nullptr);
  m += verif::fmt(" rank=%d", nd);
  for (int i = 0; i < nd && i < 8; ++i)
    m += verif::fmt(" %llu", (unsigned long long)dims[i]);
  return m;
}

inline void h5_attributes(hid_t obj, const std::string &path, H5Canon &c,
                          const std::vector< std::string > &skip) {
  int na = H5Aget_num_attrs(obj);
  std::vector< std::pair< std::string, int > > names;
  for (int i = 0; i < na; ++i) {
    hid_t a = H5Aopen_idx(obj, (unsigned)i);
    char buf[512];
    H5Aget_name(a, sizeof(buf), buf);
    names.push_back({buf, i});
    H5Aclose(a);
  }
  std::sort(names.begin(), names.end());
  for (auto &nm : names) {
    std::string full = path + "@" + nm.first;
    if (std::find(skip.begin(), skip.end(), full) != skip.end()) {
      c.skipped.push_back(full);
      continue;
    }
    hid_t a = H5Aopen_idx(obj, (unsigned)nm.second);
    hid_t type = H5Aget_type(a);
    hid_t space = H5Aget_space(a);
    hssize_t npts = H5Sget_simple_extent_npoints(space);
    size_t sz = H5Tget_size(type) * (size_t)std::max< hssize_t >(npts, 1);
    std::string data(sz, '\0');
    H5Aread(a, type, &data[0]);
    h5_add_entry(c, full, h5_type_meta(type, space), data);
    H5Sclose(space);
    H5Tclose(type);
    H5Aclose(a);
  }
}

inline void h5_group(hid_t grp, const std::string &path, H5Canon &c,
                     const std::vector< std::string > &skip) {
  h5_add_entry(c, path + "/", "group", "");
  h5_attributes(grp, path + "/", c, skip);
  hsize_t n = 0;
  H5Gget_num_objs(grp, &n);
  std::vector< std::pair< std::string, int > > names;
  for (hsize_t i = 0; i < n; ++i) {
    char buf[512];
    H5Gget_objname_by_idx(grp, i, buf, sizeof(buf));
    names.push_back({buf, (int)H5Gget_objtype_by_idx(grp, i)});
  }
  std::sort(names.begin(), names.end());
  for (auto &nm : names) {
    std::string p = path + "/" + nm.first;
    if (nm.second == H5G_GROUP) {
      hid_t g = H5Gopen2(grp, nm.first.c_str(), H5P_DEFAULT);
      h5_group(g, p, c, skip);
      H5Gclose(g);
    } else if (nm.second == H5G_DATASET) {
      hid_t d = H5Dopen2(grp, nm.first.c_str(), H5P_DEFAULT);
      hid_t type = H5Dget_type(d);
      hid_t space = H5Dget_space(d);
      hssize_t npts = H5Sget_simple_extent_npoints(space);
      size_t sz = H5Tget_size(type) * (size_t)std::max< hssize_t >(npts, 0);
      std::string data(sz, '\0');
      if (sz)
        H5Dread(d, type, H5S_ALL, H5S_ALL, H5P_DEFAULT, &data[0]);
      h5_add_entry(c, p, h5_type_meta(type, space), data);
      h5_attributes(d, p, c, skip);
      H5Sclose(space);
      H5Tclose(type);
      H5Dclose(d);
    } else {
      h5_add_entry(c, p, verif::fmt("other object type %d", nm.second), "");
    }
  }
}

inline bool h5_canon(const std::string &file, H5Canon &c, const std::vector< std::string > &skip) {
  std::lock_guard< std::mutex > g(h5_mutex());
  H5Eset_auto2(H5E_DEFAULT, nullptr, nullptr);
  hid_t f = H5Fopen(file.c_str(), H5F_ACC_RDONLY, H5P_DEFAULT);
  if (f < 0)
    return false;
  hid_t root = H5Gopen2(f, "/", H5P_DEFAULT);
  h5_group(root, "", c, skip);
  H5Gclose(root);
  H5Fclose(f);
  return true;
}

// ---------------------------------------------------------------------------
// The HDF5 library (serial build) is not thread safe, and reading a few
// thousand snapshots under one mutex was what the wall time of the whole part
// was spent on. The snapshots of a run directory are therefore canonicalised
// in another process (the helpers of RunServer below; a forked child when no
// helper is left; by hand with `<exe> --canon <dir>`), which writes
// <dir>/canon.bin; the worker threads of the harness never call HDF5.
// ---------------------------------------------------------------------------
inline void put_u64(std::string &s, uint64_t v) { s.append(reinterpret_cast< const char * >(&v), 8); }
inline bool get_u64(const std::string &s, size_t &off, uint64_t &v) {
  if (off + 8 > s.size())
    return false;
  memcpy(&v, s.data() + off, 8);
  off += 8;
  return true;
}
inline bool get_str(const std::string &s, size_t &off, std::string &out) {
  uint64_t n;
  if (!get_u64(s, off, n) || off + n > s.size())
    return false;
  out = s.substr(off, n);
  off += n;
  return true;
}

/// snapshot index of a file name snap_NNN.hdf5, or -1
inline int snapshot_index(const std::string &f) {
  if (f.compare(0, 5, "snap_") == 0 && f.size() > 10 && f.substr(f.size() - 5) == ".hdf5")
    return atoi(f.substr(5, f.size() - 10).c_str());
  return -1;
}

/// child side: canonical content of every snapshot in dir -> dir/canon.bin
inline int canon_main(const std::string &dir, const std::vector< std::string > &skip) {
  std::string out;
  std::vector< std::pair< int, H5Canon > > all;
  for (auto &f : list_dir(dir)) {
    const int idx = snapshot_index(f);
    if (idx < 0)
      continue;
    H5Canon hc;
    if (!h5_canon(dir + "/" + f, hc, skip)) {
      hc = H5Canon();
      hc.text = "<unreadable>";
    }
    all.push_back({idx, hc});
  }
  put_u64(out, all.size());
  for (auto &a : all) {
    put_u64(out, (uint64_t)a.first);
    put_u64(out, a.second.text.size());
    out += a.second.text;
    put_u64(out, a.second.entries.size());
    for (size_t i = 0; i < a.second.entries.size(); ++i) {
      put_u64(out, a.second.entries[i].size());
      out += a.second.entries[i];
      put_u64(out, a.second.entry_offsets[i]);
    }
    put_u64(out, a.second.skipped.size());
  }
  write_file(dir + "/canon.bin", out);
  return 0;
}

/// parent side
inline bool canon_read(const std::string &file, std::vector< std::pair< int, H5Canon > > &all) {
  const std::string s = verif::read_file(file);
  size_t off = 0;
  uint64_t n;
  if (!get_u64(s, off, n) || n > 100000)
    return false;
  for (uint64_t i = 0; i < n; ++i) {
    uint64_t idx, ne, off_e, nskip;
    H5Canon hc;
    if (!get_u64(s, off, idx) || !get_str(s, off, hc.text) || !get_u64(s, off, ne) || ne > 1000000)
      return false;
    for (uint64_t e = 0; e < ne; ++e) {
      std::string name;
      if (!get_str(s, off, name) || !get_u64(s, off, off_e))
        return false;
      hc.entries.push_back(name);
      hc.entry_offsets.push_back(off_e);
    }
    if (!get_u64(s, off, nskip))
      return false;
    hc.skipped.resize(nskip);
    all.push_back({(int)idx, hc});
  }
  return off == s.size();
}

/// run f in a forked child (no exec) and wait for it; the child leaves with
/// _exit so that nothing of the parent (stdio buffers, temporary directories)
/// is flushed or removed twice. Only used for the snapshot reader: the parent
/// never calls HDF5, so the library state the child inherits is untouched.
inline RunResult run_forked(const std::function< int() > &f, double timeout_s) {
  RunResult r;
  auto t0 = std::chrono::steady_clock::now();
  pid_t pid = fork();
  if (pid < 0) {
    perror("fork");
    exit(3);
  }
  if (pid == 0)
    _exit(f());
  int status = 0;
  for (;;) {
    pid_t w = waitpid(pid, &status, WNOHANG);
    if (w == pid)
      break;
    double el = std::chrono::duration< double >(std::chrono::steady_clock::now() - t0).count();
    if (el > timeout_s) {
      kill(pid, SIGKILL);
      waitpid(pid, &status, 0);
      r.timed_out = true;
      break;
    }
    usleep(el < 0.2 ? 500 : 10000);
  }
  r.wall = std::chrono::duration< double >(std::chrono::steady_clock::now() - t0).count();
  if (r.timed_out)
    r.exit_code = -2;
  else if (WIFEXITED(status))
    r.exit_code = WEXITSTATUS(status);
  else if (WIFSIGNALED(status))
    r.exit_code = 128 + WTERMSIG(status);
  return r;
}

// ---------------------------------------------------------------------------
// Run servers. Creating a few thousand processes from a parent with 16 busy
// threads and the reference data in memory is expensive (every fork write
// protects the whole address space of the parent, whose threads then fault
// page by page). The harness therefore forks a small number of single threaded
// helper processes at the very start of main() - before any thread exists and
// before anything is allocated - and the worker threads hand each run to one of
// them: the helper starts the simulation (fork + exec from a small process),
// waits for it, canonicalises the snapshots the run left in its directory
// (HDF5 is only ever used inside the helpers) and answers with the exit status.
// If a helper dies the caller falls back to doing the same work itself.
// ---------------------------------------------------------------------------
struct ServedRun {
  RunResult rr;          // of the simulation
  double canon_wall = 0.;
  bool canon_ok = false;
  bool served = false;   // false: no helper available, nothing was run
};

class RunServer {
  struct Helper {
    pid_t pid = -1;
    int to = -1, from = -1;
    bool busy = false, dead = false;
  };
  std::vector< Helper > _helpers;
  std::mutex _mtx;
  std::condition_variable _cv;

  static bool read_line(int fd, std::string &line) {
    line.clear();
    char ch;
    for (;;) {
      ssize_t n = read(fd, &ch, 1);
      if (n == 1) {
        if (ch == '\n')
          return true;
        line += ch;
      } else if (n < 0 && errno == EINTR) {
        continue;
      } else {
        return false;
      }
    }
  }
  static bool write_all(int fd, const std::string &s) {
    size_t off = 0;
    while (off < s.size()) {
      ssize_t n = write(fd, s.data() + off, s.size() - off);
      if (n < 0 && errno == EINTR)
        continue;
      if (n <= 0)
        return false;
      off += (size_t)n;
    }
    return true;
  }
  static std::vector< std::string > split(const std::string &s, char sep) {
    std::vector< std::string > out(1);
    for (char c : s) {
      if (c == sep)
        out.emplace_back();
      else
        out.back() += c;
    }
    return out;
  }

  [[noreturn]] static void helper_loop(int in, int out, const std::vector< std::string > &skip) {
    std::string line;
    while (read_line(in, line)) {
      // dir \x1f logname \x1f timeout \x1f argv0 \x1f argv1 ...
      std::vector< std::string > f = split(line, '\x1f');
      if (f.size() < 4)
        break;
      std::vector< std::string > argv(f.begin() + 3, f.end());
      RunResult rr = run_in(f[0], argv, f[1], atof(f[2].c_str()));
      auto t0 = std::chrono::steady_clock::now();
      const int c = canon_main(f[0], skip);
      const double cw = std::chrono::duration< double >(std::chrono::steady_clock::now() - t0).count();
      if (!write_all(out, verif::fmt("%d %d %.9g %.9g %d\n", rr.exit_code, (int)rr.timed_out, rr.wall, cw, c)))
        break;
    }
    _exit(0);
  }

public:
  /// call before any thread is started
  void start(unsigned n, const std::vector< std::string > &skip) {
    signal(SIGPIPE, SIG_IGN);
    for (unsigned i = 0; i < n; ++i) {
      int req[2], rep[2];
      if (pipe2(req, O_CLOEXEC) != 0 || pipe2(rep, O_CLOEXEC) != 0)
        break;
      pid_t pid = fork();
      if (pid < 0) {
        close(req[0]);
        close(req[1]);
        close(rep[0]);
        close(rep[1]);
        break;
      }
      if (pid == 0) {
        // the ends of the helpers started before this one belong to the parent
        for (auto &h : _helpers) {
          close(h.to);
          close(h.from);
        }
        close(req[1]);
        close(rep[0]);
        helper_loop(req[0], rep[1], skip);
      }
      close(req[0]);
      close(rep[1]);
      Helper h;
      h.pid = pid;
      h.to = req[1];
      h.from = rep[0];
      _helpers.push_back(h);
    }
  }
  size_t size() const { return _helpers.size(); }

  ServedRun run(const std::string &dir, const std::vector< std::string > &argv, const std::string &logname,
                double timeout_s) {
    ServedRun r;
    int idx = -1;
    {
      std::unique_lock< std::mutex > lk(_mtx);
      for (;;) {
        bool any_alive = false;
        for (size_t i = 0; i < _helpers.size(); ++i) {
          any_alive = any_alive || !_helpers[i].dead;
          if (!_helpers[i].dead && !_helpers[i].busy) {
            idx = (int)i;
            break;
          }
        }
        if (idx >= 0 || !any_alive)
          break;
        _cv.wait(lk);
      }
      if (idx < 0)
        return r;
      _helpers[idx].busy = true;
    }
    std::string req = dir + '\x1f' + logname + '\x1f' + verif::fmt("%.3f", timeout_s);
    for (auto &a : argv)
      req += '\x1f' + a;
    req += '\n';
    std::string line;
    bool ok = write_all(_helpers[idx].to, req) && read_line(_helpers[idx].from, line);
    int tmo = 0, cok = 1;
    if (ok)
      ok = sscanf(line.c_str(), "%d %d %lf %lf %d", &r.rr.exit_code, &tmo, &r.rr.wall, &r.canon_wall, &cok) == 5;
    {
      std::lock_guard< std::mutex > lk(_mtx);
      _helpers[idx].busy = false;
      if (!ok)
        _helpers[idx].dead = true;
    }
    _cv.notify_all();
    if (!ok)
      return r; // the caller repeats the run itself
    r.rr.timed_out = tmo != 0;
    r.canon_ok = cok == 0;
    r.served = true;
    return r;
  }

  void stop() {
    for (auto &h : _helpers) {
      close(h.to);
      close(h.from);
    }
    for (auto &h : _helpers) {
      int st;
      waitpid(h.pid, &st, 0);
    }
    _helpers.clear();
  }
};

/// name of the first entry in which two canonical strings differ
inline std::string h5_first_difference(const H5Canon &a, const H5Canon &b) {
  size_t n = std::min(a.text.size(), b.text.size());
  size_t off = 0;
  while (off < n && a.text[off] == b.text[off])
    ++off;
  if (off == n && a.text.size() == b.text.size())
    return "";
  std::string name = "?";
  for (size_t i = 0; i < a.entries.size(); ++i)
    if (a.entry_offsets[i] <= off)
      name = a.entries[i];
  return name;
}

} // namespace c09

#endif
