import os as _os

_B = _os.environ.get("VERIF_BUILD") or "/verif/build"

CHECK = {
    "id": "C09",
    "level": "fault_enumeration",
    "engine": "E2",
    "technique": "every stop point and every chain of stop points (1 to 5 restarts in a row, odd and even) of whole "
                 "runs of the real executable (--number-of-steps / --restart), byte comparison of restart dumps, "
                 "snapshots and the source log with the uninterrupted run; write -> read -> write of every "
                 "restartable class into poisoned memory, continued over three dump/restore generations",
    "level_text": "The fault is 'the process stops after step k and is restarted from the dump': every k in 1..5 of a "
                  "6-step pure-hydro run (continued to every later step), and every subset of {1..5} as a chain of "
                  "stops, is executed with the real program on boxes of both inverse-cell-size classes x 4 subgrid "
                  "layouts (1x1x1, 2x1x1 periodic in x, 2x2x1, 1x2x3 periodic in z with 6x3x2 resp. 10x5x4 cells per "
                  "subgrid) x optional components (mask, turbulence forcing, supernova source with feedback, random "
                  "source list without and with its log file and subgrid copies, external gravity; thorough: "
                  "combinations); each dump, snapshot and source log of a restarted run is compared byte for byte "
                  "with the uninterrupted run (timers masked, re-seeded seed field predicted). All crash points of the "
                  "bounded history are enumerated, hence fault enumeration.",
    "level_note": "One thread, radiation off, 6^3 cells (one box 10x10x12), N = 6 steps. The geometry alphabet is "
                  "selected at run time so that it contains boxes on which n/s != 1/(s/n) and anisotropic boxes on "
                  "which the association orders of dx*dy*dz disagree (at least two of each). Every optional component "
                  "is configured with parameters that all differ from each other and from the code's defaults (mask "
                  "scale factors 0.3/0.8/0.6, centre fractions 0.55/0.45/0.6, delta t > 0; forcing window, peak, "
                  "concentration, seed, start; source box per axis; photon seed 4711), listed in the evidence "
                  "(component_parameters). Quick: chains on six configurations (one per component, both inverse-"
                  "cell-size classes, three layouts), layout 1x2x3 on the first geometry of each of five kinds; "
                  "thorough: chains and 1x2x3 everywhere. Dumps are only written between steps, so the crash points "
                  "are the step boundaries. The component part restores every object into memory filled with two "
                  "different byte patterns (members the restart constructor forgets become visible "
                  "deterministically), over states with 0, 1, 2 and >= 3 of every repeatable thing and with "
                  "different values per axis / per quantity, and repeats dump/restore for three generations.",
    "quick_deadline": 90,
    "thorough_deadline": 1100,
    "parts": [
        {"name": "components", "bin": "c09_components", "share": 0.1},
        {"name": "runs", "bin": "c09_restart", "share": 0.9,
         "needs": [_os.path.join(_B, "plain", "CMacIonize")]},
    ],
    "assumptions": [],
}
