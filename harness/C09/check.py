import os as _os

_B = _os.environ.get("VERIF_BUILD") or "/verif/build"

CHECK = {
    "id": "C09",
    "level": "fault_enumeration",
    "engine": "E2",
    "technique": "every stop point and every chain of stop points of whole runs of the real executable "
                 "(--number-of-steps / --restart), byte comparison of restart dumps and snapshots with the "
                 "uninterrupted run; write -> read -> write of every restartable class into poisoned memory",
    "level_text": "The fault is 'the process stops after step k and is restarted from the dump': every k in 1..5 of a "
                  "6-step pure-hydro run (continued to every later step), and every subset of {1..5} as a chain of "
                  "stops, is executed with the real program on boxes of both inverse-cell-size classes x 3 subgrid "
                  "layouts x optional components; each dump and snapshot of a restarted run is compared byte for "
                  "byte with the uninterrupted run (timers masked, re-seeded seed field predicted). All crash points "
                  "of the bounded history are enumerated, hence fault enumeration.",
    "level_note": "One thread, radiation off, 6^3 cells (one box 10x10x12), N = 6 steps. The geometry alphabet is selected at run time so that it contains boxes on which n/s != 1/(s/n) and anisotropic boxes on which the association orders of dx*dy*dz disagree (at least two of each). Dumps are only written between steps, so the "
                  "crash points are the step boundaries. The component part restores every object into memory "
                  "filled with two different byte patterns, which makes members the restart constructor forgets "
                  "visible deterministically.",
    "quick_deadline": 90,
    "thorough_deadline": 900,
    "parts": [
        {"name": "components", "bin": "c09_components", "share": 0.1},
        {"name": "runs", "bin": "c09_restart", "share": 0.9,
         "needs": [_os.path.join(_B, "plain", "CMacIonize")]},
    ],
    "assumptions": [],
}
