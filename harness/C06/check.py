CHECK = {
    "id": "C06",
    "level": "exploration",
    "engine": "E3",
    "technique": "bounded-exhaustive enumeration of produced estimator sets through the real ionization and thermal "
                 "balance, abort interposed, quad-precision reference for the hydrogen-only balance",
    "level_text": "The property quantifies over a continuum of radiation fields, densities, temperatures and abundances. "
                  "The check evaluates the complete Cartesian product of finite alphabets (photon-energy mixtures pushed "
                  "through the real cross sections x 24 flux decades and 0 x densities x temperatures x helium and metal "
                  "abundances) chosen to reach every branch, shortcut and threshold of the anchored code, and decides the "
                  "bounds, sum, clamp, no-abort, balance and monotonicity oracles on every cell. Exhaustive over the "
                  "alphabet, silent outside it.",
    "level_note": "exhaustive:true refers to the stated alphabet. Spectra are mixtures of at most two photon energies from "
                  "{13.6+ .. 100 eV soft, 10..100 x 13.6 eV hard}; the quick thermal part uses a stated sub-alphabet "
                  "(every other flux decade incl. 1e20, 106 of the 244 spectra, see NOTES.md); "
                  "TemperatureCalculator runs with its default parameters (plus PAH / cosmic-ray heating 1 in the thorough "
                  "tier). The balance-equation and monotonicity oracles apply to hydrogen-only gas through "
                  "calculate_ionization_state (closed form), as the property states.",
    "quick_deadline": 100,
    "thorough_deadline": 1100,
    "parts": [
        {"name": "ionization", "bin": "c06_balance", "args": ["--what", "ion"], "share": 0.25},
        {"name": "thermal", "bin": "c06_balance", "args": ["--what", "temp"], "share": 0.75},
    ],
    "assumptions": [],
}
