// C06: ionization balance and thermal balance stay physical.
//
// Bounded-exhaustive enumeration (engine E3) of produced estimator sets:
// photon frequency mixtures are pushed through the REAL VernerCrossSections
// (exactly as DensitySubGrid::update_intensity_counters accumulates them) to
// give physically consistent mean-intensity and heating integrals, which are
// then scaled by a flux alphabet and combined with density / temperature /
// abundance alphabets. Every cell is run through the real
//   IonizationStateCalculator::calculate_ionization_state   (--what ion)
//   TemperatureCalculator::calculate_temperature            (--what temp)
// plus the static H / H+He solver functions. `abort` is interposed
// (siglongjmp) so that an abort of the code under test is a recorded outcome.
//
// Oracles: see NOTES.md. Reference for the hydrogen-only balance is the
// positive root of n a (1-x)^2 = x J in __float128 (cancellation-free form).
#include "Abundances.hpp"
#include "ChargeTransferRates.hpp"
#include "IonizationStateCalculator.hpp"
#include "IonizationVariables.hpp"
#include "LineCoolingData.hpp"
#include "PhysicalConstants.hpp"
#include "TemperatureCalculator.hpp"
#include "VernerCrossSections.hpp"
#include "VernerRecombinationRates.hpp"
#include "verif_common.hpp"

#include "CoordinateVector.hpp"
#include <atomic>
#include <cfloat>
#include <csetjmp>
#include <omp.h>
#include <quadmath.h>

using namespace verif;

// ---------------------------------------------------------------- abort trap
static thread_local sigjmp_buf tl_jb;
static thread_local int tl_armed = 0;
extern "C" void abort(void) noexcept {
  if (tl_armed) {
    tl_armed = 0;
    siglongjmp(tl_jb, 1);
  }
  _exit(134);
}

// ------------------------------------------------------------------ alphabet
static const int NION = NUMBER_OF_IONNAMES;

struct Spec {
  double E1, w1, E2, w2; // photon energies (eV) and weights; w2 == 0: single
  double jbar[NUMBER_OF_IONNAMES]; // sum w sigma_ion(nu) / sum w   (m^2)
  double hH, hHe;                  // sum w sigma (nu - nu_th) / sum w (m^2 Hz)
  bool hard = false;               // contains a photon energy >= 10 x 13.6 eV
  bool quick_thermal = true;       // part of the quick tier of the thermal part
  std::string name() const {
    return w2 == 0. ? fmt("%.17g eV", E1) : fmt("%.17g eV x %g + %.17g eV x %g", E1, w1, E2, w2);
  }
};

static double eV_to_Hz() {
  return PhysicalConstants::get_physical_constant(PHYSICALCONSTANT_ELECTRONVOLT) /
         PhysicalConstants::get_physical_constant(PHYSICALCONSTANT_PLANCK);
}

/// push a frequency mixture through the real cross sections; same arithmetic
/// as DensitySubGrid::update_intensity_counters (path length 1 m)
static void produce(Spec &s, const VernerCrossSections &cs) {
  for (int i = 0; i < NION; ++i)
    s.jbar[i] = 0.;
  s.hH = s.hHe = 0.;
  const double E[2] = {s.E1, s.E2}, w[2] = {s.w1, s.w2};
  const double wsum = s.w1 + s.w2;
  for (int k = 0; k < 2; ++k) {
    if (w[k] == 0.)
      continue;
    const double nu = E[k] * eV_to_Hz();
    double dm[NUMBER_OF_IONNAMES];
    for (int i = 0; i < NION; ++i) {
      dm[i] = 1. * cs.get_cross_section(i, nu) * (w[k] / wsum);
      s.jbar[i] += dm[i];
    }
    s.hH += dm[ION_H_n] * (nu - 3.288e15);
    s.hHe += dm[ION_He_n] * (nu - 5.948e15);
  }
}

static std::vector< Spec > make_spectra(bool thorough, const VernerCrossSections &cs) {
  // soft photons (what the code's own source spectra emit, <= 4 x 13.6 eV,
  // plus 100 eV). 13.6+ : just above the hydrogen threshold of the Verner
  // table (13.60 eV)
  std::vector< double > soft = {13.6 * (1. + 1.e-12), 16., 24.5, 24.7, 35., 54.3, 54.5, 100.};
  if (thorough)
    soft.push_back(24.595); // He-ionizing but below the 5.948e15 Hz used for He heating
  // hard photons: 10, 15, 30, 50, 70, 100 x 13.6 eV (the cross section data
  // go to 100 x 13.6 eV; "any mixture of frequencies above the hydrogen
  // threshold")
  const std::vector< double > hard = {136., 204., 408., 680., 952., 1360.};
  // soft partners of the hard photons in the quick tier of the thermal part:
  // one per regime (H only / He ionizing / above 4 x 13.6 eV)
  auto quick_partner = [](double E) { return E == 13.6 * (1. + 1.e-12) || E == 24.7 || E == 54.5; };
  std::vector< Spec > out;
  auto add = [&](double E1, double w1, double E2, double w2, bool is_hard, bool qt) {
    Spec s{E1, w1, E2, w2};
    s.hard = is_hard;
    s.quick_thermal = qt;
    out.push_back(s);
  };
  for (double E : soft)
    add(E, 1., 0., 0., false, true);
  for (double E : hard)
    add(E, 1., 0., 0., true, true);
  // soft-soft mixtures
  for (size_t a = 0; a < soft.size(); ++a)
    for (size_t b = a + 1; b < soft.size(); ++b) {
      add(soft[a], 1., soft[b], 1., false, true);
      add(soft[a], 1., soft[b], 1.e-3, false, true);
      if (thorough)
        add(soft[a], 1.e-3, soft[b], 1., false, true);
    }
  // soft-hard mixtures, both weight ratios in both directions. A trace of
  // soft photons (1e-3) still dominates J_H (sigma_H(1360 eV) ~ 1e-6
  // sigma_H(13.6 eV)) while the hard photons dominate the coolants.
  for (double Es : soft)
    for (double Eh : hard) {
      const bool qp = quick_partner(Es);
      add(Es, 1., Eh, 1., true, qp);
      add(Es, 1.e-3, Eh, 1., true, qp);
      add(Es, 1., Eh, 1.e-3, true, false);
    }
  // hard-hard mixtures
  for (size_t a = 0; a < hard.size(); ++a)
    for (size_t b = a + 1; b < hard.size(); ++b) {
      add(hard[a], 1., hard[b], 1., true, false);
      add(hard[a], 1., hard[b], 1.e-3, true, false);
      if (thorough)
        add(hard[a], 1.e-3, hard[b], 1., true, false);
    }
  for (Spec &s : out)
    produce(s, cs);
  return out;
}

struct Alphabet {
  std::vector< Spec > spectra;
  std::vector< double > flux; // m^-2 s^-1, first entry 0
  std::vector< double > dens; // m^-3, first entry 0
  std::vector< double > temp; // K
  std::vector< double > AHe;
  std::vector< double > metals; // <0: default abundance set
};

static Alphabet make_alphabet(bool thorough, const VernerCrossSections &cs) {
  Alphabet A;
  A.spectra = make_spectra(thorough, cs);
  A.flux.push_back(0.);
  for (int k = -3; k <= 20; ++k) // 24 decades; J_H = F * 6.3e-22 m^2 ...
    A.flux.push_back(std::pow(10., k));
  A.dens.push_back(0.);
  for (int k = 4; k <= 12; ++k)
    A.dens.push_back(std::pow(10., k));
  A.temp = {1.e2, 1.e3, 5.e3, 1.e4, 3.e4, 1.e5};
  A.AHe = {0., 0.05, 0.1, 0.15};
  A.metals = {0., 1.e-5, 1.e-3, -1.}; // -1: default abundances (2.2e-4, 4e-5, 3.3e-4, 5e-5, 9e-6)
  return A;
}

static Abundances make_abundances(double AHe, double metals) {
  if (metals < 0.)
    return Abundances(AHe, 2.2e-4, 4.e-5, 3.3e-4, 5.e-5, 9.e-6);
  return Abundances(AHe, metals, metals, metals, metals, metals);
}

// --------------------------------------------------------------------- cells
struct Outcome {
  bool aborted = false;
  double frac[NUMBER_OF_IONNAMES];
  double T = 0.;
  double heat[NUMBER_OF_HEATINGTERMS];
};

static void fill_cell(IonizationVariables &iv, const Spec &s, double n, double T) {
  iv.set_number_density(n);
  iv.set_temperature(T);
  for (int i = 0; i < NION; ++i) {
    iv.set_mean_intensity(i, s.jbar[i]);
    iv.set_ionic_fraction(i, 0.5); // stale values must be overwritten
  }
  iv.set_heating(HEATINGTERM_H, s.hH);
  iv.set_heating(HEATINGTERM_He, s.hHe);
}

static std::string replay_json(const char *what, const Spec &s, double F, double n, double T,
                               double AHe, double metals, int cfg) {
  return fmt("{\"what\": \"%s\", \"E1\": \"%a\", \"w1\": \"%a\", \"E2\": \"%a\", \"w2\": \"%a\", "
             "\"F\": \"%a\", \"n\": \"%a\", \"T\": \"%a\", \"AHe\": \"%a\", \"metals\": \"%a\", \"cfg\": %d}",
             what, s.E1, s.w1, s.E2, s.w2, F, n, T, AHe, metals, cfg);
}
static std::string cell_text(const Spec &s, double F, double n, double T, double AHe) {
  return fmt("spectrum [%s] flux=%.17g m^-2 s^-1 (J_H=%.6g s^-1, J_He=%.6g s^-1) n=%g m^-3 T=%g K AHe=%g",
             s.name().c_str(), F, F * s.jbar[ION_H_n], F * s.jbar[ION_He_n], n, T, AHe);
}

static const char *ion_tag(int i) {
  static const char *t[] = {"h0", "he0", "C_p1", "C_p2", "N_n", "N_p1", "N_p2",
                            "O_n", "O_p1", "Ne_n", "Ne_p1", "S_p1", "S_p2", "S_p3"};
  return t[i];
}

/// common bounds / sums oracle; returns number of violations reported
struct Stats {
  uint64_t evaluations = 0, nontrivial = 0, aborts = 0, nonfinite = 0, oob = 0;
  uint64_t he0_above_one = 0, floor_hits = 0, neutral = 0, near_tol = 0, t500 = 0, t30000 = 0;
  double max_he0_excess = 0., max_h0_excess = 0., max_sum_excess = 0.;
  double max_honly_rel = 0., max_honly_rel_ok = 0.;
  uint64_t honly_checked = 0, honly_bad = 0;
  // worst cases (reported once per class with the largest deviation)
  std::string worst_honly_key, worst_honly_detail, worst_honly_rep;
  std::string worst_he0_key, worst_he0_detail, worst_he0_rep;
  void merge(const Stats &o) {
    if (o.max_honly_rel > max_honly_rel) {
      worst_honly_key = o.worst_honly_key;
      worst_honly_detail = o.worst_honly_detail;
      worst_honly_rep = o.worst_honly_rep;
    }
    if (o.max_he0_excess > max_he0_excess) {
      worst_he0_key = o.worst_he0_key;
      worst_he0_detail = o.worst_he0_detail;
      worst_he0_rep = o.worst_he0_rep;
    }
    honly_bad += o.honly_bad;
    evaluations += o.evaluations;
    nontrivial += o.nontrivial;
    aborts += o.aborts;
    nonfinite += o.nonfinite;
    oob += o.oob;
    he0_above_one += o.he0_above_one;
    floor_hits += o.floor_hits;
    neutral += o.neutral;
    near_tol += o.near_tol;
    t500 += o.t500;
    t30000 += o.t30000;
    honly_checked += o.honly_checked;
    max_he0_excess = std::max(max_he0_excess, o.max_he0_excess);
    max_h0_excess = std::max(max_h0_excess, o.max_h0_excess);
    max_sum_excess = std::max(max_sum_excess, o.max_sum_excess);
    max_honly_rel = std::max(max_honly_rel, o.max_honly_rel);
    max_honly_rel_ok = std::max(max_honly_rel_ok, o.max_honly_rel_ok);
  }
};

static const double BOUND_TOL = 1.e-12; // DESIGN: fractions in [-1e-12, 1+1e-12]

static void check_fractions(const char *what, const Outcome &o, const std::string &regime,
                            const std::string &text, const std::string &rep, Result &R, Stats &st) {
  for (int i = 0; i < NION; ++i) {
    const double f = o.frac[i];
    if (!std::isfinite(f)) {
      ++st.nonfinite;
      R.violation(fmt("C06:%s:nonfinite:%s:%s", what, ion_tag(i), regime.c_str()),
                  fmt("fraction %s = %g for %s", ion_tag(i), f, text.c_str()), rep);
      continue;
    }
    if (f < -BOUND_TOL) {
      ++st.oob;
      R.violation(fmt("C06:%s:bounds:%s-below-zero", what, ion_tag(i)),
                  fmt("fraction %s = %.17g < 0 for %s", ion_tag(i), f, text.c_str()), rep);
    }
    if (f > 1. + BOUND_TOL) {
      ++st.oob;
      if (i == ION_He_n) {
        ++st.he0_above_one;
        if (f - 1. > st.max_he0_excess) {
          st.max_he0_excess = f - 1.;
          st.worst_he0_key = fmt("C06:%s:bounds:he0-above-one", what);
          st.worst_he0_detail = fmt("fraction he0 = %.17g = 1%+.3g (h0 = %.17g) for %s", f, f - 1., o.frac[ION_H_n], text.c_str());
          st.worst_he0_rep = rep;
        }
        continue; // reported once, with the worst case, after the enumeration
      }
      if (i == ION_H_n)
        st.max_h0_excess = std::max(st.max_h0_excess, f - 1.);
      R.violation(fmt("C06:%s:bounds:%s-above-one", what, ion_tag(i)),
                  fmt("fraction %s = %.17g = 1%+.3g for %s", ion_tag(i), f, f - 1., text.c_str()), rep);
    } else if (f > 1. + 0.1 * BOUND_TOL || (f < -0.1 * BOUND_TOL))
      ++st.near_tol;
  }
  // tracked stages of each metal sum to at most 1 (+ round-off: k = 8 eps on a
  // sum of at most 3 terms in [0,1])
  struct {
    const char *el;
    int n;
    int ions[3];
  } groups[] = {{"C", 2, {ION_C_p1, ION_C_p2, 0}},
                {"N", 3, {ION_N_n, ION_N_p1, ION_N_p2}},
                {"O", 2, {ION_O_n, ION_O_p1, 0}},
                {"Ne", 2, {ION_Ne_n, ION_Ne_p1, 0}},
                {"S", 3, {ION_S_p1, ION_S_p2, ION_S_p3}}};
  for (auto &g : groups) {
    double sum = 0.;
    bool fin = true;
    for (int k = 0; k < g.n; ++k) {
      sum += o.frac[g.ions[k]];
      fin = fin && std::isfinite(o.frac[g.ions[k]]);
    }
    if (!fin)
      continue;
    const double tol = 8. * DBL_EPSILON;
    if (sum > 1. + tol) {
      st.max_sum_excess = std::max(st.max_sum_excess, sum - 1.);
      R.violation(fmt("C06:%s:metal-sum:%s", what, g.el),
                  fmt("tracked stages of %s sum to %.17g for %s", g.el, sum, text.c_str()), rep);
    } else if (sum > 1. + 0.1 * tol)
      ++st.near_tol;
  }
}

/// exact neutral fraction of hydrogen-only gas: positive root <= 1 of
/// n a (1-x)^2 = x J, i.e. x^2 - (2+C) x + 1 = 0, C = J/(n a), in the
/// cancellation-free form x = 2 / (2 + C + sqrt(C^2 + 4 C))
static __float128 honly_exact(double alpha, double J, double n) {
  const __float128 C = (__float128)J / ((__float128)n * (__float128)alpha);
  return 2 / (2 + C + sqrtq(C * C + 4 * C));
}

// ------------------------------------------------------------------- replay
static int do_replay(const Args &A, Result &R) {
  const std::string txt = read_file(A.replay);
  const std::string rp = replay_field(txt, "replay");
  auto num = [&](const char *k) { return strtod(replay_field(rp, k).c_str(), nullptr); };
  const std::string what = replay_field(rp, "what");
  VernerCrossSections cs;
  VernerRecombinationRates rr;
  ChargeTransferRates ctr;
  LineCoolingData lcd;
  Spec s{num("E1"), num("w1"), num("E2"), num("w2")};
  produce(s, cs);
  const double F = num("F"), n = num("n"), T = num("T"), AHe = num("AHe"), metals = num("metals");
  const int cfg = (int)num("cfg");
  printf("replay (%s): %s metals=%g cfg=%d\n", what.c_str(), cell_text(s, F, n, T, AHe).c_str(), metals, cfg);
  const double hpl = PhysicalConstants::get_physical_constant(PHYSICALCONSTANT_PLANCK);
  Abundances ab = make_abundances(AHe, metals);
  IonizationVariables iv;
  fill_cell(iv, s, n, T);
  Outcome o;
  Stats st;
  const std::string rep = replay_json(what.c_str(), s, F, n, T, AHe, metals, cfg);
  tl_armed = 1;
  if (sigsetjmp(tl_jb, 1) == 0) {
    if (what == "temp") {
      TemperatureCalculator tc(true, 0, 1., ab, 1.e-3, 100, cfg == 1 ? 1. : 0., cfg == 2 ? 1. : 0., 0.75, 0.,
                               4000., lcd, rr, ctr);
      tc.calculate_temperature(iv, F, F * hpl, CoordinateVector<>(0.));
    } else {
      IonizationStateCalculator isc(1., ab, rr, ctr);
      isc.calculate_ionization_state(F, F * hpl, iv);
    }
    tl_armed = 0;
  } else {
    o.aborted = true;
    printf("  -> the code under test called abort()\n");
    R.violation(fmt("C06:%s:abort", what.c_str()), "abort reproduced in replay", rep);
  }
  if (!o.aborted) {
    for (int i = 0; i < NION; ++i) {
      o.frac[i] = iv.get_ionic_fraction(i);
      printf("  %-6s = %.17g\n", ion_tag(i), o.frac[i]);
    }
    printf("  T      = %.17g K\n", iv.get_temperature());
    check_fractions(what.c_str(), o, "replay", cell_text(s, F, n, T, AHe), rep, R, st);
    if (st.he0_above_one)
      R.violation(st.worst_he0_key, st.worst_he0_detail, rep);
    const double Tn = iv.get_temperature();
    if (what == "temp" && !(std::isfinite(Tn) && Tn >= 500. && Tn <= 30000.))
      R.violation("C06:temp:temperature-bounds", fmt("T=%.17g", Tn), rep);
    if (what == "ion" && AHe == 0. && n > 0. && F * s.jbar[ION_H_n] > 0.) {
      const double a = rr.get_recombination_rate(ION_H_n, T);
      const __float128 xs = honly_exact(a, F * s.jbar[ION_H_n], n);
      const double rel = (double)fabsq(((__float128)o.frac[ION_H_n] - xs) / xs);
      printf("  H-only exact root = %.17g, relative deviation of the code = %.3g (C = J/(n a) = %.6g)\n",
             (double)xs, rel, F * s.jbar[ION_H_n] / (n * a));
      if (rel > 1.e-10 && !(o.frac[ION_H_n] == 1.e-14 && (double)xs <= 1.e-14))
        R.violation("C06:honly:balance-error:replay", fmt("relative deviation %.3g", rel), rep);
    }
    if (what == "ion" && AHe > 0. && n > 0.) {
      // diagnostic: which He branch produced he0 (recomputed from the outputs)
      const double jH = F * s.jbar[ION_H_n], jHe = F * s.jbar[ION_He_n];
      if (jHe > 0. && jH >= 1.e-20) {
        const double che = rr.get_recombination_rate(ION_He_n, T) * n / jHe;
        const double h0 = o.frac[ION_H_n];
        const double bhe = (1. + 2. * AHe - h0) * che + 1.;
        const double t1he = 4. * AHe * (1. + AHe - h0) * (che / bhe) * (che / bhe);
        printf("  (He branch at the returned h0: che=%.6g t1he=%.6g -> %s)\n", che, t1he,
               t1he < 1.e-3 ? "first-order expansion" : "exact quadratic (b - sqrt(b^2 - 4ac))");
      }
    }
  }
  return R.finish(A);
}

// --------------------------------------------------------------------- main
int main(int argc, char **argv) {
  Args A = parse_args(argc, argv);
  Result R(A);
  R.max_violations = 60;
  if (A.replay.empty() && !freopen("/dev/null", "w", stderr)) {
  }
  if (!A.replay.empty())
    return do_replay(A, R);
  const std::string what = A.get("what", "ion");
  const bool thorough = A.thorough();

  VernerCrossSections cs;
  VernerRecombinationRates rr;
  ChargeTransferRates ctr;
  LineCoolingData lcd;
  const Alphabet AL = make_alphabet(thorough, cs);
  const double hpl = PhysicalConstants::get_physical_constant(PHYSICALCONSTANT_PLANCK);
  const size_t NS = AL.spectra.size(), NF = AL.flux.size(), NN = AL.dens.size(), NT = AL.temp.size(),
               NA = AL.AHe.size();
  // VERIF_SEED only rotates the enumeration order of the spectra
  std::vector< size_t > sorder(NS);
  for (size_t i = 0; i < NS; ++i)
    sorder[i] = (i + (size_t)A.seed) % NS;

  Stats total;
  std::atomic< bool > timeup(false);

  if (what == "ion") {
    // results of the hydrogen-only runs, for the grid-line monotonicity oracle
    std::vector< double > xH(NS * NF * NN * NT, -1.);
    auto idx = [&](size_t is, size_t iF, size_t in, size_t iT) { return ((is * NF + iF) * NN + in) * NT + iT; };
#pragma omp parallel
    {
      Stats st;
#pragma omp for schedule(dynamic, 1)
      for (size_t io = 0; io < NS; ++io) {
        const size_t is = sorder[io];
        const Spec &s = AL.spectra[is];
        if (timeup)
          continue;
        if (R.out_of_time()) {
          if (!timeup.exchange(true))
            R.hit_deadline(fmt("ionization part stopped at spectrum %zu of %zu", io, NS));
          continue;
        }
        for (size_t iA = 0; iA < NA; ++iA) {
          const double AHe = AL.AHe[iA];
          Abundances ab = make_abundances(AHe, 1.e-4);
          IonizationStateCalculator isc(1., ab, rr, ctr);
          for (size_t iF = 0; iF < NF; ++iF)
            for (size_t in = 0; in < NN; ++in)
              for (size_t iT = 0; iT < NT; ++iT) {
                const double F = AL.flux[iF], n = AL.dens[in], T = AL.temp[iT];
                const double jH = F * s.jbar[ION_H_n], jHe = F * s.jbar[ION_He_n];
                IonizationVariables iv;
                fill_cell(iv, s, n, T);
                Outcome o;
                ++st.evaluations;
                const bool general = (jH > 0. && n > 0.);
                if (general)
                  ++st.nontrivial;
                const std::string regime = !general ? (n > 0. ? "zero-flux" : "vacuum")
                                                    : (jH < 1.e-20 && AHe != 0. ? "jH-below-1e-20" : "general");
                tl_armed = 1;
                if (sigsetjmp(tl_jb, 1) == 0) {
                  isc.calculate_ionization_state(F, F * hpl, iv);
                  tl_armed = 0;
                } else {
                  o.aborted = true;
                  ++st.aborts;
                  R.violation(fmt("C06:ion:abort:calculate_ionization_state:%s", regime.c_str()),
                              "abort() called for " + cell_text(s, F, n, T, AHe),
                              replay_json("ion", s, F, n, T, AHe, 1.e-4, 0));
                  continue;
                }
                for (int i = 0; i < NION; ++i)
                  o.frac[i] = iv.get_ionic_fraction(i);
                const std::string text = cell_text(s, F, n, T, AHe);
                const std::string rep = replay_json("ion", s, F, n, T, AHe, 1.e-4, 0);
                check_fractions("ion", o, regime, text, rep, R, st);
                // special cases
                if (n == 0.) {
                  for (int i = 0; i < NION; ++i)
                    if (o.frac[i] != 0.)
                      R.violation("C06:ion:vacuum-not-zero", fmt("fraction %s = %g in a vacuum cell", ion_tag(i), o.frac[i]), rep);
                } else if (jH == 0.) {
                  ++st.neutral;
                  if (o.frac[ION_H_n] != 1. || o.frac[ION_He_n] != 1.)
                    R.violation("C06:ion:zero-flux-not-neutral", "H or He not neutral without radiation: " + text, rep);
                }
                // heating terms are normalised in place and must stay finite
                for (int k = 0; k < NUMBER_OF_HEATINGTERMS; ++k)
                  if (!std::isfinite(iv.get_heating(k)))
                    R.violation("C06:ion:nonfinite:heating", "heating term not finite for " + text, rep);
                // hydrogen-only gas: closed form
                if (AHe == 0.) {
                  xH[idx(is, iF, in, iT)] = o.frac[ION_H_n];
                  if (general) {
                    const double a = rr.get_recombination_rate(ION_H_n, T);
                    const __float128 xs = honly_exact(a, jH, n);
                    const double x = o.frac[ION_H_n];
                    const double rel = (double)fabsq(((__float128)x - xs) / xs);
                    ++st.honly_checked;
                    const bool floor = (x == 1.e-14);
                    if (floor)
                      ++st.floor_hits;
                    // tolerance 1e-10 relative (k = 4.5e5 eps; the condition
                    // number of x w.r.t. J/(n a) is <= 1), or the documented
                    // 1e-14 floor when the root is below it
                    const bool ok = (floor && (double)xs <= 1.e-14) || rel <= 1.e-10;
                    if (!ok) {
                      ++st.honly_bad;
                      const double C = jH / (n * a);
                      const char *branch = (4. / C < 1.e-10) ? "large-C-branch" : "closed-form-branch";
                      if (rel > st.max_honly_rel) {
                        st.max_honly_rel = rel;
                        st.worst_honly_key = fmt("C06:honly:balance-error:%s", branch);
                        st.worst_honly_detail =
                            fmt("neutral fraction %.17g but the balance equation n a (1-x)^2 = x J has the root %.17g "
                                "(relative deviation %.3g, C=J/(n a)=%.6g) for %s",
                                x, (double)xs, rel, C, text.c_str());
                        st.worst_honly_rep = rep;
                      }
                    } else {
                      st.max_honly_rel_ok = std::max(st.max_honly_rel_ok, floor ? 0. : rel);
                      if (rel > 1.e-11 && !floor)
                        ++st.near_tol;
                    }
                  }
                }
                if (general && st.evaluations % 40009 == 1)
                  R.sample(fmt("{\"call\": \"calculate_ionization_state\", \"cell\": \"%s\", \"h0\": %.17g, \"he0\": %.17g, "
                               "\"N+\": %.17g, \"O++\": %.17g}",
                               text.c_str(), o.frac[ION_H_n], o.frac[ION_He_n], o.frac[ION_N_n], o.frac[ION_O_p1]));
                // the static H/He solver is also called with AHe = 0 by the
                // thermal balance: bounds only
                if (general) {
                  double h0 = -1., he0 = -1.;
                  ++st.evaluations;
                  tl_armed = 1;
                  if (sigsetjmp(tl_jb, 1) == 0) {
                    IonizationStateCalculator::compute_ionization_states_hydrogen_helium(
                        rr.get_recombination_rate(ION_H_n, T), rr.get_recombination_rate(ION_He_n, T), jH, jHe, n,
                        AHe, T, h0, he0);
                    tl_armed = 0;
                    if (!std::isfinite(h0) || !std::isfinite(he0))
                      R.violation("C06:hhe-solver:nonfinite", fmt("h0=%g he0=%g for %s", h0, he0, text.c_str()), rep);
                    else {
                      if (h0 < -BOUND_TOL || h0 > 1. + BOUND_TOL)
                        R.violation("C06:hhe-solver:bounds:h0", fmt("h0=%.17g for %s", h0, text.c_str()), rep);
                      if (he0 < -BOUND_TOL)
                        R.violation("C06:hhe-solver:bounds:he0-below-zero", fmt("he0=%.17g for %s", he0, text.c_str()), rep);
                      if (he0 > 1. + BOUND_TOL)
                        R.violation("C06:hhe-solver:bounds:he0-above-one",
                                    fmt("he0=%.17g = 1%+.3g (h0=%.17g) for %s", he0, he0 - 1., h0, text.c_str()), rep);
                    }
                  } else {
                    ++st.aborts;
                    R.violation("C06:hhe-solver:abort", "abort() in compute_ionization_states_hydrogen_helium for " + text, rep);
                  }
                }
              }
        }
      }
#pragma omp critical
      total.merge(st);
    }
    // grid-line monotonicity of the hydrogen-only neutral fraction
    uint64_t lines = 0, mono_bad_J = 0, mono_bad_n = 0, mono_bad_T = 0;
    if (!timeup) {
      const double slack = 4. * DBL_EPSILON;
      for (size_t is = 0; is < NS; ++is) {
        const Spec &s = AL.spectra[is];
        // x non-increasing in J (flux index 1.. increasing), n > 0
        for (size_t in = 1; in < NN; ++in)
          for (size_t iT = 0; iT < NT; ++iT) {
            ++lines;
            for (size_t iF = 1; iF + 1 < NF; ++iF) {
              const double x0 = xH[idx(is, iF, in, iT)], x1 = xH[idx(is, iF + 1, in, iT)];
              if (x1 > x0 * (1. + slack)) {
                ++mono_bad_J;
                R.violation("C06:honly:monotone-J",
                            fmt("neutral fraction rises %.17g -> %.17g when the flux rises %g -> %g (n=%g, T=%g, spectrum [%s])",
                                x0, x1, AL.flux[iF], AL.flux[iF + 1], AL.dens[in], AL.temp[iT], s.name().c_str()),
                            replay_json("ion", s, AL.flux[iF + 1], AL.dens[in], AL.temp[iT], 0., 1.e-4, 0));
              }
            }
          }
        // x non-decreasing in n (alpha fixed), J > 0
        for (size_t iF = 1; iF < NF; ++iF)
          for (size_t iT = 0; iT < NT; ++iT) {
            ++lines;
            for (size_t in = 1; in + 1 < NN; ++in) {
              const double x0 = xH[idx(is, iF, in, iT)], x1 = xH[idx(is, iF, in + 1, iT)];
              if (x1 < x0 * (1. - slack)) {
                ++mono_bad_n;
                R.violation("C06:honly:monotone-nalpha:density-line",
                            fmt("neutral fraction falls %.17g -> %.17g when the density rises %g -> %g (flux=%g, T=%g, spectrum [%s])",
                                x0, x1, AL.dens[in], AL.dens[in + 1], AL.flux[iF], AL.temp[iT], s.name().c_str()),
                            replay_json("ion", s, AL.flux[iF], AL.dens[in + 1], AL.temp[iT], 0., 1.e-4, 0));
              }
            }
          }
        // alpha_H decreases with T (checked by C18): x non-increasing in T
        for (size_t iF = 1; iF < NF; ++iF)
          for (size_t in = 1; in < NN; ++in) {
            ++lines;
            for (size_t iT = 0; iT + 1 < NT; ++iT) {
              const double x0 = xH[idx(is, iF, in, iT)], x1 = xH[idx(is, iF, in, iT + 1)];
              if (x1 > x0 * (1. + slack)) {
                ++mono_bad_T;
                R.violation("C06:honly:monotone-nalpha:temperature-line",
                            fmt("neutral fraction rises %.17g -> %.17g when alpha falls (T %g -> %g; flux=%g, n=%g, spectrum [%s])",
                                x0, x1, AL.temp[iT], AL.temp[iT + 1], AL.flux[iF], AL.dens[in], s.name().c_str()),
                            replay_json("ion", s, AL.flux[iF], AL.dens[in], AL.temp[iT + 1], 0., 1.e-4, 0));
              }
            }
          }
      }
    }
    R.set("honly_grid_lines_checked", (double)lines);
    R.set("honly_monotone_J_violations", (double)mono_bad_J);
    R.set("honly_monotone_density_violations", (double)mono_bad_n);
    R.set("honly_monotone_temperature_violations", (double)mono_bad_T);
    R.set("honly_balance_checked", (double)total.honly_checked);
    R.set("honly_floor_1e-14_hits", (double)total.floor_hits);
    R.set("honly_max_rel_deviation_violating", total.max_honly_rel);
    R.set("honly_max_rel_deviation_accepted", total.max_honly_rel_ok);
  } else if (what == "temp") {
    const size_t NM = AL.metals.size();
    const int NCFG = thorough ? 3 : 1; // 0: no PAH/CR heating, 1: PAH heating 1, 2: cosmic ray heating 1
    // quick tier (stated quick alphabet, not a cap): every other flux decade
    // counted down from the strongest one (1e20, 1e18, ... 1e-2, and 0);
    // soft spectra with metals {0, 1e-3};
    // hard spectra (singles and the quick_thermal mixtures) with AHe {0, 0.1}
    // and metals {0, default, 1e-3} so that strong flux x dense gas x default
    // and higher metal abundances is covered for them
    std::vector< size_t > fl;
    for (size_t iF = 0; iF < NF; ++iF)
      if (thorough || iF == 0 || ((NF - 1 - iF) % 2) == 0)
        fl.push_back(iF);
    // both tiers: initial temperature 1e3 K dropped (every T <= 4000 K restarts
    // the iteration at 8000 K: exact duplicate of 1e2 K); thorough: the PAH and
    // cosmic-ray heating configurations run with the default metal abundances
    std::vector< size_t > tl;
    for (size_t iT = 0; iT < NT; ++iT)
      if (AL.temp[iT] != 1.e3)
        tl.push_back(iT);
    struct Job {
      size_t is, iA, iM, iF;
      int cfg;
    };
    std::vector< Job > jobs;
    size_t nspec_used = 0;
    for (size_t io = 0; io < NS; ++io) {
      const Spec &sp = AL.spectra[sorder[io]];
      if (!thorough && !sp.quick_thermal)
        continue;
      ++nspec_used;
      for (size_t iA = 0; iA < NA; ++iA) {
        if (!thorough && sp.hard && !(AL.AHe[iA] == 0. || AL.AHe[iA] == 0.1))
          continue;
        for (size_t iM = 0; iM < NM; ++iM) {
          const double m = AL.metals[iM];
          if (!thorough && !(m == 0. || m == 1.e-3 || (sp.hard && m < 0.)))
            continue;
          for (int cfg = 0; cfg < NCFG; ++cfg) {
            if (cfg != 0 && !(m < 0.))
              continue;
            for (size_t iF : fl)
              jobs.push_back(Job{sorder[io], iA, iM, iF, cfg});
          }
        }
      }
    }
    R.set("thermal_spectra_used", (double)nspec_used);
    std::atomic< size_t > done(0);
#pragma omp parallel
    {
      Stats st;
#pragma omp for schedule(dynamic, 4)
      for (size_t ij = 0; ij < jobs.size(); ++ij) {
        if (timeup)
          continue;
        if (R.out_of_time()) {
          if (!timeup.exchange(true))
            R.hit_deadline(fmt("thermal balance part stopped after %zu of %zu (spectrum, AHe, metals, cfg, flux) blocks",
                               (size_t)done, jobs.size()));
          continue;
        }
        const Job &jb = jobs[ij];
        const Spec &s = AL.spectra[jb.is];
        const double AHe = AL.AHe[jb.iA], metals = AL.metals[jb.iM];
        Abundances ab = make_abundances(AHe, metals);
        TemperatureCalculator tc(true, 0, 1., ab, 1.e-3, 100, jb.cfg == 1 ? 1. : 0., jb.cfg == 2 ? 1. : 0., 0.75,
                                 0., 4000., lcd, rr, ctr);
        {
          const size_t iF = jb.iF;
          for (size_t in = 0; in < NN; ++in)
            for (size_t iT : tl) {
              const double F = AL.flux[iF], n = AL.dens[in], T = AL.temp[iT];
              const double jH = F * s.jbar[ION_H_n];
              IonizationVariables iv;
              fill_cell(iv, s, n, T);
              Outcome o;
              ++st.evaluations;
              const bool general = (jH > 0. && n > 0.);
              if (general)
                ++st.nontrivial;
              const std::string regime = !general ? (n > 0. ? "zero-flux" : "vacuum")
                                                  : (jH < 1.e-20 ? "jH-below-1e-20" : "general");
              const std::string text = cell_text(s, F, n, T, AHe) + fmt(" metals=%g cfg=%d", metals, jb.cfg);
              const std::string rep = replay_json("temp", s, F, n, T, AHe, metals, jb.cfg);
              tl_armed = 1;
              if (sigsetjmp(tl_jb, 1) == 0) {
                tc.calculate_temperature(iv, F, F * hpl, CoordinateVector<>(0.));
                tl_armed = 0;
              } else {
                ++st.aborts;
                R.violation(fmt("C06:temp:abort:calculate_temperature:%s", regime.c_str()), "abort() called for " + text, rep);
                continue;
              }
              for (int i = 0; i < NION; ++i)
                o.frac[i] = iv.get_ionic_fraction(i);
              o.T = iv.get_temperature();
              check_fractions("temp", o, regime, text, rep, R, st);
              // documented clamps: 500 K (neutral) ... 30000 K
              if (!std::isfinite(o.T))
                R.violation(fmt("C06:temp:temperature-nonfinite:%s", regime.c_str()), fmt("T=%g for %s", o.T, text.c_str()), rep);
              else if (o.T < 500. || o.T > 30000.)
                R.violation(fmt("C06:temp:temperature-bounds:%s", regime.c_str()),
                            fmt("T=%.17g outside [500, 30000] K for %s", o.T, text.c_str()), rep);
              if (o.T == 500.)
                ++st.t500;
              if (o.T == 30000.)
                ++st.t30000;
              for (int k = 0; k < NUMBER_OF_HEATINGTERMS; ++k)
                if (!std::isfinite(iv.get_heating(k)))
                  R.violation("C06:temp:nonfinite:heating", "heating term not finite for " + text, rep);
              if (!general) {
                ++st.neutral;
                if (o.T != 500. || o.frac[ION_H_n] != 1.)
                  R.violation("C06:temp:trivial-cell", "vacuum / dark cell not (500 K, neutral): " + text, rep);
              }
              if (general && st.evaluations % 20011 == 1)
                R.sample(fmt("{\"call\": \"calculate_temperature\", \"cell\": \"%s\", \"T\": %.17g, \"h0\": %.17g, \"he0\": %.17g}",
                             text.c_str(), o.T, o.frac[ION_H_n], o.frac[ION_He_n]));
            }
        }
        ++done;
      }
#pragma omp critical
      total.merge(st);
    }
    R.set("cells_at_500K", (double)total.t500);
    R.set("cells_at_30000K_clamp", (double)total.t30000);
  } else {
    fprintf(stdout, "unknown --what %s\n", what.c_str());
    return 2;
  }

  if (total.honly_bad) {
    R.violation(total.worst_honly_key,
                fmt("%llu of %llu hydrogen-only cells miss the root of the balance equation by more than 1e-10 relative; worst: ",
                    (unsigned long long)total.honly_bad, (unsigned long long)total.honly_checked) +
                    total.worst_honly_detail,
                total.worst_honly_rep);
    R.violation_count += total.honly_bad - 1;
  }
  if (total.he0_above_one) {
    R.violation(total.worst_he0_key,
                fmt("%llu cells with a neutral helium fraction above 1+1e-12; worst: ", (unsigned long long)total.he0_above_one) +
                    total.worst_he0_detail,
                total.worst_he0_rep);
    R.violation_count += total.he0_above_one - 1;
  }
  R.evaluations = total.evaluations;
  R.nontrivial = total.nontrivial;
  R.set("spectra", (double)NS);
  R.set("flux_values", (double)NF);
  R.set("densities", (double)NN);
  R.set("temperatures", (double)NT);
  R.set("helium_abundances", (double)NA);
  R.set("aborts", (double)total.aborts);
  R.set("nonfinite_fractions", (double)total.nonfinite);
  R.set("fractions_out_of_bounds", (double)total.oob);
  R.set("he0_above_one", (double)total.he0_above_one);
  R.set("he0_max_excess_over_one", total.max_he0_excess);
  R.set("h0_max_excess_over_one", total.max_h0_excess);
  R.set("metal_sum_max_excess", total.max_sum_excess);
  R.set("trivial_cells(vacuum_or_dark)", (double)total.neutral);
  R.set("cases_within_10x_of_a_tolerance", (double)total.near_tol);
  R.rule = fmt("Cartesian product of produced spectra (single photon energies and pairs with weight ratios, pushed through the "
               "real Verner cross sections like DensitySubGrid::update_intensity_counters) x flux alphabet {0, 1e-3..1e20 m^-2 s^-1} "
               "x n {0, 1e4..1e12 m^-3} x T {1e2,1e3,5e3,1e4,3e4,1e5 K} x AHe {0,.05,.1,.15}%s, every cell run through the real %s; "
               "photon energies: soft {13.6+,16,24.5,24.7,35,54.3,54.5,100 eV} and hard {10,15,30,50,70,100 x 13.6 eV}; "
               "non-trivial = cells with J_H > 0 and n > 0 (general branch)%s, all distinct by construction",
               what == "temp" ? " x metal abundances x heating configuration" : "",
               what == "temp" ? "TemperatureCalculator::calculate_temperature"
                              : "IonizationStateCalculator::calculate_ionization_state and static H/He solver",
               what == "temp" ? "; initial temperature 1e3 K is left out (T <= 4000 K restarts at 8000 K, duplicate of 1e2 K)" : "");
  R.assumptions.push_back("estimator sets are those producible by 1 or 2 photon energies from the stated alphabet; recombination, "
                          "charge transfer and line cooling data are the shipped tables; TemperatureCalculator parameters are the "
                          "defaults (epsilon 1e-3, 100 iterations, 4000 K minimum ionized temperature)");
  return R.finish(A);
}
