# C06: ionization / thermal balance over produced estimator sets (OpenMP in the harness only)
$(eval $(call HARNESS,c06_balance,$(V)/harness/C06/c06_balance.cpp,plain,-fopenmp,-lquadmath))
