// Independent reference solution of the Riemann problem for the 1D Euler
// equations with an ideal gas, written from scratch for the checks C11 and C05.
//
// It deliberately shares no formula layout with src/ExactRiemannSolver.hpp:
//  * unknown: y = ln(p*) (not p*), found by plain bisection (no Newton, no
//    Brent) in the arithmetic T (__float128 or long double);
//  * shocks are described by Godunov's Lagrangian mass flux
//        W_K(p) = sqrt(rho_K ((g+1)/2 p + (g-1)/2 p_K)),
//    velocity jump (p - p_K)/W_K, shock speed u_K -/+ W_K/rho_K, post-shock
//    density from mass conservation across the moving shock;
//  * rarefactions are described by the sound speed along the isentrope
//        a(p) = a_K exp(alpha (ln p - ln p_K)),  alpha = (g-1)/(2g),
//    velocity jump 2 (a(p) - a_K)/(g-1) (via expm1), and inside a fan by the
//    two conditions "characteristic speed u -/+ a equals x/t" and "Riemann
//    invariant u +/- 2a/(g-1) keeps its value";
//  * vacuum (a side with rho = 0, or u_R - u_L >= 2 (a_L+a_R)/(g-1)) is the
//    complete fan that ends at the front u_K +/- 2 a_K/(g-1).
//
// A side counts as vacuum when its density or its pressure is not positive (the
// convention of the code under test); a cold gas (rho > 0, p = 0) is outside
// the domain of this reference and callers treat it as a class of its own.
//
// Regions of the solution, from left to right:
//   REG_L | REG_LFAN | REG_LSTAR | REG_RSTAR | REG_RFAN | REG_R   (or REG_VAC
//   between the fans / on a vacuum side).
#ifndef VERIF_RIEMANN_REF_HPP
#define VERIF_RIEMANN_REF_HPP

#include <cmath>
#include <quadmath.h>
#include <vector>

namespace rref {

typedef __float128 Q;

inline long double Sqrt(long double x) { return sqrtl(x); }
inline long double Exp(long double x) { return expl(x); }
inline long double Expm1(long double x) { return expm1l(x); }
inline long double Log(long double x) { return logl(x); }
inline long double Fabs(long double x) { return fabsl(x); }
inline Q Sqrt(Q x) { return sqrtq(x); }
inline Q Exp(Q x) { return expq(x); }
inline Q Expm1(Q x) { return expm1q(x); }
inline Q Log(Q x) { return logq(x); }
inline Q Fabs(Q x) { return fabsq(x); }

enum Region { REG_L = 0, REG_LFAN, REG_LSTAR, REG_RSTAR, REG_RFAN, REG_R, REG_VAC, REG_NONE };
inline const char *region_name(int r) {
  static const char *n[] = {"left-state", "left-fan", "left-star", "right-star",
                            "right-fan",  "right-state", "vacuum",  "none"};
  return n[r];
}

enum WaveType { W_SHOCK = 0, W_CONTACT, W_HEAD, W_TAIL, W_FRONT };
inline const char *wave_name(int w) {
  static const char *n[] = {"shock", "contact", "fan-head", "fan-tail", "vacuum-front"};
  return n[w];
}

/// one wave of the reference solution: regions immediately left and right of it
template < class T > struct Wave {
  T speed;
  int type;
  int side; // -1 left family, +1 right family, 0 contact
  int left, right;
};

enum Kind { K_NORMAL = 0, K_VACGEN, K_VAC_RIGHT, K_VAC_LEFT, K_VAC_BOTH };

template < class T > struct Ref {
  T g, alpha;
  T rho[2], u[2], p[2], a[2], lnp[2]; // 0 = left, 1 = right
  int kind;
  // star region (K_NORMAL only)
  T ystar, pstar, ustar;
  bool shock[2];
  T W[2];       // mass flux through a shock
  T sshock[2];  // shock speed
  T rhostar[2]; // density next to the contact
  T astar[2];   // sound speed next to the contact (fan sides)
  T head[2], tail[2], front[2];
  int iterations;
  Ref() : kind(K_VAC_BOTH), ystar(0), pstar(0), ustar(0), iterations(0) {
    for (int k = 0; k < 2; ++k)
      W[k] = sshock[k] = rhostar[k] = astar[k] = 0, shock[k] = false;
  }

  /// velocity change across the wave of side k at pressure exp(y)
  T delta(int k, T y) const {
    if (y > lnp[k]) {
      const T pp = Exp(y);
      const T w = Sqrt(rho[k] * (0.5 * (g + 1) * pp + 0.5 * (g - 1) * p[k]));
      return (pp - p[k]) / w;
    }
    return 2 * a[k] / (g - 1) * Expm1(alpha * (y - lnp[k]));
  }
  /// d(delta)/dp at pressure exp(y)
  T ddelta(int k, T y) const {
    const T pp = Exp(y);
    if (y > lnp[k]) {
      const T w2 = rho[k] * (0.5 * (g + 1) * pp + 0.5 * (g - 1) * p[k]);
      const T w = Sqrt(w2);
      return 1 / w - (pp - p[k]) * rho[k] * (g + 1) / (4 * w2 * w);
    }
    // 1/(rho a) along the isentrope
    const T aa = a[k] * Exp(alpha * (y - lnp[k]));
    const T rr = rho[k] * Exp((y - lnp[k]) / g);
    return 1 / (rr * aa);
  }
  /// the pressure function (monotonically increasing in y)
  T G(T y) const { return delta(0, y) + delta(1, y) + (u[1] - u[0]); }
  /// same, evaluated at a pressure given directly
  T G_of_p(T pp) const { return G(Log(pp)); }

  /// y_guess/y_halfwidth: optional tight bracket of ln p* (e.g. from a
  /// solution in a shorter arithmetic); it is verified and widened if needed
  void setup(T gamma, T rhoL, T uL, T pL, T rhoR, T uR, T pR, bool have_guess = false,
             T y_guess = 0, T y_halfwidth = 0) {
    g = gamma;
    alpha = (g - 1) / (2 * g);
    rho[0] = rhoL;
    u[0] = uL;
    p[0] = pL;
    rho[1] = rhoR;
    u[1] = uR;
    p[1] = pR;
    const bool vac[2] = {!(rhoL > 0) || !(pL > 0), !(rhoR > 0) || !(pR > 0)};
    for (int k = 0; k < 2; ++k) {
      if (vac[k]) {
        a[k] = 0;
        lnp[k] = 0;
      } else {
        a[k] = Sqrt(g * p[k] / rho[k]);
        lnp[k] = Log(p[k]);
      }
      const T sgn = k ? 1 : -1;
      head[k] = u[k] + sgn * a[k];
      front[k] = u[k] - sgn * 2 * a[k] / (g - 1);
      tail[k] = front[k];
      shock[k] = false;
    }
    iterations = 0;
    if (vac[0] && vac[1]) {
      kind = K_VAC_BOTH;
      return;
    }
    if (vac[1]) {
      kind = K_VAC_RIGHT;
      return;
    }
    if (vac[0]) {
      kind = K_VAC_LEFT;
      return;
    }
    if (u[1] - u[0] >= 2 * (a[0] + a[1]) / (g - 1)) {
      kind = K_VACGEN;
      return;
    }
    kind = K_NORMAL;
    // bracket the root of G in y = ln p
    T hi = lnp[0] > lnp[1] ? lnp[0] : lnp[1];
    T lo = lnp[0] < lnp[1] ? lnp[0] : lnp[1];
    T step = 1;
    if (have_guess) {
      hi = y_guess + y_halfwidth;
      lo = y_guess - y_halfwidth;
      step = y_halfwidth;
    }
    const T step0 = step;
    while (G(hi) < 0) {
      hi += step;
      step *= 2;
    }
    step = step0;
    while (G(lo) > 0) {
      lo -= step;
      step *= 2;
    }
    for (int it = 0; it < 400; ++it) {
      const T mid = 0.5 * (lo + hi);
      if (!(mid > lo) || !(mid < hi))
        break;
      ++iterations;
      if (G(mid) < 0)
        lo = mid;
      else
        hi = mid;
    }
    ystar = 0.5 * (lo + hi);
    pstar = Exp(ystar);
    const T dL = delta(0, ystar), dR = delta(1, ystar);
    ustar = 0.5 * (u[0] + u[1]) + 0.5 * (dR - dL);
    for (int k = 0; k < 2; ++k) {
      const T sgn = k ? 1 : -1;
      if (ystar > lnp[k]) {
        shock[k] = true;
        const T w2 = rho[k] * (0.5 * (g + 1) * pstar + 0.5 * (g - 1) * p[k]);
        W[k] = Sqrt(w2);
        sshock[k] = u[k] + sgn * W[k] / rho[k];
        // mass conservation in the frame of the shock
        rhostar[k] = rho[k] * w2 / (w2 - rho[k] * (pstar - p[k]));
        astar[k] = Sqrt(g * pstar / rhostar[k]);
        tail[k] = head[k] = sshock[k];
      } else {
        astar[k] = a[k] * Exp(alpha * (ystar - lnp[k]));
        rhostar[k] = rho[k] * Exp((ystar - lnp[k]) / g);
        tail[k] = ustar + sgn * astar[k];
      }
    }
  }

  /// copy a solution computed in another arithmetic
  template < class U > void adopt(const Ref< U > &o) {
    g = (T)o.g;
    alpha = (T)o.alpha;
    for (int k = 0; k < 2; ++k) {
      rho[k] = (T)o.rho[k];
      u[k] = (T)o.u[k];
      p[k] = (T)o.p[k];
      a[k] = (T)o.a[k];
      lnp[k] = (T)o.lnp[k];
      shock[k] = o.shock[k];
      W[k] = (T)o.W[k];
      sshock[k] = (T)o.sshock[k];
      rhostar[k] = (T)o.rhostar[k];
      astar[k] = (T)o.astar[k];
      head[k] = (T)o.head[k];
      tail[k] = (T)o.tail[k];
      front[k] = (T)o.front[k];
    }
    kind = o.kind;
    ystar = (T)o.ystar;
    pstar = (T)o.pstar;
    ustar = (T)o.ustar;
    iterations = o.iterations;
  }

  /// all waves from left to right
  std::vector< Wave< T > > waves() const {
    std::vector< Wave< T > > w;
    switch (kind) {
    case K_VAC_BOTH:
      break;
    case K_VAC_RIGHT:
      w.push_back({head[0], W_HEAD, -1, REG_L, REG_LFAN});
      w.push_back({front[0], W_FRONT, -1, REG_LFAN, REG_VAC});
      break;
    case K_VAC_LEFT:
      w.push_back({front[1], W_FRONT, 1, REG_VAC, REG_RFAN});
      w.push_back({head[1], W_HEAD, 1, REG_RFAN, REG_R});
      break;
    case K_VACGEN:
      w.push_back({head[0], W_HEAD, -1, REG_L, REG_LFAN});
      w.push_back({front[0], W_FRONT, -1, REG_LFAN, REG_VAC});
      w.push_back({front[1], W_FRONT, 1, REG_VAC, REG_RFAN});
      w.push_back({head[1], W_HEAD, 1, REG_RFAN, REG_R});
      break;
    default:
      if (shock[0])
        w.push_back({sshock[0], W_SHOCK, -1, REG_L, REG_LSTAR});
      else {
        w.push_back({head[0], W_HEAD, -1, REG_L, REG_LFAN});
        w.push_back({tail[0], W_TAIL, -1, REG_LFAN, REG_LSTAR});
      }
      w.push_back({ustar, W_CONTACT, 0, REG_LSTAR, REG_RSTAR});
      if (shock[1])
        w.push_back({sshock[1], W_SHOCK, 1, REG_RSTAR, REG_R});
      else {
        w.push_back({tail[1], W_TAIL, 1, REG_RSTAR, REG_RFAN});
        w.push_back({head[1], W_HEAD, 1, REG_RFAN, REG_R});
      }
    }
    return w;
  }

  /// region that contains the speed xi (a speed equal to a wave speed belongs
  /// to the region right of the wave)
  int region(T xi) const {
    const std::vector< Wave< T > > w = waves();
    if (w.empty())
      return REG_VAC;
    int r = w[0].left;
    for (size_t i = 0; i < w.size(); ++i)
      if (xi >= w[i].speed)
        r = w[i].right;
    return r;
  }

  /// state of the given region at speed xi (fans are evaluated with their
  /// formula also outside their extent, as long as the sound speed is > 0)
  void state(int reg, T xi, T &r, T &v, T &pp) const {
    switch (reg) {
    case REG_L:
      r = rho[0];
      v = u[0];
      pp = p[0];
      return;
    case REG_R:
      r = rho[1];
      v = u[1];
      pp = p[1];
      return;
    case REG_LSTAR:
    case REG_RSTAR: {
      const int k = reg == REG_RSTAR;
      r = rhostar[k];
      v = ustar;
      pp = pstar;
      return;
    }
    case REG_LFAN:
    case REG_RFAN: {
      const int k = reg == REG_RFAN;
      const T sgn = k ? 1 : -1;
      // left fan:  u - a = xi and u + 2a/(g-1) = J_L (= front[0])
      // right fan: u + a = xi and u - 2a/(g-1) = J_R (= front[1])
      // => a = (g-1)/(g+1) * sgn * (xi - front_k)
      const T aa = (g - 1) / (g + 1) * sgn * (xi - front[k]);
      if (!(aa > 0)) {
        r = 0;
        v = front[k];
        pp = 0;
        return;
      }
      v = xi - sgn * aa;
      const T l = Log(aa / a[k]);
      r = rho[k] * Exp(2 / (g - 1) * l);
      pp = p[k] * Exp(2 * g / (g - 1) * l);
      return;
    }
    default:
      r = 0;
      v = 0;
      pp = 0;
    }
  }

  /// sampled solution at xi
  int sample(T xi, T &r, T &v, T &pp) const {
    const int reg = region(xi);
    state(reg, xi, r, v, pp);
    return reg;
  }
};

} // namespace rref

#endif
