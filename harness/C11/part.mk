# C11: real ExactRiemannSolver::solve against the __float128 bisection reference (riemann_ref.hpp)
$(eval $(call HARNESS,c11_exact,$(V)/harness/C11/c11_exact.cpp,plain,-O2 -fopenmp -fno-access-control -I$(V)/harness/C11,-lquadmath))
