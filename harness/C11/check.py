CHECK = {
    "id": "C11",
    "level": "exploration",
    "engine": "E3",
    "technique": "bounded-exhaustive enumeration of Riemann problems and sampling speeds against an independent "
                 "__float128 bisection reference solver and jump/isentropic/continuity relations",
    "level_text": "The property quantifies over a continuum of states, velocity differences, adiabatic indices and "
                  "sampling speeds. The check evaluates the real ExactRiemannSolver::solve on the complete Cartesian "
                  "product of a finite alphabet built from the anchored code (densities and pressures over 6 decades "
                  "per side, pressure ratios at and around the switch of the initial guess, velocity differences from "
                  "strong collision to beyond vacuum generation including +-1e-9 around the vacuum limit and around the "
                  "thresholds that decide between Newton-Raphson and Brent, several frames) and, for each problem, on "
                  "sampling speeds in every region, within 1e-9 of every wave and on the code's own double wave speeds "
                  "+-1 ulp; plus every gas state of the alphabet next to a vacuum on either side with gas velocities "
                  "0, +-0.5, +-1, +-1.5, +-3 and +-2/(g-1) sound speeds. "
                  "Every sample is compared with a reference written from scratch (bisection on ln p* in "
                  "__float128, Lagrangian mass-flux form of the shock relations). exhaustive=true refers to this "
                  "alphabet; nothing is claimed between its points.",
    "level_note": "Within 1e-6 (aL+aR) of a shock or the contact of the reference either neighbouring state is accepted "
                  "(the solver's 1e-8 pressure tolerance decides the side there). Tolerances are derived from the "
                  "solver's stated accuracy (2e-8 relative on p*, propagated to u* with the reference derivative) and "
                  "from k*eps conditioning of the closed-form fan formulae; counts within 10x of each tolerance are "
                  "reported. One-sided vacuum initial states (vacuum | gas, gas | vacuum) are a second family checked "
                  "against the analytic complete fan; the solver's own vacuum boundary is located by bisection on the "
                  "returned flag and the state just inside it must be zero within rounding. Pressureless / massless "
                  "degenerate states belong to C05.",
    "quick_deadline": 100,
    "thorough_deadline": 1100,
    "parts": [{"name": "exact", "bin": "c11_exact"}],
    "assumptions": [
        "ideal gas with 1 < gamma <= 2; quick: gamma in {1.1, 1.4, 5/3, 2}, thorough adds {1.01, 1.2, 1.8}",
        "states outside the alphabet and sampling speeds between the enumerated ones are not covered",
    ],
}
