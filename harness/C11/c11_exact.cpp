// C11: the real ExactRiemannSolver::solve against an independent __float128
// bisection reference (riemann_ref.hpp) on a bounded-exhaustive lattice of
// non-vacuum state pairs x velocity differences x adiabatic indices x frames x
// sampling speeds (generic region mid points, +-1e-9 around every wave of the
// reference solution, exact double ties of the code's own wave speeds +-1 ulp,
// and +-4e-6 (aL+aR) around shocks and the contact).
//
// Oracles (see NOTES.md for the derivation of every tolerance):
//   state-vs-reference  sampled (rho,u,P) equals the reference state of the
//                       region that contains the sampling speed; within
//                       1e-6 (aL+aR) of a shock/contact, and within the position
//                       uncertainty of a weak wave, either side is accepted
//   pressure-equation   the returned star pressure brackets the root of the
//                       reference pressure function within +-2e-8 p*
//   rankine-hugoniot    jump relations between the sampled post- and pre-shock
//                       states (solver output only)
//   fan-relations       entropy, Riemann invariant and characteristic relation
//                       inside fans and behind rarefactions (solver output only)
//   continuity          |X(s+d) - X(s-d)| bounded by the fan slope at weak waves
//   side-flag           returned flag agrees with the side of the contact
//   nonphysical / abort NaN, inf, negative density/pressure, cmac_error
#include "ExactRiemannSolver.hpp"
#include "riemann_ref.hpp"
#include "verif_common.hpp"

#include <algorithm>
#include <cfloat>
#include <csetjmp>
#include <csignal>
#include <omp.h>

using namespace verif;
using namespace rref;

typedef Ref< Q > RefQ;
typedef long double LD;
typedef Ref< LD > RefL;
static const double EPS = DBL_EPSILON;

// ---------------------------------------------------------------------------
// abort interception (cmac_error -> abort)
static thread_local sigjmp_buf *tl_jmp = nullptr;
static void on_abort(int) {
  if (tl_jmp)
    siglongjmp(*tl_jmp, 1);
  signal(SIGABRT, SIG_DFL);
  raise(SIGABRT);
}
static void install_abort_trap() {
  struct sigaction sa;
  memset(&sa, 0, sizeof(sa));
  sa.sa_handler = on_abort;
  sa.sa_flags = SA_NODEFER;
  sigaction(SIGABRT, &sa, nullptr);
}

struct Prob {
  double g, rL, uL, pL, rR, uR, pR;
};
struct St {
  double r, u, p;
  int flag;
  bool aborted;
};

static St run_solver(const ExactRiemannSolver &S, const Prob &P, double xi) {
  St s;
  s.r = s.u = s.p = 0.;
  s.flag = 99;
  s.aborted = false;
  sigjmp_buf jb;
  tl_jmp = &jb;
  if (sigsetjmp(jb, 0) == 0) {
    double r, u, p;
    const int f = S.solve(P.rL, P.uL, P.pL, P.rR, P.uR, P.pR, r, u, p, xi);
    s.r = r;
    s.u = u;
    s.p = p;
    s.flag = f;
  } else {
    s.aborted = true;
  }
  tl_jmp = nullptr;
  return s;
}

static std::string prob_json(const Prob &P, double xi) {
  return fmt("{\"g\": \"%a\", \"rL\": \"%a\", \"uL\": \"%a\", \"pL\": \"%a\", \"rR\": \"%a\", \"uR\": "
             "\"%a\", \"pR\": \"%a\", \"xi\": \"%a\"}",
             P.g, P.rL, P.uL, P.pL, P.rR, P.uR, P.pR, xi);
}
static std::string prob_text(const Prob &P) {
  return fmt("gamma=%.17g L=(%.17g, %.17g, %.17g) R=(%.17g, %.17g, %.17g)", P.g, P.rL, P.uL, P.pL,
             P.rR, P.uR, P.pR);
}

// ---------------------------------------------------------------------------
// per-thread accumulation
enum { O_STATE = 0, O_PEQ, O_RH, O_FAN, O_CONT, O_FLAG, O_COUNT };
static const char *oname[O_COUNT] = {"state-vs-reference", "pressure-equation", "rankine-hugoniot",
                                     "fan-relations",      "continuity",        "side-flag"};
struct Acc {
  uint64_t evals = 0, nontrivial = 0, problems = 0, either_side = 0, aborts = 0, skipped_narrow = 0;
  uint64_t checks[O_COUNT] = {0};
  uint64_t near[O_COUNT] = {0};
  double worst[O_COUNT] = {0};
  uint64_t regions[REG_NONE + 1] = {0};
  uint64_t kinds[5] = {0};
  uint64_t newton = 0, brent = 0, limit_ties = 0, crowded = 0, underflow = 0, boundary_not_bracketed = 0;
  void note(int o, double ratio) {
    ++checks[o];
    if (ratio > 0.1 && ratio <= 1.)
      ++near[o];
    if (ratio > worst[o] && ratio <= 1.)
      worst[o] = ratio;
  }
};

struct Ctx {
  Prob P;
  const ExactRiemannSolver *S;
  RefQ ref;  // star region solved in __float128
  RefL refl; // the same solution, sampled in long double
  std::vector< Wave< LD > > waves;
  double aL, aR, asum;
  double relp;    // relative uncertainty of p* (stated accuracy + conditioning)
  double tol_u;   // propagated uncertainty of u*
  bool code_vacgen; // the code's own double test for vacuum generation
  double hdisc;   // either-side band around shocks and the contact
  std::string pattern; // SS, SR, RS, RR, vacuum-generation
  bool verbose;
  Result *R;
  Acc *A;
};

/// position uncertainty of a wave (beyond it both neighbouring regions are
/// accepted)
static double wave_h(const Ctx &C, const Wave< LD > &w) {
  const int k = w.side > 0;
  const double uK = k ? C.P.uR : C.P.uL, aK = k ? C.aR : C.aL;
  switch (w.type) {
  case W_SHOCK:
  case W_CONTACT:
    return C.hdisc;
  case W_HEAD:
    return 8. * EPS * (std::fabs(uK) + aK);
  case W_FRONT:
    return 8. * EPS * (std::fabs(uK) + 2. * aK / (C.P.g - 1.));
  default: { // tail: u* -/+ a*(p*)
    const double as = (double)C.ref.astar[k];
    return C.tol_u + as * (C.P.g - 1.) / (2. * C.P.g) * 2. * C.relp +
           8. * EPS * (std::fabs((double)C.ref.ustar) + as);
  }
  }
}

/// reference state of a region and the tolerances that belong to it
static void ref_state(const Ctx &C, int reg, double xi, double &r, double &u, double &p, double &tr,
                      double &tu, double &tp) {
  LD rq, uq, pq;
  C.refl.state(reg, (LD)xi, rq, uq, pq);
  r = (double)rq;
  u = (double)uq;
  p = (double)pq;
  const double g = C.P.g;
  switch (reg) {
  case REG_L:
  case REG_R:
    // the solver copies its input
    tr = 4. * EPS * r;
    tu = 4. * EPS * std::fabs(u);
    tp = 4. * EPS * p;
    return;
  case REG_LSTAR:
  case REG_RSTAR:
    // p* carries the solver's stated accuracy (|a-b| <= 5e-9 (a+b), i.e.
    // 1e-8 relative; k = 2) plus the conditioning of the root in double
    // arithmetic (C.relp); d ln rho*/d ln p* <= 1 on both branches
    tr = (C.relp + 32. * EPS) * r;
    tp = (C.relp + 32. * EPS) * p;
    tu = C.tol_u;
    return;
  case REG_LFAN:
  case REG_RFAN: {
    const int k = reg == REG_RFAN;
    const double uK = k ? C.P.uR : C.P.uL, aK = k ? C.aR : C.aL;
    const double rK = k ? C.P.rR : C.P.rL, pK = k ? C.P.pR : C.P.pL;
    // base = 2/(g+1) +- (g-1)/(g+1) (uK - xi)/aK is evaluated in double by the
    // solver: absolute rounding error db (k = 16); the powers are propagated
    // as an interval so that the vacuum front (base -> 0) needs no special case
    const double t1 = 2. / (g + 1.), t2 = (g - 1.) / (g + 1.) * (std::fabs(uK) + std::fabs(xi)) / aK;
    const double sgn = k ? 1. : -1.;
    const double base = (double)((LD)(g - 1.) / (LD)(g + 1.) * (LD)sgn * ((LD)xi - C.refl.front[k]) /
                                 C.refl.a[k]);
    const double b = std::max(base, 0.);
    const double db = 16. * EPS * (t1 + t2);
    const double e1 = 2. / (g - 1.), e2 = 2. * g / (g - 1.);
    const double lo = std::max(b - db, 0.), hi = b + db;
    tr = rK * (std::pow(hi, e1) - std::pow(lo, e1)) + 16. * EPS * r;
    tp = pK * (std::pow(hi, e2) - std::pow(lo, e2)) + 16. * EPS * p;
    tu = 16. * EPS * (aK + std::fabs(uK) + std::fabs(xi));
    return;
  }
  default:
    tr = tu = tp = 0.;
  }
}

/// name of the regime of a sample for the violation keys: region of the
/// reference, and for vacuum generation whether the gas on that side of the
/// vacuum moves (in the vacuum itself: whether any of the two moves)
static std::string regime_of_region(const Ctx &C, int reg) {
  std::string s = region_name(reg);
  if (C.ref.kind == K_VAC_LEFT || C.ref.kind == K_VAC_RIGHT) {
    // one-sided vacuum: does the gas move?
    const double uK = C.ref.kind == K_VAC_LEFT ? C.P.uR : C.P.uL;
    s += uK != 0. ? ":vacuum-moving-gas" : ":vacuum-gas-at-rest";
  } else if (C.ref.kind == K_VACGEN || C.code_vacgen) {
    bool moving;
    if (reg == REG_L || reg == REG_LFAN || reg == REG_LSTAR)
      moving = C.P.uL != 0.;
    else if (reg == REG_R || reg == REG_RFAN || reg == REG_RSTAR)
      moving = C.P.uR != 0.;
    else
      moving = C.P.uL != 0. || C.P.uR != 0.;
    s += moving ? ":vacuum-moving-gas" : ":vacuum-gas-at-rest";
  }
  return s;
}
/// is the speed within the band of a vacuum front / of the (nearly) empty
/// star region of a problem at the vacuum limit?
static bool at_vacuum_front(const Ctx &C, double xi) {
  // at the vacuum limit the sound speed of the star region is below the
  // rounding of the fan formulae (a*/aK < 64 eps): the tails and the contact
  // are then the (coincident) vacuum fronts
  const bool empty_star =
      C.ref.kind == K_NORMAL && ((double)(C.ref.astar[0] / C.ref.a[0]) < 64. * EPS ||
                                 (double)(C.ref.astar[1] / C.ref.a[1]) < 64. * EPS);
  for (const auto &w : C.waves)
    if ((w.type == W_FRONT || (empty_star && (w.type == W_TAIL || w.type == W_CONTACT))) &&
        std::fabs((double)((LD)xi - w.speed)) <=
            128. * EPS * (std::fabs(xi) + C.asum * 2. / (C.P.g - 1.)))
      return true;
  return false;
}

struct SampleOut {
  St s;
  bool physical; // finite, non-negative, no abort
  int matched; // region matched, REG_NONE if none
  double tr, tu, tp;
};

/// one sampling speed: run the solver, compare to the reference
static SampleOut check_sample(Ctx &C, double xi, const char *what) {
  Acc &A = *C.A;
  SampleOut out;
  out.matched = REG_NONE;
  out.physical = false;
  out.tr = out.tu = out.tp = 0.;
  out.s = run_solver(*C.S, C.P, xi);
  const St &s = out.s;
  ++A.evals;
  int reg = C.waves[0].left;
  for (const auto &w : C.waves)
    if ((LD)xi >= w.speed)
      reg = w.right;
  ++A.regions[reg];
  if (reg != REG_L && reg != REG_R)
    ++A.nontrivial;
  if (s.aborted) {
    ++A.aborts;
    C.R->violation("C11:abort:" + C.pattern, prob_text(C.P) + fmt(" xi=%.17g: cmac_error/abort", xi),
                   prob_json(C.P, xi));
    return out;
  }
  if (!std::isfinite(s.r) || !std::isfinite(s.u) || !std::isfinite(s.p) || s.r < 0. || s.p < 0.) {
    if (C.verbose)
      printf("  xi=%-24.17g %-22s NON-PHYSICAL solver (%g, %g, %g) flag %d\n", xi, what, s.r, s.u, s.p,
             s.flag);
    C.R->violation("C11:nonphysical:" + C.pattern + ":" +
                       (at_vacuum_front(C, xi) ? std::string("at-vacuum-front") : regime_of_region(C, reg)),
                   prob_text(C.P) + fmt(" xi=%.17g (%s): solver (%g, %g, %g)", xi, what, s.r, s.u, s.p),
                   prob_json(C.P, xi));
    return out;
  }
  out.physical = true;
  // candidate regions
  int cand[8], nc = 0;
  cand[nc++] = reg;
  bool either = false;
  for (const auto &w : C.waves) {
    if (std::fabs((double)((LD)xi - w.speed)) <= wave_h(C, w)) {
      for (int rr : {w.left, w.right}) {
        bool have = false;
        for (int i = 0; i < nc; ++i)
          have |= cand[i] == rr;
        if (!have && nc < 8)
          cand[nc++] = rr;
      }
      if (w.type == W_SHOCK || w.type == W_CONTACT)
        either = true;
    }
  }
  if (either)
    ++A.either_side;
  double best = 1e300;
  int bestreg = reg;
  double br = 0, bu = 0, bp = 0, btr = 0, btu = 0, btp = 0;
  for (int i = 0; i < nc; ++i) {
    double r, u, p, tr, tu, tp;
    ref_state(C, cand[i], xi, r, u, p, tr, tu, tp);
    double ratio = 0.;
    auto cmp = [&](double x, double y, double t) {
      const double d = std::fabs(x - y);
      if (d == 0.)
        return;
      ratio = std::max(ratio, t > 0. ? d / t : 1e300);
    };
    cmp(s.r, r, tr);
    cmp(s.p, p, tp);
    // the velocity of a state whose density is zero within its tolerance
    // carries no information
    if (cand[i] != REG_VAC && !(r <= tr && s.r <= tr))
      cmp(s.u, u, tu);
    if (ratio < best || i == 0) {
      best = ratio;
      bestreg = cand[i];
      br = r, bu = u, bp = p, btr = tr, btu = tu, btp = tp;
    }
  }
  A.note(O_STATE, best);
  if (C.verbose)
    printf("  xi=%-24.17g %-22s ref region %-11s solver (%.17g, %.17g, %.17g) flag %d | ref (%.17g, "
           "%.17g, %.17g) ratio %.3g%s\n",
           xi, what, region_name(bestreg), s.r, s.u, s.p, s.flag, br, bu, bp, best,
           either ? " [either side]" : "");
  if (best > 1.) {
    C.R->violation(
        "C11:state-vs-reference:" + C.pattern + ":" + regime_of_region(C, reg),
        prob_text(C.P) +
            fmt(" xi=%.17g (%s): solver (%.17g, %.17g, %.17g) reference %s (%.17g, %.17g, %.17g) "
                "tolerances (%.3g, %.3g, %.3g) worst ratio %.3g; p*=%.17g u*=%.17g",
                xi, what, s.r, s.u, s.p, region_name(bestreg), br, bu, bp, btr, btu, btp, best,
                (double)C.ref.pstar, (double)C.ref.ustar),
        prob_json(C.P, xi));
    return out;
  }
  out.matched = bestreg;
  out.tr = btr;
  out.tu = btu;
  out.tp = btp;
  // side flag
  {
    bool ok = false;
    for (int i = 0; i < nc; ++i) {
      const int want = cand[i] == REG_VAC ? 0 : (cand[i] <= REG_LSTAR ? -1 : 1);
      ok |= want == s.flag;
    }
    // a state whose density is zero within its tolerance is vacuum for all
    // purposes: the side it is attributed to carries no information
    if (s.r <= btr)
      ok = true;
    A.note(O_FLAG, ok ? 0. : 2.);
    if (!ok)
      C.R->violation("C11:side-flag:" + C.pattern + ":" + regime_of_region(C, reg),
                     prob_text(C.P) + fmt(" xi=%.17g: flag %d in region %s", xi, s.flag, region_name(reg)),
                     prob_json(C.P, xi));
  }
  return out;
}

/// relations that use the solver output only, at a sample well inside `reg`
static void check_relations(Ctx &C, int reg, double xi, const St &s) {
  Acc &A = *C.A;
  const double g = C.P.g;
  const int k = reg >= REG_RSTAR;
  const double sgn = k ? 1. : -1.;
  const double rK = k ? C.P.rR : C.P.rL, uK = k ? C.P.uR : C.P.uL, pK = k ? C.P.pR : C.P.pL;
  const double aK = k ? C.aR : C.aL;
  if ((reg == REG_LSTAR || reg == REG_RSTAR) && C.ref.shock[k]) {
    // Rankine-Hugoniot with the shock speed eliminated
    const double e1 = s.p / ((g - 1.) * s.r), e0 = pK / ((g - 1.) * rK);
    const double dv = 1. / rK - 1. / s.r;
    const double hug = e1 - e0 - 0.5 * (s.p + pK) * dv;
    const double hscale = e1 + e0 + 0.5 * (s.p + pK) * (1. / rK + 1. / s.r);
    const double du = s.u - uK;
    const double mom = du * du - (s.p - pK) * dv;
    const double mscale = du * du + (s.p + pK) * (1. / rK + 1. / s.r);
    const double r1 = std::fabs(hug) / (1e-8 * hscale);
    const double r2 = std::fabs(mom) / (1e-8 * mscale + 2. * std::fabs(du) * C.tol_u);
    // compression: the gas is pushed towards the contact
    const double r3 = (sgn * du < -C.tol_u) ? 2. : 0.;
    const double ratio = std::max(r1, std::max(r2, r3));
    A.note(O_RH, ratio);
    if (C.verbose)
      printf("    rankine-hugoniot %s: energy %.3g momentum %.3g sign %.3g\n", k ? "right" : "left", r1,
             r2, r3);
    if (ratio > 1.)
      C.R->violation(std::string("C11:rankine-hugoniot:") + (k ? "right-shock" : "left-shock"),
                     prob_text(C.P) + fmt(" xi=%.17g: post-shock (%.17g, %.17g, %.17g): Hugoniot residual "
                                          "%.3g (scale %.3g), velocity-jump residual %.3g (scale %.3g), "
                                          "ratios %.3g %.3g %.3g",
                                          xi, s.r, s.u, s.p, hug, hscale, mom, mscale, r1, r2, r3),
                     prob_json(C.P, xi));
    return;
  }
  const bool fan = reg == REG_LFAN || reg == REG_RFAN;
  const bool behind = (reg == REG_LSTAR || reg == REG_RSTAR) && !C.ref.shock[k];
  if (!(fan || behind) || !(s.r > 0.) || !(s.p > 0.))
    return;
  // conditioning of the power laws (see ref_state)
  double tr, tu, tp, r, u, p;
  ref_state(C, reg, xi, r, u, p, tr, tu, tp);
  const double relr = fan ? tr / s.r : 64. * EPS, relp = fan ? tp / s.p : 64. * EPS;
  const double a = std::sqrt(g * s.p / s.r);
  const double rela = 0.5 * (relr + relp) + 4. * EPS;
  // entropy: ln p - g ln rho constant
  const double ent = (std::log(s.p) - g * std::log(s.r)) - (std::log(pK) - g * std::log(rK));
  const double tent = relp + g * relr +
                      8. * EPS * (std::fabs(std::log(s.p)) + g * std::fabs(std::log(s.r)) +
                                  std::fabs(std::log(pK)) + g * std::fabs(std::log(rK)) + 1.);
  // Riemann invariant u -sgn 2a/(g-1)
  const double inv = (s.u - sgn * 2. * a / (g - 1.)) - (uK - sgn * 2. * aK / (g - 1.));
  const double tinv = (fan ? tu : C.tol_u) + 2. / (g - 1.) * a * rela +
                      8. * EPS * (std::fabs(uK) + 2. * aK / (g - 1.));
  double r3 = 0., chr = 0.;
  if (fan) {
    // characteristic through the origin: u + sgn a = xi
    chr = s.u + sgn * a - xi;
    r3 = std::fabs(chr) / (tu + a * rela + 8. * EPS * std::fabs(xi));
  }
  const double r1 = std::fabs(ent) / tent, r2 = std::fabs(inv) / tinv;
  const double ratio = std::max(r1, std::max(r2, r3));
  A.note(O_FAN, ratio);
  if (C.verbose)
    printf("    fan relations %s: entropy %.3g invariant %.3g characteristic %.3g\n",
           region_name(reg), r1, r2, r3);
  if (ratio > 1.)
    C.R->violation("C11:fan-relations:" + C.pattern + ":" + regime_of_region(C, reg),
                   prob_text(C.P) + fmt(" xi=%.17g: state (%.17g, %.17g, %.17g): entropy residual %.3g (tol "
                                        "%.3g), invariant residual %.3g (tol %.3g), characteristic residual "
                                        "%.3g",
                                        xi, s.r, s.u, s.p, ent, tent, inv, tinv, chr),
                   prob_json(C.P, xi));
}

static void check_problem(const ExactRiemannSolver &S, const Prob &P, Result &R, Acc &A, bool verbose,
                          double only_xi = NAN) {
  Ctx C;
  C.P = P;
  C.S = &S;
  C.verbose = verbose;
  C.R = &R;
  C.A = &A;
  const double g = P.g;
  // bisection in long double first, then in __float128 inside the (verified)
  // bracket around that root
  C.refl.setup((LD)g, (LD)P.rL, (LD)P.uL, (LD)P.pL, (LD)P.rR, (LD)P.uR, (LD)P.pR);
  if (C.refl.kind == K_NORMAL) {
    const LD y0 = C.refl.ystar;
    const LD hw = 1e-15L * (fabsl(y0) + 1.L);
    C.ref.setup((Q)g, (Q)P.rL, (Q)P.uL, (Q)P.pL, (Q)P.rR, (Q)P.uR, (Q)P.pR, true, (Q)y0, (Q)hw);
  } else {
    C.ref.setup((Q)g, (Q)P.rL, (Q)P.uL, (Q)P.pL, (Q)P.rR, (Q)P.uR, (Q)P.pR);
  }
  C.refl.adopt(C.ref);
  C.waves = C.refl.waves();
  C.aL = (double)C.ref.a[0];
  C.aR = (double)C.ref.a[1];
  C.asum = C.aL + C.aR;
  C.hdisc = 1e-6 * C.asum;
  ++A.problems;
  ++A.kinds[C.ref.kind];
  const RefQ &ref = C.ref;
  const bool onesided = ref.kind == K_VAC_LEFT || ref.kind == K_VAC_RIGHT;
  // the code's own double sound speeds (0 on a vacuum side, as in solve())
  const double aLcode = P.rL > 0. && P.pL > 0. ? S.get_soundspeed(1. / P.rL, P.pL) : 0.;
  const double aRcode = P.rR > 0. && P.pR > 0. ? S.get_soundspeed(1. / P.rR, P.pR) : 0.;
  C.code_vacgen = false;
  if (!onesided) {
    C.code_vacgen = S._tdgm1 * aLcode + S._tdgm1 * aRcode <= P.uR - P.uL;
    if (C.code_vacgen != (ref.kind == K_VACGEN))
      ++A.limit_ties;
  }
  if (ref.kind == K_NORMAL) {
    C.pattern = std::string(ref.shock[0] ? "S" : "R") + (ref.shock[1] ? "S" : "R");
    // |du*| <= 1/2 (|dDelta_L/dp| + |dDelta_R/dp|) dp with dp = 2e-8 p*, plus
    // rounding of the velocity function (k = 16)
    // The solver finds the root of the pressure function evaluated in double:
    // rounding of that function (k = 16, M = sum of the magnitudes of its
    // terms) moves the root by 16 eps M / G'(p*).  p G'(p) is evaluated in
    // the reference arithmetic because p* may be below the double range.
    const Q dd2 = ref.ddelta(0, ref.ystar) + ref.ddelta(1, ref.ystar);
    const double M = std::fabs(P.uL) + std::fabs(P.uR) + 2. * C.asum / (g - 1.) +
                     std::fabs((double)ref.delta(0, ref.ystar)) +
                     std::fabs((double)ref.delta(1, ref.ystar));
    const double pGp = (double)(ref.pstar * dd2); // d G / d ln p
    C.relp = 2e-8 + 16. * EPS * M / pGp;
    C.tol_u = C.relp * 0.5 * pGp + 16. * EPS * M;
    // which way does the real iteration go?  (private members, read only)
    {
      const double aL = S.get_soundspeed(1. / P.rL, P.pL), aR = S.get_soundspeed(1. / P.rR, P.pR);
      const double AL = S._tdgp1 / P.rL, BL = S._gm1dgp1 * P.pL, AR = S._tdgp1 / P.rR,
                   BR = S._gm1dgp1 * P.pR;
      const double pg = S.guess_P(P.pL, aL, AL, BL, P.pR, aR, AR, BR, P.uR - P.uL);
      const double fg = S.f(P.pL, AL, BL, 1. / P.pL, S._tdgm1 * aL, P.pR, AR, BR, 1. / P.pR,
                            S._tdgm1 * aR, P.uR - P.uL, pg);
      if (fg > 0.)
        ++A.brent;
      else
        ++A.newton;
    }
  } else {
    C.pattern = ref.kind == K_VAC_LEFT ? "left-vacuum" : ref.kind == K_VAC_RIGHT ? "right-vacuum"
                                                                                 : "vacuum-generation";
    C.relp = 0.;
    C.tol_u = 16. * EPS * (std::fabs(P.uL) + std::fabs(P.uR) + 2. * C.asum / (g - 1.));
  }
  if (C.code_vacgen)
    C.pattern = "vacuum-generation";
  else if (ref.kind == K_NORMAL && !((double)ref.pstar >= DBL_MIN)) {
    // the root of the pressure equation is not representable as a normal double
    C.pattern += ":star-pressure-underflow";
    ++A.underflow;
  }
  if (verbose) {
    printf("%s\n reference: kind %d pattern %s", prob_text(P).c_str(), ref.kind, C.pattern.c_str());
    if (ref.kind == K_NORMAL)
      printf(" p*=%.20g u*=%.20g (bisection steps %d) tol_u=%.3g", (double)ref.pstar, (double)ref.ustar,
             ref.iterations, C.tol_u);
    printf("\n");
    printf(" code's own vacuum generation test: %s\n", C.code_vacgen ? "true" : "false");
    for (const auto &w : C.waves)
      printf("  wave %-12s side %+d speed %.17g (band %.3g)\n", wave_name(w.type), w.side,
             (double)w.speed, wave_h(C, w));
  }
  if (std::isfinite(only_xi)) {
    check_sample(C, only_xi, "replayed speed");
    // fall through: the whole problem is cheap, run all of it as well
  }

  // ---- sampling speeds ----------------------------------------------------
  struct Xi {
    double xi;
    const char *what;
    int inside; // region if this is a mid point well inside it, else -1
  };
  std::vector< Xi > xis;
  const size_t nw = C.waves.size();
  const double span = std::max(C.asum, std::fabs((double)(C.waves[nw - 1].speed - C.waves[0].speed)));
  xis.push_back({(double)C.waves[0].speed - 0.7 * span, "left of all waves", C.waves[0].left});
  xis.push_back({(double)C.waves[nw - 1].speed + 0.7 * span, "right of all waves", C.waves[nw - 1].right});
  for (size_t i = 0; i + 1 < nw; ++i) {
    const double s0 = (double)C.waves[i].speed, s1 = (double)C.waves[i + 1].speed;
    const int reg = C.waves[i].right;
    const double need = 8. * (wave_h(C, C.waves[i]) + wave_h(C, C.waves[i + 1]));
    if (s1 - s0 > need) {
      xis.push_back({0.5 * (s0 + s1), "region mid point", reg});
      if (reg == REG_LFAN || reg == REG_RFAN) {
        xis.push_back({s0 + 0.11 * (s1 - s0), "fan interior", reg});
        xis.push_back({s0 + 0.93 * (s1 - s0), "fan interior", reg});
      }
    } else {
      ++A.skipped_narrow;
      xis.push_back({0.5 * (s0 + s1), "narrow region", -1});
    }
  }
  xis.push_back({0., "zero", -1});
  // +-1e-9 around every wave; +-4e-6 (aL+aR) around discontinuities
  struct Pair {
    size_t lo, hi, wave;
  };
  std::vector< Pair > pairs;
  for (size_t i = 0; i < nw; ++i) {
    const double s = (double)C.waves[i].speed;
    const double d = 1e-9 * std::max(std::fabs(s), 1e-3 * C.asum);
    pairs.push_back({xis.size(), xis.size() + 1, i});
    xis.push_back({s - d, "wave - 1e-9", -1});
    xis.push_back({s + d, "wave + 1e-9", -1});
    xis.push_back({s, "wave speed of the reference (rounded)", -1});
    if (C.waves[i].type == W_SHOCK || C.waves[i].type == W_CONTACT) {
      xis.push_back({s - 4e-6 * C.asum, "discontinuity - 4e-6 (aL+aR)", -1});
      xis.push_back({s + 4e-6 * C.asum, "discontinuity + 4e-6 (aL+aR)", -1});
    }
  }
  // exact ties of the code's own double wave speeds, +-1 ulp
  {
    const double aL = aLcode, aR = aRcode;
    std::vector< double > ties;
    if (ref.kind != K_VAC_LEFT)
      ties.push_back(P.uL - aL);
    if (ref.kind != K_VAC_RIGHT)
      ties.push_back(P.uR + aR);
    if (ref.kind == K_VACGEN || ref.kind == K_VAC_RIGHT)
      ties.push_back(P.uL + S._tdgm1 * aL);
    if (ref.kind == K_VACGEN || ref.kind == K_VAC_LEFT)
      ties.push_back(P.uR - S._tdgm1 * aR);
    for (double t : ties) {
      xis.push_back({t, "double tie of the code's wave speed", -1});
      xis.push_back({std::nextafter(t, -INFINITY), "tie - 1 ulp", -1});
      xis.push_back({std::nextafter(t, INFINITY), "tie + 1 ulp", -1});
    }
  }

  std::vector< SampleOut > outs(xis.size());
  double pstar_solver = NAN, ustar_solver = NAN;
  for (size_t i = 0; i < xis.size(); ++i) {
    outs[i] = check_sample(C, xis[i].xi, xis[i].what);
    // the relations use the solver output only: they are evaluated at every
    // sample well inside a region, whether or not the state matched
    if (xis[i].inside >= 0 && outs[i].physical)
      check_relations(C, xis[i].inside, xis[i].xi, outs[i].s);
    if (outs[i].matched == REG_NONE)
      continue;
    if (xis[i].inside >= 0 && outs[i].matched == xis[i].inside) {
      if (xis[i].inside == REG_LSTAR) {
        pstar_solver = outs[i].s.p;
        ustar_solver = outs[i].s.u;
      }
    }
  }
  // ties of the code's fan tails (need the solver's own p*, u*)
  if (ref.kind == K_NORMAL && std::isfinite(pstar_solver)) {
    const double aL = S.get_soundspeed(1. / P.rL, P.pL), aR = S.get_soundspeed(1. / P.rR, P.pR);
    std::vector< double > ties;
    if (!ref.shock[0])
      ties.push_back(ustar_solver - aL * std::pow(pstar_solver * (1. / P.pL), S._gm1d2g));
    if (!ref.shock[1])
      ties.push_back(ustar_solver + aR * std::pow(pstar_solver * (1. / P.pR), S._gm1d2g));
    ties.push_back(ustar_solver);
    for (double t : ties)
      for (double x : {t, std::nextafter(t, -INFINITY), std::nextafter(t, INFINITY)})
        check_sample(C, x, "double tie of the code's tail/contact speed");
  }

  // ---- pressure equation --------------------------------------------------
  if (ref.kind == K_NORMAL && std::isfinite(pstar_solver) && pstar_solver > 0.) {
    const Q lo = ref.G_of_p((Q)pstar_solver * (1 - (Q)C.relp));
    const Q hi = ref.G_of_p((Q)pstar_solver * (1 + (Q)C.relp));
    const double relerr = std::fabs(pstar_solver - (double)ref.pstar) / (double)ref.pstar;
    const bool ok = lo <= 0 && hi >= 0;
    A.note(O_PEQ, ok ? relerr / C.relp : 2.);
    if (verbose)
      printf("  pressure equation: solver p*=%.17g reference %.17g rel.diff %.3g (allowed %.3g) "
             "G(p*(1-t))=%.3g G(p*(1+t))=%.3g\n",
             pstar_solver, (double)ref.pstar, relerr, C.relp, (double)lo, (double)hi);
    if (!ok)
      R.violation("C11:pressure-equation:" + C.pattern,
                  prob_text(P) + fmt(": solver p*=%.17g does not bracket the root of the pressure function "
                                     "within %.3g: G(p*(1-t))=%.6g G(p*(1+t))=%.6g, reference "
                                     "p*=%.17g",
                                     pstar_solver, C.relp, (double)lo, (double)hi, (double)ref.pstar),
                  prob_json(P, NAN));
  }

  // ---- one-sided continuity at weak waves ---------------------------------
  for (const auto &pr : pairs) {
    const Wave< LD > &w = C.waves[pr.wave];
    if (w.type == W_SHOCK || w.type == W_CONTACT)
      continue;
    const SampleOut &a = outs[pr.lo], &b = outs[pr.hi];
    if (a.matched == REG_NONE || b.matched == REG_NONE)
      continue;
    const int k = w.side > 0;
    const int fanreg = k ? REG_RFAN : REG_LFAN;
    const double d = xis[pr.hi].xi - xis[pr.lo].xi;
    // another wave inside the pair (coincident fronts at the exact vacuum
    // limit, empty star region): this is not a single weak wave, the states
    // there are covered by state-vs-reference
    bool crowded = false;
    for (size_t j = 0; j < C.waves.size(); ++j)
      if (j != pr.wave && (double)C.waves[j].speed >= xis[pr.lo].xi - d &&
          (double)C.waves[j].speed <= xis[pr.hi].xi + d)
        crowded = true;
    if (crowded) {
      ++A.crowded;
      continue;
    }
    // slope of the fan next to the wave (evaluated on both sides, extended)
    double sr = 0., sp = 0.;
    for (size_t j : {pr.lo, pr.hi}) {
      LD rq, uq, pq;
      C.refl.state(fanreg, (LD)xis[j].xi, rq, uq, pq);
      if (rq > 0) {
        const double aa = std::sqrt(P.g * (double)pq / (double)rq);
        sr = std::max(sr, (double)rq * 2. / ((P.g + 1.) * aa));
        sp = std::max(sp, (double)pq * 2. * P.g / ((P.g + 1.) * aa));
      }
    }
    const double su = 2. / (P.g + 1.);
    const double r1 = std::fabs(a.s.r - b.s.r) / (2. * sr * d + a.tr + b.tr + DBL_MIN);
    const double r2 = std::fabs(a.s.u - b.s.u) / (2. * su * d + a.tu + b.tu + DBL_MIN);
    const double r3 = std::fabs(a.s.p - b.s.p) / (2. * sp * d + a.tp + b.tp + DBL_MIN);
    const bool vacside = a.matched == REG_VAC || b.matched == REG_VAC;
    const double ratio = std::max(r1, std::max(vacside ? 0. : r2, r3));
    A.note(O_CONT, ratio);
    if (verbose)
      printf("  continuity at %s (side %+d): ratios %.3g %.3g %.3g\n", wave_name(w.type), w.side, r1, r2,
             r3);
    if (ratio > 1.)
      R.violation("C11:continuity:" + C.pattern + ":" + wave_name(w.type) + (k ? ":right" : ":left"),
                  prob_text(P) + fmt(": states at %.17g and %.17g differ by (%.3g, %.3g, %.3g), allowed "
                                     "(%.3g, %.3g, %.3g)",
                                     xis[pr.lo].xi, xis[pr.hi].xi, a.s.r - b.s.r, a.s.u - b.s.u,
                                     a.s.p - b.s.p, 2. * sr * d + a.tr + b.tr, 2. * su * d + a.tu + b.tu,
                                     2. * sp * d + a.tp + b.tp),
                  prob_json(P, xis[pr.lo].xi));
  }

  // ---- the solver's own vacuum boundary ------------------------------------
  // (vacuum involved) The speed at which the solver switches between "vacuum"
  // (flag 0) and the fan is located by bisection on the returned flag; the
  // density and pressure just inside the fan must be zero within the rounding
  // of the fan formula there: density -> 0 continuously, wherever the code
  // puts its front.
  if (ref.kind == K_VAC_LEFT || ref.kind == K_VAC_RIGHT || ref.kind == K_VACGEN) {
    for (size_t iw = 0; iw < nw; ++iw) {
      const Wave< LD > &w = C.waves[iw];
      if (w.type != W_FRONT)
        continue;
      const int k = w.side > 0;
      const int fanreg = k ? REG_RFAN : REG_LFAN;
      const double front = (double)w.speed, head = (double)C.refl.head[k];
      // a point just inside the head of the fan and a point in the vacuum
      const double xf = head + 1e-3 * (front - head);
      double xv;
      if (ref.kind == K_VACGEN) {
        const double other = (double)C.refl.front[1 - k];
        if (!(std::fabs(other - front) > 64. * (wave_h(C, w) + EPS * std::fabs(front))))
          continue; // coincident fronts: no vacuum region to start from
        xv = 0.5 * (front + other);
      } else {
        xv = front + 0.7 * (front - head);
      }
      St a = run_solver(S, P, xv), b = run_solver(S, P, xf);
      A.evals += 2;
      if (a.aborted || b.aborted || a.flag != 0 || b.flag == 0) {
        ++A.boundary_not_bracketed;
        continue;
      }
      double lo = xv, hi = xf; // lo: vacuum, hi: fan
      for (int it = 0; it < 200; ++it) {
        const double mid = 0.5 * (lo + hi);
        if (mid == lo || mid == hi)
          break;
        const St m = run_solver(S, P, mid);
        ++A.evals;
        if (m.aborted)
          break;
        if (m.flag == 0)
          lo = mid;
        else {
          hi = mid;
          b = m;
        }
      }
      double r, u, p, tr, tu, tp;
      ref_state(C, fanreg, hi, r, u, p, tr, tu, tp);
      // allowed: the rounding interval of the fan formula at that speed (tr,
      // tp already contain it) around zero
      const double r1 = b.r / (tr + DBL_MIN), r2 = b.p / (tp + DBL_MIN);
      const double ratio = std::max(r1, r2);
      A.note(O_CONT, ratio);
      if (verbose)
        printf("  solver's vacuum boundary (side %+d) at %.17g (reference front %.17g): state just inside "
               "(%.6g, %.6g, %.6g), allowed density %.3g pressure %.3g\n",
               w.side, hi, front, b.r, b.u, b.p, tr, tp);
      if (!(ratio <= 1.))
        R.violation("C11:continuity:" + C.pattern + ":solver-vacuum-boundary" + (k ? ":right" : ":left") +
                        ((k ? P.uR : P.uL) != 0. ? ":vacuum-moving-gas" : ":vacuum-gas-at-rest"),
                    prob_text(P) + fmt(": the solver switches from vacuum to the fan at speed %.17g (front of "
                                       "the reference %.17g); just inside it returns (%.17g, %.17g, %.17g), "
                                       "density/pressure allowed there (%.3g, %.3g)",
                                       hi, front, b.r, b.u, b.p, tr, tp),
                    prob_json(P, hi));
    }
  }
}

// ---------------------------------------------------------------------------
static double hexval(const std::string &text, const std::string &key) {
  const std::string v = replay_field(text, key);
  if (v.empty() || v == "null")
    return NAN;
  return strtod(v.c_str(), nullptr);
}

int main(int argc, char **argv) {
  Args A = parse_args(argc, argv);
  Result R(A);
  install_abort_trap();
  R.rule = "Two families. (a) Cartesian product of non-vacuum state pairs (rho,P per side), adiabatic indices, velocity "
           "differences (grid from -6(aL+aR) to 1.2x the vacuum limit, +-1e-9 around the vacuum limit and "
           "around the thresholds of the initial pressure guess) and frames; for each problem the sampling "
           "speeds are region mid points, fan interior points, s(1+-1e-9) and s itself for every wave of the "
           "reference, +-4e-6(aL+aR) around shocks/contact and the code's own double wave speeds +-1 ulp. "
           "evaluations = calls of the real solver (samples compared with the reference, plus the calls of the flag "
           "bisection that locates the solver's own vacuum boundary); a case is non-trivial when its sampling "
           "speed lies in a fan, a star region or the vacuum (not in an unperturbed input state); all "
           "(problem, speed) pairs are distinct by construction (lists are de-duplicated). (b) One-sided vacuum: "
           "vacuum | gas and gas | vacuum for every gas (rho,P) of the alphabet, gas velocity k a with k in {0, "
           "+-0.5, +-1, +-1.5, +-3, +-2/(g-1)}, velocity carried by the vacuum side in {0, 0.37 a (thorough: "
           "-1.3 a)}, same sampling speeds (fan head and vacuum front instead of tails/shocks); reference = the "
           "analytic complete fan.";

  if (!A.replay.empty()) {
    const std::string text = read_file(A.replay);
    Prob P;
    P.g = hexval(text, "g");
    P.rL = hexval(text, "rL");
    P.uL = hexval(text, "uL");
    P.pL = hexval(text, "pL");
    P.rR = hexval(text, "rR");
    P.uR = hexval(text, "uR");
    P.pR = hexval(text, "pR");
    const double xi = hexval(text, "xi");
    ExactRiemannSolver S(P.g);
    Acc acc;
    check_problem(S, P, R, acc, true, xi);
    R.evaluations = acc.evals;
    R.nontrivial = acc.nontrivial;
    return R.finish(A);
  }

  const bool th = A.thorough();
  std::vector< double > gammas = {1.1, 1.4, 5. / 3., 2.};
  std::vector< double > vals = {1e-3, 0.1, 1., 10., 1e3};
  int nsteps = 25;
  if (th) {
    gammas = {1.01, 1.1, 1.2, 1.4, 5. / 3., 1.8, 2.};
    vals = {1e-3, 1e-2, 0.1, 1., 10., 1e2, 1e3};
    nsteps = 49;
  }
  const int nframes = th ? 3 : 2;

  struct State {
    double rL, pL, rR, pR;
  };
  std::vector< State > states;
  for (double rL : vals)
    for (double pL : vals)
      for (double rR : vals)
        for (double pR : vals)
          states.push_back({rL, pL, rR, pR});
  // family B: pressure ratios at and around the qmax <= 2 switch of the guess
  for (double q : {2., 2. * (1. + 1e-9), 2. * (1. - 1e-9), 1.5, 1. + 1e-9, 1.})
    for (double r1 : {0.1, 1., 10.})
      for (double r2 : {0.1, 1., 10.}) {
        states.push_back({r1, 1., r2, q});
        if (q != 1.)
          states.push_back({r1, q, r2, 1.});
      }
  const size_t nstate = states.size();
  const size_t ntot = nstate * gammas.size();
  const size_t rot = (size_t)((A.seed % 1000003 + 1000003) % 1000003) * 7919u % ntot;

  const int nthreads = omp_get_max_threads();
  std::vector< Acc > accs(nthreads);
  bool stop = false;
  uint64_t done_outer = 0;
  std::vector< ExactRiemannSolver * > solvers;
  for (double g : gammas)
    solvers.push_back(new ExactRiemannSolver(g));

#pragma omp parallel for schedule(dynamic, 4)
  for (size_t idx = 0; idx < ntot; ++idx) {
    if (stop)
      continue;
    if (R.out_of_time()) {
#pragma omp critical
      stop = true;
      continue;
    }
    Acc &acc = accs[omp_get_thread_num()];
    const size_t i = (idx + rot) % ntot;
    const size_t ig = i / nstate;
    const State &st = states[i % nstate];
    const double g = gammas[ig];
    const ExactRiemannSolver &S = *solvers[ig];
    const double aL = std::sqrt(g * st.pL / st.rL), aR = std::sqrt(g * st.pR / st.rR);
    const double as = aL + aR;
    const double lim = 2. / (g - 1.) * as;
    std::vector< double > dus;
    for (int k = 0; k < nsteps; ++k)
      dus.push_back(-6. * as + (1.2 * lim + 6. * as) * k / (nsteps - 1.));
    for (double f : {-1., -0.1, 0., 0.1, 1.})
      dus.push_back(f * as);
    for (double f : {1. - 1e-9, 1., 1. + 1e-9})
      dus.push_back(lim * f);
    // thresholds of guess_P: Ppv = 1/2 (PL+PR) (1 - 1/4 du (aL+aR)) equal to Pmin / Pmax
    for (double pt : {std::min(st.pL, st.pR), std::max(st.pL, st.pR)}) {
      const double dut = 4. * (1. - 2. * pt / (st.pL + st.pR)) / as;
      for (double f : {1. - 1e-9, 1. + 1e-9})
        dus.push_back(dut == 0. ? (f - 1.) * as : dut * f);
    }
    std::sort(dus.begin(), dus.end());
    dus.erase(std::unique(dus.begin(), dus.end()), dus.end());
    for (double du : dus) {
      if (du < -6.5 * as || du > 1.25 * lim)
        continue; // guess thresholds outside the stated range
      for (int fr = 0; fr < nframes; ++fr) {
        Prob P;
        P.g = g;
        P.rL = st.rL;
        P.pL = st.pL;
        P.rR = st.rR;
        P.pR = st.pR;
        if (fr == 0) { // left gas at rest
          P.uL = 0.;
          P.uR = du;
        } else if (fr == 1) { // both move
          P.uL = 0.37 * as - 0.5 * du;
          P.uR = P.uL + du;
        } else { // right gas at rest
          P.uR = 0.;
          P.uL = -du;
        }
        check_problem(S, P, R, acc, false);
        if (acc.problems == 7 || acc.problems == 4001)
          if (omp_get_thread_num() < 4)
            R.sample(prob_json(P, 0.));
      }
    }
#pragma omp atomic
    ++done_outer;
  }
  if (stop)
    R.hit_deadline(fmt("%" PRIu64 " of %zu (state pair, gamma) blocks completed", done_outer, ntot));

  // ---- one-sided vacuum: vacuum | gas and gas | vacuum ----------------------
  // gas (rho, P) over the same decades, gas velocity k a with k in {0, +-0.5,
  // +-1, +-1.5, +-3} and +-2/(g-1) (vacuum front at speed 0), velocity carried
  // by the vacuum side 0 or 0.37 a (it must not matter; thorough: also -1.3 a)
  {
    struct Gas {
      size_t ig;
      double r, p;
    };
    std::vector< Gas > gases;
    for (size_t ig = 0; ig < gammas.size(); ++ig)
      for (double r : vals)
        for (double p : vals)
          gases.push_back({ig, r, p});
    uint64_t done_vac = 0;
    bool stopv = false;
#pragma omp parallel for schedule(dynamic, 1)
    for (size_t idx = 0; idx < gases.size(); ++idx) {
      if (stopv)
        continue;
      if (R.out_of_time()) {
#pragma omp critical
        stopv = true;
        continue;
      }
      Acc &acc = accs[omp_get_thread_num()];
      const Gas &G = gases[(idx + rot) % gases.size()];
      const double g = gammas[G.ig];
      const ExactRiemannSolver &S = *solvers[G.ig];
      const double a = std::sqrt(g * G.p / G.r);
      std::vector< double > ks = {0., 0.5, -0.5, 1., -1., 1.5, -1.5, 3., -3., S._tdgm1, -S._tdgm1};
      std::vector< double > uvac = {0., 0.37 * a};
      if (th)
        uvac.push_back(-1.3 * a);
      for (double k : ks)
        for (double uv : uvac)
          for (int side = 0; side < 2; ++side) {
            Prob P;
            P.g = g;
            if (side == 0) { // vacuum | gas
              P.rL = 0.;
              P.pL = 0.;
              P.uL = uv;
              P.rR = G.r;
              P.pR = G.p;
              P.uR = k * a;
            } else { // gas | vacuum
              P.rL = G.r;
              P.pL = G.p;
              P.uL = k * a;
              P.rR = 0.;
              P.pR = 0.;
              P.uR = uv;
            }
            check_problem(S, P, R, acc, false);
            if (idx == 3 && k == 0.5 && uv == 0.)
              R.sample(prob_json(P, 0.));
          }
#pragma omp atomic
      ++done_vac;
    }
    if (stopv)
      R.hit_deadline(fmt("one-sided vacuum: %" PRIu64 " of %zu (gamma, gas state) blocks completed", done_vac,
                         gases.size()));
  }

  Acc T;
  for (const Acc &a : accs) {
    T.evals += a.evals;
    T.nontrivial += a.nontrivial;
    T.problems += a.problems;
    T.either_side += a.either_side;
    T.aborts += a.aborts;
    T.skipped_narrow += a.skipped_narrow;
    T.newton += a.newton;
    T.brent += a.brent;
    T.limit_ties += a.limit_ties;
    T.crowded += a.crowded;
    T.underflow += a.underflow;
    T.boundary_not_bracketed += a.boundary_not_bracketed;
    for (int o = 0; o < O_COUNT; ++o) {
      T.checks[o] += a.checks[o];
      T.near[o] += a.near[o];
      T.worst[o] = std::max(T.worst[o], a.worst[o]);
    }
    for (int r = 0; r <= REG_NONE; ++r)
      T.regions[r] += a.regions[r];
    for (int k = 0; k < 5; ++k)
      T.kinds[k] += a.kinds[k];
  }
  R.evaluations = T.evals;
  R.nontrivial = T.nontrivial;
  R.set("problems", (double)T.problems);
  R.set("problems_normal", (double)T.kinds[K_NORMAL]);
  R.set("problems_vacuum_generation", (double)T.kinds[K_VACGEN]);
  R.set("problems_left_vacuum", (double)T.kinds[K_VAC_LEFT]);
  R.set("problems_right_vacuum", (double)T.kinds[K_VAC_RIGHT]);
  R.set("guess_brackets_root_brent_first", (double)T.brent);
  R.set("guess_below_root_newton_first", (double)T.newton);
  R.set("samples_in_either_side_band", (double)T.either_side);
  R.set("narrow_regions_without_relation_checks", (double)T.skipped_narrow);
  R.set("aborts", (double)T.aborts);
  R.set("vacuum_limit_decided_differently_in_double", (double)T.limit_ties);
  R.set("continuity_pairs_skipped_coincident_waves", (double)T.crowded);
  R.set("problems_star_pressure_below_double_range", (double)T.underflow);
  R.set("solver_vacuum_boundaries_not_bracketed", (double)T.boundary_not_bracketed);
  for (int o = 0; o < O_COUNT; ++o) {
    R.set(std::string("checks_") + oname[o], (double)T.checks[o]);
    R.set(std::string("within_10x_of_tolerance_") + oname[o], (double)T.near[o]);
    R.set(std::string("worst_passing_ratio_") + oname[o], T.worst[o]);
  }
  for (int r = 0; r < REG_NONE; ++r)
    R.set(std::string("samples_in_") + region_name(r), (double)T.regions[r]);
  R.set("gammas", (double)gammas.size());
  R.set("state_pairs", (double)nstate);
  R.set("threads", (double)nthreads);
  return R.finish(A);
}
