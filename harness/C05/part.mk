# C05: flux symmetries of both real Riemann solvers (reference solver shared with C11)
$(eval $(call HARNESS,c05_riemann,$(V)/harness/C05/c05_riemann.cpp,plain,-O2 -fopenmp -fno-access-control -I$(V)/harness/C11,-lquadmath))
