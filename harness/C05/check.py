CHECK = {
    "id": "C05",
    "level": "exploration",
    "engine": "E3",
    "technique": "bounded-exhaustive enumeration of left/right states, velocities, adiabatic indices, face normals and "
                 "face velocities for both real Riemann solvers against symmetry relations, an independently coded "
                 "textbook HLLC flux, the analytic flux and the waves of an independent reference solution",
    "level_text": "The property quantifies over a continuum. The check calls the real ExactRiemannSolver and "
                  "HLLCRiemannSolver on the complete Cartesian product of a finite alphabet built from the anchored code: "
                  "density and pressure per side from {0, 1e-12, 1e-3, 1, 1e3, 1e9} (vacuum on either side, both sides, "
                  "pressureless and massless states), normal velocities in multiples of the local sound speed (0, +-0.5, "
                  "+-1, +-1.5, +-3; sonic and front ties), vacuum generation at (1-1e-9, 1, 1+1e-9, 1.2) x the limit in "
                  "five placements (gas at rest on either side, symmetric, either vacuum front on the face), the vacuum "
                  "front of a one-sided vacuum on the face +-1 ulp, tangential velocities, adiabatic indices from 1.0001 "
                  "to 2, seven face normals and face velocities. Oracles: swap + normal reversal negates the flux, Galilean "
                  "boost, identical states give the analytic flux, results finite / non-negative, HLLC = exact whenever "
                  "vacuum is involved, HLLC = textbook (Toro) HLLC in long double whenever the wave speed estimates are "
                  "ordered, no flux jump when the face speed crosses a wave, mirror states exchange no mass and no "
                  "energy. exhaustive=true refers to this alphabet; nothing is claimed between its points.",
    "level_note": "Tolerances are k*eps*(sum of magnitudes) with k=64 for closed-form paths and 8e-8 relative for the "
                  "iterative exact solver (its stated 1e-8 accuracy); where a comparison involves rounded inputs (boost, "
                  "long double textbook, moving face) the measured variation of the approximate solver's flux over one "
                  "rounding of its inputs is added, and the number of cases that needed it is reported. A pressureless "
                  "gas (rho>0, P=0) is vacuum by the code's definition; identical pressureless moving states are counted, "
                  "not flagged (--cold-gas strict flags them). At the exact vacuum limit the HLLC boost and HLLC=exact "
                  "claims are not made (branch decided by rounding).",
    "quick_deadline": 120,
    "thorough_deadline": 1150,
    "parts": [
        {"name": "lattice", "bin": "c05_riemann", "args": ["--family", "lattice"], "share": 0.40},
        {"name": "identical", "bin": "c05_riemann", "args": ["--family", "identical"], "share": 0.05},
        {"name": "mirror", "bin": "c05_riemann", "args": ["--family", "mirror"], "share": 0.05},
        {"name": "continuity", "bin": "c05_riemann", "args": ["--family", "continuity"], "share": 0.15},
        {"name": "sample", "bin": "c05_riemann", "args": ["--family", "sample"], "share": 0.35},
    ],
    "assumptions": [
        "ideal gas, adiabatic index in {1.0001, 1.4, 5/3, 2} (thorough adds 1.01, 1.1, 1.2)",
        "unit face normals (+-x, +-y, +-z and (1,2,2)/3); states outside the alphabet are not covered",
        "for adiabatic indices below 1.07 the vacuum generation specials at and just below the limit are run with a "
        "reduced set of orientations (the Brent iteration of the code runs to its 1e4 iteration bail-out there)",
    ],
}
