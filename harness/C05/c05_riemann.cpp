// C05: flux symmetries of both real Riemann solvers (ExactRiemannSolver,
// HLLCRiemannSolver) on a bounded-exhaustive lattice of left/right states
// (densities and pressures including exact 0), normal velocities in units of
// the local sound speed (incl. vacuum generation, ties and +-1 ulp around the
// code's own thresholds), tangential velocities, adiabatic indices, face
// normals and face velocities.
//
// Families (--family):
//   lattice     finite / swap+normal reversal / Galilean boost / HLLC = exact
//               when vacuum is involved / textbook (Toro) HLLC with the same
//               wave speed estimates
//   identical   two identical states give the analytic flux
//   mirror      mirror states approaching at < 1.5 a exchange no mass, no energy
//   continuity  no flux jump when a wave changes direction relative to the face
//   sample      ExactRiemannSolver::solve: finite, non-negative, covariant under
//               a boost of states and sampling speed, mirror symmetric
// See NOTES.md for alphabets, oracles and the derivation of the tolerances.
#include "ExactRiemannSolver.hpp"
#include "HLLCRiemannSolver.hpp"
#include "riemann_ref.hpp"
#include "verif_common.hpp"

#include <algorithm>
#include <cfloat>
#include <csetjmp>
#include <csignal>
#include <omp.h>

using namespace verif;
typedef long double LD;
typedef rref::Ref< LD > RefL;
static const double EPS = DBL_EPSILON;
static bool g_cold_strict = false;
static double g_near_dump = 0.; // debugging: print passing cases above this ratio

// ---------------------------------------------------------------------------
// abort interception (cmac_error -> abort)
static thread_local sigjmp_buf *tl_jmp = nullptr;
static void on_abort(int) {
  if (tl_jmp)
    siglongjmp(*tl_jmp, 1);
  signal(SIGABRT, SIG_DFL);
  raise(SIGABRT);
}
static void install_abort_trap() {
  struct sigaction sa;
  memset(&sa, 0, sizeof(sa));
  sa.sa_handler = on_abort;
  sa.sa_flags = SA_NODEFER;
  sigaction(SIGABRT, &sa, nullptr);
}

// ---------------------------------------------------------------------------
struct V3 {
  double x, y, z;
};
static inline V3 operator+(V3 a, V3 b) { return {a.x + b.x, a.y + b.y, a.z + b.z}; }
static inline V3 operator-(V3 a, V3 b) { return {a.x - b.x, a.y - b.y, a.z - b.z}; }
static inline V3 operator*(double s, V3 a) { return {s * a.x, s * a.y, s * a.z}; }
static inline double dot(V3 a, V3 b) { return a.x * b.x + a.y * b.y + a.z * b.z; }
static inline double norm(V3 a) { return std::sqrt(dot(a, a)); }
static inline CoordinateVector<> cv(V3 a) { return CoordinateVector<>(a.x, a.y, a.z); }

struct Case {
  double g;
  double rL;
  V3 uL;
  double pL;
  double rR;
  V3 uR;
  double pR;
  V3 n;
  V3 vf;
  V3 w;      // boost used by the boost oracle
  double xi; // sampling speed (family sample)
};
struct Flux {
  double m;
  V3 p;
  double E;
  bool aborted;
  double c(int i) const { return i == 0 ? m : i == 1 ? p.x : i == 2 ? p.y : i == 3 ? p.z : E; }
};
static const char *cname[5] = {"mass", "momentum-x", "momentum-y", "momentum-z", "energy"};

static Flux call(const RiemannSolver &S, double rL, V3 uL, double pL, double rR, V3 uR, double pR, V3 n,
                 V3 vf) {
  Flux f;
  f.m = f.E = 0.;
  f.p = {0., 0., 0.};
  f.aborted = false;
  sigjmp_buf jb;
  tl_jmp = &jb;
  if (sigsetjmp(jb, 0) == 0) {
    double m = 0., E = 0.;
    CoordinateVector<> p;
    S.solve_for_flux(rL, cv(uL), pL, rR, cv(uR), pR, m, p, E, cv(n), cv(vf));
    f.m = m;
    f.p = {p.x(), p.y(), p.z()};
    f.E = E;
  } else
    f.aborted = true;
  tl_jmp = nullptr;
  return f;
}
static Flux call(const RiemannSolver &S, const Case &c) {
  return call(S, c.rL, c.uL, c.pL, c.rR, c.uR, c.pR, c.n, c.vf);
}
static bool finite(const Flux &f) {
  return !f.aborted && std::isfinite(f.m) && std::isfinite(f.p.x) && std::isfinite(f.p.y) &&
         std::isfinite(f.p.z) && std::isfinite(f.E);
}
static std::string flux_text(const Flux &f) {
  if (f.aborted)
    return "(abort)";
  return fmt("(%.17g, [%.17g, %.17g, %.17g], %.17g)", f.m, f.p.x, f.p.y, f.p.z, f.E);
}
static std::string v3hex(V3 a) { return fmt("[\"%a\", \"%a\", \"%a\"]", a.x, a.y, a.z); }
static std::string case_json(const Case &c, const char *family, const char *solver, const char *oracle) {
  return fmt("{\"family\": \"%s\", \"solver\": \"%s\", \"oracle\": \"%s\", \"g\": \"%a\", \"rL\": \"%a\", "
             "\"uL\": %s, \"pL\": \"%a\", \"rR\": \"%a\", \"uR\": %s, \"pR\": \"%a\", \"n\": %s, \"vf\": %s, "
             "\"w\": %s, \"xi\": \"%a\"}",
             family, solver, oracle, c.g, c.rL, v3hex(c.uL).c_str(), c.pL, c.rR, v3hex(c.uR).c_str(), c.pR,
             v3hex(c.n).c_str(), v3hex(c.vf).c_str(), v3hex(c.w).c_str(), c.xi);
}
static std::string case_text(const Case &c) {
  return fmt("gamma=%.17g L=(%.17g, [%.17g, %.17g, %.17g], %.17g) R=(%.17g, [%.17g, %.17g, %.17g], %.17g) "
             "n=[%.17g, %.17g, %.17g] vface=[%.17g, %.17g, %.17g]",
             c.g, c.rL, c.uL.x, c.uL.y, c.uL.z, c.pL, c.rR, c.uR.x, c.uR.y, c.uR.z, c.pR, c.n.x, c.n.y,
             c.n.z, c.vf.x, c.vf.y, c.vf.z);
}

// ---------------------------------------------------------------------------
// face-frame description of a case and its regime (names used in the keys)
struct Frame {
  bool vacL, vacR, coldL, coldR, masslessL, masslessR;
  double aL, aR, vL, vR; // sound speeds, normal velocities relative to the face
  double lim;            // 2/(g-1) (aL+aR)
  int vac;               // 0 none, 1 generation, 2 tie, 3 right, 4 left, 5 both
  bool moving;
  bool front_at_face;
};
static Frame frame_of(const Case &c) {
  Frame f;
  f.vacL = c.rL == 0. || c.pL == 0.;
  f.vacR = c.rR == 0. || c.pR == 0.;
  f.coldL = c.rL > 0. && c.pL == 0.;
  f.coldR = c.rR > 0. && c.pR == 0.;
  f.masslessL = c.rL == 0. && c.pL > 0.;
  f.masslessR = c.rR == 0. && c.pR > 0.;
  f.aL = f.vacL ? 0. : std::sqrt(c.g * c.pL / c.rL);
  f.aR = f.vacR ? 0. : std::sqrt(c.g * c.pR / c.rR);
  f.vL = dot(c.uL - c.vf, c.n);
  f.vR = dot(c.uR - c.vf, c.n);
  const double tdgm1 = 2. / (c.g - 1.);
  f.lim = tdgm1 * (f.aL + f.aR);
  const double dv = f.vR - f.vL;
  const double band = 16. * EPS * (f.lim + std::fabs(f.vL) + std::fabs(f.vR));
  f.front_at_face = false;
  if (f.vacL && f.vacR) {
    f.vac = 5;
    f.moving = false;
  } else if (f.vacR) {
    f.vac = 3;
    f.moving = f.vL != 0.;
    f.front_at_face = std::fabs(f.vL + tdgm1 * f.aL) <= 128. * EPS * (std::fabs(f.vL) + tdgm1 * f.aL);
  } else if (f.vacL) {
    f.vac = 4;
    f.moving = f.vR != 0.;
    f.front_at_face = std::fabs(f.vR - tdgm1 * f.aR) <= 128. * EPS * (std::fabs(f.vR) + tdgm1 * f.aR);
  } else {
    f.moving = f.vL != 0. || f.vR != 0.;
    if (dv > f.lim + band)
      f.vac = 1;
    else if (dv >= f.lim - band)
      f.vac = 2;
    else
      f.vac = 0;
    if (f.vac) {
      f.front_at_face =
          std::fabs(f.vL + tdgm1 * f.aL) <= 128. * EPS * (std::fabs(f.vL) + tdgm1 * f.aL) ||
          std::fabs(f.vR - tdgm1 * f.aR) <= 128. * EPS * (std::fabs(f.vR) + tdgm1 * f.aR);
    }
  }
  return f;
}
static std::string vac_name(const Frame &f) {
  static const char *n[] = {"no-vacuum",    "generated-vacuum", "limit-vacuum",
                            "right-vacuum", "left-vacuum",      "both-vacuum"};
  return n[f.vac];
}
/// regime of a case: kind of vacuum, whether the gas next to it moves relative
/// to the face, degenerate inputs
static std::string regime_name(const Frame &f) {
  std::string s = vac_name(f);
  if (f.vac >= 1 && f.vac <= 4)
    s += f.moving ? "-moving-gas" : "-gas-at-rest";
  return s;
}

/// sum of magnitudes of the terms of the three kinds of flux components in
/// the fixed frame (mass, momentum, energy); extra = additional frame speed
struct Scale {
  double m, p, E;
  double c(int i) const { return i == 0 ? m : i == 4 ? E : p; }
};
static Scale flux_scale(const Case &c, const Frame &f, double extra) {
  const double sL = norm(c.uL - c.vf), sR = norm(c.uR - c.vf);
  const double V = sL + sR + f.aL + f.aR;
  const double C = (c.g + 1.) / (c.g - 1.); // strongest compression
  const double D = (c.rL + c.rR) * C;
  const double Pm = c.pL + c.pR + D * V * V;
  Scale s;
  s.m = D * V;
  s.p = Pm;
  s.E = (0.5 * D * V * V + c.g / (c.g - 1.) * (c.pL + c.pR)) * V;
  const double W = norm(c.vf) + extra;
  s.E += W * s.p + W * W * s.m;
  s.p += W * s.m;
  return s;
}

// ---------------------------------------------------------------------------
// textbook HLLC (Toro 2009, section 10.4) with the pressure based wave speed
// estimates, in long double, with the sum of magnitudes of all terms
struct Textbook {
  LD F[5];
  LD mag[5];
  LD SL, SR, Sstar;
  bool ordered;
  int region; // -1 left state, 0 star, +1 right state
};
static Textbook textbook_hllc(const Case &c) {
  Textbook T;
  const LD g = c.g;
  const LD n[3] = {c.n.x, c.n.y, c.n.z}, vf[3] = {c.vf.x, c.vf.y, c.vf.z};
  const LD uL[3] = {(LD)c.uL.x - vf[0], (LD)c.uL.y - vf[1], (LD)c.uL.z - vf[2]};
  const LD uR[3] = {(LD)c.uR.x - vf[0], (LD)c.uR.y - vf[1], (LD)c.uR.z - vf[2]};
  const LD rL = c.rL, pL = c.pL, rR = c.rR, pR = c.pR;
  LD vL = 0, vR = 0, qL2 = 0, qR2 = 0, vf2 = 0;
  for (int i = 0; i < 3; ++i) {
    vL += uL[i] * n[i];
    vR += uR[i] * n[i];
    qL2 += uL[i] * uL[i];
    qR2 += uR[i] * uR[i];
    vf2 += vf[i] * vf[i];
  }
  const LD aL = sqrtl(g * pL / rL), aR = sqrtl(g * pR / rR);
  const LD ppv = 0.5L * (pL + pR) - 0.125L * (vR - vL) * (rL + rR) * (aL + aR);
  const LD ps = ppv > 0 ? ppv : 0;
  const LD qL = ps > pL ? sqrtl(1 + (g + 1) / (2 * g) * (ps / pL - 1)) : 1;
  const LD qR = ps > pR ? sqrtl(1 + (g + 1) / (2 * g) * (ps / pR - 1)) : 1;
  // S_K - v_K is kept as a quantity of its own (-aL qL, +aR qR): formed as a
  // difference it is absorbed when |v_K| >> a_K
  const LD dSL = -aL * qL, dSR = aR * qR;
  T.SL = vL + dSL;
  T.SR = vR + dSR;
  T.Sstar = (pR - pL + rL * vL * dSL - rR * vR * dSR) / (rL * dSL - rR * dSR);
  // strictly ordered: a contact speed that coincides with an outer wave
  // within rounding (k = 64) leaves no star region
  const LD otol = 64 * (LD)EPS * (fabsl(vL) + fabsl(dSL) + fabsl(vR) + fabsl(dSR));
  T.ordered = T.SL + otol < T.Sstar && T.Sstar < T.SR - otol;
  const bool left = T.Sstar >= 0;
  const LD rK = left ? rL : rR, pK = left ? pL : pR, vK = left ? vL : vR, SK = left ? T.SL : T.SR;
  const LD dSK = left ? dSL : dSR;
  const LD *uK = left ? uL : uR;
  const LD EK = pK / (g - 1) + 0.5L * rK * (left ? qL2 : qR2);
  LD U[5] = {rK, rK * uK[0], rK * uK[1], rK * uK[2], EK};
  LD F[5] = {rK * vK, rK * vK * uK[0] + pK * n[0], rK * vK * uK[1] + pK * n[1],
             rK * vK * uK[2] + pK * n[2], (EK + pK) * vK};
  LD mag[5] = {fabsl(F[0]), fabsl(rK * vK * uK[0]) + fabsl(pK * n[0]),
               fabsl(rK * vK * uK[1]) + fabsl(pK * n[1]), fabsl(rK * vK * uK[2]) + fabsl(pK * n[2]),
               (EK + pK) * fabsl(vK)};
  const bool star = left ? T.SL < 0 : T.SR > 0;
  T.region = star ? 0 : (left ? -1 : 1);
  if (star) {
    const LD fac = dSK / (SK - T.Sstar);
    const LD d = T.Sstar - vK;
    LD Us[5] = {rK * fac, rK * fac * (uK[0] + d * n[0]), rK * fac * (uK[1] + d * n[1]),
                rK * fac * (uK[2] + d * n[2]),
                rK * fac * (EK / rK + d * (T.Sstar + pK / (rK * dSK)))};
    LD Um[5] = {fabsl(Us[0]), fabsl(rK * fac) * (fabsl(uK[0]) + fabsl(d * n[0])),
                fabsl(rK * fac) * (fabsl(uK[1]) + fabsl(d * n[1])),
                fabsl(rK * fac) * (fabsl(uK[2]) + fabsl(d * n[2])),
                fabsl(rK * fac) * (EK / rK + fabsl(d) * (fabsl(T.Sstar) + fabsl(pK / (rK * dSK))))};
    for (int i = 0; i < 5; ++i) {
      F[i] += SK * (Us[i] - U[i]);
      mag[i] += fabsl(SK) * (Um[i] + fabsl(U[i]));
    }
  }
  // to the fixed frame
  LD vfp = 0, vfpm = 0;
  for (int i = 0; i < 3; ++i) {
    vfp += vf[i] * F[1 + i];
    vfpm += fabsl(vf[i]) * mag[1 + i];
  }
  T.F[0] = F[0];
  T.mag[0] = mag[0];
  for (int i = 0; i < 3; ++i) {
    T.F[1 + i] = F[1 + i] + F[0] * vf[i];
    T.mag[1 + i] = mag[1 + i] + mag[0] * fabsl(vf[i]);
  }
  T.F[4] = F[4] + vfp + 0.5L * vf2 * F[0];
  T.mag[4] = mag[4] + vfpm + 0.5L * vf2 * mag[0];
  return T;
}
static const char *hllc_region_name(int r) {
  return r == 0 ? "hllc-star-state" : r < 0 ? "hllc-left-state" : "hllc-right-state";
}
/// the wave speed estimates of the approximate solver evaluated with the
/// code's own double expressions (HLLCRiemannSolver.hpp:414-445): which state
/// its flux is built from and whether the estimates are ordered
struct CodeBranch {
  int region; // -1 left state, 0 star state, +1 right state
  bool ordered;
};
static CodeBranch hllc_code_branch(const HLLCRiemannSolver &S, const Case &c) {
  const double rhoLinv = 1. / (c.rL + DBL_MIN), rhoRinv = 1. / (c.rR + DBL_MIN);
  const double PLinv = 1. / (c.pL + DBL_MIN), PRinv = 1. / (c.pR + DBL_MIN);
  const CoordinateVector<> uLf = cv(c.uL) - cv(c.vf), uRf = cv(c.uR) - cv(c.vf);
  const double vL = CoordinateVector<>::dot_product(uLf, cv(c.n));
  const double vR = CoordinateVector<>::dot_product(uRf, cv(c.n));
  const double aL = std::sqrt(S._gamma * c.pL * rhoLinv), aR = std::sqrt(S._gamma * c.pR * rhoRinv);
  const double vdiff = vR - vL, abar = aL + aR;
  const double rhobar = c.rL + c.rR, Pbar = c.pL + c.pR;
  const double pPVRS = 0.5 * (Pbar - 0.25 * vdiff * rhobar * abar);
  const double pstar = std::max(0., pPVRS);
  double qL = 1., qR = 1.;
  if (pstar > c.pL)
    qL = std::sqrt(1. + S._gp1d2g * (pstar * PLinv - 1.));
  if (pstar > c.pR)
    qR = std::sqrt(1. + S._gp1d2g * (pstar * PRinv - 1.));
  const double SLmvL = -aL * qL, SRmvR = aR * qR;
  const double Pdiff = c.pR - c.pL;
  const double rhovSdiff = c.rL * vL * SLmvL - c.rR * vR * SRmvR;
  const double rhoSdiff = c.rL * SLmvL - c.rR * SRmvR;
  const double Sstar = (Pdiff + rhovSdiff) / (rhoSdiff + DBL_MIN);
  const double SL = SLmvL + vL, SR = SRmvR + vR;
  CodeBranch b;
  if (Sstar >= 0.)
    b.region = SL < 0. ? 0 : -1;
  else
    b.region = SR > 0. ? 0 : 1;
  const double otol = 64. * EPS * (std::fabs(vL) + std::fabs(SLmvL) + std::fabs(vR) + std::fabs(SRmvR));
  b.ordered = SL + otol < Sstar && Sstar < SR - otol;
  return b;
}
/// (ordered only if both the code's double values and the long double
/// evaluation say so: where the contact speed is a difference of cancelling
/// terms its sign is rounding noise)
static std::string hllc_sub(const CodeBranch &b, const Textbook &T, const CodeBranch *other = nullptr) {
  if (!(b.ordered && T.ordered))
    return "hllc-unordered-speeds";
  // next to SL = 0 / SR = 0 the code, the long double evaluation and the
  // second call of a pair may take different branches: the star state is
  // involved as soon as one of them uses it
  if (b.region == 0 || T.region == 0 || (other && other->region == 0))
    return hllc_region_name(0);
  return hllc_region_name(b.region);
}
/// does the approximate solver take its non-vacuum branch?  (its own test,
/// evaluated with the same double expressions)
static bool hllc_takes_wave_branch(const HLLCRiemannSolver &S, const Case &c) {
  if (c.rL == 0. || c.pL == 0. || c.rR == 0. || c.pR == 0.)
    return false;
  const CoordinateVector<> uLf = cv(c.uL) - cv(c.vf), uRf = cv(c.uR) - cv(c.vf);
  const double vL = CoordinateVector<>::dot_product(uLf, cv(c.n));
  const double vR = CoordinateVector<>::dot_product(uRf, cv(c.n));
  const double aL = std::sqrt(S._gamma * c.pL * (1. / (c.rL + DBL_MIN)));
  const double aR = std::sqrt(S._gamma * c.pR * (1. / (c.rR + DBL_MIN)));
  return !(S._tdgm1 * (aL + aR) <= vR - vL);
}

// ---------------------------------------------------------------------------
// per-thread accumulation
enum { O_FINITE = 0, O_SWAP, O_BOOST, O_VACEQ, O_TEXTBOOK, O_IDENT, O_MIRROR, O_CONT, O_SAMPLE, O_COUNT };
static const char *oname[O_COUNT] = {"finite", "swap",   "boost",      "hllc-equals-exact", "textbook-hllc",
                                     "identical", "mirror", "continuity", "sample"};
struct Acc {
  uint64_t calls = 0, cases = 0, nontrivial = 0, aborts = 0, dups = 0, boost_ties_skipped = 0;
  std::set< std::string > seen; // keys this thread has reported already
  uint64_t checks[O_COUNT] = {0}, near[O_COUNT] = {0};
  double worst[O_COUNT] = {0};
  uint64_t regimes[6] = {0};
  uint64_t cont_unresolved = 0, sample_rescued = 0, rescued_cont = 0;
  uint64_t cold_moving = 0, reduced = 0, rescued_boost = 0, rescued_textbook = 0;
  uint64_t unordered = 0, ties_skipped = 0, hllc_regions[3] = {0}, cont_waves = 0, sample_near_disc = 0;
  void note(int o, double ratio) {
    ++checks[o];
    if (ratio > 0.1 && ratio <= 1.)
      ++near[o];
    if (ratio > worst[o] && ratio <= 1.)
      worst[o] = ratio;
  }
};
struct Ctx {
  Result *R;
  Acc *A;
  bool verbose;
  const ExactRiemannSolver *ex;
  const HLLCRiemannSolver *hl;
  const char *family;
};

// ---------------------------------------------------------------------------
/// compare a flux with expected components; returns the worst |diff|/tol
static double compare(const Flux &got, const double want[5], const double tol[5], int &wi) {
  double worst = 0.;
  wi = 0;
  for (int i = 0; i < 5; ++i) {
    const double d = std::fabs(got.c(i) - want[i]);
    if (d == 0.)
      continue;
    const double r = tol[i] > 0. ? d / tol[i] : 1e300;
    if (r > worst) {
      worst = r;
      wi = i;
    }
  }
  return worst;
}
/// only the first violation of a key per thread is formatted and handed to
/// the (locked) result; the others are counted
static bool fresh(Ctx &X, const std::string &key) {
  if (X.A->seen.insert(key).second)
    return true;
  ++X.A->dups;
  return false;
}
template < class F >
static void report(Ctx &X, const Case &c, const char *solver, int oracle, const std::string &regime,
                   F detail) {
  const std::string key = std::string("C05:") + solver + ":" + oname[oracle] + ":" + regime;
  if (fresh(X, key))
    X.R->violation(key, case_text(c) + " :: " + detail(), case_json(c, X.family, solver, oname[oracle]));
}
/// is the face (or the sampling speed, as face velocity) within rounding of
/// a point where the density of the exact solution reaches zero: a vacuum
/// front, or the tails/contact of a star region whose sound speed is below
/// the rounding of the fan formulae (a* < 64 eps a_K)?  extra = additional
/// rounding of the speeds (boosted calls)
static bool near_vacuum_front(const Case &c, const Frame &f, double extra) {
  if (f.front_at_face)
    return true;
  if (f.vacL && f.vacR)
    return false;
  RefL ref;
  ref.setup((LD)c.g, (LD)(f.vacL ? 0. : c.rL), (LD)f.vL, (LD)(f.vacL ? 0. : c.pL),
            (LD)(f.vacR ? 0. : c.rR), (LD)f.vR, (LD)(f.vacR ? 0. : c.pR));
  const bool empty_star = ref.kind == rref::K_NORMAL && ((double)(ref.astar[0] / ref.a[0]) < 64. * EPS ||
                                                         (double)(ref.astar[1] / ref.a[1]) < 64. * EPS);
  const double band = 128. * EPS * (std::fabs(f.vL) + std::fabs(f.vR) + 2. / (c.g - 1.) * (f.aL + f.aR) +
                                    norm(c.uL) + norm(c.uR) + norm(c.vf) + extra);
  for (const auto &w : ref.waves())
    if ((w.type == rref::W_FRONT ||
         (empty_star && (w.type == rref::W_TAIL || w.type == rref::W_CONTACT))) &&
        std::fabs((double)w.speed) <= band)
      return true;
  // a fan that reaches its (virtual) vacuum front within the rounding of the
  // speeds: two sides on very different velocity scales just below the limit
  if (ref.kind == rref::K_NORMAL)
    for (int k = 0; k < 2; ++k)
      if (!ref.shock[k] && std::fabs((double)(ref.tail[k] - ref.front[k])) <= band &&
          std::fabs((double)ref.front[k]) <= band)
        return true;
  return false;
}
static void report_nonfinite(Ctx &X, const Case &c, const char *solver, const Frame &f, const char *which,
                             const Flux &F) {
  if (F.aborted)
    ++X.A->aborts;
  const std::string key = std::string("C05:") + solver + ":nonfinite:" + vac_name(f) +
                          (near_vacuum_front(c, f, norm(c.w)) ? ":at-vacuum-front" : "");
  if (fresh(X, key))
    X.R->violation(key, case_text(c) + " :: " + which + " flux " + flux_text(F),
                   case_json(c, X.family, solver, "finite"));
}
/// relative tolerance of a solver in a regime (see NOTES.md)
static double rel_tol(bool exact, const Frame &f, double g) {
  if (f.vac == 0 || f.vac == 2)
    return exact ? 8e-8 : 64. * EPS * (f.vac == 2 ? 1. + 2. * g / (g - 1.) : 1.);
  return 64. * EPS * (1. + 2. * g / (g - 1.));
}

/// Variation of the approximate solver's flux when its inputs move by their
/// own rounding (normal velocities by eta, densities and pressures by 4 eps
/// relative).  The pressure estimate 1/2 (PL+PR) - 1/8 (vR-vL)(rhoL+rhoR)(aL+aR)
/// couples both sides: for extreme contrasts, and at ties where it equals a
/// side's pressure, one ulp of an input moves the wave speeds visibly.  A
/// comparison that involves rounded inputs (boost) or another arithmetic
/// (textbook in long double) cannot be sharper than this variation.
static void hllc_sensitivity(Ctx &X, const Case &c, const Flux &F0, double eta, double var[5]) {
  for (int i = 0; i < 5; ++i)
    var[i] = 0.;
  for (int k = 0; k < 12; ++k) {
    Case d = c;
    const double sg = (k & 1) ? 1. : -1.;
    switch (k / 2) {
    case 0:
      d.uL = c.uL + (sg * eta) * c.n;
      break;
    case 1:
      d.uR = c.uR + (sg * eta) * c.n;
      break;
    case 2:
      d.pL = c.pL * (1. + sg * 4. * EPS);
      break;
    case 3:
      d.pR = c.pR * (1. + sg * 4. * EPS);
      break;
    case 4:
      d.rL = c.rL * (1. + sg * 4. * EPS);
      break;
    default:
      d.rR = c.rR * (1. + sg * 4. * EPS);
    }
    const Flux G = call(*X.hl, d);
    ++X.A->calls;
    if (!finite(G))
      continue;
    for (int i = 0; i < 5; ++i)
      var[i] = std::max(var[i], std::fabs(G.c(i) - F0.c(i)));
  }
}

static void check_lattice_case(Ctx &X, const Case &c) {
  Acc &A = *X.A;
  const Frame f = frame_of(c);
  ++A.cases;
  ++A.regimes[f.vac];
  if (!(f.vacL && f.vacR))
    ++A.nontrivial;
  const std::string reg = regime_name(f);
  Textbook T;
  T.region = 0;
  T.ordered = false;
  // at the vacuum limit the approximate solver's own test decides its branch
  const bool hllc_waves = f.vac == 0 || (f.vac == 2 && hllc_takes_wave_branch(*X.hl, c));
  CodeBranch B = {0, false};
  if (hllc_waves) {
    T = textbook_hllc(c);
    B = hllc_code_branch(*X.hl, c);
    ++A.hllc_regions[B.region + 1];
  }
  if (X.verbose) {
    printf("%s\n face frame: vL=%.17g vR=%.17g aL=%.17g aR=%.17g vacuum limit %.17g regime %s\n",
           case_text(c).c_str(), f.vL, f.vR, f.aL, f.aR, f.lim, reg.c_str());
    if (hllc_waves)
      printf(" textbook speeds SL=%.17Lg S*=%.17Lg SR=%.17Lg ordered=%d region %s; code (double): ordered=%d "
             "region %s\n",
             T.SL, T.Sstar, T.SR, (int)T.ordered, hllc_region_name(T.region), (int)B.ordered,
             hllc_region_name(B.region));
  }
  Flux Fsolver[2];
  bool okf[2] = {false, false};
  for (int is = 0; is < 2; ++is) {
    const bool exact = is == 0;
    const RiemannSolver &S = exact ? (const RiemannSolver &)*X.ex : (const RiemannSolver &)*X.hl;
    const char *sn = exact ? "exact" : "hllc";
    // name of the regime in the keys of this solver
    const std::string regs = (!exact && hllc_waves) ? "no-vacuum:" + hllc_sub(B, T) : reg;
    const Flux F = call(S, c);
    ++A.calls;
    Fsolver[is] = F;
    A.note(O_FINITE, finite(F) ? 0. : 2.);
    if (X.verbose)
      printf(" %-5s flux            %s\n", sn, flux_text(F).c_str());
    if (!finite(F)) {
      report_nonfinite(X, c, sn, f, "direct", F);
      continue;
    }
    okf[is] = true;
    const double rel = rel_tol(exact, f, c.g);
    // --- exchange of the states and reversal of the normal
    {
      const Flux G = call(S, c.rR, c.uR, c.pR, c.rL, c.uL, c.pL, -1. * c.n, c.vf);
      ++A.calls;
      if (!finite(G))
        report_nonfinite(X, c, sn, f, "swapped", G);
      else {
        const Scale s = flux_scale(c, f, 0.);
        double want[5], tol[5];
        for (int i = 0; i < 5; ++i) {
          want[i] = -F.c(i);
          tol[i] = rel * s.c(i);
        }
        int wi;
        const double r = compare(G, want, tol, wi);
        A.note(O_SWAP, r);
        if (g_near_dump > 0. && r > g_near_dump && r <= 1.)
          fprintf(stderr, "NEAR swap %s ratio %.3g comp %s :: %s\n", sn, r, cname[wi], case_text(c).c_str());
        if (X.verbose)
          printf(" %-5s swapped         %s ratio %.3g\n", sn, flux_text(G).c_str(), r);
        if (r > 1.) {
          std::string rg = regs;
          if (!exact && hllc_waves) {
            Case cs = c;
            std::swap(cs.rL, cs.rR);
            std::swap(cs.uL, cs.uR);
            std::swap(cs.pL, cs.pR);
            cs.n = -1. * c.n;
            const CodeBranch B2 = hllc_code_branch(*X.hl, cs);
            rg = "no-vacuum:" + hllc_sub(B, T, &B2);
          }
          report(X, c, sn, O_SWAP, rg,
                 [&]() { return fmt("flux %s, swapped+reversed %s: %s sum %.6g tolerance %.3g", flux_text(F).c_str(),
                     flux_text(G).c_str(), cname[wi], G.c(wi) + F.c(wi), tol[wi]); });
        }
      }
    }
    // --- Galilean boost of both states and the face.  At the vacuum limit
    // the boost moves the velocity difference by rounding and the approximate
    // solver switches between its wave model and the exact vacuum solution,
    // which do not join continuously: no claim there.
    if (!exact && f.vac == 2)
      ++A.boost_ties_skipped;
    else {
      const Flux G = call(S, c.rL, c.uL + c.w, c.pL, c.rR, c.uR + c.w, c.pR, c.n, c.vf + c.w);
      ++A.calls;
      if (!finite(G))
        report_nonfinite(X, c, sn, f, "boosted", G);
      else {
        const double wn = norm(c.w);
        const Scale s = flux_scale(c, f, wn);
        const double want[5] = {F.m, F.p.x + F.m * c.w.x, F.p.y + F.m * c.w.y, F.p.z + F.m * c.w.z,
                                F.E + dot(c.w, F.p) + 0.5 * wn * wn * F.m};
        double tol[5];
        for (int i = 0; i < 5; ++i)
          tol[i] = rel * s.c(i);
        int wi;
        double r = compare(G, want, tol, wi);
        if (r > 1. && !exact && hllc_waves) {
          // inputs of the boosted call are rounded: allow the flux variation
          // over that rounding (see hllc_sensitivity)
          double var[5];
          hllc_sensitivity(X, c, F, 8. * EPS * (norm(c.uL) + norm(c.uR) + norm(c.vf) + wn), var);
          const double wv[3] = {c.w.x, c.w.y, c.w.z};
          double vp = 0.;
          for (int i = 0; i < 3; ++i)
            vp += std::fabs(wv[i]) * var[1 + i];
          tol[0] += 2. * var[0];
          for (int i = 0; i < 3; ++i)
            tol[1 + i] += 2. * (var[1 + i] + std::fabs(wv[i]) * var[0]);
          tol[4] += 2. * (var[4] + vp + 0.5 * wn * wn * var[0]);
          r = compare(G, want, tol, wi);
          if (r <= 1.)
            ++A.rescued_boost;
        }
        A.note(O_BOOST, r);
        if (X.verbose)
          printf(" %-5s boosted         %s ratio %.3g\n", sn, flux_text(G).c_str(), r);
        if (r > 1.) {
          std::string rg = regs;
          if (!exact && hllc_waves) {
            Case cb = c;
            cb.uL = c.uL + c.w;
            cb.uR = c.uR + c.w;
            cb.vf = c.vf + c.w;
            const CodeBranch B2 = hllc_code_branch(*X.hl, cb);
            rg = "no-vacuum:" + hllc_sub(B, T, &B2);
          }
          report(X, c, sn, O_BOOST, rg,
                 [&]() { return fmt("flux %s, boosted by [%.17g, %.17g, %.17g] %s: %s differs from the transformed flux "
                     "by %.6g, tolerance %.3g",
                     flux_text(F).c_str(), c.w.x, c.w.y, c.w.z, flux_text(G).c_str(), cname[wi],
                     G.c(wi) - want[wi], tol[wi]); });
        }
      }
    }
  }
  // --- vacuum involved: the approximate solver returns the exact flux
  if (okf[0] && okf[1]) {
    if (f.vac == 2)
      ++A.ties_skipped;
    else if (f.vac != 0) {
      const Scale s = flux_scale(c, f, 0.);
      double want[5], tol[5];
      for (int i = 0; i < 5; ++i) {
        want[i] = Fsolver[0].c(i);
        tol[i] = 1e-12 * s.c(i);
      }
      int wi;
      const double r = compare(Fsolver[1], want, tol, wi);
      A.note(O_VACEQ, r);
      if (r > 1.)
        report(X, c, "hllc", O_VACEQ, reg,
               [&]() { return fmt("exact %s hllc %s: %s differs by %.6g, tolerance %.3g", flux_text(Fsolver[0]).c_str(),
                   flux_text(Fsolver[1]).c_str(), cname[wi], Fsolver[1].c(wi) - want[wi], tol[wi]); });
    }
  }
  // --- ordered wave speeds: textbook HLLC
  if (okf[1] && hllc_waves) {
    // the claim holds for ordered estimates: of the code (double) and of the
    // reference evaluation (long double)
    if (!T.ordered || !B.ordered)
      ++A.unordered;
    else {
      // k = 64 on the sum of the magnitudes of the terms of the textbook
      // formula, and on the global scale of the case: the normal velocities
      // are themselves projections (u - vface).n that carry the rounding of
      // the full velocity vectors
      const Scale s = flux_scale(c, f, 0.);
      double want[5], tol[5];
      for (int i = 0; i < 5; ++i) {
        want[i] = (double)T.F[i];
        tol[i] = 64. * EPS * std::max((double)T.mag[i], s.c(i));
      }
      int wi;
      double r = compare(Fsolver[1], want, tol, wi);
      if (r > 1.) {
        // double against long double: allow the variation of the code's flux
        // over one rounding of its inputs (see hllc_sensitivity)
        double var[5];
        hllc_sensitivity(X, c, Fsolver[1], 8. * EPS * (norm(c.uL) + norm(c.uR) + norm(c.vf)), var);
        for (int i = 0; i < 5; ++i)
          tol[i] += 2. * var[i];
        r = compare(Fsolver[1], want, tol, wi);
        if (r <= 1.)
          ++A.rescued_textbook;
      }
      A.note(O_TEXTBOOK, r);
      if (X.verbose)
        printf(" textbook HLLC         (%.17g, [%.17g, %.17g, %.17g], %.17g) ratio %.3g\n", want[0], want[1],
               want[2], want[3], want[4], r);
      if (r > 1.)
        report(X, c, "hllc", O_TEXTBOOK, "no-vacuum:" + hllc_sub(B, T),
               [&]() { return fmt("hllc %s textbook (%.17g, [%.17g, %.17g, %.17g], %.17g) with SL=%.17Lg S*=%.17Lg "
                   "SR=%.17Lg: %s differs by %.6g, tolerance %.3g",
                   flux_text(Fsolver[1]).c_str(), want[0], want[1], want[2], want[3], want[4], T.SL, T.Sstar,
                   T.SR, cname[wi], Fsolver[1].c(wi) - want[wi], tol[wi]); });
    }
  }
}

// ---------------------------------------------------------------------------
/// two identical states: analytic flux of that state through the moving face
static void check_identical_case(Ctx &X, const Case &c) {
  Acc &A = *X.A;
  const Frame f = frame_of(c);
  ++A.cases;
  ++A.regimes[f.vac];
  if (c.rL > 0.)
    ++A.nontrivial;
  const V3 u = c.uL - c.vf;
  const double v = dot(u, c.n);
  // a state without mass is vacuum whatever its pressure (ideal gas).  The
  // code under test also calls a pressureless gas (rho > 0, P = 0) vacuum; the
  // property speaks of "vacuum" without defining it, so by default the code's
  // notion is used (zero flux expected) and the cases whose advective flux
  // rho v would not be zero are only counted; --cold-gas strict turns them
  // into violations with their own key.
  const bool cold_as_vacuum = f.coldL && !g_cold_strict;
  if (f.coldL && dot(c.uL - c.vf, c.n) != 0.)
    ++A.cold_moving;
  const double r = cold_as_vacuum ? 0. : c.rL, p = c.rL > 0. ? c.pL : 0.;
  const double E = 0.5 * r * dot(u, u) + p / (c.g - 1.);
  const V3 pf = (r * v) * u + p * c.n;
  const double m = r * v, Ef = (E + p) * v;
  const double want[5] = {m, pf.x + m * c.vf.x, pf.y + m * c.vf.y, pf.z + m * c.vf.z,
                          Ef + dot(c.vf, pf) + 0.5 * dot(c.vf, c.vf) * m};
  const Scale s = flux_scale(c, f, 0.);
  std::string reg = vac_name(f);
  if (f.coldL)
    reg += ":cold-gas";
  if (f.masslessL)
    reg += ":massless-pressure";
  if (X.verbose)
    printf("%s\n analytic flux   (%.17g, [%.17g, %.17g, %.17g], %.17g)\n", case_text(c).c_str(), want[0],
           want[1], want[2], want[3], want[4]);
  for (int is = 0; is < 2; ++is) {
    const bool exact = is == 0;
    const RiemannSolver &S = exact ? (const RiemannSolver &)*X.ex : (const RiemannSolver &)*X.hl;
    const char *sn = exact ? "exact" : "hllc";
    const Flux F = call(S, c);
    ++A.calls;
    if (X.verbose)
      printf(" %-5s flux      %s\n", sn, flux_text(F).c_str());
    if (!finite(F)) {
      report_nonfinite(X, c, sn, f, "direct", F);
      continue;
    }
    double tol[5];
    for (int i = 0; i < 5; ++i)
      tol[i] = 64. * EPS * s.c(i);
    int wi;
    const double ratio = compare(F, want, tol, wi);
    A.note(O_IDENT, ratio);
    if (ratio > 1.)
      report(X, c, sn, O_IDENT, reg,
             [&]() { return fmt("flux %s, analytic (%.17g, [%.17g, %.17g, %.17g], %.17g): %s differs by %.6g, tolerance "
                 "%.3g",
                 flux_text(F).c_str(), want[0], want[1], want[2], want[3], want[4], cname[wi],
                 F.c(wi) - want[wi], tol[wi]); });
  }
}

/// mirror states approaching each other: no mass and no energy exchanged
static void check_mirror_case(Ctx &X, const Case &c) {
  Acc &A = *X.A;
  const Frame f = frame_of(c);
  ++A.cases;
  ++A.regimes[f.vac];
  ++A.nontrivial;
  const Scale s = flux_scale(c, f, 0.);
  const CodeBranch B = hllc_code_branch(*X.hl, c);
  const Textbook T = textbook_hllc(c);
  if (X.verbose)
    printf("%s\n face frame: vL=%.17g vR=%.17g aL=%.17g\n", case_text(c).c_str(), f.vL, f.vR, f.aL);
  for (int is = 0; is < 2; ++is) {
    const bool exact = is == 0;
    const RiemannSolver &S = exact ? (const RiemannSolver &)*X.ex : (const RiemannSolver &)*X.hl;
    const char *sn = exact ? "exact" : "hllc";
    const Flux F = call(S, c);
    ++A.calls;
    if (X.verbose)
      printf(" %-5s flux      %s\n", sn, flux_text(F).c_str());
    if (!finite(F)) {
      report_nonfinite(X, c, sn, f, "direct", F);
      continue;
    }
    const double rel = exact ? 8e-8 : 64. * EPS;
    const double r1 = std::fabs(F.m) / (rel * s.m), r2 = std::fabs(F.E) / (rel * s.E);
    const double ratio = std::max(r1, r2);
    A.note(O_MIRROR, ratio);
    if (ratio > 1.)
      report(X, c, sn, O_MIRROR,
             exact ? regime_name(f) : "no-vacuum:" + hllc_sub(B, T),
             [&]() { return fmt("flux %s: mass flux %.6g (tolerance %.3g), energy flux %.6g (tolerance %.3g)",
                 flux_text(F).c_str(), F.m, rel * s.m, F.E, rel * s.E); });
  }
}

// ---------------------------------------------------------------------------
// continuity of the flux when a wave changes direction relative to the face
//
// For a self-similar solution U(x/t) the flux through a face that moves with
// speed w along the normal is G(w) = F(U(w)) - w U(w) and dG/dw = -U(w): the
// fluxes at w = s -+ delta may differ by 2 delta |U| (k = 4 -> 8 delta |U|),
// plus the accuracy with which the solver knows its own states.
static void hllc_sensitivity(Ctx &X, const Case &c, const Flux &F0, double eta, double var[5]);
struct Mag { // magnitudes next to a wave: conserved state and flux, per kind
  double U[3], G[3]; // mass, momentum, energy
};
static Mag mag_of_state(double r, double v, double p, double t, double g, double speed) {
  Mag m;
  const double E = 0.5 * r * (v * v + t * t) + p / (g - 1.);
  const double a = r > 0. ? std::sqrt(g * p / r) : 0.;
  m.U[0] = r;
  m.U[1] = r * (std::fabs(v) + t);
  m.U[2] = E;
  // flux magnitudes in the frame of the moving face, where every normal
  // velocity is of the order q = |v| + |w| + a
  const double q = std::fabs(v) + std::fabs(speed) + a;
  m.G[0] = r * q;
  m.G[1] = r * q * (q + t) + p;
  m.G[2] = (0.5 * r * (q * q + t * t) + g / (g - 1.) * p) * q;
  return m;
}
static void check_wave_crossing(Ctx &X, const Case &c0, const Frame &f, bool exact, double s, double delta,
                                const Mag &left, const Mag &right, double noise, const double extra[3],
                                const std::string &regime, const char *wname) {
  Acc &A = *X.A;
  // absolute rounding of the velocities in the frame of the face (k = 64)
  const double vround = 64. * EPS * (std::fabs(s) + norm(c0.uL) + norm(c0.uR) + f.aL + f.aR);
  const RiemannSolver &S = exact ? (const RiemannSolver &)*X.ex : (const RiemannSolver &)*X.hl;
  const char *sn = exact ? "exact" : "hllc";
  Case c1 = c0, c2 = c0;
  c1.vf = c0.vf + (s - delta) * c0.n;
  c2.vf = c0.vf + (s + delta) * c0.n;
  const Flux Fa = call(S, c1), Fb = call(S, c2);
  A.calls += 2;
  ++A.cont_waves;
  if (!finite(Fa) || !finite(Fb)) {
    report_nonfinite(X, !finite(Fa) ? c1 : c2, sn, frame_of(!finite(Fa) ? c1 : c2), "direct",
                     !finite(Fa) ? Fa : Fb);
    return;
  }
  double worst = 0.;
  int wi = 0;
  double tolw = 0.;
  for (int i = 0; i < 5; ++i) {
    const int k = i == 0 ? 0 : i == 4 ? 2 : 1;
    // the fluxes are returned in the fixed frame: F_p + w F_m and
    // F_E + w F_p + 1/2 w^2 F_m carry the rounding of their largest term (k = 64)
    const double g0 = std::max(left.G[0], right.G[0]), g1 = std::max(left.G[1], right.G[1]);
    const double ws = std::fabs(s) + delta;
    const double deboost = 64. * EPS * (std::max(left.G[k], right.G[k]) +
                                        (k == 0 ? 0. : k == 1 ? ws * g0 : ws * g1 + ws * ws * g0));
    const double tol = (8. * delta + vround) * std::max(left.U[k], right.U[k]) +
                       noise * std::max(left.G[k], right.G[k]) + extra[k] + deboost;
    const double d = std::fabs(Fa.c(i) - Fb.c(i));
    const double r = d == 0. ? 0. : (tol > 0. ? d / tol : 1e300);
    if (r > worst) {
      worst = r;
      wi = i;
      tolw = tol;
    }
  }
  if (worst > 1. && !exact && (f.vac == 0)) {
    // the two calls see velocities that are rounded differences: allow the
    // variation of the approximate solver's flux over that rounding
    double va[5], vb[5];
    hllc_sensitivity(X, c1, Fa, vround / 8., va);
    hllc_sensitivity(X, c2, Fb, vround / 8., vb);
    worst = 0.;
    for (int i = 0; i < 5; ++i) {
      const int k = i == 0 ? 0 : i == 4 ? 2 : 1;
      const double g0 = std::max(left.G[0], right.G[0]), g1 = std::max(left.G[1], right.G[1]);
      const double ws = std::fabs(s) + delta;
      const double deboost = 64. * EPS * (std::max(left.G[k], right.G[k]) +
                                          (k == 0 ? 0. : k == 1 ? ws * g0 : ws * g1 + ws * ws * g0));
      const double tol = (8. * delta + vround) * std::max(left.U[k], right.U[k]) +
                         noise * std::max(left.G[k], right.G[k]) + extra[k] + deboost + 2. * (va[i] + vb[i]);
      const double d = std::fabs(Fa.c(i) - Fb.c(i));
      const double r = d == 0. ? 0. : (tol > 0. ? d / tol : 1e300);
      if (r > worst) {
        worst = r;
        wi = i;
        tolw = tol;
      }
    }
    if (worst <= 1.)
      ++A.rescued_cont;
  }
  A.note(O_CONT, worst);
  if (X.verbose)
    printf(" %-5s %-13s at %.17g +- %.3g: %s | %s ratio %.3g\n", sn, wname, s, delta, flux_text(Fa).c_str(),
           flux_text(Fb).c_str(), worst);
  if (worst > 1.)
    report(X, c1, sn, O_CONT, regime + ":" + wname, [&]() {
      return fmt("face speeds %.17g -+ %.3g along the normal: fluxes %s and %s: %s jumps by %.6g, allowed "
                 "%.3g",
                 s, delta, flux_text(Fa).c_str(), flux_text(Fb).c_str(), cname[wi], Fb.c(wi) - Fa.c(wi), tolw);
    });
}

/// magnitudes of the four states of the textbook HLLC fan (left, star-left,
/// star-right, right) for a face that moves with `speed`
static void hllc_mags(const Case &c, const Frame &f, const Textbook &T, double tL, double tR, double speed,
                      Mag out[4]) {
  for (int side = 0; side < 2; ++side) {
    const bool left = side == 0;
    const LD g = c.g;
    const LD rK = left ? c.rL : c.rR, pK = left ? c.pL : c.pR, vK = left ? f.vL : f.vR;
    const LD tK = left ? tL : tR, aK = left ? f.aL : f.aR;
    const LD SK = left ? T.SL : T.SR, dSK = SK - vK;
    const LD EK = pK / (g - 1) + 0.5L * rK * (vK * vK + tK * tK);
    const LD fac = dSK / (SK - T.Sstar), d = T.Sstar - vK;
    // star state: sums of the magnitudes of the terms of U*_K
    const LD rs = fabsl(rK * fac);
    const LD ms = rs * (fabsl(vK) + fabsl(d) + tK);
    const LD Es = rs * (EK / rK + fabsl(d) * (fabsl(T.Sstar) + fabsl(pK / (rK * dSK))));
    const LD ps = pK + fabsl(rK * dSK * d);
    Mag &K = out[left ? 0 : 3], &Ks = out[left ? 1 : 2];
    K = mag_of_state((double)rK, (double)vK, (double)pK, (double)tK, c.g, speed);
    K.U[2] = (double)EK;
    const LD q = fabsl(vK) + fabsl(d) + fabsl((LD)speed) + fabsl(dSK) + aK;
    Ks.U[0] = (double)rs;
    Ks.U[1] = (double)ms;
    Ks.U[2] = (double)Es;
    Ks.G[0] = (double)(rs * q);
    Ks.G[1] = (double)(rs * q * (q + tK) + ps);
    Ks.G[2] = (double)((Es + 0.5L * rs * q * q + g / (g - 1) * ps) * q);
  }
}

static void check_continuity_case(Ctx &X, const Case &c) {
  Acc &A = *X.A;
  const Frame f = frame_of(c);
  ++A.cases;
  ++A.regimes[f.vac];
  if (f.vac == 5)
    return;
  ++A.nontrivial;
  const double V = f.aL + f.aR + std::fabs(f.vL) + std::fabs(f.vR);
  if (!(V > 0.))
    return;
  // half width of the window around a wave: 1e-3 of the distance to the
  // nearest other wave and of the local sound speed (the two sides of a
  // problem may live on very different scales; inside a fan the state changes
  // by O(1) over one sound speed), skipped when that is not resolved by the
  // rounding of the speeds
  auto window = [&](const std::vector< double > &sp, size_t i, double alocal) {
    double gap = alocal;
    if (i > 0)
      gap = std::min(gap, sp[i] - sp[i - 1]);
    if (i + 1 < sp.size())
      gap = std::min(gap, sp[i + 1] - sp[i]);
    const double d = 1e-3 * gap;
    const double floor_d = 1e4 * EPS * (std::fabs(sp[i]) + V);
    return d >= floor_d ? d : -1.;
  };
  const V3 tLv = (c.uL - c.vf) - f.vL * c.n, tRv = (c.uR - c.vf) - f.vR * c.n;
  const double tL = norm(tLv), tR = norm(tRv);
  std::string reg = vac_name(f);
  if (f.vac >= 1 && f.vac <= 4)
    reg += "-moving-gas"; // at a wave crossing the gas always moves relative to the face
  if (X.verbose)
    printf("%s\n face frame: vL=%.17g vR=%.17g aL=%.17g aR=%.17g regime %s\n", case_text(c).c_str(), f.vL,
           f.vR, f.aL, f.aR, reg.c_str());
  // waves of the exact solution (also used by HLLC whenever vacuum is involved)
  RefL ref;
  ref.setup((LD)c.g, (LD)(f.vacL ? 0. : c.rL), (LD)f.vL, (LD)(f.vacL ? 0. : c.pL),
            (LD)(f.vacR ? 0. : c.rR), (LD)f.vR, (LD)(f.vacR ? 0. : c.pR));
  const std::vector< rref::Wave< LD > > waves = ref.waves();
  const double zero3[3] = {0., 0., 0.};
  for (int is = 0; is < 2; ++is) {
    const bool exact = is == 0;
    if (!exact && f.vac == 2)
      continue; // branch of the approximate solver not determined at the tie
    if (exact || f.vac != 0) {
      const bool iterative = exact && ref.kind == rref::K_NORMAL;
      const double noise = iterative ? 4e-7 : 1e-9 * (1. + 2. * c.g / (c.g - 1.));
      // the iterative solver knows p* to 1e-8 relative (k = 4) and u* only to
      // the propagated 1/2 (dDelta_L/dp + dDelta_R/dp) dp
      double dp = 0., du = 0.;
      if (iterative) {
        dp = 4e-8 * (double)ref.pstar;
        du = 0.5 * (double)(ref.ddelta(0, ref.ystar) + ref.ddelta(1, ref.ystar)) * dp;
        if (!std::isfinite(du) || !std::isfinite(dp)) // star pressure below the range
          du = dp = 0.;
      }
      std::vector< double > sp;
      for (const auto &w : waves)
        sp.push_back((double)w.speed);
      for (size_t iw = 0; iw < waves.size(); ++iw) {
        const auto &w = waves[iw];
        const double s = sp[iw];
        LD r1, v1, p1, r2, v2, p2;
        ref.state(w.left, (LD)s, r1, v1, p1);
        ref.state(w.right, (LD)s, r2, v2, p2);
        double alocal = f.aL + f.aR;
        if (r1 > 0)
          alocal = std::min(alocal, std::sqrt(c.g * (double)p1 / (double)r1));
        if (r2 > 0)
          alocal = std::min(alocal, std::sqrt(c.g * (double)p2 / (double)r2));
        const double delta = window(sp, iw, alocal);
        if (delta < 0.) {
          ++A.cont_unresolved;
          continue;
        }
        ref.state(w.left, (LD)(s - delta), r1, v1, p1);
        ref.state(w.right, (LD)(s + delta), r2, v2, p2);
        const Mag a = mag_of_state((double)r1, (double)v1, (double)p1,
                                   w.left <= rref::REG_LSTAR ? tL : tR, c.g, s);
        const Mag b = mag_of_state((double)r2, (double)v2, (double)p2,
                                   w.right <= rref::REG_LSTAR ? tL : tR, c.g, s);
        double extra[3] = {0., 0., 0.};
        if (iterative) {
          const double rm = std::max(a.U[0], b.U[0]), mm = std::max(a.U[1], b.U[1]);
          const double q = std::max(std::fabs((double)v1), std::fabs((double)v2)) + std::fabs(s);
          extra[0] = rm * du;
          extra[1] = (2. * mm + rm * std::fabs(s)) * du + dp;
          extra[2] = (std::max(a.U[2], b.U[2]) + std::max((double)p1, (double)p2) + mm * q) * du +
                     c.g / (c.g - 1.) * q * dp;
        }
        check_wave_crossing(X, c, f, exact, s, delta, a, b, noise, extra, reg, rref::wave_name(w.type));
      }
    } else {
      const Textbook T = textbook_hllc(c);
      if (!T.ordered) {
        ++A.unordered;
        continue;
      }
      const std::string r2 = reg + ":hllc-star-state";
      const std::vector< double > sp = {(double)T.SL, (double)T.Sstar, (double)T.SR};
      const double al[3] = {f.aL, std::min(f.aL, f.aR), f.aR};
      const char *wn[3] = {"left-wave", "contact", "right-wave"};
      for (size_t iw = 0; iw < 3; ++iw) {
        const double delta = window(sp, iw, al[iw]);
        if (delta < 0.) {
          ++A.cont_unresolved;
          continue;
        }
        Mag m[4];
        hllc_mags(c, f, T, tL, tR, sp[iw], m);
        const Mag a = m[iw], b = m[iw + 1];
        check_wave_crossing(X, c, f, false, sp[iw], delta, a, b, 1e-9, zero3, r2, wn[iw]);
      }
    }
  }
}

// ---------------------------------------------------------------------------
// ExactRiemannSolver::solve sampled at a speed: finite, non-negative, boost
// covariant, mirror symmetric (1D: x components of uL, uR, w; speed xi)
struct St {
  double r, u, p;
  int flag;
  bool aborted;
};
static St solve1d(const ExactRiemannSolver &S, double rL, double uL, double pL, double rR, double uR,
                  double pR, double xi) {
  St s = {0., 0., 0., 99, false};
  sigjmp_buf jb;
  tl_jmp = &jb;
  if (sigsetjmp(jb, 0) == 0) {
    double r, u, p;
    const int f = S.solve(rL, uL, pL, rR, uR, pR, r, u, p, xi);
    s.r = r;
    s.u = u;
    s.p = p;
    s.flag = f;
  } else
    s.aborted = true;
  tl_jmp = nullptr;
  return s;
}
static bool physical(const St &s) {
  return !s.aborted && std::isfinite(s.r) && std::isfinite(s.u) && std::isfinite(s.p) && s.r >= 0. &&
         s.p >= 0.;
}
static void check_sample_case(Ctx &X, const Case &c) {
  Acc &A = *X.A;
  Case cf = c; // frame of the sampling speed
  cf.vf = {c.xi, 0., 0.};
  cf.n = {1., 0., 0.};
  const Frame f = frame_of(cf);
  ++A.cases;
  ++A.regimes[f.vac];
  if (!(f.vacL && f.vacR))
    ++A.nontrivial;
  const std::string reg = regime_name(f);
  // in the boosted evaluation the gas next to a vacuum always moves
  std::string regb = reg;
  {
    const size_t q = regb.find("-gas-at-rest");
    if (q != std::string::npos)
      regb.replace(q, 12, "-moving-gas");
  }
  const ExactRiemannSolver &S = *X.ex;
  const double uL = c.uL.x, uR = c.uR.x, w = c.w.x;
  const St s0 = solve1d(S, c.rL, uL, c.pL, c.rR, uR, c.pR, c.xi);
  const St sb = solve1d(S, c.rL, uL + w, c.pL, c.rR, uR + w, c.pR, c.xi + w);
  const St sm = solve1d(S, c.rR, -uR, c.pR, c.rL, -uL, c.pL, -c.xi);
  A.calls += 3;
  if (X.verbose)
    printf("%s xi=%.17g w=%.17g regime %s\n direct   (%.17g, %.17g, %.17g) flag %d\n boosted  (%.17g, %.17g, "
           "%.17g) flag %d\n mirrored (%.17g, %.17g, %.17g) flag %d\n",
           case_text(c).c_str(), c.xi, w, reg.c_str(), s0.r, s0.u, s0.p, s0.flag, sb.r, sb.u, sb.p, sb.flag,
           sm.r, sm.u, sm.p, sm.flag);
  const St *all[3] = {&s0, &sb, &sm};
  const char *which[3] = {"direct", "boosted", "mirrored"};
  bool ok = true;
  for (int i = 0; i < 3; ++i) {
    A.note(O_FINITE, physical(*all[i]) ? 0. : 2.);
    if (!physical(*all[i])) {
      ok = false;
      if (all[i]->aborted)
        ++A.aborts;
      X.R->violation(std::string("C05:exact:sample-nonphysical:") + vac_name(f) +
                         (near_vacuum_front(cf, f, std::fabs(w)) ? ":at-vacuum-front" : ""),
                     case_text(c) + fmt(" xi=%.17g w=%.17g :: %s sample (%g, %g, %g)%s", c.xi, w, which[i],
                                        all[i]->r, all[i]->u, all[i]->p, all[i]->aborted ? " abort" : ""),
                     case_json(c, X.family, "exact", "sample"));
    }
  }
  if (!ok)
    return;
  // next to a shock or the contact the side is decided by rounding
  if (f.vac == 0 || f.vac == 2) {
    RefL ref;
    ref.setup((LD)c.g, (LD)c.rL, (LD)uL, (LD)c.pL, (LD)c.rR, (LD)uR, (LD)c.pR);
    const double band = 1e-6 * (f.aL + f.aR) + 64. * EPS * (std::fabs(c.xi) + std::fabs(w));
    for (const auto &wv : ref.waves())
      if ((wv.type == rref::W_SHOCK || wv.type == rref::W_CONTACT || f.vac == 2) &&
          std::fabs((double)wv.speed - c.xi) <= band) {
        ++A.sample_near_disc;
        return;
      }
  }
  const double floor_r = 1e-20 * (c.rL + c.rR), floor_p = 1e-20 * (c.pL + c.pR);
  const double Vs = f.aL + f.aR + std::fabs(f.vL) + std::fabs(f.vR) + std::fabs(w);
  for (int i = 1; i < 3; ++i) {
    const St &t = *all[i];
    const double uw = i == 1 ? s0.u + w : -s0.u;
    const int fw = i == 1 ? s0.flag : -s0.flag;
    const double tr = 1e-7 * std::max(s0.r, t.r) + floor_r, tp = 1e-7 * std::max(s0.p, t.p) + floor_p;
    const double tu = 1e-7 * Vs;
    double ratio = std::max(std::fabs(t.r - s0.r) / (tr + DBL_MIN), std::fabs(t.p - s0.p) / (tp + DBL_MIN));
    const bool empty = s0.r <= floor_r && t.r <= floor_r;
    if (!empty) {
      ratio = std::max(ratio, std::fabs(t.u - uw) / (tu + DBL_MIN));
      if (t.flag != fw)
        ratio = std::max(ratio, 2.);
    }
    if (ratio > 1. && i == 1) {
      // the boosted speeds are rounded sums: allow the variation of the
      // directly sampled state over that rounding of the sampling speed
      const double eta = 8. * EPS * (std::fabs(c.xi) + std::fabs(w) + std::fabs(uL) + std::fabs(uR));
      double vr = 0., vu = 0., vp = 0.;
      for (double sg : {-1., 1.}) {
        const St q = solve1d(S, c.rL, uL, c.pL, c.rR, uR, c.pR, c.xi + sg * eta);
        ++A.calls;
        if (!physical(q))
          continue;
        vr = std::max(vr, std::fabs(q.r - s0.r));
        vu = std::max(vu, std::fabs(q.u - s0.u));
        vp = std::max(vp, std::fabs(q.p - s0.p));
      }
      double r2 = std::max(std::fabs(t.r - s0.r) / (tr + 2. * vr + DBL_MIN),
                           std::fabs(t.p - s0.p) / (tp + 2. * vp + DBL_MIN));
      // (a vacuum sample carries no velocity)
      if (!empty && t.flag != 0 && s0.flag != 0)
        r2 = std::max(r2, std::fabs(t.u - uw) / (tu + 2. * vu + DBL_MIN));
      if (r2 <= 1. && (t.flag == fw || empty || vr > 0. || vp > 0.)) {
        ratio = r2;
        ++A.sample_rescued;
      }
    }
    A.note(O_SAMPLE, ratio);
    if (ratio > 1.)
      X.R->violation(std::string("C05:exact:sample-") + (i == 1 ? "boost" : "mirror") + ":" +
                         (i == 1 ? regb : reg),
                     case_text(c) + fmt(" xi=%.17g w=%.17g :: direct (%.17g, %.17g, %.17g) flag %d, %s "
                                        "(%.17g, %.17g, %.17g) flag %d, expected velocity %.17g",
                                        c.xi, w, s0.r, s0.u, s0.p, s0.flag, which[i], t.r, t.u, t.p, t.flag,
                                        uw),
                     case_json(c, X.family, "exact", i == 1 ? "sample-boost" : "sample-mirror"));
  }
}

// ---------------------------------------------------------------------------
// alphabets
struct Normal {
  V3 n, t;
};
static std::vector< Normal > normals() {
  const double o = 1. / 3.;
  return {{{1., 0., 0.}, {0., 1., 0.}},  {{-1., 0., 0.}, {0., 1., 0.}}, {{0., 1., 0.}, {0., 0., 1.}},
          {{0., -1., 0.}, {0., 0., 1.}}, {{0., 0., 1.}, {1., 0., 0.}},  {{0., 0., -1.}, {1., 0., 0.}},
          {{o, 2. * o, 2. * o}, {2. * o, -2. * o, o}}};
}
struct SideState {
  double r, p;
  bool gas() const { return r > 0. && p > 0.; }
};
/// pair of normal velocities; cls 1 marks the vacuum generation specials at
/// or just below the limit, for which the real exact solver iterates longest
struct VP {
  double first, second;
  int cls;
  bool operator<(const VP &o) const {
    return first < o.first || (first == o.first && second < o.second);
  }
  bool operator==(const VP &o) const { return first == o.first && second == o.second; }
};
/// adiabatic indices for which the star pressure just below the vacuum limit is
/// below the double range ((1e-9)^(2g/(g-1)) < DBL_MIN): there the Brent
/// iteration of the code under test runs to its 1e4 iteration bail-out (a few
/// ms per call), so those specials are enumerated with fewer orientations
static bool expensive_gamma(double g) { return g < 1.07; }

/// normal velocities of the two sides: multiples of the local sound speed,
/// vacuum generation at and around the limit, vacuum fronts on the face
static std::vector< VP > velocity_pairs(const ExactRiemannSolver &S, double g, SideState L, SideState R,
                                        const std::vector< double > &ks) {
  const double aL = L.gas() ? std::sqrt(g * L.p / L.r) : 0., aR = R.gas() ? std::sqrt(g * R.p / R.r) : 0.;
  const double Vs = aL + aR > 0. ? aL + aR : 1.;
  const double unL = aL > 0. ? aL : Vs, unR = aR > 0. ? aR : Vs;
  std::vector< VP > v;
  for (double kL : ks)
    for (double kR : ks)
      v.push_back({kL * unL, kR * unR, 0});
  const double t = S._tdgm1;
  auto around = [](double x) {
    return std::vector< double >{x, std::nextafter(x, -INFINITY), std::nextafter(x, INFINITY)};
  };
  if (L.gas() && !R.gas())
    for (double s : {-1., 1.})
      for (double x : around(s * t * aL))
        v.push_back({x, 0., 2});
  if (R.gas() && !L.gas())
    for (double s : {-1., 1.})
      for (double x : around(s * t * aR))
        v.push_back({0., x, 2});
  if (L.gas() && R.gas()) {
    const double lim = t * aL + t * aR;
    for (double fct : {1. - 1e-9, 1., 1. + 1e-9, 1.2}) {
      const double dv = lim * fct;
      const int cls = fct <= 1. ? 1 : 2;
      v.push_back({0., dv, cls});
      v.push_back({-0.5 * dv, 0.5 * dv, cls});
      v.push_back({-dv, 0., cls});
      v.push_back({-t * aL, dv - t * aL, cls}); // left front on the face
      v.push_back({t * aR - dv, t * aR, cls});  // right front on the face
    }
  }
  std::sort(v.begin(), v.end());
  v.erase(std::unique(v.begin(), v.end()), v.end());
  return v;
}

static V3 parse_v3(const std::string &text, const std::string &key) {
  const std::string a = replay_field(text, key);
  double v[3] = {0., 0., 0.};
  size_t pos = 0;
  for (int i = 0; i < 3; ++i) {
    const size_t q1 = a.find('"', pos);
    if (q1 == std::string::npos)
      break;
    const size_t q2 = a.find('"', q1 + 1);
    v[i] = strtod(a.substr(q1 + 1, q2 - q1 - 1).c_str(), nullptr);
    pos = q2 + 1;
  }
  return {v[0], v[1], v[2]};
}
static double parse_d(const std::string &text, const std::string &key) {
  return strtod(replay_field(text, key).c_str(), nullptr);
}

static void merge(Acc &T, const Acc &a) {
  T.calls += a.calls;
  T.cases += a.cases;
  T.nontrivial += a.nontrivial;
  T.aborts += a.aborts;
  T.unordered += a.unordered;
  T.dups += a.dups;
  T.boost_ties_skipped += a.boost_ties_skipped;
  T.cold_moving += a.cold_moving;
  T.reduced += a.reduced;
  T.cont_unresolved += a.cont_unresolved;
  T.rescued_cont += a.rescued_cont;
  T.sample_rescued += a.sample_rescued;
  T.rescued_boost += a.rescued_boost;
  T.rescued_textbook += a.rescued_textbook;
  T.ties_skipped += a.ties_skipped;
  T.cont_waves += a.cont_waves;
  T.sample_near_disc += a.sample_near_disc;
  for (int o = 0; o < O_COUNT; ++o) {
    T.checks[o] += a.checks[o];
    T.near[o] += a.near[o];
    T.worst[o] = std::max(T.worst[o], a.worst[o]);
  }
  for (int i = 0; i < 6; ++i)
    T.regimes[i] += a.regimes[i];
  for (int i = 0; i < 3; ++i)
    T.hllc_regions[i] += a.hllc_regions[i];
}

int main(int argc, char **argv) {
  Args A = parse_args(argc, argv);
  Result R(A);
  install_abort_trap();
  const std::string family = A.get("family", "lattice");
  g_cold_strict = A.get("cold-gas", "vacuum") == "strict";
  g_near_dump = atof(A.get("near-dump", "0").c_str());

  if (!A.replay.empty()) {
    const std::string text = read_file(A.replay);
    Case c;
    c.g = parse_d(text, "g");
    c.rL = parse_d(text, "rL");
    c.pL = parse_d(text, "pL");
    c.rR = parse_d(text, "rR");
    c.pR = parse_d(text, "pR");
    c.xi = parse_d(text, "xi");
    c.uL = parse_v3(text, "uL");
    c.uR = parse_v3(text, "uR");
    c.n = parse_v3(text, "n");
    c.vf = parse_v3(text, "vf");
    c.w = parse_v3(text, "w");
    const std::string fam = replay_field(text, "family");
    ExactRiemannSolver ex(c.g);
    HLLCRiemannSolver hl(c.g);
    Acc acc;
    Ctx X = {&R, &acc, true, &ex, &hl, fam.c_str()};
    printf("replay of family %s (violation reported for solver %s, oracle %s)\n", fam.c_str(),
           replay_field(text, "solver").c_str(), replay_field(text, "oracle").c_str());
    if (fam == "identical")
      check_identical_case(X, c);
    else if (fam == "mirror")
      check_mirror_case(X, c);
    else if (fam == "continuity") {
      // the reported case carries the face velocity of the crossing; the
      // family itself starts from a face at rest and visits every wave
      printf("reported crossing at face velocity [%.17g, %.17g, %.17g]\n", c.vf.x, c.vf.y, c.vf.z);
      c.vf = {0., 0., 0.};
      check_continuity_case(X, c);
    } else if (fam == "sample")
      check_sample_case(X, c);
    else
      check_lattice_case(X, c);
    R.evaluations = acc.calls;
    R.nontrivial = acc.nontrivial;
    return R.finish(A);
  }

  const bool th = A.thorough();
  std::vector< double > gammas = {1.0001, 1.4, 5. / 3., 2.};
  std::vector< double > ks = {0., 0.5, -0.5, 1., -1., 1.5, -1.5, 3., -3.};
  if (th) {
    gammas = {1.0001, 1.01, 1.1, 1.2, 1.4, 5. / 3., 2.};
    ks = {0., 0.25, -0.25, 0.5, -0.5, 1., -1., 1.5, -1.5, 2., -2., 3., -3., 6., -6.};
  }
  if (!A.get("gamma-list").empty()) { // experiments: --gamma-list 1.4,2
    gammas.clear();
    std::string gl = A.get("gamma-list");
    for (size_t p0 = 0; p0 < gl.size();) {
      size_t p1 = gl.find(',', p0);
      if (p1 == std::string::npos)
        p1 = gl.size();
      gammas.push_back(atof(gl.substr(p0, p1 - p0).c_str()));
      p0 = p1 + 1;
    }
    R.cap("restricted to the adiabatic indices given with --gamma-list");
  }
  const std::vector< double > vals = {0., 1e-12, 1e-3, 1., 1e3, 1e9};
  std::vector< SideState > side;
  for (double r : vals)
    for (double p : vals)
      side.push_back({r, p});
  const std::vector< Normal > nrm = normals();
  const double wpat[3][3] = {{0.75, -1.25, 0.5}, {-1.5, 0.25, 1.}, {0.5, 0.5, -2.}};
  const double *wp = wpat[((A.seed % 3) + 3) % 3];

  std::vector< ExactRiemannSolver * > exs;
  std::vector< HLLCRiemannSolver * > hls;
  for (double g : gammas) {
    exs.push_back(new ExactRiemannSolver(g));
    hls.push_back(new HLLCRiemannSolver(g));
  }

  // outer items: (gamma, left state, right state)
  struct Item {
    int ig, iL, iR;
  };
  std::vector< Item > items;
  const bool pairs = family == "lattice" || family == "continuity" || family == "sample";
  for (int ig = 0; ig < (int)gammas.size(); ++ig)
    for (int iL = 0; iL < (int)side.size(); ++iL) {
      if (!pairs) {
        items.push_back({ig, iL, iL});
        continue;
      }
      for (int iR = 0; iR < (int)side.size(); ++iR) {
        if (family == "continuity") {
          // gas or true vacuum only
          auto okside = [&](const SideState &s) { return s.gas() || (s.r == 0. && s.p == 0.); };
          if (!okside(side[iL]) || !okside(side[iR]))
            continue;
        }
        items.push_back({ig, iL, iR});
      }
    }
  const size_t nitems = items.size();
  const size_t rot = (size_t)(((A.seed % 1000003) + 1000003) % 1000003) * 7919u % nitems;

  const int nthreads = omp_get_max_threads();
  std::vector< Acc > accs(nthreads);
  bool stop = false;
  uint64_t done = 0;

#pragma omp parallel for schedule(dynamic, 1)
  for (size_t idx = 0; idx < nitems; ++idx) {
    if (stop)
      continue;
    if (R.out_of_time()) {
#pragma omp critical
      stop = true;
      continue;
    }
    Acc &acc = accs[omp_get_thread_num()];
    const Item it = items[(idx + rot) % nitems];
    const double g = gammas[it.ig];
    const SideState L = side[it.iL], Rs = side[it.iR];
    Ctx X = {&R, &acc, false, exs[it.ig], hls[it.ig], family.c_str()};
    const double aL = L.gas() ? std::sqrt(g * L.p / L.r) : 0., aR = Rs.gas() ? std::sqrt(g * Rs.p / Rs.r) : 0.;
    const double Vs = aL + aR > 0. ? aL + aR : 1.;
    Case c;
    c.g = g;
    c.rL = L.r;
    c.pL = L.p;
    c.rR = Rs.r;
    c.pR = Rs.p;
    c.xi = 0.;
    c.w = {wp[0] * Vs, wp[1] * Vs, wp[2] * Vs};
    const bool sample_it = omp_get_thread_num() < 3;
    if (family == "lattice") {
      const std::vector< VP > vps = velocity_pairs(*exs[it.ig], g, L, Rs, ks);
      for (const VP &vp : vps)
        for (int tc = 0; tc < 4; ++tc)
          for (size_t in = 0; in < nrm.size(); ++in)
            for (double fv : {0., 1., -1.}) {
              // quick tier: tangential velocity on (none, left, both), face
              // at rest or moving along +n; thorough: all 4 x 3
              if (!th && (tc == 2 || fv < 0.))
                continue;
              const Normal &N = nrm[in];
              if (vp.cls == 1 && expensive_gamma(g)) {
                // reduced orientation set (see expensive_gamma)
                const bool keep = th ? (tc == 0 && (in == 0 || in == 6) && fv >= 0.)
                                     : (tc == 0 && in == 0 && fv == 0.);
                if (!keep) {
                  ++acc.reduced;
                  continue;
                }
              }
              c.n = N.n;
              c.uL = vp.first * N.n + ((tc & 1) ? Vs : 0.) * N.t;
              c.uR = vp.second * N.n + ((tc & 2) ? Vs : 0.) * N.t;
              c.vf = (fv * Vs) * (N.n + 0.5 * N.t);
              check_lattice_case(X, c);
              if (sample_it && (acc.cases == 1000 || acc.cases == 500000))
                R.sample(case_json(c, "lattice", "both", "all"));
            }
    } else if (family == "identical") {
      std::vector< double > kk = ks;
      for (double s : {-1., 1.})
        for (double x : {s * exs[it.ig]->_tdgm1, std::nextafter(s * exs[it.ig]->_tdgm1, 0.),
                         std::nextafter(s * exs[it.ig]->_tdgm1, s * INFINITY)})
          kk.push_back(x);
      for (double k : kk)
        for (int tc = 0; tc < 2; ++tc)
          for (const Normal &N : nrm)
            for (double fv : {0., 1., -1.}) {
              c.n = N.n;
              c.uL = c.uR = (k * Vs) * N.n + (tc ? Vs : 0.) * N.t;
              c.vf = (fv * Vs) * (N.n + 0.5 * N.t);
              check_identical_case(X, c);
              if (sample_it && acc.cases == 100)
                R.sample(case_json(c, "identical", "both", "identical"));
            }
    } else if (family == "mirror") {
      if (!L.gas())
        continue;
      for (double k : {0., 1e-9, 0.25, 0.5, 1., 1.25, 1.5 * (1. - 1e-9)})
        for (int tc = 0; tc < 2; ++tc)
          for (const Normal &N : nrm)
            for (double fv : {0., 1.}) {
              c.n = N.n;
              c.uL = (k * aL) * N.n + (tc ? Vs : 0.) * N.t;
              c.uR = (-k * aL) * N.n + (tc ? Vs : 0.) * N.t;
              c.vf = (fv * 0.5 * Vs) * N.t;
              check_mirror_case(X, c);
              if (sample_it && acc.cases == 100)
                R.sample(case_json(c, "mirror", "both", "mirror"));
            }
    } else if (family == "continuity") {
      const std::vector< VP > vps = velocity_pairs(*exs[it.ig], g, L, Rs, ks);
      for (const VP &vp : vps)
        for (int tc = 0; tc < 2; ++tc)
          for (int in : {0, 6}) {
            if (vp.cls == 1 && expensive_gamma(g)) {
              ++acc.reduced;
              continue;
            }
            const Normal &N = nrm[in];
            c.n = N.n;
            c.uL = vp.first * N.n + (tc ? Vs : 0.) * N.t;
            c.uR = vp.second * N.n + (tc ? -0.5 * Vs : 0.) * N.t;
            c.vf = {0., 0., 0.};
            check_continuity_case(X, c);
            if (sample_it && acc.cases == 100)
              R.sample(case_json(c, "continuity", "both", "continuity"));
          }
    } else if (family == "sample") {
      const std::vector< VP > vps = velocity_pairs(*exs[it.ig], g, L, Rs, ks);
      c.n = {1., 0., 0.};
      c.vf = {0., 0., 0.};
      const double t = exs[it.ig]->_tdgm1;
      for (const VP &vp : vps) {
        c.uL = {vp.first, 0., 0.};
        c.uR = {vp.second, 0., 0.};
        std::vector< double > xis = {0., 0.3 * Vs, -0.3 * Vs, 1.7 * Vs, -1.7 * Vs};
        for (int sd = 0; sd < 2; ++sd) {
          if (!(sd ? Rs.gas() : L.gas()))
            continue;
          const double fr = sd ? vp.second - t * aR : vp.first + t * aL;
          xis.push_back(fr);
          xis.push_back(std::nextafter(fr, -INFINITY));
          xis.push_back(std::nextafter(fr, INFINITY));
        }
        std::sort(xis.begin(), xis.end());
        xis.erase(std::unique(xis.begin(), xis.end()), xis.end());
        for (double xi : xis)
          for (double wf : {1.3, -0.6}) {
            if (!th && wf < 0.)
              continue; // quick tier: one boost
            if (vp.cls == 1 && expensive_gamma(g) && !(xi == 0. && wf > 0.)) {
              ++acc.reduced;
              continue;
            }
            c.xi = xi;
            c.w = {wf * Vs, 0., 0.};
            check_sample_case(X, c);
            if (sample_it && acc.cases == 100)
              R.sample(case_json(c, "sample", "exact", "sample"));
          }
      }
    } else {
      fprintf(stderr, "unknown family %s\n", family.c_str());
      exit(2);
    }
#pragma omp atomic
    ++done;
  }
  if (stop)
    R.hit_deadline(fmt("family %s: %" PRIu64 " of %zu (gamma, state pair) blocks completed", family.c_str(),
                       done, nitems));

  Acc T;
  for (const Acc &a : accs)
    merge(T, a);
  R.evaluations = T.calls;
  R.nontrivial = T.nontrivial;
  R.violation_count += T.dups;
  R.rule =
      "family " + family +
      ": Cartesian product of the alphabets (gamma; density and pressure per side from {0, 1e-12, 1e-3, 1, 1e3, "
      "1e9}; normal velocities in units of the local sound speed, vacuum generation at (1-1e-9, 1, 1+1e-9, 1.2) "
      "x the limit in five placements, vacuum front on the face +-1 ulp; tangential velocities; 7 face normals; "
      "face velocities). evaluations = calls of the real solvers; a case is counted as non-trivial when at "
      "least one side carries gas (rho > 0 and P > 0), cases are distinct by construction (velocity lists are "
      "de-duplicated).";
  R.set("cases", (double)T.cases);
  R.set("aborts", (double)T.aborts);
  R.set("hllc_boost_checks_skipped_at_vacuum_limit_tie", (double)T.boost_ties_skipped);
  R.set("orientation_variants_not_run_for_near_limit_specials_gamma_below_1.07", (double)T.reduced);
  if (family == "identical")
    R.set("identical_pressureless_moving_states_treated_as_vacuum", (double)T.cold_moving);
  R.set("hllc_wave_speeds_not_ordered_skipped", (double)T.unordered);
  R.set("hllc_boost_passed_only_with_input_rounding_sensitivity", (double)T.rescued_boost);
  R.set("hllc_textbook_passed_only_with_input_rounding_sensitivity", (double)T.rescued_textbook);
  R.set("vacuum_limit_ties_without_hllc_equals_exact_claim", (double)T.ties_skipped);
  R.set("wave_crossings_checked", (double)T.cont_waves);
  R.set("wave_crossings_not_resolved_by_double_speeds_skipped", (double)T.cont_unresolved);
  R.set("hllc_crossings_passed_only_with_input_rounding_sensitivity", (double)T.rescued_cont);
  R.set("sample_comparisons_passed_only_with_speed_rounding_sensitivity", (double)T.sample_rescued);
  R.set("samples_next_to_discontinuity_not_compared", (double)T.sample_near_disc);
  static const char *rn[6] = {"no_vacuum", "vacuum_generation", "vacuum_limit_tie", "right_vacuum", "left_vacuum",
                              "both_vacuum"};
  for (int i = 0; i < 6; ++i)
    R.set(std::string("cases_") + rn[i], (double)T.regimes[i]);
  R.set("hllc_cases_left_state", (double)T.hllc_regions[0]);
  R.set("hllc_cases_star_state", (double)T.hllc_regions[1]);
  R.set("hllc_cases_right_state", (double)T.hllc_regions[2]);
  for (int o = 0; o < O_COUNT; ++o)
    if (T.checks[o]) {
      R.set(std::string("checks_") + oname[o], (double)T.checks[o]);
      R.set(std::string("within_10x_of_tolerance_") + oname[o], (double)T.near[o]);
      R.set(std::string("worst_passing_ratio_") + oname[o], T.worst[o]);
    }
  R.set("gammas", (double)gammas.size());
  R.set("threads", (double)nthreads);
  return R.finish(A);
}
