CHECK = {
    "id": "C04",
    "level": "exploration",
    "engine": "E3",
    "technique": "bounded-exhaustive enumeration of initial states x gamma x dt x layout x boundary mix x cell shape, "
                 "one real hydro step each through the real task functions, conserved totals / positivity oracle",
    "level_text": "Every assignment of a state alphabet (rest gas, dense cold, hot thin, supersonic +x/-x, near-vacuum "
                  "1e-30; on the 4-cell grid also Mach 1.1-1.6 +x/-x around the wall-Mach limit, a denormal state "
                  "rho = P = 1e-310 whose cell mass has no finite reciprocal, and exact vacuum) to the cells of 2x2x2, "
                  "4x2x1 and 4x1x1 grids is advanced by one step for gamma in {1.0001, 1.4, 5/3, 2}, dt in {0.1, 0.5, 1} x "
                  "the code's own stability limit, subgrid layouts with 1 or 2 subgrids per axis, the 8 periodic/reflective "
                  "boundary mixes plus one open mix, and cell aspects 1:1:1 and 1:2:4. 4x1x1: all 10^4 assignments; the denormal "
                  "and vacuum states enter the 8-cell grids as inclusions (single cells, slabs, a lone gas cell in emptiness, "
                  "next to rest / dense / supersonic gas); 8-cell "
                  "grids: one assignment per translation orbit, thorough five of the six states each (2x2x2 without -x, 4x2x1 "
                  "without hot thin; ~49 k assignments each), quick three-state sub-alphabets (891 / 834). The step runs through "
                  "make_hydro_tasks, set_dependencies, reset_hydro_tasks and execute_task of the real code in four "
                  "different dependency respecting sequential orders. The schedule dimension (thread interleavings of "
                  "the real loop) is not part of this harness; it is explored by the scheduler engine with the "
                  "observation functions of hydro_step_driver.hpp. Sequential numeric code over a continuum: "
                  "exhaustive over the stated alphabet only.",
    "level_note": "Conserved totals of fully periodic layouts are also compared step by step under every explored thread schedule of the real hydro loop (engine E1). Totals compared to 64*eps*(sum |conserved| + sum |face flux|*dt); cases where a cell's mass or "
                  "energy is negative before the scheme's clamp are only checked for finiteness/non-negativity; wall "
                  "cases need wall Mach < 1.5 (measured on the state handed to the Riemann solver).",
    "quick_deadline": 90,
    "thorough_deadline": 1100,
    "parts": [
        {"name": "schedules", "bin": "c07_hydroloop", "args": ["--mode", "3"], "share": 0.35},{"name": "conservation", "bin": "c04_conservation"}],
    "assumptions": [],
    "uses_parts": ["C07"],
}
