# C04: conservation / positivity of one hydro step through the real task functions
# (hydro_step_driver.hpp includes TaskBasedRadiationHydrodynamicsSimulation.cpp; shared with C10)
$(eval $(call HARNESS,c04_conservation,$(V)/harness/C04/c04_conservation.cpp,plain,-O2 -fopenmp -fno-access-control -I$(V)/harness/C04,-fopenmp))
