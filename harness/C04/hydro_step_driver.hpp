// Shared hydro step driver of the C04 / C10 checks.
//
// Builds a real DensitySubGridCreator<HydroDensitySubGrid> for a given cell
// grid / subgrid layout / periodicity / boundary mix, fills primitive states
// and advances ONE hydrodynamics step through the REAL task functions of
// TaskBasedRadiationHydrodynamicsSimulation.cpp (make_hydro_tasks,
// set_dependencies, reset_hydro_tasks, execute_task; reached by including the
// .cpp into the harness translation unit). The tasks are executed
// sequentially, without the scheduler, in a dependency respecting order chosen
// by an order policy (several different valid orders).
//
// Also here:
//  * hsd::conserved_totals_from_grid / hsd::state_in_global_cell_order: the
//    two observation functions working on ANY
//    DensitySubGridCreator<HydroDensitySubGrid> (meant to be reused by the
//    scheduler engine at its step-end hook);
//  * hsd::reference_step: a plain sequential execution of the sweeps of the
//    scheme on one global array of cells, calling the per-face / per-cell
//    functions of the real Hydro object directly (no subgrids, no tasks).
//
// Compile with -fno-access-control (private limiter array of the subgrid and
// the private static Hydro::limit are used for resetting / classification).
#ifndef VERIF_HYDRO_STEP_DRIVER_HPP
#define VERIF_HYDRO_STEP_DRIVER_HPP

#include "TaskBasedRadiationHydrodynamicsSimulation.cpp"

#include <cfloat>
#include <cmath>
#include <cstdint>
#include <cstdio>
#include <cstdlib>
#include <cstring>
#include <string>
#include <vector>

namespace hsd {

/// boundary types of one box face
enum BoundaryType { BC_PERIODIC = 0, BC_REFLECTIVE = 1, BC_INFLOW = 2, BC_OUTFLOW = 3 };

inline const char *bc_name(const int b) {
  switch (b) {
  case BC_PERIODIC:
    return "periodic";
  case BC_REFLECTIVE:
    return "reflective";
  case BC_INFLOW:
    return "inflow";
  case BC_OUTFLOW:
    return "outflow";
  }
  return "?";
}

/// primitive state of one cell
struct Prim {
  double rho, v[3], P;
};

// the state alphabet of the C04 / C10 enumerations (dimensionless units: the
// rest gas has rho = P = 1)
static const int NSTATE = 10;
static const char *const STATE_NAME[NSTATE] = {"rest",         "dense-cold",  "hot-thin", "supersonic+x", "supersonic-x",
                                              "near-vacuum",  "fast+x",      "fast-x",   "denormal",     "vacuum"};
static const Prim STATE[NSTATE] = {
    {1., {0., 0., 0.}, 1.},         // 0 rest gas
    {1.e3, {0., 0., 0.}, 0.1},      // 1 dense and cold
    {1.e-3, {0., 0., 0.}, 10.},     // 2 hot and thin (sets the time step when present)
    {1., {4., 0.5, -0.25}, 1.},     // 3 Mach ~3 towards +x, small transverse drift
    {1., {-4., 0.5, -0.25}, 1.},    // 4 Mach ~3 towards -x
    {1.e-30, {0., 0., 0.}, 1.e-30}, // 5 near vacuum
    // extension used on the 4-cell grid only: Mach 1.13 (gamma 2) .. 1.6
    // (gamma 1.0001), i.e. around the wall Mach limit 1.5 of the property
    {1., {1.6, 0., 0.}, 1.},  // 6
    {1., {-1.6, 0., 0.}, 1.}, // 7
    // emptiest states (4-cell grid: all assignments; 8-cell grids: inclusions):
    // a density whose cell mass is a denormal number (1 / mass overflows) and
    // exact vacuum
    {1.e-310, {0., 0., 0.}, 1.e-310}, // 8
    {0., {0., 0., 0.}, 0.},           // 9
};

/// cell grid, subgrid layout, cell shape and boundary mix
struct Geometry {
  int ncell[3];  // cells of the whole box per axis
  int nsub[3];   // subgrids per axis (divides ncell)
  double h[3];   // cell size per axis
  int bc[6];     // x high, x low, y high, y low, z high, z low (TravelDirection face order)
  bool periodic(const int axis) const { return bc[2 * axis] == BC_PERIODIC; }
  int number_of_cells() const { return ncell[0] * ncell[1] * ncell[2]; }
  bool valid() const {
    for (int a = 0; a < 3; ++a) {
      if (ncell[a] < 1 || nsub[a] < 1 || ncell[a] % nsub[a] != 0 || !(h[a] > 0.))
        return false;
      if ((bc[2 * a] == BC_PERIODIC) != (bc[2 * a + 1] == BC_PERIODIC))
        return false;
    }
    return true;
  }
  bool all_periodic() const { return periodic(0) && periodic(1) && periodic(2); }
  /// every non-periodic face is a reflecting wall (and there is at least one)
  bool walls_only() const {
    bool any = false;
    for (int f = 0; f < 6; ++f) {
      if (bc[f] == BC_REFLECTIVE)
        any = true;
      else if (bc[f] != BC_PERIODIC)
        return false;
    }
    return any;
  }
  std::string str() const {
    char b[256];
    snprintf(b, sizeof(b), "cells %dx%dx%d subgrids %dx%dx%d h %gx%gx%g bc %s/%s,%s/%s,%s/%s", ncell[0],
             ncell[1], ncell[2], nsub[0], nsub[1], nsub[2], h[0], h[1], h[2], bc_name(bc[1]),
             bc_name(bc[0]), bc_name(bc[3]), bc_name(bc[2]), bc_name(bc[5]), bc_name(bc[4]));
    return b;
  }
};

/// boundary manager of the real code for a boundary mix
inline HydroBoundaryManager *make_boundary_manager(const int bc[6]) {
  static const char *names[6] = {"x high", "x low", "y high", "y low", "z high", "z low"};
  ParameterFile params;
  for (int f = 0; f < 6; ++f)
    params.add_value(std::string("HydroBoundaryManager:boundary ") + names[f], bc_name(bc[f]));
  return new HydroBoundaryManager(params);
}

/// Hydro object of the real code without velocity cap and heating
inline Hydro *make_hydro(const double gamma) { return new Hydro(gamma, 100., 1.e4, 1.e99, false); }

// ---------------------------------------------------------------------------
// observation functions on any subgrid creator (reusable by other engines)
// ---------------------------------------------------------------------------

/// Totals of the five conserved variables (mass, momentum x/y/z, total
/// energy) over all cells of all original subgrids, accumulated in long double
/// in subgrid index / cell index order.
inline void conserved_totals_from_grid(DensitySubGridCreator< HydroDensitySubGrid > &grid,
                                       long double totals[5]) {
  for (int j = 0; j < 5; ++j)
    totals[j] = 0.L;
  for (auto gridit = grid.begin(); gridit != grid.original_end(); ++gridit) {
    for (auto cellit = (*gridit).hydro_begin(); cellit != (*gridit).hydro_end(); ++cellit) {
      const HydroVariables &hv = cellit.get_hydro_variables();
      for (int j = 0; j < 5; ++j)
        totals[j] += hv.conserved(j);
    }
  }
}

/// Global cell index (ix * ny * nz + iy * nz + iz over the whole box) of cell
/// `local` of original subgrid `isub`, computed from the layout the creator
/// reports (independent of the number of subgrids).
inline size_t global_cell_index(DensitySubGridCreator< HydroDensitySubGrid > &grid, const size_t isub,
                                const size_t local) {
  const CoordinateVector< int_fast32_t > ns = grid.get_subgrid_layout();
  const CoordinateVector< int_fast32_t > nc = grid.get_subgrid_cell_layout();
  const CoordinateVector< int_fast32_t > p = grid.get_grid_position(isub);
  const int_fast32_t lx = local / (nc[1] * nc[2]);
  const int_fast32_t ly = (local - lx * nc[1] * nc[2]) / nc[2];
  const int_fast32_t lz = local - lx * nc[1] * nc[2] - ly * nc[2];
  const size_t gx = p[0] * nc[0] + lx, gy = p[1] * nc[1] + ly, gz = p[2] * nc[2] + lz;
  return (gx * (ns[1] * nc[1]) + gy) * (ns[2] * nc[2]) + gz;
}

/// Full hydro state in global cell order: 10 doubles per cell, the five
/// conserved variables followed by the five primitive variables.
inline void state_in_global_cell_order(DensitySubGridCreator< HydroDensitySubGrid > &grid,
                                       std::vector< double > &state) {
  state.assign(10 * grid.number_of_cells(), 0.);
  for (auto gridit = grid.begin(); gridit != grid.original_end(); ++gridit) {
    const size_t isub = gridit.get_index();
    for (auto cellit = (*gridit).hydro_begin(); cellit != (*gridit).hydro_end(); ++cellit) {
      const size_t g = global_cell_index(grid, isub, cellit.get_index());
      const HydroVariables &hv = cellit.get_hydro_variables();
      for (int j = 0; j < 5; ++j) {
        state[10 * g + j] = hv.conserved(j);
        state[10 * g + 5 + j] = hv.primitives(j);
      }
    }
  }
}

// ---------------------------------------------------------------------------
// what is observed while a step runs
// ---------------------------------------------------------------------------

struct StepTrace {
  size_t tasks_total = 0;
  size_t tasks_executed = 0;
  bool stuck = false;            // ready list ran empty before all tasks ran
  double preclamp_min_mass = DBL_MAX;   // min over cells of mass + dt * dmass before the clamp
  double preclamp_min_energy = DBL_MAX; // same for the total energy
  bool preclamp_nonfinite = false;
  double wall_mach = 0.;          // max Mach number with which gas runs into a reflecting wall
  uint64_t order_hash = 1469598103934665603ull; // hash of the executed task sequence
  bool safeguard() const { return preclamp_min_mass < 0. || preclamp_min_energy < 0.; }
};

/// order in which ready tasks are executed
enum OrderPolicy {
  ORDER_FIFO = 0,   // ready queue, front first (the order of a single thread of the real loop)
  ORDER_LIFO = 1,   // ready list, most recently released task first
  ORDER_SCAN = 2,   // repeated ascending scans over the task table
  ORDER_SCRAMBLE = 3, // ready list, element chosen by a fixed multiplicative sequence (seed)
  ORDER_NUMBER = 4
};

inline const char *order_name(const int o) {
  static const char *n[] = {"fifo", "lifo", "scan", "scramble"};
  return (o >= 0 && o < ORDER_NUMBER) ? n[o] : "?";
}

/// Mach number with which the gas of a wall cell runs into a reflecting wall,
/// from the state the real flux routine hands to the Riemann solver: predicted
/// cell state, face velocity extrapolated with the limited gradient and passed
/// through the real per-face limiter against the mirrored velocity.
/// orientation +1: wall at the high side of axis, -1: low side.
inline double wall_mach_number(const HydroVariables &hv, const int axis, const int orientation,
                               const double h, const double gamma) {
  const double rho = std::max(hv.get_primitives_density(), 0.);
  const double P = std::max(hv.get_primitives_pressure(), 0.);
  if (!(rho > 0.) || !(P > 0.))
    return 0.; // vacuum on both sides of the wall: the solver returns zero flux
  const double v = hv.primitives(1 + axis);
  const double vraw = v + orientation * 0.5 * h * hv.primitive_gradients(1 + axis)[axis];
  const double vface = Hydro::limit(vraw, v, -v, 0.5);
  const double c = std::sqrt(gamma * P / rho);
  if (!(c > 0.) || !std::isfinite(c))
    return (orientation * vface > 0.) ? DBL_MAX : 0.;
  const double m = orientation * vface / c;
  return m == m ? m : DBL_MAX;
}

// ---------------------------------------------------------------------------
// the driver
// ---------------------------------------------------------------------------

class NullDensityFunction : public DensityFunction {
public:
  virtual DensityValues operator()(const Cell &) {
    DensityValues v;
    v.set_number_density(1.);
    v.set_temperature(100.);
    v.set_ionic_fraction(ION_H_n, 1.);
    return v;
  }
};

class StepDriver {
public:
  const Geometry geo;
  DensitySubGridCreator< HydroDensitySubGrid > *grid;
  ThreadSafeVector< Task > *tasks;
  HydroBoundaryManager *boundaries;
  size_t ntask;
  std::vector< uint32_t > cell_sub;   // global cell -> subgrid
  std::vector< uint32_t > cell_local; // global cell -> cell index in the subgrid
  std::string error;                  // non-empty: the driver could not be set up
  std::vector< uint32_t > last_order; // task sequence of the last step
  std::vector< HydroDensitySubGrid * > sub_ptr; // original subgrids by index
  size_t cells_per_sub;
  std::vector< uint32_t > ready_buf; // scratch of step()
  std::vector< char > done_buf;

  explicit StepDriver(const Geometry &g)
      : geo(g), grid(nullptr), tasks(nullptr), boundaries(nullptr), ntask(0), cells_per_sub(0) {
    if (!geo.valid()) {
      error = "invalid geometry";
      return;
    }
    const Box<> box(CoordinateVector<>(0.),
                    CoordinateVector<>(geo.ncell[0] * geo.h[0], geo.ncell[1] * geo.h[1],
                                       geo.ncell[2] * geo.h[2]));
    grid = new DensitySubGridCreator< HydroDensitySubGrid >(
        box, CoordinateVector< int_fast32_t >(geo.ncell[0], geo.ncell[1], geo.ncell[2]),
        CoordinateVector< int_fast32_t >(geo.nsub[0], geo.nsub[1], geo.nsub[2]),
        CoordinateVector< bool >(geo.periodic(0), geo.periodic(1), geo.periodic(2)));
    NullDensityFunction fn;
    grid->initialize(fn);
    boundaries = make_boundary_manager(geo.bc);
    const size_t nsub = grid->number_of_original_subgrids();
    tasks = new ThreadSafeVector< Task >(18 * nsub + 2, "hydro tasks");
    // exactly what do_simulation does
    for (auto it = grid->begin(); it != grid->original_end(); ++it)
      make_hydro_tasks(*tasks, it.get_index(), *grid);
    for (auto it = grid->begin(); it != grid->original_end(); ++it)
      set_dependencies(it.get_index(), *grid, *tasks);
    ntask = tasks->size();
    // global cell order -> (subgrid, local index); checked against the
    // positions the subgrids report themselves
    const size_t ncell = geo.number_of_cells();
    cell_sub.assign(ncell, 0xffffffffu);
    cell_local.assign(ncell, 0);
    for (auto it = grid->begin(); it != grid->original_end(); ++it) {
      const size_t isub = it.get_index();
      for (auto c = (*it).hydro_begin(); c != (*it).hydro_end(); ++c) {
        const size_t gi = global_cell_index(*grid, isub, c.get_index());
        const CoordinateVector<> x = c.get_cell_midpoint();
        const long ix = std::lround(x.x() / geo.h[0] - 0.5), iy = std::lround(x.y() / geo.h[1] - 0.5),
                   iz = std::lround(x.z() / geo.h[2] - 0.5);
        const size_t gpos = (ix * geo.ncell[1] + iy) * geo.ncell[2] + iz;
        if (gi >= ncell || gi != gpos || cell_sub[gi] != 0xffffffffu) {
          error = "global cell order does not match the cell positions";
          return;
        }
        cell_sub[gi] = isub;
        cell_local[gi] = c.get_index();
      }
    }
    for (size_t i = 0; i < ncell; ++i)
      if (cell_sub[i] == 0xffffffffu)
        error = "cell without subgrid";
    for (size_t i = 0; i < nsub; ++i)
      sub_ptr.push_back(&*grid->get_subgrid(i));
    cells_per_sub = ncell / nsub;
  }
  ~StepDriver() {
    delete tasks;
    delete boundaries;
    delete grid;
  }
  StepDriver(const StepDriver &) = delete;
  StepDriver &operator=(const StepDriver &) = delete;

  HydroDensitySubGrid &subgrid(const size_t i) { return *sub_ptr[i]; }
  HydroVariables &cell(const size_t global_index) {
    return subgrid(cell_sub[global_index])._hydro_variables[cell_local[global_index]];
  }

  /// Fill the primitive variables of all cells (global cell order) and clear
  /// everything a previous step may have left behind.
  void load(const std::vector< Prim > &cells) {
    const size_t ncell = geo.number_of_cells();
    for (size_t g = 0; g < ncell; ++g) {
      HydroDensitySubGrid &sg = subgrid(cell_sub[g]);
      HydroVariables &hv = sg._hydro_variables[cell_local[g]];
      hv = HydroVariables();
      hv.set_primitives_density(cells[g].rho);
      hv.set_primitives_velocity(CoordinateVector<>(cells[g].v[0], cells[g].v[1], cells[g].v[2]));
      hv.set_primitives_pressure(cells[g].P);
      for (int j = 0; j < 5; ++j) {
        sg._primitive_variable_limiters[10 * cell_local[g] + 2 * j] = DBL_MAX;
        sg._primitive_variable_limiters[10 * cell_local[g] + 2 * j + 1] = -DBL_MAX;
      }
    }
  }

  /// Conserved variables from the primitive ones through the real
  /// initialize_hydrodynamic_variables; returns the code's own stability limit
  /// (minimum over all cells of Hydro::get_timestep, i.e. CFL factor 1).
  double init_conserved(const Hydro &hydro) {
    double dt = DBL_MAX;
    for (auto it = grid->begin(); it != grid->original_end(); ++it)
      dt = std::min(dt, (*it).initialize_hydrodynamic_variables(hydro, false));
    return dt;
  }

  /// totals / state through the (verified) cell map; same results as
  /// conserved_totals_from_grid / state_in_global_cell_order (checked in the
  /// constructor and by observation_functions_agree())
  void totals(long double t[5]) {
    for (int j = 0; j < 5; ++j)
      t[j] = 0.L;
    const size_t nsub = sub_ptr.size();
    for (size_t is = 0; is < nsub; ++is) {
      const HydroVariables *hv = sub_ptr[is]->_hydro_variables;
      for (size_t i = 0; i < cells_per_sub; ++i)
        for (int j = 0; j < 5; ++j)
          t[j] += hv[i].conserved(j);
    }
  }
  void state(std::vector< double > &s) {
    const size_t ncell = cell_sub.size();
    s.resize(10 * ncell);
    for (size_t g = 0; g < ncell; ++g) {
      const HydroVariables &hv = sub_ptr[cell_sub[g]]->_hydro_variables[cell_local[g]];
      for (int j = 0; j < 5; ++j) {
        s[10 * g + j] = hv.conserved(j);
        s[10 * g + 5 + j] = hv.primitives(j);
      }
    }
  }
  /// the generic observation functions give exactly the same totals / state
  bool observation_functions_agree() {
    long double a[5], b[5];
    totals(a);
    conserved_totals_from_grid(*grid, b);
    std::vector< double > s1, s2;
    state(s1);
    state_in_global_cell_order(*grid, s2);
    for (int j = 0; j < 5; ++j)
      if (!(a[j] == b[j]) && !(a[j] != a[j] && b[j] != b[j]))
        return false;
    return s1.size() == s2.size() && std::memcmp(s1.data(), s2.data(), s1.size() * sizeof(double)) == 0;
  }

  /// One hydro step: reset_hydro_tasks, then execute_task on every task in a
  /// dependency respecting order.
  /// If `nonfinite_origin` is given, all variables of the subgrids a task
  /// touched are scanned after every task and the stage in which the first
  /// non-finite value appears is returned there ("" if none appears).
  StepTrace step(const Hydro &hydro, const double dt, const int policy, const uint64_t seed = 0,
                 const bool record_order = false, std::string *nonfinite_origin = nullptr) {
    StepTrace tr;
    if (nonfinite_origin) {
      nonfinite_origin->clear();
      for (size_t is = 0; is < sub_ptr.size() && nonfinite_origin->empty(); ++is)
        if (!subgrid_finite(is))
          *nonfinite_origin = "initial-state";
    }
    tr.tasks_total = ntask;
    ThreadSafeVector< Task > &T = *tasks;
    for (auto it = grid->begin(); it != grid->original_end(); ++it)
      reset_hydro_tasks(T, *it);
    last_order.clear();
    std::vector< uint32_t > &ready = ready_buf;
    std::vector< char > &done = done_buf;
    ready.clear();
    ready.reserve(ntask);
    done.assign(ntask, 0);
    size_t head = 0; // FIFO head
    if (policy != ORDER_SCAN) {
      // the initial queue content of the real loop
      for (auto it = grid->begin(); it != grid->original_end(); ++it) {
        for (int i = 0; i < 18; ++i) {
          const size_t itask = (*it).get_hydro_task(i);
          if (itask != NO_TASK && T[itask].get_number_of_unfinished_parents() == 0)
            ready.push_back(itask);
        }
      }
    }
    uint64_t lcg = seed * 6364136223846793005ull + 1442695040888963407ull;
    size_t scanpos = 0, scan_idle = 0;
    while (tr.tasks_executed < ntask) {
      size_t itask = NO_TASK;
      if (policy == ORDER_SCAN) {
        // next ready task at or after scanpos (cyclic)
        while (scan_idle <= ntask) {
          const size_t t = scanpos;
          scanpos = (scanpos + 1) % ntask;
          if (!done[t] && T[t].get_number_of_unfinished_parents() == 0) {
            itask = t;
            scan_idle = 0;
            break;
          }
          ++scan_idle;
        }
      } else if (policy == ORDER_FIFO) {
        if (head < ready.size())
          itask = ready[head++];
      } else if (policy == ORDER_LIFO) {
        if (!ready.empty()) {
          itask = ready.back();
          ready.pop_back();
        }
      } else {
        if (!ready.empty()) {
          lcg = lcg * 6364136223846793005ull + 1442695040888963407ull;
          const size_t k = (lcg >> 33) % ready.size();
          itask = ready[k];
          ready[k] = ready.back();
          ready.pop_back();
        }
      }
      if (itask == NO_TASK) {
        tr.stuck = true;
        break;
      }
      const int type = T[itask].get_type();
      const size_t isub = T[itask].get_subgrid();
      if (type == TASKTYPE_UPDATE_CONSERVED)
        observe_before_update(isub, dt, tr);
      execute_task(itask, *grid, T, dt, hydro, *boundaries);
      if (type == TASKTYPE_PREDICT_PRIMITIVES)
        observe_after_predict(isub, hydro, tr);
      if (nonfinite_origin && nonfinite_origin->empty()) {
        bool fin = subgrid_finite(isub);
        if (type == TASKTYPE_GRADIENTSWEEP_EXTERNAL_NEIGHBOUR || type == TASKTYPE_FLUXSWEEP_EXTERNAL_NEIGHBOUR)
          fin = fin && subgrid_finite(T[itask].get_buffer());
        if (!fin)
          *nonfinite_origin = stage_name(type);
      }
      done[itask] = 1;
      ++tr.tasks_executed;
      const uint32_t t32 = itask;
      tr.order_hash = (tr.order_hash ^ t32) * 1099511628211ull;
      if (record_order)
        last_order.push_back(t32);
      const unsigned char numchild = T[itask].get_number_of_children();
      for (uint_fast8_t i = 0; i < numchild; ++i) {
        const size_t ichild = T[itask].get_child(i);
        if (T[ichild].decrement_number_of_unfinished_parents() == 0 && policy != ORDER_SCAN)
          ready.push_back(ichild);
      }
    }
    return tr;
  }

  /// stage of the step a task type belongs to (stable part of violation keys)
  static const char *stage_name(const int type) {
    switch (type) {
    case TASKTYPE_GRADIENTSWEEP_INTERNAL:
    case TASKTYPE_GRADIENTSWEEP_EXTERNAL_NEIGHBOUR:
    case TASKTYPE_GRADIENTSWEEP_EXTERNAL_BOUNDARY:
      return "gradient-sweep";
    case TASKTYPE_SLOPE_LIMITER:
      return "slope-limiter";
    case TASKTYPE_PREDICT_PRIMITIVES:
      return "prediction";
    case TASKTYPE_FLUXSWEEP_INTERNAL:
    case TASKTYPE_FLUXSWEEP_EXTERNAL_NEIGHBOUR:
    case TASKTYPE_FLUXSWEEP_EXTERNAL_BOUNDARY:
      return "flux-sweep";
    case TASKTYPE_UPDATE_CONSERVED:
      return "conserved-update";
    case TASKTYPE_UPDATE_PRIMITIVES:
      return "primitive-update";
    }
    return "unknown-task";
  }

  /// all hydro variables (primitive, conserved, accumulators, gradients) of a subgrid finite?
  bool subgrid_finite(const size_t isub) {
    const HydroVariables *hv = sub_ptr[isub]->_hydro_variables;
    for (size_t i = 0; i < cells_per_sub; ++i)
      for (int j = 0; j < 5; ++j) {
        if (!std::isfinite(hv[i].primitives(j)) || !std::isfinite(hv[i].conserved(j)) ||
            !std::isfinite(hv[i].delta_conserved(j)) || !std::isfinite(hv[i].primitive_gradients(j)[0]) ||
            !std::isfinite(hv[i].primitive_gradients(j)[1]) || !std::isfinite(hv[i].primitive_gradients(j)[2]))
          return false;
      }
    return true;
  }

private:
  /// the values update_conserved_variables is about to clamp
  void observe_before_update(const size_t isub, const double dt, StepTrace &tr) {
    HydroDensitySubGrid &sg = subgrid(isub);
    const size_t n = sg.get_number_of_cells();
    for (size_t i = 0; i < n; ++i) {
      const HydroVariables &hv = sg._hydro_variables[i];
      const double m = hv.conserved(0) + hv.delta_conserved(0) * dt;
      const double E = hv.conserved(4) + hv.delta_conserved(4) * dt;
      if (!std::isfinite(m) || !std::isfinite(E))
        tr.preclamp_nonfinite = true;
      if (m < tr.preclamp_min_mass)
        tr.preclamp_min_mass = m;
      if (E < tr.preclamp_min_energy)
        tr.preclamp_min_energy = E;
    }
  }

  /// wall Mach numbers of the cells of this subgrid next to reflecting walls
  void observe_after_predict(const size_t isub, const Hydro &hydro, StepTrace &tr) {
    HydroDensitySubGrid &sg = subgrid(isub);
    const int nc[3] = {geo.ncell[0] / geo.nsub[0], geo.ncell[1] / geo.nsub[1], geo.ncell[2] / geo.nsub[2]};
    for (int f = 0; f < 6; ++f) {
      if (geo.bc[f] != BC_REFLECTIVE)
        continue;
      if (sg.get_neighbour(TRAVELDIRECTION_FACE_X_P + f) != NEIGHBOUR_OUTSIDE)
        continue;
      const int axis = f / 2, orientation = (f % 2 == 0) ? 1 : -1;
      const int fixed = (orientation > 0) ? nc[axis] - 1 : 0;
      for (int ix = 0; ix < nc[0]; ++ix)
        for (int iy = 0; iy < nc[1]; ++iy)
          for (int iz = 0; iz < nc[2]; ++iz) {
            const int idx[3] = {ix, iy, iz};
            if (idx[axis] != fixed)
              continue;
            const size_t local = (ix * nc[1] + iy) * nc[2] + iz;
            const double m =
                wall_mach_number(sg._hydro_variables[local], axis, orientation, geo.h[axis], hydro._gamma);
            if (m > tr.wall_mach)
              tr.wall_mach = m;
          }
    }
  }
};

// ---------------------------------------------------------------------------
// plain sequential reference execution of the sweeps on one global cell array
// ---------------------------------------------------------------------------

struct ReferenceResult {
  std::vector< HydroVariables > cells; // final state, global cell order
  std::vector< double > before;        // 5 conserved per cell before the step
  std::vector< double > absflux;       // 5 per cell: sum over the faces of the cell of |flux| * dt
  double dt_limit = 0.;                // minimum of Hydro::get_timestep over the cells
  double preclamp_min_mass = DBL_MAX, preclamp_min_energy = DBL_MAX;
  double wall_mach = 0.;
  uint64_t faces = 0;                  // faces over which a flux was exchanged (ghost faces included)
  uint64_t faces_with_flux = 0;        // faces with a non-zero flux
  bool safeguard() const { return preclamp_min_mass < 0. || preclamp_min_energy < 0.; }
  /// state in the layout of state_in_global_cell_order
  void state(std::vector< double > &s) const {
    s.assign(10 * cells.size(), 0.);
    for (size_t g = 0; g < cells.size(); ++g)
      for (int j = 0; j < 5; ++j) {
        s[10 * g + j] = cells[g].conserved(j);
        s[10 * g + 5 + j] = cells[g].primitives(j);
      }
  }
};

/// Prepare the reference: conserved variables and the stability limit.
inline void reference_init(const Geometry &geo, const Hydro &hydro, const std::vector< Prim > &prims,
                           ReferenceResult &R) {
  const size_t n = geo.number_of_cells();
  const double V = geo.h[0] * geo.h[1] * geo.h[2];
  R.cells.assign(n, HydroVariables());
  R.before.assign(5 * n, 0.);
  R.absflux.assign(5 * n, 0.);
  IonizationVariables ion;
  R.dt_limit = DBL_MAX;
  for (size_t g = 0; g < n; ++g) {
    HydroVariables &hv = R.cells[g];
    hv.set_primitives_density(prims[g].rho);
    hv.set_primitives_velocity(CoordinateVector<>(prims[g].v[0], prims[g].v[1], prims[g].v[2]));
    hv.set_primitives_pressure(prims[g].P);
    hydro.set_conserved_variables(hv, V);
    R.dt_limit = std::min(R.dt_limit, hydro.get_timestep(hv, ion, V));
    for (int j = 0; j < 5; ++j)
      R.before[5 * g + j] = hv.conserved(j);
  }
}

/// One step on the global array: gradient sweep over all faces, slope
/// limiter, half step prediction, flux sweep over all faces, conserved update
/// (with the positivity clamp of the scheme), primitive update. Every face is
/// visited exactly once, in plain x, y, z loops over the whole box.
inline void reference_step(const Geometry &geo, const Hydro &hydro, const HydroBoundaryManager &bm,
                           const double dt, ReferenceResult &R) {
  const int nx = geo.ncell[0], ny = geo.ncell[1], nz = geo.ncell[2];
  const size_t n = geo.number_of_cells();
  const int nn[3] = {nx, ny, nz};
  const double V = geo.h[0] * geo.h[1] * geo.h[2];
  const double A[3] = {geo.h[1] * geo.h[2], geo.h[0] * geo.h[2], geo.h[0] * geo.h[1]};
  const CoordinateVector<> hvec(geo.h[0], geo.h[1], geo.h[2]);
  std::vector< double > lim(10 * n);
  for (size_t i = 0; i < 5 * n; ++i) {
    lim[2 * i] = DBL_MAX;
    lim[2 * i + 1] = -DBL_MAX;
  }
  auto index = [&](const int ix, const int iy, const int iz) { return (size_t)((ix * ny + iy) * nz + iz); };
  auto midpoint = [&](const int idx[3]) {
    return CoordinateVector<>((idx[0] + 0.5) * geo.h[0], (idx[1] + 0.5) * geo.h[1], (idx[2] + 0.5) * geo.h[2]);
  };
  std::vector< HydroVariables > &C = R.cells;

  // gradients
  for (int axis = 0; axis < 3; ++axis) {
    const double dxinv = 1. / geo.h[axis];
    for (int ix = 0; ix < nx; ++ix)
      for (int iy = 0; iy < ny; ++iy)
        for (int iz = 0; iz < nz; ++iz) {
          int idx[3] = {ix, iy, iz};
          const size_t c = index(ix, iy, iz);
          if (idx[axis] + 1 < nn[axis] || geo.periodic(axis)) {
            int jdx[3] = {ix, iy, iz};
            jdx[axis] = (idx[axis] + 1) % nn[axis];
            const size_t r = index(jdx[0], jdx[1], jdx[2]);
            hydro.do_gradient_calculation(axis, C[c], C[r], dxinv, &lim[10 * c], &lim[10 * r]);
          } else {
            CoordinateVector<> pos = midpoint(idx);
            pos[axis] += geo.h[axis];
            hydro.do_ghost_gradient_calculation(
                axis, pos, C[c], bm.get_boundary_condition(TRAVELDIRECTION_FACE_X_P + 2 * axis), dxinv,
                &lim[10 * c]);
          }
          if (idx[axis] == 0 && !geo.periodic(axis)) {
            CoordinateVector<> pos = midpoint(idx);
            pos[axis] -= geo.h[axis];
            hydro.do_ghost_gradient_calculation(
                axis, pos, C[c], bm.get_boundary_condition(TRAVELDIRECTION_FACE_X_P + 2 * axis + 1),
                -dxinv, &lim[10 * c]);
          }
        }
  }
  // slope limiter and half step prediction
  for (size_t c = 0; c < n; ++c)
    hydro.apply_slope_limiter(C[c], &lim[10 * c], hvec);
  for (size_t c = 0; c < n; ++c)
    hydro.predict_primitive_variables(C[c], 0.5 * dt);
  // wall Mach numbers (reflecting walls only)
  R.wall_mach = 0.;
  for (int axis = 0; axis < 3; ++axis) {
    for (int side = 0; side < 2; ++side) {
      if (geo.bc[2 * axis + side] != BC_REFLECTIVE)
        continue;
      const int orientation = side == 0 ? 1 : -1;
      for (int ix = 0; ix < nx; ++ix)
        for (int iy = 0; iy < ny; ++iy)
          for (int iz = 0; iz < nz; ++iz) {
            const int idx[3] = {ix, iy, iz};
            if (idx[axis] != (side == 0 ? nn[axis] - 1 : 0))
              continue;
            R.wall_mach = std::max(R.wall_mach, wall_mach_number(C[index(ix, iy, iz)], axis, orientation,
                                                                 geo.h[axis], hydro._gamma));
          }
    }
  }
  // fluxes; the flux of every face is additionally measured on scratch copies
  // with zeroed accumulators to get the magnitudes for the tolerances
  auto add_abs = [&](const size_t c, const HydroVariables &scratch) {
    bool any = false;
    for (int j = 0; j < 5; ++j) {
      const double f = std::fabs(scratch.delta_conserved(j)) * dt;
      R.absflux[5 * c + j] += f;
      if (f != 0.)
        any = true;
    }
    return any;
  };
  for (int axis = 0; axis < 3; ++axis) {
    const double dx = geo.h[axis];
    for (int ix = 0; ix < nx; ++ix)
      for (int iy = 0; iy < ny; ++iy)
        for (int iz = 0; iz < nz; ++iz) {
          int idx[3] = {ix, iy, iz};
          const size_t c = index(ix, iy, iz);
          if (idx[axis] + 1 < nn[axis] || geo.periodic(axis)) {
            int jdx[3] = {ix, iy, iz};
            jdx[axis] = (idx[axis] + 1) % nn[axis];
            const size_t r = index(jdx[0], jdx[1], jdx[2]);
            {
              HydroVariables sl, sr;
              sl.copy_all(C[c]);
              sr.copy_all(C[r]);
              for (int j = 0; j < 5; ++j)
                sl.delta_conserved(j) = sr.delta_conserved(j) = 0.;
              hydro.do_flux_calculation(axis, sl, sr, dx, A[axis], dt);
              const bool any = add_abs(c, sl);
              add_abs(r, sr);
              ++R.faces;
              if (any)
                ++R.faces_with_flux;
            }
            hydro.do_flux_calculation(axis, C[c], C[r], dx, A[axis], dt);
          } else {
            CoordinateVector<> pos = midpoint(idx);
            pos[axis] += geo.h[axis];
            const HydroBoundary &b = bm.get_boundary_condition(TRAVELDIRECTION_FACE_X_P + 2 * axis);
            {
              HydroVariables sl;
              sl.copy_all(C[c]);
              for (int j = 0; j < 5; ++j)
                sl.delta_conserved(j) = 0.;
              hydro.do_ghost_flux_calculation(axis, pos, sl, b, dx, A[axis], dt);
              ++R.faces;
              if (add_abs(c, sl))
                ++R.faces_with_flux;
            }
            hydro.do_ghost_flux_calculation(axis, pos, C[c], b, dx, A[axis], dt);
          }
          if (idx[axis] == 0 && !geo.periodic(axis)) {
            CoordinateVector<> pos = midpoint(idx);
            pos[axis] -= geo.h[axis];
            const HydroBoundary &b = bm.get_boundary_condition(TRAVELDIRECTION_FACE_X_P + 2 * axis + 1);
            {
              HydroVariables sl;
              sl.copy_all(C[c]);
              for (int j = 0; j < 5; ++j)
                sl.delta_conserved(j) = 0.;
              hydro.do_ghost_flux_calculation(axis, pos, sl, b, -dx, A[axis], dt);
              ++R.faces;
              if (add_abs(c, sl))
                ++R.faces_with_flux;
            }
            hydro.do_ghost_flux_calculation(axis, pos, C[c], b, -dx, A[axis], dt);
          }
        }
  }
  // conserved update with the positivity clamp, then the primitive update
  IonizationVariables ion;
  R.preclamp_min_mass = R.preclamp_min_energy = DBL_MAX;
  for (size_t c = 0; c < n; ++c) {
    for (int j = 0; j < 5; ++j) {
      C[c].conserved(j) += C[c].delta_conserved(j) * dt;
      C[c].delta_conserved(j) = 0.;
      C[c].primitive_gradients(j) = CoordinateVector<>(0.);
    }
    R.preclamp_min_mass = std::min(R.preclamp_min_mass, C[c].conserved(0));
    R.preclamp_min_energy = std::min(R.preclamp_min_energy, C[c].conserved(4));
    C[c].conserved(0) = std::max(C[c].conserved(0), 0.);
    C[c].conserved(4) = std::max(C[c].conserved(4), 0.);
  }
  for (size_t c = 0; c < n; ++c)
    hydro.set_primitive_variables(C[c], ion, 1. / V);
}

// ---------------------------------------------------------------------------
// helpers shared by the two harnesses
// ---------------------------------------------------------------------------

/// all states finite, masses / energies / densities / pressures non-negative;
/// returns an empty string or the first offending quantity
inline std::string physical_state_problem(const std::vector< double > &state) {
  static const char *names[10] = {"mass", "momentum_x", "momentum_y", "momentum_z", "energy",
                                  "density", "velocity_x", "velocity_y", "velocity_z", "pressure"};
  char b[160];
  for (size_t i = 0; i < state.size(); ++i) {
    const int j = i % 10;
    if (!std::isfinite(state[i])) {
      snprintf(b, sizeof(b), "nonfinite-%s cell %zu = %g", names[j], i / 10, state[i]);
      return b;
    }
    if ((j == 0 || j == 4 || j == 5 || j == 9) && state[i] < 0.) {
      snprintf(b, sizeof(b), "negative-%s cell %zu = %.17g", names[j], i / 10, state[i]);
      return b;
    }
  }
  return "";
}

/// the primitive variables of every cell are what the real
/// Hydro::set_primitive_variables makes of its conserved variables (bitwise)
inline long stale_primitives(const Geometry &geo, const Hydro &hydro, const std::vector< double > &state) {
  const double V = geo.h[0] * geo.h[1] * geo.h[2];
  // the subgrids use 1 / (hx * hy * hz)
  const double Vinv = 1. / V;
  IonizationVariables ion;
  for (size_t g = 0; g < state.size() / 10; ++g) {
    HydroVariables hv;
    for (int j = 0; j < 5; ++j)
      hv.conserved(j) = state[10 * g + j];
    hydro.set_primitive_variables(hv, ion, Vinv);
    for (int j = 0; j < 5; ++j) {
      const double a = hv.primitives(j), b = state[10 * g + 5 + j];
      if (std::memcmp(&a, &b, sizeof(double)) != 0)
        return (long)g;
    }
  }
  return -1;
}

} // namespace hsd

#endif
