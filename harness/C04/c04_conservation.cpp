// C04: one hydro step through the real task functions conserves mass,
// momentum and energy (periodic boxes), mass and energy (reflecting walls,
// wall Mach < 1.5) and always leaves finite, non-negative states.
//
// Bounded-exhaustive enumeration: cell grids x every assignment of the state
// alphabet to the cells (one representative per translation orbit on the
// 8-cell grids) x gamma x dt fraction of the code's own stability limit x
// subgrid layouts x boundary mixes x cell aspect ratios. See NOTES.md.
#include "hydro_step_driver.hpp"
#include "verif_common.hpp"

#include <algorithm>
#include <array>
#include <csignal>
#include <map>
#include <memory>
#include <omp.h>

using namespace verif;
using namespace hsd;

// the state alphabet (hsd::STATE, hsd::STATE_NAME, hsd::NSTATE) lives in hydro_step_driver.hpp

static const double GAMMAS[4] = {1.0001, 1.4, 5. / 3., 2.};
static const double DTFRACS[3] = {0.1, 0.5, 1.};
static const double ASPECTS[2][3] = {{1., 1., 1.}, {1., 2., 4.}};
static const int GRIDS[3][3] = {{2, 2, 2}, {4, 2, 1}, {4, 1, 1}};

// boundary mixes: per axis periodic (P) or reflecting walls (R), plus one open
// mix (inflow / outflow in x, walls in y, periodic in z; finiteness only)
static const int NBC = 9;
static void boundary_mix(const int ib, int bc[6]) {
  if (ib < 8) {
    for (int a = 0; a < 3; ++a)
      bc[2 * a] = bc[2 * a + 1] = ((ib >> a) & 1) ? BC_REFLECTIVE : BC_PERIODIC;
  } else {
    bc[0] = BC_OUTFLOW;
    bc[1] = BC_INFLOW;
    bc[2] = bc[3] = BC_REFLECTIVE;
    bc[4] = bc[5] = BC_PERIODIC;
  }
}

static const double TOL_K = 64.;

// ----------------------------------------------------------------------------
// one case
// ----------------------------------------------------------------------------
struct Case {
  Geometry geo;
  std::string cells; // one digit per cell (global cell order), index into STATE
  int igamma, idt;
  int order;
  uint64_t seed;
};

static std::string case_json(const Case &c) {
  return fmt("{\"grid\": \"%d,%d,%d\", \"nsub\": \"%d,%d,%d\", \"h\": \"%a,%a,%a\", \"bc\": \"%d,%d,%d,%d,%d,%d\", "
             "\"gamma\": \"%a\", \"dtfrac\": \"%a\", \"cells\": \"%s\", \"order\": %d, \"seed\": %" PRIu64 "}",
             c.geo.ncell[0], c.geo.ncell[1], c.geo.ncell[2], c.geo.nsub[0], c.geo.nsub[1], c.geo.nsub[2],
             c.geo.h[0], c.geo.h[1], c.geo.h[2], c.geo.bc[0], c.geo.bc[1], c.geo.bc[2], c.geo.bc[3],
             c.geo.bc[4], c.geo.bc[5], GAMMAS[c.igamma], DTFRACS[c.idt], c.cells.c_str(), c.order, c.seed);
}

static std::string case_text(const Case &c) {
  std::string s = c.geo.str() + fmt(" gamma %.17g dt %gx limit order %s cells [", GAMMAS[c.igamma],
                                    DTFRACS[c.idt], order_name(c.order));
  for (size_t i = 0; i < c.cells.size(); ++i)
    s += std::string(i ? " " : "") + STATE_NAME[c.cells[i] - '0'];
  return s + "]";
}

struct Outcome {
  double dt_limit = 0., dt = 0.;
  long double before[5], after[5];
  double scale[5]; // sum of magnitudes of the terms of each total
  StepTrace trace;
  std::vector< double > state;
  std::string physical; // empty or the offending quantity
  bool changed = false;
  bool dt_limit_differs = false;
  std::string nonfinite_origin; // stage of the step in which the first non-finite value appeared
};

struct Finding {
  std::string key, detail;
  double weight = 0.; // error / tolerance for conservation findings: the clearest case of a key is reported
  Finding(const std::string &k, const std::string &d, const double w = 0.) : key(k), detail(d), weight(w) {}
};

static const char *VARNAME[5] = {"mass", "momentum-x", "momentum-y", "momentum-z", "energy"};

/// per thread statistics
struct Stats {
  uint64_t steps = 0, nontrivial = 0, skipped_dt = 0;
  uint64_t cls_periodic_checked = 0, cls_walls_checked = 0, cls_safeguard = 0, cls_wallmach = 0, cls_open = 0;
  uint64_t near_tolerance = 0; // checked totals with an error above a tenth of the tolerance
  uint64_t exact_totals = 0;   // checked totals reproduced exactly
  uint64_t checked_totals = 0;
  double max_ratio = 0.;       // largest error / tolerance among the checked totals
  double max_wall_mach_checked = 0.;
  double ref_max_ratio = 0.;   // same for the plain reference execution (information)
  uint64_t reference_steps = 0;
  uint64_t order_count[ORDER_NUMBER] = {0, 0, 0, 0};
  struct V {
    uint64_t ordinal;
    std::string detail, replay;
    uint64_t count;
    double weight;
    /// the reported case of a key: largest weight, then smallest enumeration ordinal (deterministic)
    bool better(const double w, const uint64_t o) const { return w > weight || (w == weight && o < ordinal); }
  };
  std::map< std::string, V > violations;
  std::vector< std::pair< uint64_t, std::string > > samples;
  void violation(const std::string &key, const uint64_t ordinal, const std::string &detail,
                 const std::string &replay, const double weight = 0.) {
    auto it = violations.find(key);
    if (it == violations.end())
      violations[key] = V{ordinal, detail, replay, 1, weight};
    else {
      ++it->second.count;
      if (it->second.better(weight, ordinal)) {
        it->second.ordinal = ordinal;
        it->second.detail = detail;
        it->second.replay = replay;
        it->second.weight = weight;
      }
    }
  }
  void merge(const Stats &o) {
    steps += o.steps;
    nontrivial += o.nontrivial;
    skipped_dt += o.skipped_dt;
    cls_periodic_checked += o.cls_periodic_checked;
    cls_walls_checked += o.cls_walls_checked;
    cls_safeguard += o.cls_safeguard;
    cls_wallmach += o.cls_wallmach;
    cls_open += o.cls_open;
    near_tolerance += o.near_tolerance;
    exact_totals += o.exact_totals;
    checked_totals += o.checked_totals;
    max_ratio = std::max(max_ratio, o.max_ratio);
    max_wall_mach_checked = std::max(max_wall_mach_checked, o.max_wall_mach_checked);
    ref_max_ratio = std::max(ref_max_ratio, o.ref_max_ratio);
    reference_steps += o.reference_steps;
    for (int i = 0; i < ORDER_NUMBER; ++i)
      order_count[i] += o.order_count[i];
    for (auto &kv : o.violations) {
      auto it = violations.find(kv.first);
      if (it == violations.end())
        violations[kv.first] = kv.second;
      else {
        it->second.count += kv.second.count;
        if (it->second.better(kv.second.weight, kv.second.ordinal)) {
          const uint64_t cnt = it->second.count;
          it->second = kv.second;
          it->second.count = cnt;
        }
      }
    }
    samples.insert(samples.end(), o.samples.begin(), o.samples.end());
  }
};

static std::vector< Prim > prims_of(const std::string &cells) {
  std::vector< Prim > p(cells.size());
  for (size_t i = 0; i < cells.size(); ++i)
    p[i] = STATE[cells[i] - '0'];
  return p;
}

/// run the real step of one case on a prepared driver
static void run_case(StepDriver &drv, const Hydro &hydro, const std::vector< Prim > &prims, const Case &c,
                     const ReferenceResult &ref, Outcome &o) {
  drv.load(prims);
  o.dt_limit = drv.init_conserved(hydro);
  o.dt_limit_differs = (o.dt_limit != ref.dt_limit);
  o.dt = DTFRACS[c.idt] * ref.dt_limit;
  drv.totals(o.before);
  o.trace = drv.step(hydro, o.dt, c.order, c.seed);
  drv.totals(o.after);
  drv.state(o.state);
  o.physical = physical_state_problem(o.state);
  o.nonfinite_origin.clear();
  if (o.physical.compare(0, 9, "nonfinite") == 0 || o.trace.preclamp_nonfinite) {
    // run the same case again (same order) and locate the stage that produces the first non-finite value
    drv.load(prims);
    drv.init_conserved(hydro);
    drv.step(hydro, o.dt, c.order, c.seed, false, &o.nonfinite_origin);
    if (o.nonfinite_origin.empty())
      o.nonfinite_origin = "not-reproduced";
  }
  const size_t n = ref.before.size() / 5;
  for (int j = 0; j < 5; ++j)
    o.scale[j] = 0.;
  o.changed = false;
  for (size_t g = 0; g < n; ++g)
    for (int j = 0; j < 5; ++j) {
      o.scale[j] += std::fabs(ref.before[5 * g + j]) + ref.absflux[5 * g + j];
      if (o.state[10 * g + j] != ref.before[5 * g + j])
        o.changed = true;
    }
}

/// apply the oracle of DESIGN.md "C04" to one outcome
static void judge(const Case &c, const Outcome &o, Stats &S, std::vector< Finding > &out) {
  const Geometry &geo = c.geo;
  if (o.trace.stuck || o.trace.tasks_executed != o.trace.tasks_total)
    out.push_back({"C04:driver:step-incomplete",
                   fmt("only %zu of %zu hydro tasks became executable", o.trace.tasks_executed,
                       o.trace.tasks_total)});
  if (o.dt_limit_differs)
    out.push_back({"C04:stability-limit:layout-dependent",
                   fmt("stability limit %.17g on this layout, %.17g on the global array", o.dt_limit,
                       o.dt / DTFRACS[c.idt])});
  // always: finite and non-negative
  if (!o.nonfinite_origin.empty()) {
    // one key per stage of the step in which the first non-finite value arises; the totals are then
    // meaningless and not judged
    out.push_back({"C04:physical:nonfinite:arises-in-" + o.nonfinite_origin,
                   (o.physical.empty() ? std::string("mass or energy not finite before the positivity clamp")
                                       : o.physical) +
                       "; first non-finite value appears in stage " + o.nonfinite_origin});
    return;
  }
  if (!o.physical.empty()) {
    const std::string what = o.physical.substr(0, o.physical.find(' '));
    out.push_back({"C04:physical:" + what, o.physical});
  }
  // conservation
  const bool periodic = geo.all_periodic(), walls = geo.walls_only();
  if (!periodic && !walls) {
    ++S.cls_open;
    return;
  }
  if (o.trace.safeguard()) {
    ++S.cls_safeguard;
    return;
  }
  if (walls && !(o.trace.wall_mach < 1.5)) {
    ++S.cls_wallmach;
    return;
  }
  if (periodic)
    ++S.cls_periodic_checked;
  else {
    ++S.cls_walls_checked;
    S.max_wall_mach_checked = std::max(S.max_wall_mach_checked, o.trace.wall_mach);
  }
  for (int j = 0; j < 5; ++j) {
    if (!periodic && j != 0 && j != 4)
      continue;
    const double err = (double)fabsl(o.after[j] - o.before[j]);
    const double tol = TOL_K * DBL_EPSILON * o.scale[j];
    ++S.checked_totals;
    if (err == 0.)
      ++S.exact_totals;
    const double ratio = err == 0. ? 0. : (tol > 0. ? err / tol : DBL_MAX);
    if (ratio <= 1.) {
      S.max_ratio = std::max(S.max_ratio, ratio);
      if (ratio > 0.1)
        ++S.near_tolerance;
      continue;
    }
    out.push_back({fmt("C04:conservation:%s-%s", periodic ? "periodic" : "reflective",
                       (j >= 1 && j <= 3) ? "momentum" : VARNAME[j]),
                   fmt("total %s %.17Lg -> %.17Lg (change %.3g, relative %.3g; tolerance %g*eps*%.6g = %.3g; "
                       "wall Mach %.3g, pre-clamp minima mass %.3g energy %.3g)",
                       VARNAME[j], o.before[j], o.after[j], err,
                       err / (std::fabs((double)o.before[j]) + DBL_MIN), TOL_K, o.scale[j], tol,
                       o.trace.wall_mach, o.trace.preclamp_min_mass, o.trace.preclamp_min_energy),
                   std::min(ratio, 1.e300)});
  }
}

// ----------------------------------------------------------------------------
// enumeration
// ----------------------------------------------------------------------------

/// all assignments of `nalpha` states (indices alpha[]) to the cells of a grid,
/// optionally one representative (smallest code) per cyclic translation orbit
static void assignments(const int grid[3], const std::vector< int > &alpha, const bool prune,
                        std::vector< std::string > &out) {
  const int n = grid[0] * grid[1] * grid[2];
  const size_t k = alpha.size();
  size_t total = 1;
  for (int i = 0; i < n; ++i)
    total *= k;
  std::vector< int > d(n), t(n);
  for (size_t code = 0; code < total; ++code) {
    size_t r = code;
    for (int i = n - 1; i >= 0; --i) {
      d[i] = r % k;
      r /= k;
    }
    bool canonical = true;
    if (prune) {
      for (int sx = 0; sx < grid[0] && canonical; ++sx)
        for (int sy = 0; sy < grid[1] && canonical; ++sy)
          for (int sz = 0; sz < grid[2] && canonical; ++sz) {
            if (!sx && !sy && !sz)
              continue;
            for (int ix = 0; ix < grid[0]; ++ix)
              for (int iy = 0; iy < grid[1]; ++iy)
                for (int iz = 0; iz < grid[2]; ++iz)
                  t[(((ix + sx) % grid[0]) * grid[1] + (iy + sy) % grid[1]) * grid[2] + (iz + sz) % grid[2]] =
                      d[(ix * grid[1] + iy) * grid[2] + iz];
            if (std::lexicographical_compare(t.begin(), t.end(), d.begin(), d.end()))
              canonical = false;
          }
    }
    if (!canonical)
      continue;
    std::string s(n, '0');
    for (int i = 0; i < n; ++i)
      s[i] = '0' + alpha[d[i]];
    out.push_back(s);
  }
}

/// emptiest states (8 denormal density, 9 exact vacuum) as inclusions in an
/// 8-cell grid filled with a background state: single cells (first / last
/// cell), slabs normal to each axis, everything empty except one gas cell, and
/// (rest background) an inclusion with a supersonic cell as its +x or -x
/// neighbour. Not pruned.
static void inclusions(const int grid[3], const std::vector< int > &backgrounds, const std::vector< int > &jets,
                       std::vector< std::string > &out) {
  const int n = grid[0] * grid[1] * grid[2];
  auto idx = [&](int ix, int iy, int iz) {
    return (((ix + grid[0]) % grid[0]) * grid[1] + (iy + grid[1]) % grid[1]) * grid[2] + (iz + grid[2]) % grid[2];
  };
  std::vector< std::string > found;
  for (int e : {8, 9}) {
    for (int b : backgrounds) {
      std::string base(n, '0' + b);
      std::string s = base;
      s[0] = '0' + e;
      found.push_back(s);
      s = base;
      s[n - 1] = '0' + e;
      found.push_back(s);
      for (int axis = 0; axis < 3; ++axis) {
        if (grid[axis] < 2)
          continue;
        s = base;
        for (int ix = 0; ix < grid[0]; ++ix)
          for (int iy = 0; iy < grid[1]; ++iy)
            for (int iz = 0; iz < grid[2]; ++iz) {
              const int c[3] = {ix, iy, iz};
              if (c[axis] == 0)
                s[idx(ix, iy, iz)] = '0' + e;
            }
        found.push_back(s);
      }
      s = std::string(n, '0' + e);
      s[0] = '0' + b;
      found.push_back(s);
      s = std::string(n, '0' + e);
      s[idx(1, 0, 0)] = '0' + b;
      found.push_back(s);
    }
    for (int j : jets) {
      std::string s(n, '0');
      s[idx(1, 0, 0)] = '0' + e;
      s[idx(0, 0, 0)] = '0' + j; // jet is the -x neighbour of the inclusion
      found.push_back(s);
      s = std::string(n, '0');
      s[idx(1, 0, 0)] = '0' + e;
      s[idx(2, 0, 0)] = '0' + j; // jet is the +x neighbour (periodic image on a 2-cell axis)
      found.push_back(s);
    }
    // the two empty states next to each other in rest gas
    std::string s(n, '0');
    s[idx(0, 0, 0)] = '0' + e;
    s[idx(1, 0, 0)] = '0' + (e == 8 ? 9 : 8);
    found.push_back(s);
  }
  for (auto &s : found)
    if (std::find(out.begin(), out.end(), s) == out.end())
      out.push_back(s);
}

static std::vector< std::array< int, 3 > > layouts_of(const int grid[3]) {
  std::vector< std::array< int, 3 > > L;
  for (int a = 1; a <= 2; ++a)
    for (int b = 1; b <= 2; ++b)
      for (int c = 1; c <= 2; ++c) {
        if (grid[0] % a || grid[1] % b || grid[2] % c || a > grid[0] || b > grid[1] || c > grid[2])
          continue;
        L.push_back({a, b, c});
      }
  return L;
}

// the case a thread is working on (printed if the code under test aborts)
static thread_local const Case *g_current = nullptr;
static void on_abort(int) {
  const char msg[] = "\nC04 harness: the code under test called abort() in case: ";
  if (write(2, msg, sizeof(msg) - 1) < 0) {
  }
  if (g_current) {
    const std::string js = case_json(*g_current);
    if (write(2, js.c_str(), js.size()) < 0) {
    }
  }
  if (write(2, "\n", 1) < 0) {
  }
  _exit(3);
}

static int replay(const Args &A, Result &R) {
  const std::string txt = read_file(A.replay);
  Case c;
  auto three = [&](const std::string &f, int v[3]) { sscanf(replay_field(txt, f).c_str(), "%d,%d,%d", v, v + 1, v + 2); };
  three("grid", c.geo.ncell);
  three("nsub", c.geo.nsub);
  sscanf(replay_field(txt, "h").c_str(), "%la,%la,%la", c.geo.h, c.geo.h + 1, c.geo.h + 2);
  sscanf(replay_field(txt, "bc").c_str(), "%d,%d,%d,%d,%d,%d", c.geo.bc, c.geo.bc + 1, c.geo.bc + 2,
         c.geo.bc + 3, c.geo.bc + 4, c.geo.bc + 5);
  const double gamma = strtod(replay_field(txt, "gamma").c_str(), nullptr);
  const double frac = strtod(replay_field(txt, "dtfrac").c_str(), nullptr);
  c.igamma = c.idt = 0;
  for (int i = 0; i < 4; ++i)
    if (GAMMAS[i] == gamma)
      c.igamma = i;
  for (int i = 0; i < 3; ++i)
    if (DTFRACS[i] == frac)
      c.idt = i;
  c.cells = replay_field(txt, "cells");
  c.order = atoi(replay_field(txt, "order").c_str());
  c.seed = strtoull(replay_field(txt, "seed").c_str(), nullptr, 10);
  if (!c.geo.valid() || (int)c.cells.size() != c.geo.number_of_cells()) {
    printf("replay: cannot parse the case\n");
    return R.finish(A);
  }
  printf("replay of %s\n", case_text(c).c_str());
  std::unique_ptr< Hydro > hydro(make_hydro(GAMMAS[c.igamma]));
  StepDriver drv(c.geo);
  if (!drv.error.empty()) {
    printf("driver error: %s\n", drv.error.c_str());
    R.violation("C04:driver:setup", drv.error, case_json(c));
    return R.finish(A);
  }
  const std::vector< Prim > prims = prims_of(c.cells);
  ReferenceResult ref;
  reference_init(c.geo, *hydro, prims, ref);
  reference_step(c.geo, *hydro, *drv.boundaries, DTFRACS[c.idt] * ref.dt_limit, ref);
  Outcome o;
  run_case(drv, *hydro, prims, c, ref, o);
  printf("stability limit %.17g, dt %.17g, %zu tasks, wall Mach %.6g, pre-clamp minima: mass %.6g energy %.6g%s\n",
         o.dt_limit, o.dt, o.trace.tasks_executed, o.trace.wall_mach, o.trace.preclamp_min_mass,
         o.trace.preclamp_min_energy, o.trace.safeguard() ? "  (positivity safeguard intervened)" : "");
  if (!o.nonfinite_origin.empty())
    printf("first non-finite value appears in stage: %s\n", o.nonfinite_origin.c_str());
  for (int j = 0; j < 5; ++j)
    printf("  total %-10s before %.17Lg after %.17Lg  change %.3Lg  tolerance %.3g\n", VARNAME[j], o.before[j],
           o.after[j], o.after[j] - o.before[j], TOL_K * DBL_EPSILON * o.scale[j]);
  for (size_t g = 0; g < o.state.size() / 10; ++g)
    printf("  cell %zu (%s): m %.9g p %.9g %.9g %.9g E %.9g | rho %.9g v %.9g %.9g %.9g P %.9g\n", g,
           STATE_NAME[c.cells[g] - '0'], o.state[10 * g], o.state[10 * g + 1], o.state[10 * g + 2],
           o.state[10 * g + 3], o.state[10 * g + 4], o.state[10 * g + 5], o.state[10 * g + 6],
           o.state[10 * g + 7], o.state[10 * g + 8], o.state[10 * g + 9]);
  Stats S;
  std::vector< Finding > f;
  judge(c, o, S, f);
  ++R.evaluations;
  for (auto &x : f) {
    printf("VIOLATION %s :: %s\n", x.key.c_str(), x.detail.c_str());
    R.violation(x.key, x.detail + " :: " + case_text(c), case_json(c));
  }
  if (f.empty())
    printf("no violation in this case\n");
  return R.finish(A);
}

int main(int argc, char **argv) {
  Args A = parse_args(argc, argv);
  Result R(A);
  signal(SIGABRT, on_abort);
  g_current = nullptr;
  if (!A.replay.empty())
    return replay(A, R);

  const bool thorough = A.thorough();
  // alphabets: the 4-cell grid always gets the full alphabet without pruning;
  // the 8-cell grids get the full alphabet (thorough) or a sub-alphabet (quick),
  // one representative per translation orbit
  const std::vector< int > full = {0, 1, 2, 3, 4, 5};
  const std::vector< int > extended = {0, 1, 2, 3, 4, 5, 6, 7, 8, 9}; // 4-cell grid: plus Mach ~1.1-1.6 towards +-x, denormal density, exact vacuum
  // thorough tier: five of the six states per 8-cell grid: 2x2x2 without the -x state, 4x2x1 without the
  // hot-thin state (every state is on at least two grids; the 4-cell grid has all of them)
  const std::vector< int > big[2] = {{0, 1, 2, 3, 5}, {0, 1, 3, 4, 5}};
  // quick tier: rest / supersonic+x / near-vacuum on 2x2x2, dense-cold / supersonic+x / near-vacuum on 4x2x1
  const std::vector< int > sub[2] = {{0, 3, 5}, {1, 3, 5}};
  std::vector< std::string > cells_of_grid[3];
  for (int g = 0; g < 3; ++g) {
    const bool small = GRIDS[g][0] * GRIDS[g][1] * GRIDS[g][2] <= 4;
    const std::string key = fmt("alphabet%d", g);
    std::vector< int > alpha = small ? extended : (thorough ? big[g] : sub[g]);
    if (!A.get(key).empty()) { // e.g. --alphabet0 0135 (experiments)
      alpha.clear();
      for (char ch : A.get(key))
        alpha.push_back(ch - '0');
    }
    assignments(GRIDS[g], alpha, !small, cells_of_grid[g]);
    if (!small && A.get(key).empty())
      inclusions(GRIDS[g], thorough ? std::vector< int >{0, 1, 3, 4} : std::vector< int >{0, 3},
                 thorough ? std::vector< int >{3, 4} : std::vector< int >{3}, cells_of_grid[g]);
  }
  std::unique_ptr< Hydro > hydros[4];
  for (int i = 0; i < 4; ++i)
    hydros[i].reset(make_hydro(GAMMAS[i]));

  // work items: (grid, boundary mix, aspect, chunk of assignments)
  struct Item {
    int g, ib, ia;
    size_t first, last;
    uint64_t ordinal0;
  };
  std::vector< Item > items;
  const size_t CHUNK = 256;
  uint64_t ordinal = 0;
  for (int g = 0; g < 3; ++g) {
    const size_t nl = layouts_of(GRIDS[g]).size();
    for (int ib = 0; ib < NBC; ++ib)
      for (int ia = 0; ia < 2; ++ia)
        for (size_t first = 0; first < cells_of_grid[g].size(); first += CHUNK) {
          const size_t last = std::min(first + CHUNK, cells_of_grid[g].size());
          items.push_back({g, ib, ia, first, last, ordinal});
          ordinal += (last - first) * 12 * nl;
        }
  }
  // VERIF_SEED only rotates the order of the work items and of the order policies
  if (!items.empty())
    std::rotate(items.begin(), items.begin() + (size_t)(A.seed % (long)items.size()), items.end());

  const int nthread = omp_get_max_threads();
  std::vector< Stats > stats(nthread);
  std::vector< char > item_done(items.size(), 0);
  bool deadline_hit = false;
  std::string setup_error;

#pragma omp parallel for schedule(dynamic, 1)
  for (size_t ii = 0; ii < items.size(); ++ii) {
    if (R.out_of_time()) {
#pragma omp critical
      deadline_hit = true;
      continue;
    }
    Stats &S = stats[omp_get_thread_num()];
    const Item &it = items[ii];
    Geometry base;
    for (int a = 0; a < 3; ++a) {
      base.ncell[a] = GRIDS[it.g][a];
      base.nsub[a] = 1;
      base.h[a] = ASPECTS[it.ia][a];
    }
    boundary_mix(it.ib, base.bc);
    const auto layouts = layouts_of(GRIDS[it.g]);
    std::vector< std::unique_ptr< StepDriver > > drivers;
    for (auto &l : layouts) {
      Geometry geo = base;
      for (int a = 0; a < 3; ++a)
        geo.nsub[a] = l[a];
      drivers.emplace_back(new StepDriver(geo));
      if (!drivers.back()->error.empty()) {
#pragma omp critical
        setup_error = drivers.back()->error + " (" + geo.str() + ")";
      }
    }
    if (!setup_error.empty())
      continue;
    ReferenceResult ref;
    Outcome o;
    std::vector< Finding > findings;
    uint64_t ord = it.ordinal0;
    for (size_t ic = it.first; ic < it.last; ++ic) {
      const std::string &cells = cells_of_grid[it.g][ic];
      const std::vector< Prim > prims = prims_of(cells);
      for (int ig = 0; ig < 4; ++ig)
        for (int idt = 0; idt < 3; ++idt) {
          const Hydro &hydro = *hydros[ig];
          reference_init(base, hydro, prims, ref);
          if (!(ref.dt_limit > 0.) || !std::isfinite(ref.dt_limit)) {
            S.skipped_dt += layouts.size();
            ord += layouts.size();
            continue;
          }
          const double dt = DTFRACS[idt] * ref.dt_limit;
          reference_step(base, hydro, *drivers[0]->boundaries, dt, ref);
          ++S.reference_steps;
          for (size_t il = 0; il < layouts.size(); ++il, ++ord) {
            Case c;
            c.geo = drivers[il]->geo;
            c.cells = cells;
            c.igamma = ig;
            c.idt = idt;
            c.order = (int)((ic + il + ig + (uint64_t)A.seed) % ORDER_NUMBER);
            c.seed = ic * 12 + ig * 3 + idt;
            g_current = &c;
            run_case(*drivers[il], hydro, prims, c, ref, o);
            g_current = nullptr;
            if (ic == it.first && ig == 0 && idt == 0 && !drivers[il]->observation_functions_agree())
              S.violation("C04:driver:observation-functions-disagree", ord,
                          "conserved_totals_from_grid / state_in_global_cell_order differ from the driver's cell map",
                          case_json(c));
            ++S.steps;
            ++S.order_count[c.order];
            if (o.changed)
              ++S.nontrivial;
            findings.clear();
            judge(c, o, S, findings);
            for (auto &f : findings)
              S.violation(f.key, ord, f.detail + " :: " + case_text(c), case_json(c), f.weight);
            if (ord % 1000003 == 17 || (S.samples.size() < 2 && o.changed && il + 1 == layouts.size()))
              S.samples.push_back({ord, fmt("{\"case\": %s, \"class\": \"%s\", \"wall_mach\": %.4g, "
                                            "\"mass_before\": %.17Lg, \"mass_after\": %.17Lg, "
                                            "\"energy_before\": %.17Lg, \"energy_after\": %.17Lg}",
                                            case_json(c).c_str(),
                                            o.trace.safeguard() ? "safeguard"
                                                                : (c.geo.all_periodic() ? "periodic"
                                                                                        : (c.geo.walls_only() ? "walls" : "open")),
                                            o.trace.wall_mach, o.before[0], o.after[0], o.before[4], o.after[4])});
          }
        }
    }
    item_done[ii] = 1;
  }
  g_current = nullptr;

  Stats T;
  for (auto &s : stats)
    T.merge(s);
  if (!setup_error.empty())
    R.violation("C04:driver:setup", setup_error);
  if (deadline_hit) {
    size_t nd = 0;
    for (char c : item_done)
      nd += c;
    R.hit_deadline(fmt("%zu of %zu work items (grid x boundary mix x aspect x 256 assignments) completed", nd,
                       items.size()));
  }
  R.evaluations = T.steps;
  R.nontrivial = T.nontrivial;
  for (auto &kv : T.violations) {
    R.violation(kv.first, kv.second.detail + fmt(" [%" PRIu64 " cases with this key]", kv.second.count),
                kv.second.replay);
    R.violation_count += kv.second.count - 1;
  }
  std::sort(T.samples.begin(), T.samples.end());
  for (size_t i = 0; i < T.samples.size() && i < 6; ++i)
    R.sample(T.samples[i * T.samples.size() / std::min< size_t >(6, T.samples.size())].second);
  for (int g = 0; g < 3; ++g)
    R.set(fmt("assignments_grid_%dx%dx%d", GRIDS[g][0], GRIDS[g][1], GRIDS[g][2]), (double)cells_of_grid[g].size());
  R.set("reference_steps", (double)T.reference_steps);
  R.set("skipped_no_finite_time_step", (double)T.skipped_dt);
  R.set("class_periodic_conservation_checked", (double)T.cls_periodic_checked);
  R.set("class_walls_mass_energy_checked", (double)T.cls_walls_checked);
  R.set("class_safeguard_intervened_only_physical", (double)T.cls_safeguard);
  R.set("class_wall_mach_ge_1.5_only_physical", (double)T.cls_wallmach);
  R.set("class_open_boundaries_only_physical", (double)T.cls_open);
  R.set("totals_checked", (double)T.checked_totals);
  R.set("totals_reproduced_exactly", (double)T.exact_totals);
  R.set("totals_within_10x_of_tolerance", (double)T.near_tolerance);
  R.set("max_error_over_tolerance_among_passing", T.max_ratio);
  R.set("max_wall_mach_among_checked_wall_cases", T.max_wall_mach_checked);
  R.set("tolerance_k", TOL_K);
  for (int i = 0; i < ORDER_NUMBER; ++i)
    R.set(std::string("steps_order_") + order_name(i), (double)T.order_count[i]);
  R.set("threads", nthread);
  R.rule = "one real hydro step (make_hydro_tasks/set_dependencies/reset_hydro_tasks/execute_task, sequential "
           "dependency respecting order) per (grid, assignment of the state alphabet to the cells, gamma, dt "
           "fraction of the code's stability limit, subgrid layout, boundary mix, cell aspect); 4-cell grid: "
           "every assignment; 8-cell grids: one assignment per cyclic-translation orbit (exact symmetry for "
           "periodic boxes with undivided or one-cell subgrids, a representative subset otherwise); "
           "non-trivial = the step changed at least one conserved variable of a cell";
  R.assumptions.push_back("state alphabet, gamma, dt fractions, grids, layouts and boundary mixes as listed in "
                          "harness/C04/NOTES.md; nothing is claimed outside this product");
  R.assumptions.push_back("tasks run one at a time; thread interleavings of the real loop are covered by the "
                          "scheduler engine, which reuses hsd::conserved_totals_from_grid");
  return R.finish(A);
}
