CHECK = {
    "id": "C18",
    "level": "exploration",
    "engine": "E3",
    "technique": "bounded-exhaustive enumeration against independently coded published fits (quad precision) and "
                 "independently integrated spectra; samplers driven by a RandomGenerator with chosen outputs",
    "level_text": "Frequencies, temperatures and random numbers form continua. The check evaluates complete finite "
                  "alphabets built from the anchored code (dense log grids plus both neighbours of every shell threshold, "
                  "inner-shell edge, fit clamp and table-bin edge) for every tracked ion, every shell of the elements the "
                  "tables cover, every charge-transfer reaction and every spectrum sampler, and decides sign, threshold, "
                  "formula, monotonicity, range and inverse-CDF oracles on each point. Exhaustive over the alphabet, "
                  "silent between grid points.",
    "level_note": "exhaustive:true refers to the stated alphabets. Cross sections are compared to the Verner & Yakovlev "
                  "(1995) / Verner et al. (1996) formulae evaluated in __float128 from the text of data/verner_A.dat and "
                  "verner_B.dat; a tracked ion's value is the sum over its sub-shells with thresholds below 54.4 eV. "
                  "Sampler tolerance = resolution of the spectrum's own table (one bin; node-valued samplers: -1/+2 bins) "
                  "plus the derived error bound of the tabulated nodes.",
    "quick_deadline": 90,
    "thorough_deadline": 600,
    "parts": [
        {"name": "cross_sections", "bin": "c18_atomic", "args": ["--what", "xsec"], "share": 0.3},
        {"name": "rates", "bin": "c18_atomic", "args": ["--what", "rates"], "share": 0.1},
        {"name": "samplers", "bin": "c18_samplers", "share": 0.6},
    ],
    "assumptions": [],
}
