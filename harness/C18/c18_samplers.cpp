// C18 (c): spectrum samplers driven by a RandomGenerator whose next output is
// chosen by the harness. For every spectrum the whole u alphabet (log + linear
// grid in [1e-10, 1) plus every table-bin edge and its two neighbours) is fed
// to the REAL get_random_frequency; the returned frequency must lie inside the
// spectrum's range, be non-decreasing in u, and satisfy CDF_ref(nu(u)) = u
// within the table-interpolation bound, where CDF_ref integrates the analytic
// spectrum independently (Gauss-Legendre, long double).
//
// Compiled with -fno-access-control: the private state of RandomGenerator is
// written (next output) and the private tables of the spectra are read (bin
// edges of the u alphabet only - never used by the oracle).
#include "HeliumLymanContinuumSpectrum.hpp"
#include "HeliumTwoPhotonContinuumSpectrum.hpp"
#include "HydrogenLymanContinuumSpectrum.hpp"
#include "LinearPhotonSourceSpectrumMask.hpp"
#include "MaskedPhotonSourceSpectrum.hpp"
#include "MonochromaticPhotonSourceSpectrum.hpp"
#include "PlanckPhotonSourceSpectrum.hpp"
#include "RandomGenerator.hpp"
#include "UniformPhotonSourceSpectrum.hpp"
#include "VernerCrossSections.hpp"
#include "c18_ref.hpp"
#include "verif_common.hpp"

#include <algorithm>
#include <cfloat>
#include <csetjmp>
#include <functional>
#include <memory>
#include <omp.h>

using namespace verif;
typedef long double ld;

static thread_local sigjmp_buf g_jb;
static thread_local int g_armed = 0;
extern "C" void abort(void) noexcept {
  if (g_armed) {
    g_armed = 0;
    siglongjmp(g_jb, 1);
  }
  _exit(134);
}

// my own constants (CODATA 2014)
static const ld H_PLANCK = 6.626070040e-34L, K_BOLTZ = 1.38064852e-23L;
static const double NU_OUT = 3.288465385e15; // 13.6 eV in Hz used for returned frequencies
static const double NU_TAB = 3.289e15;       // 13.6 eV in Hz used inside several tables

/// make the next get_uniform_random_double() of rg return u
static void feed(RandomGenerator &rg, double u) {
  for (int k = 0; k < 12; ++k)
    rg._xdbl[k] = u;
  rg._ir = 0;
  rg._ir_old = 0;
}
static unsigned consumed(const RandomGenerator &rg) { return (unsigned)rg._ir; }

// ------------------------------------------------------- reference integrals
static const ld GLX[8] = {0.0950125098376374401853193L, 0.2816035507792589132304605L, 0.4580167776572273863424194L,
                          0.6178762444026437484466718L, 0.7554044083550030338951012L, 0.8656312023878317438804679L,
                          0.9445750230732325760779884L, 0.9894009349916499325961542L};
static const ld GLW[8] = {0.1894506104550684962853967L, 0.1826034150449235888667637L, 0.1691565193950025381893121L,
                          0.1495959888165767320815017L, 0.1246289712555338720524763L, 0.0951585116824927848099251L,
                          0.0622535239386478928628438L, 0.0271524594117540948517806L};
template < typename F > static ld gl16(F f, ld a, ld b) {
  if (!(b > a))
    return 0.L;
  const ld c = 0.5L * (a + b), h = 0.5L * (b - a);
  ld s = 0.L;
  for (int i = 0; i < 8; ++i)
    s += GLW[i] * (f(c - h * GLX[i]) + f(c + h * GLX[i]));
  return s * h;
}

/// reference CDF of a density on [lo, hi], tabulated on `nb` equal panels with
/// composite Gauss-Legendre; value at arbitrary x by one more panel
struct RefCDF {
  std::function< ld(ld) > pdf; // unnormalised
  ld lo = 0, hi = 0;
  int nb = 0;
  std::vector< ld > cum; // cum[i] = integral lo..node i
  std::vector< ld > breaks; // extra panel breaks (kinks) inside [lo,hi], sorted
  ld total = 0;
  ld node(int i) const { return lo + (hi - lo) * i / nb; }
  ld panel(ld a, ld b) const {
    // split at kinks
    ld s = 0, cur = a;
    for (ld k : breaks)
      if (k > cur && k < b) {
        s += gl16(pdf, cur, k);
        cur = k;
      }
    return s + gl16(pdf, cur, b);
  }
  void build() {
    cum.assign(nb + 1, 0.L);
    for (int i = 0; i < nb; ++i)
      cum[i + 1] = cum[i] + panel(node(i), node(i + 1));
    total = cum[nb];
  }
  ld raw(ld x) const {
    if (x <= lo)
      return 0.L;
    if (x >= hi)
      return total;
    int i = (int)((x - lo) / (hi - lo) * nb);
    if (i >= nb)
      i = nb - 1;
    while (i > 0 && node(i) > x)
      --i;
    return cum[i] + panel(node(i), x);
  }
  ld operator()(ld x) const { return raw(x) / total; }
  /// largest error of the composite trapezoid rule on the table's own nodes
  /// (the tabulated CDFs are built with it): max_i |T_i/T_n - C_i/C_n|
  ld trapezoid_node_error() const {
    std::vector< ld > t(nb + 1, 0.L);
    for (int i = 0; i < nb; ++i)
      t[i + 1] = t[i] + 0.5L * (pdf(node(i)) + pdf(node(i + 1))) * (node(i + 1) - node(i));
    ld e = 0;
    for (int i = 0; i <= nb; ++i)
      e = std::max(e, fabsl(t[i] / t[nb] - cum[i] / total));
    return e;
  }
};

// ---------------------------------------------------------------- the driver
struct Case {
  std::string name;                          // family + parameters, identifies the case (replay, details)
  std::string family;                        // stable, goes into violation keys
  std::string regime;                        // e.g. T-inside-table
  std::function< double(RandomGenerator &) > draw;
  double numin, numax;                       // ionizing range of the spectrum (Hz)
  std::function< ld(double) > cdf_lo, cdf_hi; // admissible u interval for a returned nu (resolution of the table)
  std::function< ld(double) > slack;          // derived error bound of the tabulated nodes, added on both sides
  std::vector< double > edges;               // table CDF values (u alphabet only)
  unsigned draws = 1;                        // random numbers one call consumes
  std::string tol_text;
};

struct Totals {
  uint64_t evals = 0, nontrivial = 0, near = 0, range_bad = 0, mono_bad = 0, cdf_bad = 0;
  double max_excess = 0.; // largest distance outside the admissible interval / its width
  double max_slack_used = 0.; // accepted cases: largest distance outside the resolution interval / slack
};

static std::vector< double > u_alphabet(bool thorough, const std::vector< double > &edges, long seed) {
  const int n = thorough ? 10000 : 2000;
  std::vector< double > us;
  for (int i = 0; i < n / 2; ++i) // log part 1e-10 .. 1
    us.push_back(std::pow(10., -10. + 10. * i / (n / 2)));
  for (int i = 0; i < n / 2; ++i) // linear part; VERIF_SEED only shifts the constant offset pattern
    us.push_back((i + 0.25 + 0.5 * ((seed + i) % 2)) / (n / 2));
  for (double e : edges)
    for (double v : {std::nextafter(e, 0.), e, std::nextafter(e, 2.)})
      us.push_back(v);
  us.push_back(1.e-10);
  us.push_back(std::nextafter(1.e-10, 1.));
  us.push_back(1. - std::ldexp(1., -48)); // largest RANLUX double
  us.push_back(1. - std::ldexp(1., -53));
  std::vector< double > out;
  for (double u : us)
    if (u >= 1.e-10 && u < 1.)
      out.push_back(u);
  std::sort(out.begin(), out.end());
  out.erase(std::unique(out.begin(), out.end()), out.end());
  return out;
}

static void run_case(const Case &c, const Args &A, Result &R, Totals &tot, const char *only_u = nullptr) {
  std::vector< double > us = u_alphabet(A.thorough(), c.edges, A.seed);
  if (only_u) {
    us.clear();
    const double u = strtod(only_u, nullptr);
    us = {std::nextafter(u, 0.), u};
  }
  RandomGenerator rg(42);
  double prev_nu = -1., prev_u = -1.;
  const std::string tag = c.family + ":" + c.regime;
  for (double u : us) {
    feed(rg, u);
    double nu = 0.;
    g_armed = 1;
    if (sigsetjmp(g_jb, 1) == 0) {
      nu = c.draw(rg);
      g_armed = 0;
    } else {
      R.violation("C18:sampler:abort:" + tag, fmt("abort for u=%.17g", u));
      return;
    }
    ++tot.evals;
    const std::string rep = fmt("{\"what\": \"sampler\", \"case\": \"%s\", \"regime\": \"%s\", \"u\": \"%a\"}", c.name.c_str(),
                                c.regime.c_str(), u);
    if (only_u)
      printf("  u=%.17g -> nu=%.17g Hz (range [%.17g, %.17g]), admissible u in [%.17Lg, %.17Lg]\n", u, nu, c.numin, c.numax,
             c.cdf_lo(nu) - c.slack(nu), c.cdf_hi(nu) + c.slack(nu));
    if (consumed(rg) != c.draws)
      R.violation("C18:sampler:draw-count:" + tag, fmt("%u random numbers consumed, expected %u", consumed(rg), c.draws), rep);
    if (!std::isfinite(nu)) {
      R.violation("C18:sampler:nonfinite:" + tag, fmt("frequency %g for u=%.17g", nu, u), rep);
      continue;
    }
    // range: 4 eps slack for the rounding of the interpolation at the ends
    if (nu < c.numin * (1. - 4. * DBL_EPSILON) || nu > c.numax * (1. + 4. * DBL_EPSILON)) {
      ++tot.range_bad;
      R.violation("C18:sampler:range:" + tag + (nu < c.numin ? ":below-min" : ":above-max"),
                  fmt("%s: frequency %.17g Hz for u=%.17g is outside the range [%.17g, %.17g] Hz of the spectrum", c.name.c_str(), nu, u,
                      c.numin, c.numax),
                  rep);
    }
    // monotone: 64 eps slack (pow(10, log10) round trip of the Planck table)
    if (prev_nu >= 0. && nu < prev_nu * (1. - 64. * DBL_EPSILON)) {
      ++tot.mono_bad;
      R.violation("C18:sampler:monotone:" + tag,
                  fmt("%s: frequency falls from %.17g Hz (u=%.17g) to %.17g Hz (u=%.17g)", c.name.c_str(), prev_nu, prev_u, nu, u), rep);
    }
    prev_nu = nu;
    prev_u = u;
    // cumulative distribution
    const ld sl = c.slack(nu);
    const ld clo = c.cdf_lo(nu), chi = c.cdf_hi(nu);
    const ld lo = clo - sl, hi = chi + sl;
    const ld width = std::max(hi - lo, (ld)1e-300);
    if (hi > lo)
      ++tot.nontrivial;
    if ((ld)u < lo || (ld)u > hi) {
      ++tot.cdf_bad;
      const ld ex = ((ld)u < lo ? lo - u : u - hi) / width;
      tot.max_excess = std::max(tot.max_excess, (double)ex);
      R.violation("C18:sampler:cdf:" + tag,
                  fmt("%s: u=%.17g gives nu=%.17g Hz, but the reference distribution admits this frequency only for u in [%.17Lg, %.17Lg] (%s)",
                      c.name.c_str(), u, nu, lo, hi, c.tol_text.c_str()),
                  rep);
    } else {
      // near miss: within 10% of the interval width from an end does not say
      // much for an interval test; count u within 0.1 x (slack part) instead
      const ld out = std::max(clo - (ld)u, (ld)u - chi); // > 0: only admitted thanks to the slack
      if (out > 0 && sl > 0) {
        tot.max_slack_used = std::max(tot.max_slack_used, (double)(out / sl));
        if (out > 0.1L * sl)
          ++tot.near;
      }
    }
  }
  if (!only_u)
    R.sample(fmt("{\"spectrum\": \"%s\", \"regime\": \"%s\", \"u_values\": %zu, \"last_u\": %.17g, \"last_nu_Hz\": %.17g}",
                 c.name.c_str(), c.regime.c_str(), us.size(), prev_u, prev_nu));
}

// ------------------------------------------------------------------ builders
static c18::Tables g_tab;
/// neutral H / He ground state cross section (one shell, no inner edge: the
/// 1996 fit over the whole range), long double version of c18::fit96
static ld sigma_ref(int Z, int N, ld nu) {
  static const ld cq = (ld)(c18::q("1.6021766208e-19") / c18::q("6.626070040e-34"));
  const c18::BRow &r = g_tab.B.at({Z, N});
  const ld E = nu / cq;
  if (E < (ld)r.Eth)
    return 0.L;
  const ld x = E / (ld)r.E0 - (ld)r.y0;
  const ld y = sqrtl(x * x + (ld)r.y1 * (ld)r.y1);
  return (ld)r.s0 * 1.e-22L * ((x - 1) * (x - 1) + (ld)r.yw * (ld)r.yw) * powl(y, 0.5L * (ld)r.P - 5.5L) *
         powl(1 + sqrtl(y / (ld)r.ya), -(ld)r.P);
}

struct Owned {
  std::vector< std::shared_ptr< void > > keep;
};

static Case planck_case(double T, Owned &own) {
  auto sp = std::make_shared< PlanckPhotonSourceSpectrum >(T, 1., nullptr);
  own.keep.push_back(sp);
  auto ref = std::make_shared< RefCDF >(), ref2 = std::make_shared< RefCDF >();
  const ld a = H_PLANCK * NU_OUT / (K_BOLTZ * T), a2 = H_PLANCK * NU_TAB / (K_BOLTZ * T);
  ref->pdf = [a](ld x) { return x * x / expm1l(a * x); };
  ref2->pdf = [a2](ld x) { return x * x / expm1l(a2 * x); };
  for (auto r : {ref, ref2}) {
    r->lo = 1;
    r->hi = 4;
    r->nb = PLANCKPHOTONSOURCESPECTRUM_NUMFREQ - 1;
    r->build();
  }
  const ld dnode = 2.L * ref2->trapezoid_node_error() + 1e-13L;
  Case c;
  c.name = fmt("planck-%gK", T);
  c.family = "planck";
  c.regime = "table";
  c.draw = [sp](RandomGenerator &rg) { return sp->get_random_frequency(rg, 0.); };
  c.numin = NU_OUT;
  c.numax = 4. * NU_OUT;
  // admissible u for a frequency in table bin i: [CDF(node i), CDF(node i+1)]
  // widened by the node error of the table and by the effect of the two
  // different values of 13.6 eV in Hz used for the table and for the output
  auto bounds = [ref, ref2, dnode](double nu, bool upper) -> ld {
    const ld x = (ld)nu / NU_OUT;
    int i = (int)floorl((x - 1.L) / 3.L * ref->nb);
    i = std::max(0, std::min(ref->nb - 1, i));
    const int j = upper ? i + 1 : i;
    const ld cst = fabsl(ref->cum[j] / ref->total - ref2->cum[j] / ref2->total);
    return ref->cum[j] / ref->total + (upper ? 1 : -1) * cst;
  };
  c.slack = [dnode](double) { return dnode; };
  c.cdf_lo = [bounds](double nu) { return bounds(nu, false); };
  c.cdf_hi = [bounds](double nu) { return bounds(nu, true); };
  c.edges.assign(sp->_cumulative_distribution.begin() + 1, sp->_cumulative_distribution.end());
  c.tol_text = fmt("table bin of nu +- (2 x trapezoid node error %.3Lg + shift from 3.289e15 vs 3.288465385e15 Hz)", dnode);
  return c;
}

/// H / He Lyman continuum at temperature T
template < class SPEC >
static Case lyc_case(const std::shared_ptr< SPEC > &sp, const char *nm, int Z, double numin, double numax, double T,
                     const std::vector< double > &Ttab) {
  auto ref = std::make_shared< RefCDF >();
  const ld kT = K_BOLTZ * T;
  const ld nmin = numin;
  // Wood, Mathis & Ercolano (2004) eq. 8: j_nu ~ nu^3 sigma(nu) exp(-h (nu - nu_0) / k T); photon number ~ j_nu / nu
  ref->pdf = [Z, kT, nmin](ld nu) { return nu * nu * sigma_ref(Z, Z, nu) * expl(-H_PLANCK * (nu - nmin) / kT) * 1e-10L; };
  ref->lo = numin;
  ref->hi = numax;
  ref->nb = 999;
  ref->build();
  const ld dnu = ((ld)numax - numin) / 999.L;
  // error of the tabulated nodes: trapezoid rule + the crossed 1/nu factors of the table construction
  ld cross = 0;
  for (int i = 0; i < ref->nb; ++i) {
    const ld n1 = ref->node(i), n2 = ref->node(i + 1);
    cross += 0.5L * fabsl(ref->pdf(n1) * n1 - ref->pdf(n2) * n2) * fabsl(1.L / n1 - 1.L / n2) * dnu;
  }
  const ld dnode = 2.L * ref->trapezoid_node_error() + cross / ref->total + 1e-13L;
  Case c;
  c.name = fmt("%s-%.17gK", nm, T);
  c.family = nm;
  c.regime = T < Ttab.front() ? "T-below-table" : (T > Ttab.back() ? "T-above-table" : "T-inside-table");
  c.draw = [sp, T](RandomGenerator &rg) { return sp->get_random_frequency(rg, T); };
  c.numin = numin;
  c.numax = numax;
  // the sampler returns table nodes (lower edge of the bin that contains the
  // inverse), linearly blended between two neighbouring temperature tables:
  // the exact inverse lies within [nu - dnu, nu + 2 dnu]
  c.cdf_lo = [ref, dnu](double nu) { return (*ref)((ld)nu - dnu); };
  c.cdf_hi = [ref, dnu](double nu) { return (*ref)((ld)nu + 2.L * dnu); };
  c.slack = [dnode](double) { return dnode; };
  size_t iT = 0;
  while (iT + 2 < Ttab.size() && Ttab[iT + 1] < T)
    ++iT;
  for (size_t k = iT; k <= iT + 1; ++k)
    c.edges.insert(c.edges.end(), sp->_cumulative_distribution[k].begin() + 1, sp->_cumulative_distribution[k].end());
  c.tol_text = fmt("[CDF(nu - 1 bin), CDF(nu + 2 bins)] +- node error %.3Lg", dnode);
  return c;
}

static std::vector< std::pair< ld, ld > > g_he2q;
static ld he2q_A(ld y) {
  if (y <= 0 || y >= 1)
    return 0;
  size_t i = 0;
  while (i + 2 < g_he2q.size() && g_he2q[i + 1].first <= y)
    ++i;
  const ld f = (y - g_he2q[i].first) / (g_he2q[i + 1].first - g_he2q[i].first);
  return g_he2q[i].second + f * (g_he2q[i + 1].second - g_he2q[i].second);
}

static Case two_photon_case(Owned &own) {
  auto sp = std::make_shared< HeliumTwoPhotonContinuumSpectrum >();
  own.keep.push_back(sp);
  auto ref = std::make_shared< RefCDF >();
  const ld nu0 = 4.98e15L; // 20.6 eV, total energy of the two photons (2^1S - 1^1S)
  ref->pdf = [nu0](ld nu) { return he2q_A(nu / nu0); };
  ref->lo = NU_OUT;
  ref->hi = 1.6L * NU_OUT;
  ref->nb = HELIUMTWOPHOTONCONTINUUMSPECTRUM_NUMFREQ - 1;
  for (auto &p : g_he2q)
    ref->breaks.push_back(p.first * nu0);
  ref->build();
  const ld dnode = 2.L * ref->trapezoid_node_error() + 1e-13L;
  Case c;
  c.name = c.family = "he-two-photon";
  c.regime = "table";
  c.draw = [sp](RandomGenerator &rg) { return sp->get_random_frequency(rg, 8000.); };
  c.numin = NU_OUT;
  c.numax = 1.6 * NU_OUT;
  auto bounds = [ref, dnode](double nu, bool upper) -> ld {
    int i = (int)floorl(((ld)nu - ref->lo) / (ref->hi - ref->lo) * ref->nb);
    i = std::max(0, std::min(ref->nb - 1, i));
    return ref->cum[upper ? i + 1 : i] / ref->total;
  };
  c.slack = [dnode](double) { return dnode; };
  c.cdf_lo = [bounds](double nu) { return bounds(nu, false); };
  c.cdf_hi = [bounds](double nu) { return bounds(nu, true); };
  c.edges.assign(sp->_cumulative_distribution.begin() + 1, sp->_cumulative_distribution.end());
  c.tol_text = fmt("table bin of nu +- 2 x trapezoid node error %.3Lg", dnode);
  return c;
}

static Case masked_case(bool thorough, Owned &own) {
  const double T = 40000.;
  const uint_fast32_t nsamp = thorough ? 10000000 : 1000000;
  const int nbins = 1000;
  auto sp = std::shared_ptr< MaskedPhotonSourceSpectrum >(new MaskedPhotonSourceSpectrum(
      new PlanckPhotonSourceSpectrum(T, 1., nullptr), new LinearPhotonSourceSpectrumMask(), nbins, nsamp));
  own.keep.push_back(sp);
  auto ref = std::make_shared< RefCDF >(), unm = std::make_shared< RefCDF >();
  const ld a = H_PLANCK * NU_OUT / (K_BOLTZ * T);
  const ld lo = NU_TAB, hi = 4.L * NU_TAB;
  // Planck photons (defined on [1,4] x 3.288465385e15 Hz) times the linear mask 1 - (nu - lo)/(hi - lo)
  auto planck = [a](ld nu) {
    const ld x = nu / NU_OUT;
    return (x < 1 || x > 4) ? 0.L : x * x / expm1l(a * x);
  };
  ref->pdf = [planck, lo, hi](ld nu) { return planck(nu) * (1.L - (nu - lo) / (hi - lo)); };
  unm->pdf = planck;
  for (auto r : {ref, unm}) {
    r->lo = lo;
    r->hi = hi;
    r->nb = nbins - 1;
    r->breaks = {(ld)4.L * NU_OUT};
    r->build();
  }
  const ld surviving = ref->total / unm->total; // fraction of photons that pass the mask
  // Monte Carlo construction of the table with nsamp samples: DKW bound on the
  // empirical CDF at confidence 1 - 1e-9, propagated through mask (total
  // variation 1: |sum (c_j/N - p_j) m_j| <= 2 D by Abel summation) and
  // normalisation (another 2 D): 4 D / surviving; mask evaluated at the
  // lower bin edge instead of in the bin: (1/(nbins-1)) / surviving
  const ld D = sqrtl(logl(2.L / 1e-9L) / (2.L * nsamp));
  const ld slack = 4.L * D / surviving + (1.L / (nbins - 1)) / surviving;
  const ld dnu = (hi - lo) / (nbins - 1);
  Case c;
  c.name = fmt("masked-planck-%gK-linear", T);
  c.family = "masked";
  c.regime = "table";
  c.draw = [sp](RandomGenerator &rg) { return sp->get_random_frequency(rg, 0.); };
  c.numin = NU_TAB;
  c.numax = 4. * NU_TAB;
  // histogram bin i is stored at node i: one bin of shift plus interpolation
  c.cdf_lo = [ref, dnu](double nu) { return (*ref)((ld)nu - dnu); };
  c.cdf_hi = [ref, dnu](double nu) { return (*ref)((ld)nu + 2.L * dnu); };
  c.slack = [slack](double) { return slack; };
  c.edges.assign(sp->_cumulative_distribution.begin(), sp->_cumulative_distribution.end());
  c.tol_text = fmt("[CDF(nu - 1 bin), CDF(nu + 2 bins)] +- (Monte Carlo table, %lu samples: %.3Lg)", (unsigned long)nsamp, slack);
  return c;
}

static Case uniform_case(Owned &own) {
  auto sp = std::make_shared< UniformPhotonSourceSpectrum >();
  own.keep.push_back(sp);
  Case c;
  c.name = c.family = "uniform";
  c.regime = "closed-form";
  c.draw = [sp](RandomGenerator &rg) { return sp->get_random_frequency(rg, 0.); };
  c.numin = NU_TAB;
  c.numax = 4. * NU_TAB;
  c.cdf_lo = [](double nu) { return ((ld)nu / NU_TAB - 1.L) / 3.L; };
  c.cdf_hi = [](double nu) { return ((ld)nu / NU_TAB - 1.L) / 3.L; };
  c.slack = [](double) { return 8.L * DBL_EPSILON; };
  c.tol_text = "8 eps";
  return c;
}

static Case mono_case(double nu0, Owned &own) {
  auto sp = std::make_shared< MonochromaticPhotonSourceSpectrum >(nu0, 1., nullptr);
  own.keep.push_back(sp);
  Case c;
  c.name = fmt("monochromatic-%gHz", nu0);
  c.family = "monochromatic";
  c.regime = "closed-form";
  c.draw = [sp](RandomGenerator &rg) { return sp->get_random_frequency(rg, 0.); };
  c.numin = c.numax = nu0;
  c.draws = 0;
  // step distribution at nu0: every u is admissible for nu == nu0, none otherwise
  c.cdf_lo = [nu0](double nu) { return nu == nu0 ? 0.L : 2.L; };
  c.cdf_hi = [nu0](double nu) { return nu == nu0 ? 1.L : -1.L; };
  c.slack = [](double) { return 0.L; };
  c.tol_text = "exact";
  return c;
}

int main(int argc, char **argv) {
  Args A = parse_args(argc, argv);
  Result R(A);
  R.max_violations = 80;
  if (A.replay.empty() && !freopen("/dev/null", "w", stderr)) {
  }
  std::string err;
  if (!c18::load_tables("/verif/build/data", g_tab, err)) {
    R.violation("C18:sampler:tables-unreadable", err);
    return R.finish(A);
  }
  {
    FILE *f = fopen("/verif/build/data/He2q.dat", "r");
    char line[256];
    while (f && fgets(line, sizeof(line), f)) {
      double y, a;
      if (line[0] != '#' && sscanf(line, "%lf %lf", &y, &a) == 2)
        g_he2q.push_back({(ld)y, (ld)a});
    }
    if (f)
      fclose(f);
    if (g_he2q.size() != 41) {
      R.violation("C18:sampler:tables-unreadable", fmt("He2q.dat: %zu rows", g_he2q.size()));
      return R.finish(A);
    }
  }
  const bool th = A.thorough();
  Owned own;
  std::vector< Case > cases;
  std::vector< double > planckT = {1.e4, 4.e4, 1.e5};
  if (th)
    planckT = {3.e3, 5.e3, 1.e4, 2.e4, 3.e4, 4.e4, 5.e4, 1.e5, 1.e6, 1.e8};
  for (double T : planckT)
    cases.push_back(planck_case(T, own));
  cases.push_back(uniform_case(own));
  cases.push_back(mono_case(13.6 * 2.417989262e14, own));
  cases.push_back(mono_case(5.e15, own));
  cases.push_back(two_photon_case(own));
  cases.push_back(masked_case(th, own));
  {
    VernerCrossSections cs;
    auto hl = std::make_shared< HydrogenLymanContinuumSpectrum >(cs);
    auto hel = std::make_shared< HeliumLymanContinuumSpectrum >(cs);
    own.keep.push_back(hl);
    own.keep.push_back(hel);
    std::vector< double > Ttab(hl->_temperature.begin(), hl->_temperature.end());
    // temperature alphabet: table nodes and their neighbours, bin interiors,
    // typical HII region values; outside the table: the clamps of the thermal
    // balance (500 K, 30000 K) and the ends of the C06 range
    std::vector< double > Tin = {Ttab.front(), std::nextafter(Ttab.front(), 1e9), 0.5 * (Ttab[0] + Ttab[1]), 4000., 8000.,
                                 Ttab[48], std::nextafter(Ttab[48], 0.), 1.e4, 0.5 * (Ttab[98] + Ttab[99]), Ttab.back()};
    std::vector< double > Tout = {500., 30000.};
    if (th) {
      for (int k : {1, 10, 25, 75, 90, 98})
        Tin.push_back(Ttab[k] + 0.3 * (Ttab[k + 1] - Ttab[k]));
      Tout = {100., 500., 1500., std::nextafter(Ttab.front(), 0.), std::nextafter(Ttab.back(), 1e9), 15000., 20000., 30000., 1.e5};
    }
    for (double T : Tin) {
      cases.push_back(lyc_case(hl, "h-lyman-continuum", 1, NU_TAB, 4. * NU_TAB, T, Ttab));
      cases.push_back(lyc_case(hel, "he-lyman-continuum", 2, 1.81 * NU_OUT, 4. * NU_OUT, T, Ttab));
    }
    for (double T : Tout) {
      cases.push_back(lyc_case(hl, "h-lyman-continuum", 1, NU_TAB, 4. * NU_TAB, T, Ttab));
      cases.push_back(lyc_case(hel, "he-lyman-continuum", 2, 1.81 * NU_OUT, 4. * NU_OUT, T, Ttab));
    }
  }
  Totals tot;
  if (!A.replay.empty()) {
    const std::string txt = read_file(A.replay);
    const std::string rp = replay_field(txt, "replay");
    const std::string name = replay_field(rp, "case"), regime = replay_field(rp, "regime"), u = replay_field(rp, "u");
    printf("replay sampler case %s (%s), u=%s\n", name.c_str(), regime.c_str(), u.c_str());
    bool found = false;
    for (const Case &c : cases)
      if (c.name == name) {
        found = true;
        run_case(c, A, R, tot, u.c_str());
      }
    if (!found)
      printf("  (case is not part of the %s tier alphabet; replay with --tier thorough)\n", A.tier.c_str());
    return R.finish(A);
  }
  size_t ncases = 0;
  bool cut = false;
  std::string percase;
#pragma omp parallel for schedule(dynamic, 1)
  for (size_t ic = 0; ic < cases.size(); ++ic) {
    if (R.out_of_time()) {
#pragma omp critical
      cut = true;
      continue;
    }
    Totals t;
    run_case(cases[ic], A, R, t);
#pragma omp critical
    {
      percase += fmt("%s\"%s:%s\": {\"u\": %llu, \"slack_used\": %.3g, \"near\": %llu, \"bad\": %llu}", percase.empty() ? "" : ", ",
                     cases[ic].name.c_str(), cases[ic].regime.c_str(), (unsigned long long)t.evals, t.max_slack_used,
                     (unsigned long long)t.near, (unsigned long long)(t.range_bad + t.mono_bad + t.cdf_bad));
      ++ncases;
      tot.evals += t.evals;
      tot.nontrivial += t.nontrivial;
      if (t.range_bad + t.mono_bad + t.cdf_bad == 0) { // slack statistics only over clean cases
        tot.near += t.near;
        tot.max_slack_used = std::max(tot.max_slack_used, t.max_slack_used);
      }
      tot.range_bad += t.range_bad;
      tot.mono_bad += t.mono_bad;
      tot.cdf_bad += t.cdf_bad;
      tot.max_excess = std::max(tot.max_excess, t.max_excess);
    }
  }
  if (cut)
    R.hit_deadline(fmt("samplers: %zu of %zu spectra done", ncases, cases.size()));
  R.evaluations = tot.evals;
  R.nontrivial = tot.nontrivial;
  R.set("spectra_cases", (double)ncases);
  R.set_json("per_case", "{" + percase + "}");
  R.set("range_violations", (double)tot.range_bad);
  R.set("monotonicity_violations", (double)tot.mono_bad);
  R.set("cdf_violations", (double)tot.cdf_bad);
  R.set("cdf_max_excess_over_admissible_interval_width", tot.max_excess);
  R.set("accepted_cases_using_more_than_10pc_of_the_slack", (double)tot.near);
  R.set("accepted_cases_max_fraction_of_slack_used", tot.max_slack_used);
  R.rule = "every spectrum case (Planck temperatures, uniform, monochromatic, masked Planck, He two-photon, H and He Lyman "
           "continuum x temperature alphabet inside and outside their temperature table) x u alphabet (log grid 1e-10..1, "
           "linear grid, every table CDF value and its two neighbouring doubles, 1e-10, 1-2^-48, 1-2^-53) fed through a "
           "RandomGenerator whose next output is set by the harness; non-trivial = draws whose admissible u interval is not "
           "degenerate (all (case, u) pairs distinct)";
  R.assumptions.push_back("reference distributions: Planck photon number spectrum x^2/(e^(h nu/kT)-1) on [1,4] x 13.6 eV; Wood, Mathis "
                          "& Ercolano (2004) eq. 8 with the reference Verner cross sections for the Lyman continua; piecewise linear "
                          "Drake et al. (1969) table for the two-photon continuum; the temperature argument of the recombination "
                          "continua ranges over [100 K, 1e5 K] (the thermal balance itself returns 500 K .. 30000 K)");
  return R.finish(A);
}
