// C18 (a) photoionization cross sections, (b) recombination and charge
// transfer rates: bounded-exhaustive enumeration against independent oracles.
//   --what xsec   : every shell of every ion of the elements covered by both
//                   Verner tables through get_cross_section_verner, and every
//                   tracked ion through get_cross_section, on a dense log
//                   frequency grid plus nu(1 +- 1e-12) at every threshold and
//                   inner shell edge
//   --what rates  : all tracked ions x T grid 10..1e9 K (+ clamp points)
#include "ChargeTransferRates.hpp"
#include "FixedValueCrossSections.hpp"
#include "VernerCrossSections.hpp"
#include "VernerRecombinationRates.hpp"
#include "c18_ref.hpp"
#include "verif_common.hpp"

#include <algorithm>
#include <atomic>
#include <cfloat>
#include <csetjmp>
#include <omp.h>

using namespace verif;
using c18::quad;

static thread_local sigjmp_buf tl_jb;
static thread_local int tl_armed = 0;
extern "C" void abort(void) noexcept {
  if (tl_armed) {
    tl_armed = 0;
    siglongjmp(tl_jb, 1);
  }
  _exit(134);
}

// CODATA 2014 (my own copy of the constants; the conversion only maps the
// energy alphabet to the frequency argument of the code)
static const char *E_CHARGE = "1.6021766208e-19";
static const char *H_PLANCK = "6.626070040e-34";

struct TrackedIon {
  int ion;
  const char *name;
  int Z, N;
};
// ion -> (atomic number, number of electrons), from the meaning of the ion
static const TrackedIon TRACKED[] = {
    {ION_H_n, "H0", 1, 1},     {ION_He_n, "He0", 2, 2},   {ION_C_p1, "C+", 6, 5},    {ION_C_p2, "C++", 6, 4},
    {ION_N_n, "N0", 7, 7},     {ION_N_p1, "N+", 7, 6},    {ION_N_p2, "N++", 7, 5},   {ION_O_n, "O0", 8, 8},
    {ION_O_p1, "O+", 8, 7},    {ION_Ne_n, "Ne0", 10, 10}, {ION_Ne_p1, "Ne+", 10, 9}, {ION_S_p1, "S+", 16, 15},
    {ION_S_p2, "S++", 16, 14}, {ION_S_p3, "S+++", 16, 13}};
static const int NTRACKED = sizeof(TRACKED) / sizeof(TRACKED[0]);
// shells that count for a tracked ion: every sub-shell whose threshold lies
// below the upper end of all source spectra of the code, 4 x 13.6 eV = 54.4 eV
// ("we only sum the relevant contributions")
static const double RELEVANT_EV = 54.4;

struct Worst {
  double ratio = 0.; // |diff| / tol
  std::string key, detail, rep;
};

static std::string data_dir() {
  const char *b = getenv("VERIF_BUILD");
  return std::string(b ? b : "/verif/build") + "/data";
}

// ----------------------------------------------------------------- xsec part
static void run_xsec(const Args &A, Result &R, const std::string &only_replay) {
  c18::Tables T;
  std::string err;
  // the harness reads the same files the code reads (configured location)
  if (!c18::load_tables("/verif/build/data", T, err) && !c18::load_tables(data_dir(), T, err)) {
    R.violation("C18:xsec:tables-unreadable", err);
    return;
  }
  VernerCrossSections cs;
  const quad cq = c18::q(E_CHARGE) / c18::q(H_PLANCK); // Hz per eV
  const double cd = (double)cq;
  const int ngrid = A.thorough() ? 4000 : 1000;

  // energy alphabet (eV): log grid 0.5..100 nu_H
  std::vector< double > grid;
  for (int k = 0; k < ngrid; ++k)
    grid.push_back(0.5 * 13.6 * std::pow(200., k / (ngrid - 1.)));

  struct Job {
    int Z, N;
  };
  std::vector< Job > jobs;
  for (auto &kv : T.A)
    if (T.B.count(kv.first)) // elements for which the code has both tables
      jobs.push_back(Job{kv.first.first, kv.first.second});
  std::rotate(jobs.begin(), jobs.begin() + (A.seed % jobs.size()), jobs.end());

  uint64_t evals = 0, nontrivial = 0, near = 0, zero_below = 0, edges = 0, shells = 0;
  double maxratio = 0.;
  std::vector< Worst > worsts;
  std::atomic< bool > timeup(false);

#pragma omp parallel
  {
    uint64_t l_evals = 0, l_non = 0, l_near = 0, l_zero = 0, l_edges = 0, l_shells = 0;
    double l_maxratio = 0.;
    std::map< std::string, Worst > l_worst;
    auto report = [&](const std::string &key, double ratio, const std::string &detail, const std::string &rep) {
      Worst &w = l_worst[key];
      if (ratio >= w.ratio) {
        w.ratio = ratio;
        w.key = key;
        w.detail = detail;
        w.rep = rep;
      }
    };
#pragma omp for schedule(dynamic, 1)
    for (size_t ij = 0; ij < jobs.size(); ++ij) {
      if (timeup)
        continue;
      if (R.out_of_time()) {
        if (!timeup.exchange(true))
          R.hit_deadline("cross sections: not all ions evaluated");
        continue;
      }
      const int Z = jobs[ij].Z, N = jobs[ij].N;
      const std::vector< c18::ARow > &rows = T.A.at({Z, N});
      const c18::BRow &brow = T.B.at({Z, N});
      // energies for this ion: grid + neighbours of every threshold / edge
      std::vector< double > Es = grid;
      std::vector< double > special;
      for (const c18::ARow &r : rows) {
        const double nu_th = (double)r.Eth * cd;
        for (double f : {1. - 1.e-12, 1. + 1.e-12, 1. - 1.e-9, 1. + 1.e-9})
          special.push_back(nu_th * f / cd);
        special.push_back((double)r.Eth); // exactly at threshold: sign/finite only
      }
      if ((double)brow.Emax < 5.e4) // an inner-shell edge (5e4 eV marks "no inner shell")
        for (double f : {1. - 1.e-12, 1. + 1.e-12})
          special.push_back((double)brow.Emax * f);
      l_edges += special.size();
      Es.insert(Es.end(), special.begin(), special.end());
      int tracked = -1;
      for (int t = 0; t < NTRACKED; ++t)
        if (TRACKED[t].Z == Z && TRACKED[t].N == N)
          tracked = t;
      l_shells += rows.size();
      for (size_t ie = 0; ie < Es.size(); ++ie) {
        const double E = Es[ie];
        const double nu = E * cd; // frequency handed to the code (Hz)
        const quad Eq = (quad)nu / cq;
        const bool exact_threshold = (ie >= grid.size()) && [&] {
          for (const c18::ARow &r : rows)
            if (E == (double)r.Eth)
              return true;
          return false;
        }();
        quad ion_ref = 0, ion_tol = 0;
        bool ion_nontrivial = false;
        for (const c18::ARow &r : rows) {
          const int is = r.shell();
          double got = 0.;
          tl_armed = 1;
          if (sigsetjmp(tl_jb, 1) == 0) {
            got = cs.get_cross_section_verner(Z, N, is, nu);
            tl_armed = 0;
          } else {
            report(fmt("C18:xsec:abort:Z%d-N%d-shell%d", Z, N, is), 1e300, fmt("abort at E=%.17g eV", E), "null");
            continue;
          }
          ++l_evals;
          const std::string rep = fmt("{\"what\": \"xsec\", \"Z\": %d, \"N\": %d, \"shell\": %d, \"E_eV\": \"%a\"}", Z, N, is, E);
          const std::string where = fmt("Z=%d N=%d shell %d%c (n=%d l=%d, E_th=%.6g eV) at E=%.17g eV", Z, N, r.n,
                                        "spd"[r.l], r.n, r.l, (double)r.Eth, E);
          if (!std::isfinite(got) || got < 0.) {
            report(fmt("C18:xsec:sign-or-finite:Z%d-N%d-shell%d", Z, N, is), 1e300,
                   fmt("cross section %g for %s", got, where.c_str()), rep);
            continue;
          }
          if (exact_threshold)
            continue; // the comparison E < E_th is decided by the last bit here
          const c18::Val ref = c18::shell_cross_section(T, r, Eq);
          if (Eq < r.Eth) {
            ++l_zero;
            if (got != 0.)
              report(fmt("C18:xsec:nonzero-below-threshold:Z%d-N%d-shell%d", Z, N, is), 1e300,
                     fmt("cross section %.17g below the threshold for %s", got, where.c_str()), rep);
            continue;
          }
          // tolerance: 1e-12 x (sum of magnitudes of the un-cancelled terms)
          // = 4504 eps x magnitudes
          const quad tol = quad(1.e-12) * ref.mag;
          const quad diff = fabsq((quad)got - ref.v);
          if (ref.v > 0) {
            ++l_non;
            ion_nontrivial = true;
          }
          if (r.Eth < RELEVANT_EV) {
            ion_ref += ref.v;
            ion_tol += tol;
          }
          if (ref.fit == 0) {
            if (got != 0.)
              report(fmt("C18:xsec:fit-selection:Z%d-N%d-shell%d", Z, N, is), 1e300,
                     fmt("code gives %.17g where the 1996 outer-shell fit already contains this sub-shell (reference 0) for %s",
                         got, where.c_str()),
                     rep);
            continue;
          }
          const double ratio = tol > 0 ? (double)(diff / tol) : (diff > 0 ? 1e300 : 0.);
          l_maxratio = std::max(l_maxratio, std::min(ratio, 1e299));
          if (ratio > 1.) {
            report(fmt("C18:xsec:formula:Z%d-N%d-shell%d:%s", Z, N, is, ref.fit == 2 ? "fit96" : "fit95"), ratio,
                   fmt("code %.17g m^2, reference %.17g m^2 (relative difference %.3g, %.3g x tolerance) for %s", got,
                       (double)ref.v, (double)(diff / (ref.v > 0 ? ref.v : 1)), ratio, where.c_str()),
                   rep);
          } else if (ratio > 0.1)
            ++l_near;
        }
        // tracked ion: the sum the photoionization code uses
        if (tracked >= 0 && !exact_threshold) {
          double got = 0.;
          tl_armed = 1;
          if (sigsetjmp(tl_jb, 1) == 0) {
            got = cs.get_cross_section(TRACKED[tracked].ion, nu);
            tl_armed = 0;
          } else {
            report(fmt("C18:xsec:abort:ion-%s", TRACKED[tracked].name), 1e300, fmt("abort at E=%.17g eV", E), "null");
            continue;
          }
          ++l_evals;
          if (ion_nontrivial)
            ++l_non;
          const std::string rep = fmt("{\"what\": \"ion\", \"ion\": %d, \"E_eV\": \"%a\"}", TRACKED[tracked].ion, E);
          const quad diff = fabsq((quad)got - ion_ref);
          if (!std::isfinite(got) || got < 0.)
            report(fmt("C18:xsec:sign-or-finite:ion-%s", TRACKED[tracked].name), 1e300,
                   fmt("cross section %g at E=%.17g eV", got, E), rep);
          else if (ion_ref == 0 && got != 0.)
            report(fmt("C18:xsec:nonzero-below-threshold:ion-%s", TRACKED[tracked].name), 1e300,
                   fmt("cross section %.17g at E=%.17g eV where every relevant shell is closed", got, E), rep);
          else if (diff > ion_tol) {
            const double ratio = ion_tol > 0 ? (double)(diff / ion_tol) : 1e300;
            report(fmt("C18:xsec:ion-sum:%s", TRACKED[tracked].name), ratio,
                   fmt("get_cross_section gives %.17g m^2, sum of the relevant shell fits (thresholds < %.1f eV) is %.17g m^2 "
                       "(%.3g x tolerance) at E=%.17g eV",
                       got, RELEVANT_EV, (double)ion_ref, ratio, E),
                   rep);
          }
        }
      }
    }
#pragma omp critical
    {
      evals += l_evals;
      nontrivial += l_non;
      near += l_near;
      zero_below += l_zero;
      edges += l_edges;
      shells += l_shells;
      maxratio = std::max(maxratio, l_maxratio);
      for (auto &kv : l_worst)
        worsts.push_back(kv.second);
    }
  }
  // one violation per key, with the worst case
  std::map< std::string, Worst > merged;
  for (const Worst &w : worsts) {
    Worst &m = merged[w.key];
    if (w.ratio >= m.ratio)
      m = w;
  }
  for (auto &kv : merged)
    R.violation(kv.first, kv.second.detail, kv.second.rep);

  // FixedValueCrossSections: constant by construction (no threshold by design)
  {
    FixedValueCrossSections fx(1., 2., 3., 4., 5., 6., 7., 8., 9., 10., 11., 12., 13., 14.);
    for (int ion = 0; ion < NUMBER_OF_IONNAMES; ++ion)
      for (double nu : {0., 1.e15, 3.3e15, 1.e17}) {
        ++evals;
        if (fx.get_cross_section(ion, nu) != ion + 1.)
          R.violation("C18:xsec:fixed-value", fmt("FixedValueCrossSections ion %d returns %g", ion, fx.get_cross_section(ion, nu)));
      }
  }
  R.evaluations += evals;
  R.nontrivial += nontrivial;
  R.set("ions_(Z,N)_evaluated", (double)jobs.size());
  R.set("shells_evaluated", (double)shells);
  R.set("frequency_grid_points", (double)ngrid);
  R.set("threshold_and_edge_neighbour_points", (double)edges);
  R.set("evaluations_below_threshold_exactly_zero", (double)zero_below);
  R.set("xsec_max_difference_over_tolerance", maxratio);
  R.set("xsec_cases_within_10x_of_tolerance", (double)near);
  R.set("table_A_rows", (double)T.rowsA);
  R.set("table_B_rows", (double)T.rowsB);
  // informational: lowest shell edge the tracked-ion sums leave out
  std::string omitted;
  for (int t = 0; t < NTRACKED; ++t) {
    double lowest = 1e300;
    for (const c18::ARow &r : T.A.at({TRACKED[t].Z, TRACKED[t].N}))
      if (r.Eth >= RELEVANT_EV)
        lowest = std::min(lowest, (double)r.Eth);
    if (lowest < 1e300)
      omitted += fmt("%s%s: %.5g eV", omitted.empty() ? "" : ", ", TRACKED[t].name, lowest);
  }
  R.set_str("lowest_shell_edge_not_included_in_ion_sum(info)", omitted);
}

// ---------------------------------------------------------------- rates part
static void run_rates(const Args &A, Result &R) {
  VernerRecombinationRates rr;
  ChargeTransferRates ctr;
  const int ngrid = A.thorough() ? 400 : 200;
  std::vector< double > Ts;
  for (int k = 0; k < ngrid; ++k)
    Ts.push_back(10. * std::pow(1.e8, k / (ngrid - 1.)));
  // switch points of the fits (clamps of the charge transfer fits in units of
  // 1e4 K, validity limits quoted in the code) and their neighbours
  for (double t4 : {0.001, 0.01, 0.1, 0.5, 0.6, 1., 3., 5., 10.})
    for (double f : {1. - 1.e-12, 1., 1. + 1.e-12})
      Ts.push_back(t4 * 1.e4 * f);
  for (double t : {100., 1.e5, 1.e5 * (1. - 1.e-12), 1.e9})
    Ts.push_back(t);
  std::sort(Ts.begin(), Ts.end());
  Ts.erase(std::unique(Ts.begin(), Ts.end()), Ts.end());
  uint64_t evals = 0, non = 0, nonmono_metal = 0;
  for (int t = 0; t < NTRACKED; ++t) {
    const int ion = TRACKED[t].ion;
    double prev = 0.;
    for (size_t k = 0; k < Ts.size(); ++k) {
      const double Tk = Ts[k];
      double a = 0.;
      tl_armed = 1;
      if (sigsetjmp(tl_jb, 1) == 0) {
        a = rr.get_recombination_rate(ion, Tk);
        tl_armed = 0;
      } else {
        R.violation(fmt("C18:rates:abort:recombination:%s", TRACKED[t].name), fmt("abort at T=%.17g K", Tk));
        continue;
      }
      ++evals;
      const std::string rep = fmt("{\"what\": \"rec\", \"ion\": %d, \"T\": \"%a\"}", ion, Tk);
      if (!std::isfinite(a))
        R.violation(fmt("C18:rates:recombination:nonfinite:%s", TRACKED[t].name), fmt("alpha=%g at T=%.17g K", a, Tk), rep);
      else if (a < 0.)
        R.violation(fmt("C18:rates:recombination:negative:%s", TRACKED[t].name), fmt("alpha=%.17g at T=%.17g K", a, Tk), rep);
      else if (Tk <= 1.e5 && !(a > 0.))
        R.violation(fmt("C18:rates:recombination:not-positive-below-1e5K:%s", TRACKED[t].name),
                    fmt("alpha=%.17g at T=%.17g K", a, Tk), rep);
      if (a > 0.)
        ++non;
      if (k > 0) {
        if (ion == ION_H_n || ion == ION_He_n) {
          if (!(a < prev))
            R.violation(fmt("C18:rates:recombination:not-decreasing:%s", TRACKED[t].name),
                        fmt("alpha(%.17g K)=%.17g >= alpha(%.17g K)=%.17g", Tk, a, Ts[k - 1], prev), rep);
        } else if (a > prev)
          ++nonmono_metal;
      }
      prev = a;
    }
  }
  // charge transfer: every reaction the ionization balance calls (argument is
  // T in units of 1e4 K there), plus all remaining ions of the three functions
  struct Reaction {
    int fn; // 0: recombination with H, 1: ionization by H+, 2: recombination with He
    int ion;
    bool used;
  };
  std::vector< Reaction > reactions;
  const int usedH[] = {ION_C_p2, ION_N_n, ION_N_p1, ION_N_p2, ION_O_n, ION_O_p1, ION_Ne_p1, ION_S_p1, ION_S_p2, ION_S_p3};
  const int usedI[] = {ION_N_n, ION_O_n};
  const int usedHe[] = {ION_C_p2, ION_N_p1, ION_N_p2, ION_O_p1, ION_Ne_p1, ION_S_p2, ION_S_p3};
  for (int ion = 0; ion < NUMBER_OF_IONNAMES; ++ion) {
    if (ion != ION_H_n)
      reactions.push_back({0, ion, std::count(std::begin(usedH), std::end(usedH), ion) > 0});
    if (ion != ION_H_n)
      reactions.push_back({1, ion, std::count(std::begin(usedI), std::end(usedI), ion) > 0});
    if (ion != ION_He_n)
      reactions.push_back({2, ion, std::count(std::begin(usedHe), std::end(usedHe), ion) > 0});
  }
  static const char *fname[] = {"recombination-H", "ionization-H", "recombination-He"};
  uint64_t used_reactions = 0;
  for (const Reaction &re : reactions) {
    if (re.used)
      ++used_reactions;
    for (double Tk : Ts) {
      const double T4 = Tk * 1.e-4;
      double v = 0.;
      tl_armed = 1;
      if (sigsetjmp(tl_jb, 1) == 0) {
        v = re.fn == 0   ? ctr.get_charge_transfer_recombination_rate_H(re.ion, T4)
            : re.fn == 1 ? ctr.get_charge_transfer_ionization_rate_H(re.ion, T4)
                         : ctr.get_charge_transfer_recombination_rate_He(re.ion, T4);
        tl_armed = 0;
      } else {
        R.violation(fmt("C18:rates:abort:charge-transfer:%s:ion%d", fname[re.fn], re.ion), fmt("abort at T=%.17g K", Tk));
        break;
      }
      ++evals;
      if (v > 0.)
        ++non;
      const std::string rep = fmt("{\"what\": \"ct\", \"fn\": %d, \"ion\": %d, \"T\": \"%a\"}", re.fn, re.ion, Tk);
      if (!std::isfinite(v) || v < 0.)
        R.violation(fmt("C18:rates:charge-transfer:%s:%s:ion%d", fname[re.fn], std::isfinite(v) ? "negative" : "nonfinite", re.ion),
                    fmt("rate %g at T=%.17g K (%s by the ionization balance)", v, Tk, re.used ? "used" : "not used"), rep);
    }
  }
  R.evaluations += evals;
  R.nontrivial += non;
  R.set("temperature_points", (double)Ts.size());
  R.set("charge_transfer_reactions", (double)reactions.size());
  R.set("charge_transfer_reactions_used_by_balance", (double)used_reactions);
  R.set("metal_recombination_rate_increases_with_T(info)", (double)nonmono_metal);
}

// -------------------------------------------------------------------- replay
static int do_replay(const Args &A, Result &R) {
  const std::string txt = read_file(A.replay);
  const std::string rp = replay_field(txt, "replay");
  const std::string what = replay_field(rp, "what");
  printf("replay: %s\n", rp.c_str());
  if (what == "xsec" || what == "ion") {
    c18::Tables T;
    std::string err;
    c18::load_tables("/verif/build/data", T, err);
    VernerCrossSections cs;
    const quad cq = c18::q(E_CHARGE) / c18::q(H_PLANCK);
    const double E = strtod(replay_field(rp, "E_eV").c_str(), nullptr);
    const double nu = E * (double)cq;
    const quad Eq = (quad)nu / cq;
    int Z, N;
    if (what == "ion") {
      const int ion = atoi(replay_field(rp, "ion").c_str());
      Z = N = 0;
      for (int t = 0; t < NTRACKED; ++t)
        if (TRACKED[t].ion == ion) {
          Z = TRACKED[t].Z;
          N = TRACKED[t].N;
        }
      const double got = cs.get_cross_section(ion, nu);
      quad sum = 0, tol = 0;
      for (const c18::ARow &r : T.A.at({Z, N}))
        if (r.Eth < RELEVANT_EV) {
          c18::Val v = c18::shell_cross_section(T, r, Eq);
          sum += v.v;
          tol += quad(1.e-12) * v.mag;
          printf("  shell n=%d l=%d: reference %.17g m^2 (fit %d), code %.17g\n", r.n, r.l, (double)v.v, v.fit,
                 cs.get_cross_section_verner(Z, N, r.shell(), nu));
        }
      printf("  get_cross_section = %.17g, reference sum = %.17g, tolerance %.3g\n", got, (double)sum, (double)tol);
      if (fabsq((quad)got - sum) > tol)
        R.violation("C18:xsec:ion-sum:replay", "difference reproduced", rp);
    } else {
      Z = atoi(replay_field(rp, "Z").c_str());
      N = atoi(replay_field(rp, "N").c_str());
      const int is = atoi(replay_field(rp, "shell").c_str());
      for (const c18::ARow &r : T.A.at({Z, N}))
        if (r.shell() == is) {
          c18::Val v = c18::shell_cross_section(T, r, Eq);
          const double got = cs.get_cross_section_verner(Z, N, is, nu);
          printf("  E=%.17g eV nu=%.17g Hz: code %.17g m^2, reference %.17g m^2 (fit %d), tolerance %.3g\n", E, nu, got,
                 (double)v.v, v.fit, (double)(quad(1.e-12) * v.mag));
          if (!std::isfinite(got) || got < 0. || fabsq((quad)got - v.v) > quad(1.e-12) * v.mag)
            R.violation("C18:xsec:formula:replay", "difference reproduced", rp);
        }
    }
  } else if (what == "rec") {
    VernerRecombinationRates rr;
    const int ion = atoi(replay_field(rp, "ion").c_str());
    const double Tk = strtod(replay_field(rp, "T").c_str(), nullptr);
    for (double f : {1. / 1.05, 1., 1.05}) {
      printf("  alpha(%.17g K) = %.17g m^3 s^-1\n", Tk * f, rr.get_recombination_rate(ion, Tk * f));
    }
    const double a = rr.get_recombination_rate(ion, Tk);
    if (!std::isfinite(a) || a < 0. || (Tk <= 1.e5 && !(a > 0.)) ||
        ((ion == ION_H_n || ion == ION_He_n) && !(a < rr.get_recombination_rate(ion, Tk / 1.05))))
      R.violation("C18:rates:recombination:replay", "reproduced", rp);
  } else if (what == "ct") {
    ChargeTransferRates ctr;
    const int fn = atoi(replay_field(rp, "fn").c_str()), ion = atoi(replay_field(rp, "ion").c_str());
    const double T4 = strtod(replay_field(rp, "T").c_str(), nullptr) * 1.e-4;
    const double v = fn == 0   ? ctr.get_charge_transfer_recombination_rate_H(ion, T4)
                     : fn == 1 ? ctr.get_charge_transfer_ionization_rate_H(ion, T4)
                               : ctr.get_charge_transfer_recombination_rate_He(ion, T4);
    printf("  rate = %.17g\n", v);
    if (!std::isfinite(v) || v < 0.)
      R.violation("C18:rates:charge-transfer:replay", "reproduced", rp);
  }
  return R.finish(A);
}

int main(int argc, char **argv) {
  Args A = parse_args(argc, argv);
  Result R(A);
  R.max_violations = 60;
  if (!A.replay.empty())
    return do_replay(A, R);
  if (!freopen("/dev/null", "w", stderr)) {
  }
  const std::string what = A.get("what", "xsec");
  if (what == "xsec") {
    run_xsec(A, R, "");
    R.rule = "every (Z,N) ion of the elements present in both Verner tables x every shell of table A x log frequency grid "
             "0.5..100 nu_H plus nu(1+-1e-12), nu(1+-1e-9) at every shell threshold and E_max(1+-1e-12) at the inner-shell "
             "edge, through the real get_cross_section_verner; the 14 tracked ions additionally through get_cross_section; "
             "non-trivial = evaluations with a non-zero reference value (all (ion, shell, energy) triples are distinct)";
    R.sample("{\"Z\": 6, \"N\": 5, \"shell\": \"2p\", \"E_eV\": 24.38000000002438, \"checks\": \"finite, >= 0, equals 1996 fit to 1e-12 x magnitudes\"}");
    R.sample("{\"Z\": 16, \"N\": 15, \"shell\": \"3s\", \"E_eV\": 184.59999999981540, \"checks\": \"0 below the 2p edge (contained in the 3p outer-shell fit)\"}");
    R.assumptions.push_back("a tracked ion's cross section is the sum of the published fits of its sub-shells with thresholds below "
                            "54.4 eV (upper end of every source spectrum of the code); inner shells above that are not part of the "
                            "code's sum and are listed in lowest_shell_edge_not_included_in_ion_sum");
  } else if (what == "rates") {
    run_rates(A, R);
    R.rule = "14 tracked ions x log temperature grid 10..1e9 K plus the clamp / validity switch points +-1e-12 through the real "
             "get_recombination_rate; every (function, ion) pair of the three charge transfer functions on the same grid "
             "(argument T/1e4 K as the balance passes it); non-trivial = evaluations with a positive rate";
    R.sample("{\"ion\": \"S+++\", \"T_K\": 90.0, \"checks\": \"finite, > 0\"}");
    R.sample("{\"reaction\": \"O+ + H -> O + H+ (recombination-H, ION_O_n)\", \"T_K\": 10000.000000010, \"checks\": \"finite, >= 0\"}");
  } else {
    printf("unknown --what %s\n", what.c_str());
    return 2;
  }
  return R.finish(A);
}
