// Independent reference for the Verner photoionization cross sections.
//
// Written from the published fitting formulae, NOT from the project's code:
//  * Verner & Yakovlev 1995 (A&AS 109, 125), partial cross section of shell nl
//      sigma_nl(E) = sigma_0 F(y),  y = E/E_0,
//      F(y) = [(y-1)^2 + y_w^2] y^(-Q) (1 + sqrt(y/y_a))^(-P),  Q = 5.5 + l - 0.5 P
//    (verner_A.dat: Z N n l E_th E_0 sigma_0 y_a P y_w; sigma_0 in Mb = 1e-22 m^2)
//  * Verner, Ferland, Korista & Yakovlev 1996 (ApJ 465, 487), ground state
//    cross section of the outer shell from E_th up to E_max (the lowest inner
//    shell edge)
//      sigma(E) = sigma_0 F(y),  x = E/E_0 - y_0,  y = sqrt(x^2 + y_1^2),
//      F(y) = [(x-1)^2 + y_w^2] y^(0.5 P - 5.5) (1 + sqrt(y/y_a))^(-P)
//    (verner_B.dat: Z N E_th E_max E_0 sigma_0 y_a P y_w y_0 y_1)
//  The 1996 fit describes all electrons of the outer principal shell together,
//  so below E_max the other sub-shells of that principal shell contribute
//  nothing extra; at and above E_max every shell uses its 1995 partial fit.
// Everything is evaluated in __float128 from the decimal text of the tables.
#ifndef C18_REF_HPP
#define C18_REF_HPP

#include <cstdio>
#include <cstdlib>
#include <cstring>
#include <map>
#include <quadmath.h>
#include <sstream>
#include <string>
#include <vector>

namespace c18 {

typedef __float128 quad;

struct ARow {
  int Z, N, n, l;
  quad Eth, E0, s0, ya, P, yw;
  int shell() const { return n == 1 ? 1 : n == 2 ? 2 + l : n == 3 ? 4 + l : 7; }
};
struct BRow {
  int Z, N;
  quad Eth, Emax, E0, s0, ya, P, yw, y0, y1;
};

struct Tables {
  std::map< std::pair< int, int >, std::vector< ARow > > A; // shells of ion (Z,N)
  std::map< std::pair< int, int >, BRow > B;
  size_t rowsA = 0, rowsB = 0;
};

inline quad q(const std::string &tok) { return strtoflt128(tok.c_str(), nullptr); }

inline bool load_tables(const std::string &dir, Tables &T, std::string &err) {
  {
    FILE *f = fopen((dir + "/verner_A.dat").c_str(), "r");
    if (!f) {
      err = "cannot open verner_A.dat";
      return false;
    }
    char line[1024];
    while (fgets(line, sizeof(line), f)) {
      if (line[0] == '#')
        continue;
      std::istringstream ls(line);
      std::string t[10];
      int k = 0;
      while (k < 10 && (ls >> t[k]))
        ++k;
      if (k == 0)
        continue;
      if (k != 10) {
        err = std::string("verner_A.dat: malformed line: ") + line;
        fclose(f);
        return false;
      }
      ARow r;
      r.Z = atoi(t[0].c_str());
      r.N = atoi(t[1].c_str());
      r.n = atoi(t[2].c_str());
      r.l = atoi(t[3].c_str());
      r.Eth = q(t[4]);
      r.E0 = q(t[5]);
      r.s0 = q(t[6]);
      r.ya = q(t[7]);
      r.P = q(t[8]);
      r.yw = q(t[9]);
      T.A[{r.Z, r.N}].push_back(r);
      ++T.rowsA;
    }
    fclose(f);
  }
  {
    FILE *f = fopen((dir + "/verner_B.dat").c_str(), "r");
    if (!f) {
      err = "cannot open verner_B.dat";
      return false;
    }
    char line[1024];
    while (fgets(line, sizeof(line), f)) {
      if (line[0] == '#')
        continue;
      std::istringstream ls(line);
      std::string t[11];
      int k = 0;
      while (k < 11 && (ls >> t[k]))
        ++k;
      if (k == 0)
        continue;
      if (k != 11) {
        err = std::string("verner_B.dat: malformed line: ") + line;
        fclose(f);
        return false;
      }
      BRow r;
      r.Z = atoi(t[0].c_str());
      r.N = atoi(t[1].c_str());
      r.Eth = q(t[2]);
      r.Emax = q(t[3]);
      r.E0 = q(t[4]);
      r.s0 = q(t[5]);
      r.ya = q(t[6]);
      r.P = q(t[7]);
      r.yw = q(t[8]);
      r.y0 = q(t[9]);
      r.y1 = q(t[10]);
      T.B[{r.Z, r.N}] = r;
      ++T.rowsB;
    }
    fclose(f);
  }
  return true;
}

/// value and rounding-error scale ("sum of magnitudes") of one fit
struct Val {
  quad v = 0;   // cross section in m^2
  quad mag = 0; // magnitude of the un-cancelled terms, for the tolerance
  int fit = 0;  // 0: zero, 1: 1995 partial fit, 2: 1996 outer shell fit
};

inline Val fit95(const ARow &r, quad E) {
  Val o;
  const quad y = E / r.E0;
  const quad Q = quad(5.5) + r.l - quad(0.5) * r.P;
  const quad common = powq(y, -Q) * powq(1 + sqrtq(y / r.ya), -r.P) * r.s0 * quad(1.e-22);
  o.v = ((y - 1) * (y - 1) + r.yw * r.yw) * common;
  o.mag = ((y + 1) * (y + 1) + r.yw * r.yw) * common;
  o.fit = 1;
  return o;
}

inline Val fit96(const BRow &r, quad E) {
  Val o;
  const quad a = E / r.E0;
  const quad x = a - r.y0;
  const quad y2 = x * x + r.y1 * r.y1;
  const quad y = sqrtq(y2);
  const quad qq = quad(0.5) * r.P - quad(5.5);
  const quad common = powq(y, qq) * powq(1 + sqrtq(y / r.ya), -r.P) * r.s0 * quad(1.e-22);
  o.v = ((x - 1) * (x - 1) + r.yw * r.yw) * common;
  // cancellation in x = a - y0 also propagates through y into the two powers
  const quad kappa = ((a + r.y0) * (a + r.y0) + r.y1 * r.y1) / y2;
  const quad m0 = (a + r.y0 + 1) * (a + r.y0 + 1) + r.yw * r.yw;
  o.mag = (m0 + ((x - 1) * (x - 1) + r.yw * r.yw) * (fabsq(qq) + fabsq(r.P) / 2) * kappa) * common;
  o.fit = 2;
  return o;
}

/// partial cross section of one shell (row of table A) of ion (Z,N) at photon
/// energy E (eV)
inline Val shell_cross_section(const Tables &T, const ARow &r, quad E) {
  Val zero;
  if (E < r.Eth)
    return zero;
  auto ib = T.B.find({r.Z, r.N});
  // ions with one or two electrons have no inner shell: their E_max (5e4 eV)
  // is the validity limit of the fit, not an edge
  bool has_inner_edge = false;
  if (ib != T.B.end())
    for (const ARow &o : T.A.at({r.Z, r.N}))
      if (o.Eth >= ib->second.Emax)
        has_inner_edge = true;
  if (ib != T.B.end() && (!has_inner_edge || E < ib->second.Emax) && r.Eth < ib->second.Emax) {
    // below the first inner-shell edge: the 1996 fit covers the whole outer
    // principal shell and is attached to its lowest threshold
    const std::vector< ARow > &rows = T.A.at({r.Z, r.N});
    quad lowest = rows[0].Eth;
    for (const ARow &o : rows)
      if (o.Eth < lowest)
        lowest = o.Eth;
    if (r.Eth == lowest)
      return fit96(ib->second, E);
    return zero;
  }
  return fit95(r, E);
}

} // namespace c18

#endif
