# C18: atomic data (cross sections, rates) and spectrum samplers
$(eval $(call HARNESS,c18_atomic,$(V)/harness/C18/c18_atomic.cpp,plain,-fopenmp -I$(V)/harness/C18,-lquadmath))
$(eval $(call HARNESS,c18_samplers,$(V)/harness/C18/c18_samplers.cpp,plain,-fopenmp -fno-access-control -I$(V)/harness/C18,-lquadmath))
