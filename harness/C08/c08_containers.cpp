// C08: the shared scheduler containers under every interleaving of their
// individual atomic operations (2 threads: all interleavings, with state
// hashing; 3 threads: deviation bounded). Real ThreadSafeVector, TaskQueue,
// MemorySpace, ThreadLock, AtomicValue, LockFree, Task::lock_dependency.
#include "AtomicValue.hpp"
#include "LockFree.hpp"
#include "MemorySpace.hpp"
#include "Task.hpp"
#include "TaskQueue.hpp"
#include "ThreadLock.hpp"
#include "ThreadSafeVector.hpp"
#include "VerifHooks.hpp"
#include "e1.hpp"
#include "verif_common.hpp"

#include <algorithm>
#include <memory>
#include <sys/wait.h>
#include <unistd.h>

using namespace verif;

static void viol(const std::string &key, const std::string &detail) { e1::add_violation("C08:" + key, detail); }

// a scheduling point that the harness itself inserts (e.g. inside a critical
// section) so that another thread can run there
static inline void harness_point() { cmi_verif::sync_point(cmi_verif::OP_PLAIN, nullptr, 0); }

struct Scenario {
  std::string name;
  int nthreads;
  std::function< void() > setup;
  std::function< void(int) > thread;
  std::function< void() > final_check;
  std::function< uint64_t() > hash; // shared state incl. monitor state
  bool post_points = false;         // also schedule after every modifying atomic operation
};

// ---------------------------------------------------------------- pool (ThreadSafeVector)

struct PoolWorld {
  std::unique_ptr< ThreadSafeVector< int > > pool;
  size_t size;
  std::vector< int > owner;  // monitor: slot -> thread, -1 free
  std::vector< std::vector< size_t > > held; // per thread
  uint64_t hash() const {
    uint64_t h = 1469598103934665603ull;
    for (size_t i = 0; i < size; ++i) {
      h = (h ^ (uint64_t)pool->_locks[i]._value._v.load()) * 1099511628211ull;
      h = (h ^ (uint64_t)(owner[i] + 1)) * 1099511628211ull;
    }
    h = (h ^ (uint64_t)(pool->_current_index._value._v.load() % size)) * 1099511628211ull;
    h = (h ^ (uint64_t)pool->_number_taken._value._v.load()) * 1099511628211ull;
    return h;
  }
};
static PoolWorld PW;

static void pool_get(int tid, bool safe) {
  const size_t idx = safe ? PW.pool->get_free_element_safe() : PW.pool->get_free_element();
  if (idx == PW.size) {
    if (!safe)
      viol("pool:bad-index", "get_free_element returned the pool size");
    e1::mark_seen("pool-safe-full");
    return;
  }
  if (idx > PW.size) {
    viol("pool:bad-index", fmt("slot index %zu out of range", idx));
    return;
  }
  if (PW.owner[idx] != -1)
    viol("pool:double-hand-out", fmt("slot %zu handed to thread %d while thread %d holds it", idx, tid, PW.owner[idx]));
  PW.owner[idx] = tid;
  PW.held[tid].push_back(idx);
  (*PW.pool)[idx] = tid;
  e1::note_progress();
  // the owner now uses the slot: other threads may run while it is held
  harness_point();
}
static void pool_free(int tid) {
  if (PW.held[tid].empty())
    return;
  const size_t idx = PW.held[tid].back();
  PW.held[tid].pop_back();
  if ((*PW.pool)[idx] != tid)
    viol("pool:payload-overwritten", fmt("slot %zu of thread %d holds the payload of thread %d", idx, tid, (*PW.pool)[idx]));
  PW.owner[idx] = -1;
  PW.pool->free_element(idx);
  e1::note_progress();
}
static void pool_final() {
  size_t heldn = 0;
  for (auto &h : PW.held)
    heldn += h.size();
  if (PW.pool->get_number_of_active_elements() != heldn)
    viol("pool:occupancy", fmt("occupancy count %zu but %zu slots are held", PW.pool->get_number_of_active_elements(), heldn));
  // a released slot becomes available again: run alone, take everything that is free
  size_t got = 0;
  while (PW.pool->get_number_of_active_elements() < PW.size) {
    const size_t idx = PW.pool->get_free_element_safe();
    if (idx >= PW.size)
      break;
    if (PW.owner[idx] != -1)
      viol("pool:double-hand-out", fmt("slot %zu handed out at quiescence while thread %d holds it", idx, PW.owner[idx]));
    PW.owner[idx] = 99;
    ++got;
  }
  if (got + heldn != PW.size)
    viol("pool:slot-lost", fmt("only %zu of %zu free slots could be taken at quiescence", got, PW.size - heldn));
  if (PW.pool->get_free_element_safe() != PW.size)
    viol("pool:overfull", "a full pool handed out another slot");
}

// op strings per thread: g = get, s = get_safe, f = free (last taken)
static Scenario pool_scenario(size_t size, const std::vector< std::string > &progs, const std::string &init = "") {
  Scenario s;
  std::string nm = fmt("pool%zu", size);
  if (!init.empty())
    nm += "/" + init;
  for (auto &p : progs)
    nm += ":" + p;
  s.name = nm;
  s.nthreads = (int)progs.size();
  s.setup = [size, progs, init]() {
    PW.pool.reset(new ThreadSafeVector< int >(size, "c08"));
    PW.size = size;
    PW.owner.assign(size, -1);
    PW.held.assign(progs.size(), {});
    // sequential history that sets up the initial state (slots held by thread 0,
    // cursor position); 'r' releases the OLDEST slot held
    for (char c : init) {
      if (c == 'g')
        pool_get(0, false);
      else if (c == 'f')
        pool_free(0);
      else if (c == 'r' && !PW.held[0].empty()) {
        std::rotate(PW.held[0].begin(), PW.held[0].begin() + 1, PW.held[0].end());
        pool_free(0);
      }
    }
  };
  s.thread = [progs](int tid) {
    for (char c : progs[tid]) {
      if (c == 'g')
        pool_get(tid, false);
      else if (c == 's')
        pool_get(tid, true);
      else if (c == 'f')
        pool_free(tid);
    }
  };
  s.final_check = pool_final;
  s.hash = []() { return PW.hash(); };
  return s;
}

// ---------------------------------------------------------------- queue (TaskQueue + Task locks)

struct QueueWorld {
  std::unique_ptr< ThreadSafeVector< Task > > tasks;
  std::unique_ptr< TaskQueue > queue;
  std::vector< ThreadLock > locks;
  std::vector< int > lock_owner;             // monitor
  std::vector< std::vector< int > > task_locks; // task -> lock ids
  std::vector< int > handed;                 // task -> times handed out
  std::vector< int > queued;                 // task -> times added
  std::vector< std::vector< size_t > > holding; // per thread: tasks held
  uint64_t hash() const {
    uint64_t h = 1469598103934665603ull;
    h = (h ^ (uint64_t)queue->_current_queue_size) * 1099511628211ull;
    for (size_t i = 0; i < queue->_current_queue_size; ++i)
      h = (h ^ (uint64_t)queue->_queue[i]) * 1099511628211ull;
    h = (h ^ (uint64_t)queue->_queue_lock._lock._value._v.load()) * 1099511628211ull;
    for (size_t i = 0; i < locks.size(); ++i) {
      h = (h ^ (uint64_t)locks[i]._lock._value._v.load()) * 1099511628211ull;
      h = (h ^ (uint64_t)(lock_owner[i] + 1)) * 1099511628211ull;
    }
    for (size_t i = 0; i < handed.size(); ++i)
      h = (h ^ (uint64_t)(handed[i] * 16 + queued[i])) * 1099511628211ull;
    return h;
  }
};
static QueueWorld QW;

static void queue_received(int tid, size_t t) {
  if (t == NO_TASK)
    return;
  if (t >= QW.handed.size()) {
    viol("queue:bad-index", fmt("queue returned unknown task %zu", t));
    return;
  }
  if (++QW.handed[t] > QW.queued[t])
    viol("queue:handed-out-twice", fmt("task %zu handed out %d times but queued %d times (thread %d)", t, QW.handed[t], QW.queued[t], tid));
  for (int l : QW.task_locks[t]) {
    if (QW.lock_owner[l] != -1)
      viol("queue:resource-not-exclusive", fmt("task %zu handed to thread %d while thread %d owns its resource %d", t, tid, QW.lock_owner[l], l));
    if (!QW.locks[l]._lock._value._v.load())
      viol("queue:resource-not-locked", fmt("task %zu handed to thread %d without locking resource %d", t, tid, l));
    QW.lock_owner[l] = tid;
  }
  QW.holding[tid].push_back(t);
  e1::note_progress();
  // the receiver now executes the task: other threads may run meanwhile
  if (cmi_verif::number_of_threads() > 0 && e1::current_thread() >= 0)
    harness_point();
}
static void queue_release(int tid) {
  if (QW.holding[tid].empty())
    return;
  const size_t t = QW.holding[tid].back();
  QW.holding[tid].pop_back();
  for (int l : QW.task_locks[t])
    QW.lock_owner[l] = -1;
  (*QW.tasks)[t].unlock_dependency();
  e1::note_progress();
}

// programs: 'a'<digit> add task, 'g' get, 't' try_get, 'u' unlock the last received
static Scenario queue_scenario(const std::string &label, const std::vector< std::vector< int > > &task_locks,
                               int nlocks, const std::vector< size_t > &initially_queued,
                               const std::vector< std::string > &progs, int initially_held = -1) {
  Scenario s;
  std::string nm = "queue-" + label;
  for (auto &p : progs)
    nm += ":" + p;
  s.name = nm;
  s.nthreads = (int)progs.size();
  s.setup = [=]() {
    const size_t nt = task_locks.size();
    QW.tasks.reset(new ThreadSafeVector< Task >(nt + 1, "c08tasks"));
    QW.queue.reset(new TaskQueue(nt + 1, "c08queue"));
    QW.locks = std::vector< ThreadLock >(nlocks);
    QW.lock_owner.assign(nlocks, -1);
    QW.task_locks = task_locks;
    QW.handed.assign(nt, 0);
    QW.queued.assign(nt, 0);
    QW.holding.assign(progs.size(), {});
    QW.tasks->get_free_elements(nt);
    for (size_t t = 0; t < nt; ++t) {
      Task &task = (*QW.tasks)[t];
      if (task_locks[t].size() > 0)
        task.set_dependency(&QW.locks[task_locks[t][0]]);
      if (task_locks[t].size() > 1)
        task.set_extra_dependency(&QW.locks[task_locks[t][1]]);
    }
    for (size_t t : initially_queued) {
      QW.queue->add_task(t);
      QW.queued[t]++;
    }
    if (initially_held >= 0) {
      // thread 0 is executing this task: it owns the task's resources
      QW.queued[initially_held]++;
      (*QW.tasks)[initially_held].lock_dependency();
      queue_received(0, (size_t)initially_held);
    }
  };
  s.thread = [progs](int tid) {
    const std::string &p = progs[tid];
    for (size_t i = 0; i < p.size(); ++i) {
      if (p[i] == 'a') {
        const size_t t = (size_t)(p[++i] - '0');
        QW.queued[t]++;
        QW.queue->add_task(t);
      } else if (p[i] == 'g') {
        queue_received(tid, QW.queue->get_task(*QW.tasks));
      } else if (p[i] == 't') {
        queue_received(tid, QW.queue->try_get_task(*QW.tasks));
      } else if (p[i] == 'u') {
        queue_release(tid);
      }
    }
  };
  s.final_check = []() {
    // release everything still held, then drain alone: every queued task whose
    // resources are free must be handed out, each exactly once
    for (size_t tid = 0; tid < QW.holding.size(); ++tid)
      while (!QW.holding[tid].empty())
        queue_release((int)tid);
    for (;;) {
      const size_t t = QW.queue->get_task(*QW.tasks);
      if (t == NO_TASK)
        break;
      queue_received(0, t);
      queue_release(0);
    }
    if (QW.queue->size() != 0)
      viol("queue:task-stuck", fmt("%zu tasks cannot be handed out although all resources are free", QW.queue->size()));
    for (size_t t = 0; t < QW.handed.size(); ++t)
      if (QW.handed[t] != QW.queued[t])
        viol("queue:exactly-once", fmt("task %zu queued %d times but handed out %d times", t, QW.queued[t], QW.handed[t]));
    for (size_t l = 0; l < QW.locks.size(); ++l)
      if (QW.locks[l]._lock._value._v.load())
        viol("queue:lock-left", fmt("resource lock %zu still set at quiescence", l));
  };
  s.hash = []() { return QW.hash(); };
  return s;
}

// ---------------------------------------------------------------- locks, counters

struct MiscWorld {
  ThreadLock lock;
  int inside = 0;
  long plain = 0;
  AtomicValue< size_t > counter;
  AtomicValue< size_t > maxv;
  AtomicValue< size_t > ticket;
  std::vector< size_t > tickets;
  double lf_double = 0.;
  unsigned long lf_int = 0;
  ThreadLock l1, l2;
  int l1_owner = -1, l2_owner = -1;
  std::unique_ptr< ThreadSafeVector< Task > > tasks;
  std::vector< int > done;
};
static MiscWorld *MW = nullptr;

static Scenario lock_scenario(int nthreads, int rounds) {
  Scenario s;
  s.name = fmt("threadlock:%dthreads:%drounds", nthreads, rounds);
  s.nthreads = nthreads;
  s.setup = []() {
    delete MW;
    MW = new MiscWorld();
  };
  s.thread = [rounds](int tid) {
    for (int r = 0; r < rounds; ++r) {
      if (r % 2 == 0) {
        MW->lock.lock();
      } else {
        // try_lock in a retry loop
        while (!MW->lock.try_lock())
          cmi_verif::yield_point();
      }
      if (++MW->inside != 1)
        viol("lock:two-holders", fmt("thread %d entered while the lock is held", tid));
      const long v = MW->plain;
      harness_point();
      MW->plain = v + 1;
      --MW->inside;
      MW->lock.unlock();
      e1::note_progress();
    }
  };
  s.final_check = [nthreads, rounds]() {
    if (MW->plain != (long)nthreads * rounds)
      viol("lock:lost-update", fmt("counter protected by the lock is %ld instead of %d", MW->plain, nthreads * rounds));
    if (!MW->lock.try_lock())
      viol("lock:left-locked", "lock still held at quiescence");
  };
  s.hash = []() {
    uint64_t h = (uint64_t)MW->lock._lock._value._v.load();
    h = h * 31 + (uint64_t)MW->plain;
    h = h * 31 + (uint64_t)MW->inside;
    return h;
  };
  return s;
}

static Scenario counter_scenario(int nthreads, int variant) {
  Scenario s;
  s.name = fmt("atomic-%s:%dthreads", variant == 0 ? "counters" : variant == 1 ? "max-tickets" : "lockfree", nthreads);
  s.nthreads = nthreads;
  s.setup = []() {
    delete MW;
    MW = new MiscWorld();
  };
  s.thread = [variant](int tid) {
    if (variant == 0) {
      MW->counter.post_increment();
      MW->counter.pre_add(10);
      MW->counter.pre_subtract(3);
      MW->counter.post_add(100);
      MW->counter.pre_increment();
      MW->counter.pre_decrement();
    } else if (variant == 1) {
      MW->tickets.push_back(MW->ticket.post_increment());
      MW->maxv.max((size_t)(5 + 3 * tid));
      MW->tickets.push_back(MW->ticket.post_add(2));
      MW->maxv.max((size_t)(4 + tid));
    } else {
      LockFree::add(MW->lf_double, 1.5 + tid);
      LockFree::add(MW->lf_int, (unsigned long)(tid + 1));
    }
  };
  s.final_check = [nthreads, variant]() {
    const size_t expect = variant == 0 ? (size_t)nthreads * (1 + 10 - 3 + 100) : 0;
    if (MW->counter.value() != expect)
      viol("atomic:lost-update", fmt("counter is %zu instead of %zu", MW->counter.value(), expect));
    if (variant == 1 && MW->maxv.value() != (size_t)(5 + 3 * (nthreads - 1)))
      viol("atomic:max", fmt("maximum is %zu instead of %d", MW->maxv.value(), 5 + 3 * (nthreads - 1)));
    if (variant == 1 && MW->ticket.value() != (size_t)nthreads * 3)
      viol("atomic:lost-update", fmt("ticket counter is %zu instead of %d", MW->ticket.value(), nthreads * 3));
    std::vector< size_t > t = MW->tickets;
    std::sort(t.begin(), t.end());
    for (size_t i = 1; i < t.size(); ++i)
      if (t[i] == t[i - 1])
        viol("atomic:duplicate-ticket", fmt("two fetch-and-add operations returned %zu", t[i]));
    double ed = 0.;
    unsigned long ei = 0;
    for (int i = 0; i < nthreads && variant == 2; ++i) {
      ed += 1.5 + i;
      ei += i + 1;
    }
    if (MW->lf_double != ed)
      viol("lockfree:lost-update", fmt("LockFree double sum %g instead of %g", MW->lf_double, ed));
    if (MW->lf_int != ei)
      viol("lockfree:lost-update", fmt("LockFree integer sum %lu instead of %lu", MW->lf_int, ei));
  };
  s.hash = []() {
    uint64_t h = (uint64_t)MW->counter._value._v.load();
    h = h * 1099511628211ull + (uint64_t)MW->maxv._value._v.load();
    h = h * 1099511628211ull + (uint64_t)MW->ticket._value._v.load();
    for (size_t q : MW->tickets)
      h = h * 1099511628211ull + q;
    h = h * 1099511628211ull + (uint64_t)(MW->lf_double * 2.);
    h = h * 1099511628211ull + MW->lf_int;
    return h;
  };
  return s;
}

// two tasks with crossed lock order: try-lock with rollback must neither
// deadlock nor give both tasks the same lock
static Scenario crossed_scenario(int rounds) {
  Scenario s;
  s.name = fmt("lock-dependency-crossed:%drounds", rounds);
  s.nthreads = 2;
  s.setup = []() {
    delete MW;
    MW = new MiscWorld();
    MW->tasks.reset(new ThreadSafeVector< Task >(3, "c08x"));
    MW->tasks->get_free_elements(2);
    (*MW->tasks)[0].set_dependency(&MW->l1);
    (*MW->tasks)[0].set_extra_dependency(&MW->l2);
    (*MW->tasks)[1].set_dependency(&MW->l2);
    (*MW->tasks)[1].set_extra_dependency(&MW->l1);
    MW->done.assign(2, 0);
  };
  s.thread = [rounds](int tid) {
    for (int r = 0; r < rounds; ++r) {
      Task &t = (*MW->tasks)[tid];
      while (!t.lock_dependency())
        cmi_verif::yield_point();
      if (MW->l1_owner != -1 || MW->l2_owner != -1)
        viol("lock-dependency:not-exclusive", fmt("thread %d obtained both locks while thread %d/%d owns one", tid, MW->l1_owner, MW->l2_owner));
      MW->l1_owner = MW->l2_owner = tid;
      harness_point();
      MW->l1_owner = MW->l2_owner = -1;
      t.unlock_dependency();
      ++MW->done[tid];
      e1::note_progress();
    }
  };
  s.final_check = [rounds]() {
    if (MW->done[0] != rounds || MW->done[1] != rounds)
      viol("lock-dependency:progress", "a task never obtained its locks");
    if (!MW->l1.try_lock() || !MW->l2.try_lock())
      viol("lock-dependency:left-locked", "a dependency lock is still set at quiescence");
  };
  s.hash = []() {
    uint64_t h = (uint64_t)MW->l1._lock._value._v.load() * 2 + (uint64_t)MW->l2._lock._value._v.load();
    h = h * 7 + (uint64_t)(MW->l1_owner + 1);
    h = h * 7 + (uint64_t)(MW->done[0] * 4 + MW->done[1]);
    return h;
  };
  return s;
}

// MemorySpace: concurrent get/add(overflow)/free on disjoint target buffers
struct MemWorld {
  std::unique_ptr< MemorySpace > space;
  std::vector< int > owner;
};
static MemWorld MEM;
static Scenario memory_scenario(int nthreads) {
  Scenario s;
  s.name = fmt("memoryspace-overflow:%dthreads", nthreads);
  s.nthreads = nthreads;
  s.setup = []() {
    MEM.space.reset(new MemorySpace(6));
    MEM.owner.assign(6, -1);
  };
  s.thread = [](int tid) {
    auto take = [&](size_t idx) {
      if (idx >= MEM.owner.size()) {
        viol("memoryspace:bad-index", fmt("buffer index %zu", idx));
        return;
      }
      if (MEM.owner[idx] != -1)
        viol("memoryspace:double-hand-out", fmt("buffer %zu given to thread %d while thread %d holds it", idx, tid, MEM.owner[idx]));
      MEM.owner[idx] = tid;
    };
    const size_t target = MEM.space->get_free_buffer();
    take(target);
    PhotonBuffer local;
    const unsigned n = PHOTONBUFFER_SIZE + 1;
    for (unsigned i = 0; i < PHOTONBUFFER_SIZE - 1; ++i) {
      const uint_fast32_t k = (*MEM.space)[target].get_next_free_photon();
      (*MEM.space)[target][k].set_weight(100. * tid + i);
    }
    for (unsigned i = 0; i < 3 && i < n; ++i) {
      const uint_fast32_t k = local.get_next_free_photon();
      local[k].set_weight(100. * tid + 50 + i);
    }
    const size_t out = MEM.space->add_photons(target, local);
    if (out == target) {
      viol("memoryspace:no-overflow", "overflowing add did not return a fresh buffer");
    } else {
      take(out);
      // nothing lost, nothing duplicated
      const size_t total = (*MEM.space)[target].size() + (*MEM.space)[out].size();
      if (total != PHOTONBUFFER_SIZE - 1 + 3)
        viol("memoryspace:packets-lost", fmt("%zu packets after an overflow copy of %u", total, PHOTONBUFFER_SIZE - 1 + 3));
      for (size_t b : {target, out})
        for (uint_fast32_t i = 0; i < (*MEM.space)[b].size(); ++i)
          if ((int)((*MEM.space)[b][i].get_weight() / 100.) != tid)
            viol("memoryspace:foreign-packet", fmt("buffer %zu of thread %d holds a packet of another thread", b, tid));
      MEM.owner[out] = -1;
      MEM.space->free_buffer(out);
    }
    MEM.owner[target] = -1;
    MEM.space->free_buffer(target);
    e1::note_progress();
  };
  s.final_check = []() {
    if (!MEM.space->is_empty())
      viol("memoryspace:occupancy", fmt("%zu buffers still counted as active", MEM.space->get_number_of_active_buffers()));
  };
  s.hash = nullptr;
  return s;
}

// MemorySpace: a buffer freed by one thread and taken by another must arrive
// empty and must keep what its new owner puts in (release = reset THEN free)
static Scenario memory_reuse_scenario(size_t size, int cursor_advance) {
  Scenario s;
  s.name = fmt("memoryspace-reuse%zu/adv%d", size, cursor_advance);
  s.nthreads = 2;
  s.setup = [size, cursor_advance]() {
    MEM.space.reset(new MemorySpace(size));
    MEM.owner.assign(size, -1);
    for (int k = 0; k < cursor_advance; ++k) {
      const size_t b = MEM.space->get_free_buffer();
      MEM.space->free_buffer(b);
    }
    // thread 0 holds a used buffer
    const size_t x = MEM.space->get_free_buffer();
    MEM.owner[x] = 0;
    for (int i = 0; i < 2; ++i) {
      const uint_fast32_t k = (*MEM.space)[x].get_next_free_photon();
      (*MEM.space)[x][k].set_weight(10. + i);
    }
  };
  s.thread = [size](int tid) {
    if (tid == 0) {
      for (size_t x = 0; x < size; ++x)
        if (MEM.owner[x] == 0) {
          MEM.owner[x] = -1;
          MEM.space->free_buffer(x);
          e1::note_progress();
        }
    } else {
      size_t b;
      while ((b = MEM.space->get_free_buffer()) >= size)
        cmi_verif::yield_point();
      if (MEM.owner[b] != -1)
        viol("memoryspace:double-hand-out", fmt("buffer %zu given to thread %d while thread %d holds it", b, tid, MEM.owner[b]));
      MEM.owner[b] = tid;
      if ((*MEM.space)[b].size() != 0)
        viol("memoryspace:stale-packets", fmt("buffer %zu arrives with %u packets of its previous owner", b, (unsigned)(*MEM.space)[b].size()));
      const uint_fast32_t before = (*MEM.space)[b].size();
      for (int i = 0; i < 2; ++i) {
        const uint_fast32_t k = (*MEM.space)[b].get_next_free_photon();
        (*MEM.space)[b][k].set_weight(100. + i);
      }
      harness_point();
      if ((*MEM.space)[b].size() != before + 2)
        viol("memoryspace:packets-lost", fmt("buffer %zu holds %u packets after its owner stored 2", b, (unsigned)(*MEM.space)[b].size()));
      MEM.owner[b] = -1;
      MEM.space->free_buffer(b);
      e1::note_progress();
    }
  };
  s.final_check = []() {
    if (!MEM.space->is_empty())
      viol("memoryspace:occupancy", fmt("%zu buffers still counted as active", MEM.space->get_number_of_active_buffers()));
  };
  s.hash = nullptr;
  s.post_points = true;
  return s;
}

// ---------------------------------------------------------------- driver

int main(int argc, char **argv) {
  Args A = parse_args(argc, argv);
  Result R(A);
  const bool thorough = A.thorough();

  struct Run {
    Scenario sc;
    bool unbounded; // all interleavings with state hashing
    int bound;
  };
  std::vector< Run > runs;
  auto add = [&](const Scenario &s, bool unb, int bound) { runs.push_back({s, unb, bound}); };

  // pools: 2 threads, all interleavings
  add(pool_scenario(1, {"gf", "gf"}), true, 0);
  add(pool_scenario(2, {"g", "g"}), true, 0);
  add(pool_scenario(2, {"gfg", "gf"}), true, 0);
  add(pool_scenario(2, {"ggf", "sf"}), true, 0);
  add(pool_scenario(3, {"gf", "gg"}), true, 0);
  if (thorough) {
    add(pool_scenario(2, {"gfg", "gfg"}), true, 0);
    add(pool_scenario(3, {"gfg", "gg"}), true, 0);
  }
  add(pool_scenario(2, {"s", "s"}), true, 0);
  add(pool_scenario(1, {"sf", "sf"}), true, 0);
  add(pool_scenario(3, {"g", "g", "g"}), false, thorough ? 4 : 3);
  add(pool_scenario(2, {"gf", "gf", "gf"}), false, thorough ? 3 : 2);
  if (thorough) {
    add(pool_scenario(3, {"gfgf", "ggff"}), true, 0);
    add(pool_scenario(2, {"gfgf", "gfg"}), true, 0);
    add(pool_scenario(3, {"gfg", "gfg", "sf"}), false, 3);
  }
  // queues: tasks 0 (no locks), 1 (lock 0), 2 (locks 0,1), 3 (lock 1)
  const std::vector< std::vector< int > > tl = {{}, {0}, {0, 1}, {1}};
  add(queue_scenario("free-tasks", tl, 2, {0}, {"a1g", "g"}), true, 0);
  add(queue_scenario("shared-lock", tl, 2, {1, 2}, {"gu", "gu"}), true, 0);
  add(queue_scenario("disjoint-locks", tl, 2, {1, 3}, {"gu", "tu"}), true, 0);
  add(queue_scenario("add-vs-pop", tl, 2, {}, {"a1a2", "ggu"}), true, 0);
  add(queue_scenario("try-pop", tl, 2, {2, 3, 1}, {"tu", "tug"}), true, 0);
  add(queue_scenario("three", tl, 2, {0, 1, 3}, {"gu", "gu", "tu"}), false, thorough ? 3 : 2);
  if (thorough) {
    add(queue_scenario("refill", tl, 2, {2}, {"gua1", "gugu"}), true, 0);
    add(queue_scenario("all-four", tl, 2, {0, 1, 2, 3}, {"gugu", "tugu"}), true, 0);
  }
  add(lock_scenario(2, 2), true, 0);
  add(lock_scenario(3, 1), false, thorough ? 4 : 3);
  // try-lock with rollback can livelock under an unfair adversarial schedule
  // (not a property violation), so this scenario is deviation bounded
  add(crossed_scenario(thorough ? 2 : 1), false, thorough ? 4 : 3);
  for (int variant = 0; variant < 3; ++variant) {
    add(counter_scenario(2, variant), true, 0);
    add(counter_scenario(3, variant), false, thorough ? 3 : 2);
  }
  add(memory_scenario(2), false, thorough ? 4 : 3);
  for (size_t size = 1; size <= 3; ++size)
    for (int adv = 0; adv < (int)size + 1; ++adv)
      add(memory_reuse_scenario(size, adv), false, thorough ? 5 : 4);

  const size_t handpicked = runs.size();
  // ---- systematic families: every initial state reachable by a short sequential
  // history x every pair of short concurrent programs
  {
    // pools: initial histories over {g,f,r} (r = release the oldest slot held)
    std::vector< std::string > inits = {""};
    const size_t maxinit = thorough ? 4 : 3;
    for (size_t len = 1; len <= maxinit; ++len) {
      const size_t first = inits.size();
      (void)first;
      std::vector< std::string > next;
      for (const std::string &w : inits)
        if (w.size() == len - 1)
          for (char c : {'g', 'f', 'r'}) {
            int held = 0;
            for (char x : w)
              held += x == 'g' ? 1 : -1;
            if (c != 'g' && held == 0)
              continue;
            next.push_back(w + c);
          }
      inits.insert(inits.end(), next.begin(), next.end());
    }
    std::vector< std::string > p0 = {"g", "s", "f", "gf", "sf"}, p1 = {"g", "s", "gf", "sf"};
    if (thorough) {
      // programs that take, release and take again (the cursor moves on inside one program)
      for (const char *x : {"gfg", "sfs", "gfs"}) {
        p0.push_back(x);
        p1.push_back(x);
      }
    }
    for (size_t size = 1; size <= (thorough ? 4u : 3u); ++size)
      for (const std::string &w : inits) {
        int held = 0, maxheld = 0;
        for (char x : w) {
          held += x == 'g' ? 1 : -1;
          maxheld = std::max(maxheld, held);
        }
        if (maxheld > (int)size)
          continue;
        for (const std::string &a : p0)
          for (const std::string &b : p1) {
            if (a[0] == 'f' && held == 0)
              continue;
            // a blocking get must always be satisfiable: never more demand than slots
            const int demand = held + (a[0] != 'f') + 1 - (a[0] == 'f');
            const bool blocking = a[0] == 'g' || b[0] == 'g';
            if (blocking && demand > (int)size)
              continue;
            // a spinning safe-get needs its partner to free eventually
            if (demand > (int)size && !(a.size() == 2 || a[0] == 'f') )
              continue;
            if (demand > (int)size && b.size() != 2)
              continue;
            if (!thorough && w.size() == 3 && a.size() + b.size() > 3 && a[0] != 's' && b[0] != 's')
              continue;
            // a three-operation program only against a one-operation partner (all interleavings of
            // two longer programs do not complete within the tier's budget)
            if ((a.size() == 3 || b.size() == 3) && a.size() + b.size() > 4)
              continue;
            Scenario ps = pool_scenario(size, {a, b}, w);
            ps.post_points = a.size() + b.size() <= 2;
            if (ps.post_points)
              ps.name += "+post";
            add(ps, true, 0);
          }
      }
    // queues: tasks 0 (no locks), 1 (lock 0), 2 (locks 0,1), 3 (lock 1), 4 (lock 1), 5 (lock 0)
    const std::vector< std::vector< int > > tl6 = {{}, {0}, {0, 1}, {1}, {1}, {0}};
    std::vector< std::vector< size_t > > queues = {{}};
    const size_t maxq = thorough ? 3 : 2;
    for (size_t len = 1; len <= maxq; ++len) {
      std::vector< std::vector< size_t > > next;
      for (auto &q : queues)
        if (q.size() == len - 1)
          for (size_t t = 0; t < 6; ++t)
            if (std::find(q.begin(), q.end(), t) == q.end()) {
              auto n = q;
              n.push_back(t);
              next.push_back(n);
            }
      queues.insert(queues.end(), next.begin(), next.end());
    }
    for (auto &q : queues)
      for (int held = -1; held < 6; ++held) {
        if (held >= 0 && (std::find(q.begin(), q.end(), (size_t)held) != q.end() || tl6[held].empty()))
          continue;
        if (q.empty())
          continue;
        std::string label = "sys";
        for (size_t t : q)
          label += fmt("%zu", t);
        label += held >= 0 ? fmt("/hold%d", held) : std::string("/free");
        std::vector< std::string > a0 = held >= 0 ? std::vector< std::string >{"u", "tu"} : std::vector< std::string >{"gu", "tu"};
        for (const std::string &a : a0)
          for (const std::string &b : {std::string("tu"), std::string("gu")}) {
            if (!thorough && b == "gu" && q.size() > 1 && held < 0)
              continue;
            Scenario qs = queue_scenario(label, tl6, 2, q, {a, b}, held);
            qs.post_points = q.size() <= 1 || (a == "u" && b == "tu");
            if (qs.post_points)
              qs.name += "+post";
            add(qs, true, 0);
          }
      }
  }

  if (!A.get("list").empty()) {
    for (auto &r : runs)
      printf("%s\n", r.sc.name.c_str());
    return 0;
  }
  if (!A.get("only").empty()) {
    std::vector< Run > keep;
    for (auto &r : runs)
      if (r.sc.name == A.get("only"))
        keep.push_back(r);
    runs = keep;
    if (A.geti("bounded", -1) >= 0)
      for (auto &r : runs) {
        r.unbounded = false;
        r.bound = (int)A.geti("bounded", 2);
      }
  }
  if (!A.replay.empty()) {
    const std::string txt = read_file(A.replay);
    const std::string nm = replay_field(txt, "scenario");
    std::vector< Run > keep;
    for (auto &r : runs)
      if (r.sc.name == nm)
        keep.push_back(r);
    runs = keep;
    if (runs.empty()) {
      fprintf(stderr, "replay: unknown scenario '%s'\n", nm.c_str());
      return 2;
    }
  } else if (!runs.empty()) {
    if (runs.size() > handpicked + 1)
      std::rotate(runs.begin() + handpicked, runs.begin() + handpicked + (A.seed % (runs.size() - handpicked)), runs.end());
  }

  uint64_t total_exec = 0, total_states = 0, total_points = 0;
  std::set< std::string > seen_all;
  // scenarios are independent: W worker processes each explore a share of them
  // (the parent of an exploration forks one child per execution, which caps a
  // single explorer at about 2000 executions per second)
  const int W = A.replay.empty() ? 12 : 1;
  const std::string tmpd = fast_tmpdir();
  std::vector< pid_t > workers;
  for (int w = 0; w < W; ++w) {
    pid_t pid = W == 1 ? 0 : fork();
    if (pid != 0) {
      workers.push_back(pid);
      continue;
    }
    FILE *out = W == 1 ? nullptr : fopen(fmt("%s/c08_worker_%d.txt", tmpd.c_str(), w).c_str(), "w");
    auto emit = [&](const std::string &line) {
      if (out) {
        std::string l = line;
        for (char &c : l)
          if (c == '\n')
            c = ' ';
        fputs((l + "\n").c_str(), out);
      }
    };
  for (size_t ir = (size_t)w; ir < runs.size(); ir += (size_t)W) {
    const Run &run = runs[ir];
    if (R.out_of_time()) {
      emit(fmt("C %zu scenarios of worker %d not started (deadline)", (runs.size() - ir + W - 1) / W, w));
      if (W == 1)
        R.hit_deadline("scenarios not started");
      break;
    }
    const Scenario &sc = run.sc;
    auto body = [&](const std::vector< int > &) {
      sc.setup();
      e1::sched.record_events = false;
      e1::sched.max_steps = 20000;
      e1::sched.livelock_yields = 400;
      e1::sched.hash_states = run.unbounded;
      e1::sched.post_points = sc.post_points;
      e1::sched.shared_hash = sc.hash;
      if (A.replay.empty() && !freopen("/dev/null", "w", stderr)) {
      }
      cmi_verif::parallel_region(sc.nthreads, [&]() { sc.thread(cmi_verif::thread_index()); });
      sc.final_check();
      e1::rec.outcome = "done";
      e1::finish_child(e1::V_OK);
    };
    if (!A.replay.empty()) {
      const std::string txt = read_file(A.replay);
      std::vector< int > prefix = e1::prefix_from_string(replay_field(txt, "schedule"));
      e1::ExecResult r = e1::run_one(body, prefix, 60.);
      printf("replay %s schedule %s: verdict=%s choice points=%zu\n", sc.name.c_str(),
             e1::prefix_to_string(prefix).c_str(), e1::verdict_name(r.verdict), r.choices.size());
      for (auto &v : r.violations)
        printf("  violation: %s\n", v.c_str());
      ++R.evaluations;
      R.nontrivial += 2;
      if (r.verdict != e1::V_OK || !r.violations.empty())
        R.violation("C08:replayed", fmt("verdict %s, %zu violations", e1::verdict_name(r.verdict), r.violations.size()));
      continue;
    }
    e1::ExecResult d1 = e1::run_one(body, {}, 60.), d2 = e1::run_one(body, {}, 60.);
    if (d1.trace_hash != d2.trace_hash) {
      fprintf(stderr, "CHECK-ERROR: default schedule of %s is not deterministic\n", sc.name.c_str());
      return 4;
    }
    e1::ExploreOptions opt;
    opt.unbounded = run.unbounded;
    opt.use_hashing = run.unbounded;
    opt.max_bound = run.bound;
    opt.jobs = W == 1 ? 16 : (ir < handpicked ? 4 : 2);
    opt.exec_timeout = 30.;
    const double remaining = A.deadline - R.elapsed();
    opt.deadline = ir < handpicked ? std::max(5., remaining * 0.4) : std::max(3., std::min(remaining * 0.5, remaining / (double)((runs.size() - ir + W - 1) / W) * 6.));
    e1::ExploreStats st = e1::explore(body, opt);
    total_exec += st.executions;
    total_states += st.distinct_states;
    total_points += st.choice_points;
    emit(fmt("E %" PRIu64 " %" PRIu64 " %" PRIu64 " %d", st.executions, st.distinct_states, st.choice_points, st.complete ? 1 : 0));
    for (auto &s : st.seen)
      seen_all.insert(s);
    R.evaluations += st.executions;
    R.nontrivial += st.executions > 1 ? st.executions - 1 : 0;
    if (!st.complete)
    {
      R.cap(fmt("%s: deadline cut the search (%" PRIu64 " executions done)", sc.name.c_str(), st.executions));
      emit(fmt("C %s: deadline cut the search (%" PRIu64 " executions done)", sc.name.c_str(), st.executions));
    }
    if (ir % 97 == 0 || st.failure_count) {
      const std::string js = fmt("{\"threads\": %d, \"mode\": \"%s\", \"executions\": %" PRIu64 ", \"distinct_states\": %" PRIu64
                   ", \"pruned_at_visited_state\": %" PRIu64 ", \"max_choice_points\": %" PRIu64 ", \"failing\": %" PRIu64 "}",
                   sc.nthreads, run.unbounded ? "all interleavings (state hashing)" : fmt("deviation bound %d", run.bound).c_str(),
                   st.executions, st.distinct_states, st.pruned_by_hash, st.max_points, st.failure_count);
      R.set_json("run:" + sc.name, js);
      emit("J run:" + sc.name + "\t" + js);
    }
    if (ir < 4 && !st.sample_schedules.empty() && W == 1)
      R.sample(fmt("{\"scenario\": \"%s\", \"deviations(pos:choice;len)\": \"%s\"}", sc.name.c_str(), st.sample_schedules.back().c_str()));
    for (const e1::ExecResult &f : st.failures) {
      std::string key, detail;
      if (!f.violations.empty()) {
        size_t bar = f.violations[0].find('|');
        key = f.violations[0].substr(0, bar);
        detail = f.violations[0].substr(bar == std::string::npos ? 0 : bar + 1);
      } else {
        key = std::string("C08:") + e1::verdict_name(f.verdict);
        detail = f.outcome;
      }
      const std::string fam = sc.name.substr(0, sc.name.find_first_of(":/"));
      const std::string vdetail = fmt("%s [scenario %s, schedule %s, verdict %s]", detail.c_str(), sc.name.c_str(),
                                      e1::prefix_to_string(f.prefix).c_str(), e1::verdict_name(f.verdict));
      const std::string vreplay = fmt("{\"scenario\": \"%s\", \"schedule\": \"%s\"}", sc.name.c_str(), e1::prefix_to_string(f.prefix).c_str());
      R.violation(key + ":" + fam, vdetail, vreplay);
      emit("V " + key + ":" + fam + "\t" + vdetail + "\t" + vreplay);
    }
  }
    if (W > 1) {
      if (out)
        fclose(out);
      _exit(0);
    }
  }
  if (W > 1) {
    for (pid_t pid : workers) {
      int status = 0;
      waitpid(pid, &status, 0);
      if (!WIFEXITED(status) || WEXITSTATUS(status) != 0)
        R.violation("C08:worker-died", fmt("exploration worker ended with status %d", status));
    }
    for (int w = 0; w < W; ++w) {
      const std::string txt = read_file(fmt("%s/c08_worker_%d.txt", tmpd.c_str(), w));
      size_t pos = 0;
      while (pos < txt.size()) {
        size_t nl = txt.find('\n', pos);
        if (nl == std::string::npos)
          nl = txt.size();
        const std::string line = txt.substr(pos, nl - pos);
        pos = nl + 1;
        if (line.size() < 2)
          continue;
        if (line[0] == 'E') {
          unsigned long long a, b, c;
          int complete;
          if (sscanf(line.c_str(), "E %llu %llu %llu %d", &a, &b, &c, &complete) == 4) {
            total_exec += a;
            total_states += b;
            total_points += c;
            R.evaluations += a;
            R.nontrivial += a > 1 ? a - 1 : 0;
          }
        } else if (line[0] == 'C') {
          R.cap(line.substr(2));
        } else if (line[0] == 'J') {
          size_t t1 = line.find('\t');
          if (t1 != std::string::npos)
            R.set_json(line.substr(2, t1 - 2), line.substr(t1 + 1));
        } else if (line[0] == 'V') {
          size_t t1 = line.find('\t'), t2 = line.find('\t', t1 + 1);
          if (t1 != std::string::npos && t2 != std::string::npos)
            R.violation(line.substr(2, t1 - 2), line.substr(t1 + 1, t2 - t1 - 1), line.substr(t2 + 1));
        }
      }
    }
  }
  remove_fast_tmpdir(tmpd);
  for (size_t k = 0; k < runs.size() && k < 6; ++k)
    R.sample(fmt("{\"scenario\": \"%s\", \"threads\": %d, \"mode\": \"%s\"}", runs[(k * 131) % runs.size()].sc.name.c_str(),
                 runs[(k * 131) % runs.size()].sc.nthreads, runs[(k * 131) % runs.size()].unbounded ? "all interleavings" : "deviation bounded"));
  R.set("states", (double)std::max< uint64_t >(total_states, 1));
  R.set("transitions", (double)total_points);
  R.set("traces_validated_against_impl", (double)total_exec);
  R.set("scenarios", (double)runs.size());
  R.rule = "exhaustive exploration of the interleavings of the individual atomic operations of the real containers: "
           "2-thread scenarios: every interleaving (search pruned only at states already visited: shared memory + per-thread "
           "progress and observed values + monitor state); 3-thread scenarios: deviation bounded; ownership monitors on every "
           "return value, quiescent-state checks at the end; non-trivial = executions deviating from the default schedule";
  R.assumptions.push_back("each std::atomic operation is one indivisible step (sequential consistency)");
  return R.finish(A);
}
