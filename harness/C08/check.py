CHECK = {
    "id": "C08",
    "level": "model_checking",
    "engine": "E1",
    "technique": "stateless model checking of the implementation with state hashing: all interleavings of the containers' atomic operations for 2 threads, deviation-bounded for 3 threads, ownership monitors",
    "level_text": "Small multi-threaded scenarios (1-5 operations per thread on pools of 1-3 slots, queues of up to 4 tasks with "
                  "0/1/2 shared or disjoint resource locks, locks, counters, LockFree::add, MemorySpace overflow, crossed "
                  "two-lock acquisition, buffer reuse after free; plus systematic families: every pool of 1-3 slots x every initial "
                  "history over {get, free, re-get} (wrapped cursors, held slots) x every 1-2 operation program per thread (thorough: pools of 1-4 slots, histories up to length 4, and take-release-take programs of three operations against every one-operation partner), every "
                  "queue of six tasks x initially held task x program, with a scheduling point while a slot or task is held and, "
                  "where marked, after every modifying atomic operation) run on the real classes with every std::atomic operation announced to a cooperative "
                  "scheduler. 2-thread scenarios are explored over ALL interleavings (search pruned only at already visited "
                  "states), 3-thread scenarios up to a deviation bound. Monitors flag a slot/task/lock/buffer returned to a second "
                  "owner at the moment it happens; quiescent checks compare occupancy with slots held, hand-outs with queued "
                  "tasks, drain the queue alone, and compare counters with the sum of updates.",
    "level_note": "Each std::atomic operation is one indivisible, sequentially consistent step; a thread that yields in a retry "
                  "loop may continue itself at most once in a row while another thread is enabled (fair scheduling). Scenario alphabet is listed in the "
                  "harness; more threads or longer programs are not covered.",
    "quick_deadline": 90,
    "thorough_deadline": 900,
    "parts": [{"name": "containers", "bin": "c08_containers"}],
    "assumptions": [],
}
