E1SRC := $(V)/engine/e1/sched.cpp $(V)/engine/e1/explorer.cpp
$(eval $(call HARNESS,c08_containers,$(V)/harness/C08/c08_containers.cpp $(E1SRC),hook,-I$(V)/engine/e1 -fno-access-control,))
