// C20 helper: turn the abort() of cmac_error into a recorded outcome.
// The executable defines abort(); while a guard is active on the calling
// thread the call longjmps back to the guard, otherwise the process dies with
// SIGABRT as usual (the driver then reports a harness failure).
#ifndef C20_GUARD_HPP
#define C20_GUARD_HPP

#include <csetjmp>
#include <csignal>
#include <cstdlib>
#include <unistd.h>

namespace c20 {
static thread_local sigjmp_buf *g_jump = nullptr;
static thread_local unsigned long g_aborts = 0;

/// run f(); returns false if the real code called abort() (cmac_error)
template < typename F > __attribute__((noinline)) bool guarded(F &&f) {
  sigjmp_buf jb;
  sigjmp_buf *volatile prev = g_jump;
  g_jump = &jb;
  if (sigsetjmp(jb, 0) == 0) {
    f();
    g_jump = prev;
    return true;
  }
  g_jump = prev;
  ++g_aborts;
  return false;
}
} // namespace c20

extern "C" void abort() {
  if (c20::g_jump)
    siglongjmp(*c20::g_jump, 1);
  signal(SIGABRT, SIG_DFL);
  raise(SIGABRT);
  _exit(134);
}

#endif
