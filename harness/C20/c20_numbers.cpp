// C20 part 4: numeric values at and beyond the integer widths.
//
// The trees part uses small numbers only (42, 1e3, 3.25 ...). Here the alphabet
// is the *number*: every magnitude of a stated finite list (powers of two and
// of ten and their neighbours, one non-zero digit at every decimal position,
// values with a different digit at every position) x sign x every integer type
// for which the project has a Utilities::convert specialisation x every
// notation the parser documents (positional decimal, positional with a leading
// zero, hexadecimal, exponent notation m e K for every K with 10^K | value),
// as scalar and as component of an integer vector, present in the file or given
// as the default of the query. Each (type, number) is one parameter file read
// by the real ParameterFile; the oracle is the number itself (the texts are
// produced by the harness from the 64 bit magnitude, nothing of the project is
// used to make them):
//   first read            == the number, for every notation
//   used-values text      == the positional decimal text of the number
//   dump -> read -> query == the number (generation 2 and 3), dump text fixed
// Floating point: integers N around 2^31, 2^32, 2^53, 2^63, 2^64 and powers of
// ten up to 10^23, 2^100, with fractions {none, '.', '.0', '.5', '.25'},
// positional and as d.ddd e K / e+0K / E / ddd e0, plain, with unit (m, K) and as vector
// components; expected value = the correctly rounded double of the exact
// number (__float128 holds it exactly, one conversion), first read bit-exact,
// re-read to the printed precision (6 significant digits).
#include "ParameterFile.hpp"
#include "Utilities.hpp"
#include "c20_guard.hpp"
#include "verif_common.hpp"

#include <algorithm>
#include <atomic>
#include <cfloat>
#include <climits>
#include <limits>
#include <omp.h>
#include <type_traits>

using namespace verif;

typedef unsigned __int128 u128;

static std::string g_tmp;
static bool g_verbose = false;

// ------------------------------------------------------------ text writers
static std::string dec_text(u128 v) {
  if (v == 0)
    return "0";
  std::string s;
  while (v > 0) {
    s.insert(s.begin(), (char)('0' + (int)(v % 10)));
    v /= 10;
  }
  return s;
}
static std::string hex_digits(uint64_t v, bool upper) {
  if (v == 0)
    return "0";
  std::string s;
  const char *d = upper ? "0123456789ABCDEF" : "0123456789abcdef";
  while (v > 0) {
    s.insert(s.begin(), d[v & 15]);
    v >>= 4;
  }
  return s;
}

static const char *mag_class(u128 m) {
  if (m < ((u128)1 << 31))
    return "lt2^31";
  if (m < ((u128)1 << 32))
    return "2^31..2^32-1";
  if (m < ((u128)1 << 53))
    return "2^32..2^53-1";
  if (m < ((u128)1 << 63))
    return "2^53..2^63-1";
  if (m < ((u128)1 << 64))
    return "2^63..2^64-1";
  return "ge2^64";
}

// --------------------------------------------------------------- type table
template < typename T > struct TypeName;
#define TYPENAME(T, N)                                                                             \
  template <> struct TypeName< T > {                                                               \
    static const char *name() { return N; }                                                        \
  };
TYPENAME(unsigned char, "unsigned-char")
TYPENAME(unsigned short, "unsigned-short")
TYPENAME(int, "int")
TYPENAME(unsigned int, "unsigned-int")
TYPENAME(long, "long")
TYPENAME(unsigned long, "unsigned-long")
TYPENAME(unsigned long long, "unsigned-long-long")
#undef TYPENAME

template < typename T > struct HasVector : std::false_type {};
template <> struct HasVector< int > : std::true_type {};
template <> struct HasVector< unsigned int > : std::true_type {};
template <> struct HasVector< long > : std::true_type {};
template <> struct HasVector< unsigned long > : std::true_type {};

template < typename T > static void read_vector(ParameterFile &pf, const std::string &key, T out[3], std::true_type) {
  const CoordinateVector< T > v = pf.get_value< CoordinateVector< T > >(key);
  out[0] = v[0];
  out[1] = v[1];
  out[2] = v[2];
}
template < typename T > static void read_vector(ParameterFile &, const std::string &, T[3], std::false_type) {}

/// is (neg, mag) a value of T that the decimal parser can hold without leaving
/// the type (the most negative value is excluded: the parser negates the
/// magnitude)
template < typename T > static bool fits(bool neg, uint64_t mag) {
  if (neg)
    return std::is_signed< T >::value && mag > 0 && mag <= (uint64_t)std::numeric_limits< T >::max();
  return mag <= (uint64_t)std::numeric_limits< T >::max();
}
template < typename T > static T make(bool neg, uint64_t mag) {
  return neg ? (T)(-(T)mag) : (T)mag;
}
template < typename T > static std::string value_text(T v) {
  if (std::is_signed< T >::value && v < 0)
    return "-" + dec_text((u128)(uint64_t)(-(long long)v));
  return dec_text((u128)(uint64_t)v);
}

struct Stats {
  uint64_t files = 0, keys = 0, scalar_reads = 0, vector_reads = 0, rereads = 0, notations[8] = {0, 0, 0, 0, 0, 0, 0, 0},
           hex_not_applicable = 0, numbers = 0, float_numbers = 0, nontrivial = 0, float_files = 0, float_reads = 0, float_rereads = 0,
           float_near = 0, float_inexact_6g = 0;
  double float_max_ratio = 0.;
  std::map< std::string, uint64_t > per_type, per_class;
  void merge(const Stats &o) {
    files += o.files;
    keys += o.keys;
    scalar_reads += o.scalar_reads;
    vector_reads += o.vector_reads;
    rereads += o.rereads;
    for (int i = 0; i < 8; ++i)
      notations[i] += o.notations[i];
    hex_not_applicable += o.hex_not_applicable;
    numbers += o.numbers;
    float_numbers += o.float_numbers;
    nontrivial += o.nontrivial;
    float_files += o.float_files;
    float_reads += o.float_reads;
    float_rereads += o.float_rereads;
    float_near += o.float_near;
    float_inexact_6g += o.float_inexact_6g;
    float_max_ratio = std::max(float_max_ratio, o.float_max_ratio);
    for (auto &e : o.per_type)
      per_type[e.first] += e.second;
    for (auto &e : o.per_class)
      per_class[e.first] += e.second;
  }
};

enum { N_DEC = 0, N_DEC0, N_HEX, N_HEXUP, N_EXP, N_EXPUP, N_DEFAULT, N_VECTOR };
static const char *NOTATION[] = {"positional", "positional-leading-zero", "hex", "hex-uppercase", "exponent",
                                 "exponent-uppercase", "default-of-the-query", "vector-component"};

static void write_file(const std::string &name, const std::string &text) {
  FILE *f = fopen(name.c_str(), "w");
  if (!f) {
    perror(name.c_str());
    exit(3);
  }
  fwrite(text.data(), 1, text.size(), f);
  fclose(f);
}

struct IKey {
  std::string key, text;
  int notation;
};

// ------------------------------------------------------------ integer case
/// one (type, sign, magnitude) with two further values of the same type as the
/// other vector components
template < typename T >
static void integer_case(bool neg, uint64_t mag, T other1, T other2, int generations, Result &R, Stats &S) {
  const T want = make< T >(neg, mag);
  const std::string sgn = neg ? "-" : "";
  const std::string tname = TypeName< T >::name();
  const std::string cls = mag_class(mag);
  ++S.numbers;
  ++S.per_type[tname];
  ++S.per_class[cls];
  if (mag >= 256)
    ++S.nontrivial;
  std::vector< IKey > keys;
  keys.push_back({"dec", sgn + dec_text(mag), N_DEC});
  keys.push_back({"dec0", sgn + "0" + dec_text(mag), N_DEC0});
  // hexadecimal: the parser accepts at most (bits - signed) / 4 digits
  {
    const std::string h = hex_digits(mag, false);
    if (h.size() * 4 <= sizeof(T) * 8 - (std::is_signed< T >::value ? 1 : 0)) {
      keys.push_back({"hex", sgn + "0x" + h, N_HEX});
      keys.push_back({"hexup", sgn + "0X" + hex_digits(mag, true), N_HEXUP});
    } else
      ++S.hex_not_applicable;
  }
  {
    uint64_t m = mag;
    int K = 0;
    while (m > 0 && m % 10 == 0) {
      m /= 10;
      ++K;
      keys.push_back({fmt("exp%d", K), sgn + dec_text(m) + fmt("e%d", K), N_EXP});
    }
    if (K > 0)
      keys.push_back({"expup", sgn + dec_text(m) + fmt("E%d", K), N_EXPUP});
  }
  const std::string vtext = "[" + sgn + dec_text(mag) + ", " + value_text(other1) + ", " + value_text(other2) + "]";
  const std::string vtext2 = "[" + value_text(other2) + ", " + sgn + dec_text(mag) + "," + value_text(other1) + "]";
  std::string text = "Numbers:\n";
  for (auto &k : keys)
    text += "  " + k.key + ": " + k.text + "\n";
  if (HasVector< T >::value) {
    text += "  vec: " + vtext + "\n";
    text += "  vec2: " + vtext2 + "\n";
  }
  const std::string rep = fmt("{\"test\": \"integer\", \"type\": \"%s\", \"neg\": %d, \"mag\": \"%s\", \"o1\": \"%s\", \"o2\": \"%s\"}",
                              tname.c_str(), neg ? 1 : 0, dec_text(mag).c_str(), value_text(other1).c_str(),
                              value_text(other2).c_str());
  const int tid = omp_get_thread_num();
  std::string fname = g_tmp + fmt("/n%d_g1.param", tid);
  const std::string wanttext = value_text(want);
  std::vector< T > first(keys.size());
  T vfirst[2][3] = {{0, 0, 0}, {0, 0, 0}};
  // class of a vector: of its largest component
  uint64_t vmax = mag;
  for (T o : {other1, other2})
    vmax = std::max(vmax, (uint64_t)(o < 0 ? -(long long)o : (unsigned long long)o));
  const std::string vcls = mag_class(vmax);
  std::string dumps[4];
  std::map< std::string, std::string > used_prev;
  int gen = 1;
  std::string stage = "read";
  const bool ok = c20::guarded([&] {
    std::string current = text;
    for (gen = 1; gen <= generations; ++gen) {
      stage = "read";
      {
        // an abort inside the ParameterFile constructor would leak its file stream
        std::istringstream pre(current);
        YAMLDictionary predict(pre);
      }
      fname = g_tmp + fmt("/n%d_g%d.param", tid, gen);
      write_file(fname, current);
      ParameterFile pf(fname);
      ++S.files;
      stage = "query";
      for (size_t ik = 0; ik < keys.size(); ++ik) {
        const IKey &k = keys[ik];
        const T got = pf.get_value< T >("Numbers:" + k.key);
        ++S.keys;
        if (gen == 1) {
          ++S.scalar_reads;
          ++S.notations[k.notation];
          first[ik] = got;
        } else
          ++S.rereads;
        if (g_verbose)
          printf("  generation %d  %-6s %-28s -> %s (number %s)\n", gen, k.key.c_str(),
                 gen == 1 ? k.text.c_str() : "(from the dump)", value_text(got).c_str(), wanttext.c_str());
        if (gen == 1) {
          // oracle: the number the text denotes
          if (!(got == want))
            R.violation("C20:num:integer-parse:" + tname + ":" + NOTATION[k.notation] + ":" + cls,
                        "get_value<" + tname + "> of '" + k.text + "' returns " + value_text(got) + ", the text denotes " +
                            wanttext,
                        rep);
        } else if (!(got == first[ik]))
          // oracle: the value of the first read
          R.violation("C20:num:dump:integer-changed:" + tname + ":" + NOTATION[k.notation] + ":" + cls,
                      fmt("generation %d: key %s ('", gen, k.key.c_str()) + k.text + "' in the original file) returns " +
                          value_text(got) + " from the fed back dump, the first read gave " + value_text(first[ik]) +
                          "; dump:\n" + dumps[gen - 1],
                      rep);
      }
      // a key that is absent from the original file and only exists as default
      {
        const T got = pf.get_value< T >("Numbers:absent", want);
        ++S.keys;
        if (gen == 1)
          ++S.notations[N_DEFAULT];
        else
          ++S.rereads;
        if (!(got == want))
          R.violation("C20:num:dump:integer-default-changed:" + tname + ":" + cls,
                      fmt("generation %d: the key given as default ", gen) + wanttext + " returns " + value_text(got) +
                          "; dump:\n" + dumps[gen - 1],
                      rep);
      }
      if (HasVector< T >::value) {
        for (int iv = 0; iv < 2; ++iv) {
          T got[3] = {0, 0, 0};
          read_vector< T >(pf, iv ? "Numbers:vec2" : "Numbers:vec", got, HasVector< T >());
          const T w[3] = {iv ? other2 : want, iv ? want : other1, iv ? other1 : other2};
          ++S.keys;
          if (gen == 1) {
            ++S.vector_reads;
            ++S.notations[N_VECTOR];
            for (int i = 0; i < 3; ++i)
              vfirst[iv][i] = got[i];
          } else
            ++S.rereads;
          const std::string g3 = "[" + value_text(got[0]) + ", " + value_text(got[1]) + ", " + value_text(got[2]) + "]";
          if (gen == 1) {
            if (!(got[0] == w[0] && got[1] == w[1] && got[2] == w[2]))
              R.violation("C20:num:integer-parse:" + tname + ":vector-component:" + vcls,
                          "get_value<CoordinateVector<" + tname + ">> of '" + (iv ? vtext2 : vtext) + "' returns " + g3, rep);
          } else if (!(got[0] == vfirst[iv][0] && got[1] == vfirst[iv][1] && got[2] == vfirst[iv][2]))
            R.violation("C20:num:dump:integer-changed:" + tname + ":vector-component:" + vcls,
                        fmt("generation %d: vector '", gen) + (iv ? vtext2 : vtext) + "' returns " + g3 +
                            " from the fed back dump, the first read gave [" + value_text(vfirst[iv][0]) + ", " +
                            value_text(vfirst[iv][1]) + ", " + value_text(vfirst[iv][2]) + "]; dump:\n" + dumps[gen - 1],
                        rep);
        }
      }
      stage = "dump";
      std::ostringstream o;
      pf.print_contents(o);
      dumps[gen] = o.str();
      // the used values are the positional decimal text of the number
      if (gen == 1) {
        // the used value is the positional decimal text of the value that the query returned
        for (size_t ik = 0; ik <= keys.size(); ++ik) {
          const std::string key = "Numbers:" + (ik < keys.size() ? keys[ik].key : std::string("absent"));
          const std::string shouldbe = value_text(ik < keys.size() ? first[ik] : want);
          const std::string is = pf._yaml_dictionary._used_values[key];
          if (is != shouldbe)
            R.violation("C20:num:integer-print:" + tname + ":" + cls,
                        "used value of " + key + " is printed as '" + is + "', the query returned " + shouldbe, rep);
        }
      } else if (pf._yaml_dictionary._used_values != used_prev)
        R.violation("C20:num:dump:not-a-fixed-point:" + tname,
                    fmt("the used values of generation %d differ from those of generation %d; dump:\n", gen, gen - 1) +
                        dumps[gen] + fmt("dump of generation %d:\n", gen - 1) + dumps[gen - 1],
                    rep);
      used_prev = pf._yaml_dictionary._used_values;
      current = dumps[gen];
    }
  });
  if (g_verbose)
    printf("---- parameter file:\n%s---- used-values dump:\n%s", text.c_str(), dumps[1].c_str());
  if (!ok)
    R.violation("C20:num:integer-abort:" + tname + ":" + stage + ":" + cls,
                fmt("cmac_error in generation %d (%s); file:\n", gen, stage.c_str()) + text + "dump:\n" + dumps[1], rep);
}

// -------------------------------------------------------------- float case
struct FKey {
  std::string key, text, notation;
  int kind; // 0 get_value<double>, 1 physical length, 2 physical temperature
  double want;
  double first = 0.;
};

/// N (exact), fraction index and sign -> one parameter file
static void float_case(u128 N, bool neg, u128 N2, u128 N3, int generations, Result &R, Stats &S) {
  static const char *FRAC_TEXT[] = {"", ".", ".0", ".5", ".25"};
  static const double FRAC_VAL[] = {0., 0., 0., 0.5, 0.25};
  const std::string sgn = neg ? "-" : "";
  const std::string d = dec_text(N);
  const std::string cls = mag_class(N);
  std::vector< FKey > keys;
  auto expect = [&](u128 n, double frac) {
    // exact in binary128 for n < 2^110; one correctly rounded conversion
    const __float128 x = (__float128)n + (__float128)frac;
    const double v = (double)x;
    return neg ? -v : v;
  };
  auto expect_pos = [&](u128 n) { return (double)(__float128)n; };
  for (int f = 0; f < 5; ++f) {
    keys.push_back({fmt("pos%d", f), sgn + d + FRAC_TEXT[f], "positional", 0, expect(N, FRAC_VAL[f])});
    keys.push_back({fmt("len%d", f), sgn + d + FRAC_TEXT[f] + " m", "positional-with-unit", 1, expect(N, FRAC_VAL[f])});
  }
  keys.push_back({"temp", sgn + d + ". K", "positional-with-unit", 2, expect(N, 0.)});
  if (N > 0) {
    // d.ddd e K with all digits of N
    const int K = (int)d.size() - 1;
    std::string mant = d.substr(0, 1);
    std::string rest = d.substr(1);
    while (!rest.empty() && rest.back() == '0')
      rest.pop_back();
    const bool has_rest = !rest.empty();
    if (has_rest)
      mant += "." + rest;
    keys.push_back({"exp", sgn + mant + fmt("e%d", K), "exponent", 0, expect(N, 0.)});
    keys.push_back({"expplus", sgn + mant + fmt("e+%02d", K), "exponent", 0, expect(N, 0.)});
    keys.push_back({"expup", sgn + mant + fmt("E%d", K), "exponent", 0, expect(N, 0.)});
    if (!has_rest)
      keys.push_back({"expdot", sgn + mant + fmt(".e%d", K), "exponent", 0, expect(N, 0.)});
    keys.push_back({"exp0", sgn + d + "e0", "exponent", 0, expect(N, 0.)});
    keys.push_back({"expm1", sgn + d + "0e-1", "exponent", 0, expect(N, 0.)});
    keys.push_back({"explen", sgn + mant + fmt("e%d m", K), "exponent-with-unit", 1, expect(N, 0.)});
    keys.push_back({"exptemp", sgn + mant + fmt("e+%d K", K), "exponent-with-unit", 2, expect(N, 0.)});
  }
  const std::string d2 = dec_text(N2), d3 = dec_text(N3);
  const std::string vtext = "[" + sgn + d + ", " + d2 + ".5, -" + d3 + "]";
  const std::string lvtext = "[" + sgn + d + " m, " + d2 + ". m, -" + d3 + ".0 m]";
  const double vwant[3] = {expect(N, 0.), (double)((__float128)N2 + (__float128)0.5), -expect_pos(N3)};
  const double lvwant[3] = {expect(N, 0.), expect_pos(N2), -expect_pos(N3)};
  double vfirst[3] = {0., 0., 0.}, lvfirst[3] = {0., 0., 0.};
  std::string text = "Floats:\n";
  for (auto &k : keys)
    text += "  " + k.key + ": " + k.text + "\n";
  text += "  vec: " + vtext + "\n  lvec: " + lvtext + "\n";
  const std::string rep = fmt("{\"test\": \"float\", \"N\": \"%s\", \"neg\": %d, \"N2\": \"%s\", \"N3\": \"%s\"}", d.c_str(),
                              neg ? 1 : 0, d2.c_str(), d3.c_str());
  const int tid = omp_get_thread_num();
  std::string dumps[4];
  std::map< std::string, std::string > used_prev;
  int gen = 1;
  std::string stage = "read";
  ++S.float_numbers;
  ++S.nontrivial;
  auto reread_ok = [&](double a, double b) {
    // printed precision: 6 significant digits -> |b-a| <= 5e-6 |a| (k = 8 eps slack for the bound itself)
    const double tol = 5.e-6 * std::fabs(a) * (1. + 8. * DBL_EPSILON);
    const double err = std::fabs(b - a);
    ++S.float_rereads;
    if (tol > 0.) {
      S.float_max_ratio = std::max(S.float_max_ratio, err / tol);
      if (err > 0.1 * tol)
        ++S.float_near;
    }
    char buf[64];
    snprintf(buf, sizeof(buf), "%.6g", a);
    if (strtod(buf, nullptr) != b)
      ++S.float_inexact_6g;
    return err <= tol;
  };
  const bool ok = c20::guarded([&] {
    std::string current = text;
    for (gen = 1; gen <= generations; ++gen) {
      stage = "read";
      {
        std::istringstream pre(current);
        YAMLDictionary predict(pre);
      }
      const std::string fname = g_tmp + fmt("/f%d_g%d.param", tid, gen);
      write_file(fname, current);
      ParameterFile pf(fname);
      ++S.float_files;
      stage = "query";
      for (auto &k : keys) {
        const std::string key = "Floats:" + k.key;
        const double got = k.kind == 0   ? pf.get_value< double >(key)
                           : k.kind == 1 ? pf.get_physical_value< QUANTITY_LENGTH >(key)
                                         : pf.get_physical_value< QUANTITY_TEMPERATURE >(key);
        if (g_verbose)
          printf("  generation %d  %-8s %-34s -> %.17g (exact number rounds to %.17g)\n", gen, k.key.c_str(),
                 gen == 1 ? k.text.c_str() : "(from the dump)", got, k.want);
        if (gen == 1) {
          ++S.float_reads;
          k.first = got;
          if (!(got == k.want))
            R.violation("C20:num:float-parse:" + k.notation + ":" + cls,
                        "'" + k.text + "' is read as " + fmt("%.17g (%a)", got, got) +
                            fmt(", the correctly rounded double of the number is %.17g (%a)", k.want, k.want),
                        rep);
        } else if (!reread_ok(k.first, got))
          R.violation("C20:num:dump:float-changed:" + k.notation + ":" + cls,
                      fmt("generation %d: key %s ('", gen, k.key.c_str()) + k.text +
                          fmt("') returns %.17g from the fed back dump, the first read gave %.17g; dump:\n", got, k.first) +
                          dumps[gen - 1],
                      rep);
      }
      {
        const double w = expect(N, 0.5);
        const double got = pf.get_value< double >("Floats:absent", w);
        if (gen == 1 ? !(got == w) : !reread_ok(w, got))
          R.violation("C20:num:dump:float-default-changed:" + cls,
                      fmt("generation %d: default %.17g returns %.17g; dump:\n", gen, w, got) + dumps[gen - 1], rep);
        const double wl = expect(N, 0.25);
        const double gotl = pf.get_physical_value< QUANTITY_LENGTH >("Floats:absentlen", sgn + d + ".25 m");
        if (gen == 1 ? !(gotl == wl) : !reread_ok(wl, gotl))
          R.violation("C20:num:dump:float-default-changed:with-unit:" + cls,
                      fmt("generation %d: default '%s%s.25 m' returns %.17g, expected %.17g; dump:\n", gen, sgn.c_str(),
                          d.c_str(), gotl, wl) +
                          dumps[gen - 1],
                      rep);
      }
      {
        const CoordinateVector<> v = pf.get_value< CoordinateVector<> >("Floats:vec");
        const CoordinateVector<> lv = pf.get_physical_vector< QUANTITY_LENGTH >("Floats:lvec");
        for (int i = 0; i < 3; ++i) {
          if (gen == 1) {
            S.float_reads += 2;
            vfirst[i] = v[i];
            lvfirst[i] = lv[i];
            if (!(v[i] == vwant[i]))
              R.violation("C20:num:float-parse:vector-component:" + cls,
                          fmt("component %d of '%s' is read as %.17g, expected %.17g", i, vtext.c_str(), v[i], vwant[i]), rep);
            if (!(lv[i] == lvwant[i]))
              R.violation("C20:num:float-parse:vector-component-with-unit:" + cls,
                          fmt("component %d of '%s' is read as %.17g, expected %.17g", i, lvtext.c_str(), lv[i], lvwant[i]),
                          rep);
          } else {
            if (!reread_ok(vfirst[i], v[i]))
              R.violation("C20:num:dump:float-changed:vector-component:" + cls,
                          fmt("generation %d: component %d of '%s' returns %.17g, first read %.17g; dump:\n", gen, i,
                              vtext.c_str(), v[i], vfirst[i]) +
                              dumps[gen - 1],
                          rep);
            if (!reread_ok(lvfirst[i], lv[i]))
              R.violation("C20:num:dump:float-changed:vector-component-with-unit:" + cls,
                          fmt("generation %d: component %d of '%s' returns %.17g, first read %.17g; dump:\n", gen, i,
                              lvtext.c_str(), lv[i], lvfirst[i]) +
                              dumps[gen - 1],
                          rep);
          }
        }
      }
      stage = "dump";
      std::ostringstream o;
      pf.print_contents(o);
      dumps[gen] = o.str();
      if (gen > 1 && pf._yaml_dictionary._used_values != used_prev)
        R.violation("C20:num:dump:not-a-fixed-point:double",
                    fmt("the used values of generation %d differ from those of generation %d; dump:\n", gen, gen - 1) +
                        dumps[gen] + fmt("dump of generation %d:\n", gen - 1) + dumps[gen - 1],
                    rep);
      used_prev = pf._yaml_dictionary._used_values;
      current = dumps[gen];
    }
  });
  if (g_verbose)
    printf("---- parameter file:\n%s---- used-values dump:\n%s", text.c_str(), dumps[1].c_str());
  if (!ok)
    R.violation("C20:num:float-abort:" + stage + ":" + cls,
                fmt("cmac_error in generation %d (%s); file:\n", gen, stage.c_str()) + text + "dump:\n" + dumps[1], rep);
}

// ---------------------------------------------------------------- alphabet
static std::vector< uint64_t > integer_magnitudes(bool thorough, std::map< std::string, double > &info) {
  std::set< uint64_t > s;
  uint64_t n0 = 0;
  auto mark = [&](const char *name) {
    info[std::string("magnitudes.") + name] = (double)(s.size() - n0);
    n0 = s.size();
  };
  // 2^p - 1, 2^p, 2^p + 1 for p = 0..64 (the widths 7/8/15/16/31/32/63/64 of the integer types and 53 of the
  // double mantissa are among them)
  for (int p = 0; p <= 64; ++p) {
    const u128 b = (u128)1 << p;
    for (int dlt = -1; dlt <= 1; ++dlt) {
      const u128 v = b + dlt;
      if (v <= (u128)UINT64_MAX)
        s.insert((uint64_t)v);
    }
  }
  mark("powers_of_two_and_neighbours(new)");
  // d * 10^k: one non-zero digit at every decimal position, and the neighbours of 10^k
  {
    u128 p10 = 1;
    for (int k = 0; k <= 19; ++k, p10 *= 10) {
      for (int dgt = 1; dgt <= 9; ++dgt)
        if (p10 * dgt <= (u128)UINT64_MAX)
          s.insert((uint64_t)(p10 * dgt));
      if (p10 > 1)
        s.insert((uint64_t)(p10 - 1));
      if (p10 + 1 <= (u128)UINT64_MAX)
        s.insert((uint64_t)(p10 + 1));
    }
  }
  mark("one_digit_per_position_and_neighbours_of_10^k(new)");
  // prefixes of 1234567890123456789... and of 9876543210987...: a different digit at every position, every length
  {
    const char *pat[] = {"12345678901234567890", "98765432109876543210", "18446744073709551615", "50505050505050505050"};
    for (auto p : pat)
      for (int len = 1; len <= 20; ++len) {
        u128 v = 0;
        for (int i = 0; i < len; ++i)
          v = v * 10 + (p[i] - '0');
        if (v <= (u128)UINT64_MAX)
          s.insert((uint64_t)v);
      }
  }
  mark("digit_patterns_of_every_length(new)");
  {
    // two non-zero digits at every pair of positions
    const int dg[] = {1, 4, 5, 9};
    u128 p1 = 1;
    for (int k1 = 0; k1 <= 19; ++k1, p1 *= 10) {
      u128 p2 = 1;
      for (int k2 = 0; k2 < k1; ++k2, p2 *= 10)
        for (int a : dg)
          for (int b : dg) {
            const u128 v = p1 * a + p2 * b;
            if (v <= (u128)UINT64_MAX)
              s.insert((uint64_t)v);
          }
    }
    mark("two_digits_at_every_pair_of_positions(new)");
    for (int p = 2; p <= 64; ++p)
      for (int dlt = -3; dlt <= 3; ++dlt) {
        const u128 v = ((u128)1 << p) + dlt;
        if (v <= (u128)UINT64_MAX)
          s.insert((uint64_t)v);
      }
    mark("powers_of_two_plus_minus_3(new)");
  }
  if (thorough) {
    // three non-zero digits at every triple of positions
    const int dg[] = {1, 5, 9};
    u128 p1 = 1;
    for (int k1 = 0; k1 <= 19; ++k1, p1 *= 10) {
      u128 p2 = 1;
      for (int k2 = 0; k2 < k1; ++k2, p2 *= 10) {
        u128 p3 = 1;
        for (int k3 = 0; k3 < k2; ++k3, p3 *= 10)
          for (int a : dg)
            for (int b : dg)
              for (int c : dg) {
                const u128 v = p1 * a + p2 * b + p3 * c;
                if (v <= (u128)UINT64_MAX)
                  s.insert((uint64_t)v);
              }
      }
    }
    mark("three_digits_at_every_triple_of_positions(new)");
    for (int p = 3; p <= 64; ++p)
      for (int dlt = -8; dlt <= 8; ++dlt) {
        const u128 v = ((u128)1 << p) + dlt;
        if (v <= (u128)UINT64_MAX)
          s.insert((uint64_t)v);
      }
    mark("powers_of_two_plus_minus_8(new)");
  }
  return std::vector< uint64_t >(s.begin(), s.end());
}

template < typename T >
static void run_type(const std::vector< uint64_t > &mags, int generations, Result &R, Stats &total,
                     std::atomic< bool > &stop) {
  // the values of this type, in increasing magnitude; vector neighbours are the
  // next and the one before (cyclic), with alternating sign for signed types
  std::vector< uint64_t > mine;
  for (uint64_t m : mags)
    if (fits< T >(false, m))
      mine.push_back(m);
  const size_t n = mine.size();
  const int nsign = std::is_signed< T >::value ? 2 : 1;
#pragma omp parallel
  {
    Stats st;
#pragma omp for schedule(dynamic, 4)
    for (size_t i = 0; i < n * nsign; ++i) {
      if (stop.load())
        continue;
      if (R.out_of_time()) {
        stop.store(true);
        continue;
      }
      const size_t im = i % n;
      const bool neg = i >= n;
      if (!fits< T >(neg, mine[im]))
        continue;
      const uint64_t m1 = mine[(im + 1) % n], m2 = mine[(im + n - 1) % n];
      const T o1 = make< T >(std::is_signed< T >::value && !neg && m1 > 0, m1);
      const T o2 = make< T >(false, m2);
      integer_case< T >(neg, mine[im], o1, o2, generations, R, st);
    }
#pragma omp critical
    total.merge(st);
  }
}

static u128 parse_u128(const std::string &s) {
  u128 v = 0;
  for (char c : s)
    if (isdigit((unsigned char)c))
      v = v * 10 + (c - '0');
  return v;
}

int main(int argc, char **argv) {
  Args A = parse_args(argc, argv);
  Result R(A);
  setenv("TZ", "UTC", 1);
  g_tmp = fast_tmpdir();
  R.rule = "a case is one (integer type, sign, magnitude) or one (sign, floating point number) = one parameter file holding "
           "the number in every notation (one key each), as vector component and as default of an absent key; the numbers "
           "of one type are distinct by construction (set); non-trivial = magnitude >= 256 (more than one byte / three "
           "digits) or floating point";
  const int generations = 3;
  std::map< std::string, double > info;
  Stats S;

  if (!A.replay.empty()) {
    g_verbose = true;
    const std::string txt = read_file(A.replay);
    size_t rp = txt.find("\"replay\"");
    const std::string rj = rp == std::string::npos ? txt : txt.substr(rp);
    const std::string test = replay_field(rj, "test");
    const bool neg = atoi(replay_field(rj, "neg").c_str()) != 0;
    if (test == "float") {
      printf("replaying floating point number %s%s\n", neg ? "-" : "", replay_field(rj, "N").c_str());
      float_case(parse_u128(replay_field(rj, "N")), neg, parse_u128(replay_field(rj, "N2")),
                 parse_u128(replay_field(rj, "N3")), generations, R, S);
    } else {
      const std::string type = replay_field(rj, "type");
      const uint64_t mag = (uint64_t)parse_u128(replay_field(rj, "mag"));
      const std::string o1 = replay_field(rj, "o1"), o2 = replay_field(rj, "o2");
      printf("replaying %s %s%s\n", type.c_str(), neg ? "-" : "", replay_field(rj, "mag").c_str());
#define REPLAY(T)                                                                                  \
  if (type == TypeName< T >::name())                                                               \
    integer_case< T >(neg, mag, make< T >(o1[0] == '-', (uint64_t)parse_u128(o1)),                 \
                      make< T >(o2[0] == '-', (uint64_t)parse_u128(o2)), generations, R, S);
      REPLAY(unsigned char)
      REPLAY(unsigned short)
      REPLAY(int)
      REPLAY(unsigned int)
      REPLAY(long)
      REPLAY(unsigned long)
      REPLAY(unsigned long long)
#undef REPLAY
    }
    R.evaluations = S.keys + S.float_reads + S.float_rereads;
    R.nontrivial = S.nontrivial;
    for (auto &v : R.violations)
      printf("VIOLATION %s :: %s\n", v.key.c_str(), v.detail.c_str());
    remove_fast_tmpdir(g_tmp);
    return R.finish(A);
  }

  const std::vector< uint64_t > mags = integer_magnitudes(A.thorough(), info);
  std::atomic< bool > stop{false};
  run_type< unsigned char >(mags, generations, R, S, stop);
  run_type< unsigned short >(mags, generations, R, S, stop);
  run_type< int >(mags, generations, R, S, stop);
  run_type< unsigned int >(mags, generations, R, S, stop);
  run_type< long >(mags, generations, R, S, stop);
  run_type< unsigned long >(mags, generations, R, S, stop);
  run_type< unsigned long long >(mags, generations, R, S, stop);

  // floating point numbers
  std::vector< u128 > fl;
  {
    std::set< u128 > s;
    const int pw[] = {24, 31, 32, 33, 52, 53, 54, 63, 64, 65, 100};
    for (int p : pw)
      for (int dlt = -2; dlt <= 2; ++dlt)
        s.insert(((u128)1 << p) + dlt);
    u128 p10 = 1;
    for (int k = 0; k <= 30; ++k, p10 *= 10) {
      s.insert(p10);
      if (A.thorough() || k == 9 || k == 10 || k == 15 || k == 16 || k >= 19) {
        s.insert(p10 * 5);
        s.insert(p10 - 1);
        s.insert(p10 + 1);
      }
    }
    s.insert(0);
    s.insert(parse_u128("12345678901234567890123"));
    s.insert(parse_u128("9007199254740993")); // 2^53 + 1: a tie, rounds to even
    s.insert(parse_u128("9007199254740995"));
    if (A.thorough())
      for (int p = 1; p <= 109; ++p)
        for (int dlt = -1; dlt <= 1; ++dlt)
          s.insert(((u128)1 << p) + dlt);
    fl.assign(s.begin(), s.end());
  }
  {
    const size_t n = fl.size();
#pragma omp parallel
    {
      Stats st;
#pragma omp for schedule(dynamic, 2)
      for (size_t i = 0; i < 2 * n; ++i) {
        if (stop.load())
          continue;
        if (R.out_of_time()) {
          stop.store(true);
          continue;
        }
        const size_t im = i % n;
        if (i >= n && fl[im] == 0)
          continue;
        float_case(fl[im], i >= n, fl[(im + 1) % n], fl[(im + n - 1) % n], generations, R, st);
      }
#pragma omp critical
      S.merge(st);
    }
  }
  if (stop.load())
    R.hit_deadline("numbers: stopped before all (type, number) files were run");

  // probes (information only): notations the integer parser does not document
  {
    std::string out;
    const char *texts[] = {"1e+3", "1.5e3", "+5", "1e-1"};
    for (auto t : texts) {
      long v = 0;
      const bool ok = c20::guarded([&] { v = Utilities::convert< long >(t); });
      out += std::string("'") + t + "' -> " + (ok ? fmt("%ld", v) : std::string("cmac_error")) + "; ";
    }
    R.set_str("probe.integer_parser_on_undocumented_notations", out);
  }

  R.evaluations = S.keys + S.float_reads + S.float_rereads;
  R.nontrivial = S.nontrivial;
  for (auto &e : info)
    R.set(e.first, e.second);
  R.set("integer.magnitudes", (double)mags.size());
  R.set("integer.largest_magnitude_is_2^64-1", mags.back() == UINT64_MAX ? 1. : 0.);
  R.set("integer.type_sign_number_cases", (double)S.numbers);
  for (auto &e : S.per_type)
    R.set("integer.numbers_of_type." + e.first, (double)e.second);
  for (auto &e : S.per_class)
    R.set("numbers_in_class." + e.first, (double)e.second);
  for (int i = 0; i < 8; ++i)
    R.set(std::string("integer.first_reads.") + NOTATION[i], (double)S.notations[i]);
  R.set("integer.hex_not_applicable_more_digits_than_the_parser_accepts", (double)S.hex_not_applicable);
  R.set("integer.rereads_from_fed_back_dumps", (double)S.rereads);
  R.set("generations", generations);
  R.set("parameter_files_read", (double)(S.files + S.float_files));
  R.set("float.magnitudes", (double)fl.size());
  R.set("float.sign_number_cases", (double)S.float_numbers);
  R.set("float.first_reads", (double)S.float_reads);
  R.set("float.rereads", (double)S.float_rereads);
  R.set("float.max_error_over_printed_precision_bound", S.float_max_ratio);
  R.set("float.rereads_above_0.1_of_bound", (double)S.float_near);
  R.set("float.rereads_not_equal_to_%.6g_rounding", (double)S.float_inexact_6g);
  R.set_str("tolerances", "integers: exact in every generation; floating point first read: bit-equal to the correctly rounded "
                          "double of the exact number (binary128 holds N + fraction exactly for N < 2^110); fed back dump: "
                          "|reread - first| <= 5e-6*|first| (half a unit of the 6th significant digit that "
                          "Utilities::to_string prints, k = 8 eps slack)");
  R.sample(fmt("{\"integer_notations_of_5000000000\": \"5000000000 | 05000000000 | 0x12a05f200 | 0X12A05F200 | 500000000e1 "
               "... 5e9 | 5E9 | [5000000000, a, b] | default\"}"));
  R.assumptions.push_back("a number is given to an integer type only if the type can hold it (the most negative value "
                          "excluded); hexadecimal texts only with as many digits as the parser accepts ((bits - sign)/4); "
                          "exponents without sign for integers ('1e+3' is read as 1 by the integer parser: recorded as a probe)");
  R.assumptions.push_back("floating point texts denote numbers that are exact in binary128 (integers below 2^110 plus 0, 0.5 "
                          "or 0.25), so that the expected double needs one rounding");
  remove_fast_tmpdir(g_tmp);
  return R.finish(A);
}
