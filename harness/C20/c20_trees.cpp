// C20 part 1: parameter trees.
//
// Bounded-exhaustive enumeration of key sets (paths over a small name
// alphabet) x key orders x indentation styles x header sharing modes x value
// kinds. For every case the YAML text is produced by an independent writer,
// parsed by the real YAMLDictionary, printed by its own printer, parsed again
// and printed again:
//   parse(text)            == the key/value map the writer intended
//   parse(print(parse(x))) == parse(x)              (keys and values)
//   print(parse(print(parse(x)))) == print(parse(x)) (fixed point, text)
// and through the real ParameterFile (files on a RAM disk): every key is
// queried with its type (with and without defaults), the used-values dump is
// read back as a parameter file and must return every value to the printed
// precision (6 significant digits for floating point, exact otherwise); the
// dump of the re-read file has the same used values (idempotent).
// Key sets in which one key is also a group (not prefix free) are run too and
// the outcome (rejected by cmac_error / kept as flat keys / other) is recorded.
#include "ParameterFile.hpp"
#include "YAMLDictionary.hpp"
#include "c20_guard.hpp"
#include "verif_common.hpp"

#include <algorithm>
#include <array>
#include <atomic>
#include <cfloat>
#include <functional>
#include <omp.h>
#include <sstream>

using namespace verif;

typedef std::vector< std::string > Path;
typedef std::map< std::string, std::string > Dict;

static std::string keystr(const Path &p) {
  std::string k;
  for (size_t i = 0; i < p.size(); ++i) {
    if (i)
      k += ":";
    k += p[i];
  }
  return k;
}
static Path keypath(const std::string &k) {
  Path p;
  size_t s = 0, c;
  while ((c = k.find(':', s)) != std::string::npos) {
    p.push_back(k.substr(s, c - s));
    s = c + 1;
  }
  p.push_back(k.substr(s));
  return p;
}
static bool is_prefix(const Path &a, const Path &b) {
  if (a.size() >= b.size())
    return false;
  for (size_t i = 0; i < a.size(); ++i)
    if (a[i] != b[i])
      return false;
  return true;
}

// ---------------------------------------------------------------- value kinds
enum KType {
  K_DOUBLE,
  K_INT,
  K_UINT,
  K_VEC,
  K_IVEC,
  K_BOOL,
  K_BVEC,
  K_LEN,
  K_VEL,
  K_TEMP,
  K_NDENS,
  K_FREQ,
  K_LVEC,
  K_STR
};
struct Kind {
  const char *name;
  KType type;
};
// the first four are the "main" kinds of the property text
static const Kind KINDS[] = {
    {"scalar", K_DOUBLE},      {"vector", K_VEC},          {"bool", K_BOOL},
    {"unit-kpc", K_LEN},       {"scalar-long", K_DOUBLE},  {"scalar-exp", K_DOUBLE},
    {"int", K_INT},            {"uint-exp", K_UINT},       {"ivec", K_IVEC},
    {"bool-word", K_BOOL},     {"bvec", K_BVEC},           {"velocity", K_VEL},
    {"lvec", K_LVEC},          {"string", K_STR},          {"freq-from-eV", K_FREQ},
    {"temperature", K_TEMP},   {"number-density", K_NDENS}};
static const int NKINDS = sizeof(KINDS) / sizeof(KINDS[0]);
static const int NMAIN = 4;
static const int MAXPOS = 4;

/// value text of kind k for the key at position pos (positions get different
/// values so that swapped values are visible)
static std::string value_text(int k, int pos) {
  switch (k) {
  case 0:
    return fmt("%d.25", 3 + pos);
  case 1:
    return fmt("[%d, 2, 3]", 1 + pos);
  case 2:
    return (pos % 2) ? "false" : "true";
  case 3:
    return fmt("%d.5 kpc", 1 + pos);
  case 4:
    return fmt("0.12345678%d", 9 - pos);
  case 5:
    return fmt("-6.0221407%de+23", 6 - pos);
  case 6:
    return fmt("%d", 42 + pos);
  case 7:
    return fmt("%de3", 1 + pos);
  case 8:
    return fmt("[4, %d, -6]", 5 + pos);
  case 9: {
    static const char *w[] = {"no", "Yes", "off", "ON"};
    return w[pos % 4];
  }
  case 10:
    return (pos % 2) ? "[false, y, no]" : "[true, false, yes]";
  case 11:
    return fmt("%d. km s^-1", 10 + pos);
  case 12:
    return fmt("[%d. kpc, 2.5 pc, -3. m]", 1 + pos);
  case 13:
    return fmt("some_file_%d.txt", pos);
  case 14:
    return fmt("13.%d eV", 6 + pos);
  case 15:
    return fmt("%d. K", 8000 + 125 * pos);
  default:
    return fmt("%d. cm^-3", 100 + pos);
  }
}

struct Val {
  int n = 0;
  double d[3] = {0., 0., 0.};
  bool floating = false; // compared to the printed precision
  std::string s;
};

static Val query(ParameterFile &pf, const std::string &key, int k, bool use_default,
                 const std::string &deftext) {
  Val v;
  switch (KINDS[k].type) {
  case K_DOUBLE:
    v.n = 1;
    v.floating = true;
    v.d[0] = use_default ? pf.get_value< double >(key, strtod(deftext.c_str(), nullptr))
                         : pf.get_value< double >(key);
    break;
  case K_INT:
    v.n = 1;
    v.d[0] = use_default ? pf.get_value< int >(key, atoi(deftext.c_str())) : pf.get_value< int >(key);
    break;
  case K_UINT:
    v.n = 1;
    v.d[0] = use_default
                 ? pf.get_value< uint_fast32_t >(key, (uint_fast32_t)strtod(deftext.c_str(), nullptr))
                 : pf.get_value< uint_fast32_t >(key);
    break;
  case K_VEC: {
    v.n = 3;
    v.floating = true;
    CoordinateVector<> c;
    if (use_default) {
      double a = 0, b = 0, e = 0;
      sscanf(deftext.c_str(), "[%lf,%lf,%lf]", &a, &b, &e);
      c = pf.get_value< CoordinateVector<> >(key, CoordinateVector<>(a, b, e));
    } else
      c = pf.get_value< CoordinateVector<> >(key);
    for (int i = 0; i < 3; ++i)
      v.d[i] = c[i];
    break;
  }
  case K_IVEC: {
    v.n = 3;
    CoordinateVector< int > c;
    if (use_default) {
      int a = 0, b = 0, e = 0;
      sscanf(deftext.c_str(), "[%d,%d,%d]", &a, &b, &e);
      c = pf.get_value< CoordinateVector< int > >(key, CoordinateVector< int >(a, b, e));
    } else
      c = pf.get_value< CoordinateVector< int > >(key);
    for (int i = 0; i < 3; ++i)
      v.d[i] = c[i];
    break;
  }
  case K_BOOL: {
    v.n = 1;
    if (use_default) {
      std::string l = deftext;
      for (auto &ch : l)
        ch = tolower(ch);
      const bool def = (l == "true" || l == "yes" || l == "on" || l == "y");
      v.d[0] = pf.get_value< bool >(key, def);
    } else
      v.d[0] = pf.get_value< bool >(key);
    break;
  }
  case K_BVEC: {
    v.n = 3;
    CoordinateVector< bool > c;
    if (use_default) {
      const bool first = deftext.compare(0, 5, "[true") == 0;
      // the two texts are [true, false, yes] and [false, y, no]
      c = pf.get_value< CoordinateVector< bool > >(
          key, first ? CoordinateVector< bool >(true, false, true)
                     : CoordinateVector< bool >(false, true, false));
    } else
      c = pf.get_value< CoordinateVector< bool > >(key);
    for (int i = 0; i < 3; ++i)
      v.d[i] = c[i];
    break;
  }
#define PHYS(KT, Q)                                                                                \
  case KT:                                                                                         \
    v.n = 1;                                                                                       \
    v.floating = true;                                                                             \
    v.d[0] = use_default ? pf.get_physical_value< Q >(key, deftext) : pf.get_physical_value< Q >(key); \
    break;
    PHYS(K_LEN, QUANTITY_LENGTH)
    PHYS(K_VEL, QUANTITY_VELOCITY)
    PHYS(K_TEMP, QUANTITY_TEMPERATURE)
    PHYS(K_NDENS, QUANTITY_NUMBER_DENSITY)
    PHYS(K_FREQ, QUANTITY_FREQUENCY)
#undef PHYS
  case K_LVEC: {
    v.n = 3;
    v.floating = true;
    CoordinateVector<> c = use_default ? pf.get_physical_vector< QUANTITY_LENGTH >(key, deftext)
                                       : pf.get_physical_vector< QUANTITY_LENGTH >(key);
    for (int i = 0; i < 3; ++i)
      v.d[i] = c[i];
    break;
  }
  case K_STR:
    v.s = use_default ? pf.get_value< std::string >(key, deftext) : pf.get_value< std::string >(key);
    break;
  }
  return v;
}

// ------------------------------------------------------------------- writer
// indentation styles
enum { ST_2 = 0, ST_1, ST_4, ST_TAB, ST_VARY, ST_COSMETIC, NSTYLES };
static const char *STYLE_NAME[] = {"2 spaces", "1 space", "4 spaces", "tab", "varying widths",
                                   "2 spaces + comments, blank lines, padded separators"};
// header sharing modes: share all common groups with the previous key / re-emit
// every header / re-emit the last common header
enum { SH_FULL = 0, SH_NONE, SH_MINUS1, NSHARES };
static const char *SHARE_NAME[] = {"shared headers", "all headers repeated", "last common header repeated"};

struct Case {
  std::vector< Path > keys; // in the order they are written
  std::vector< int > kinds;
  std::vector< int > pos; // value position index per key
  int style = 0;
  int share = 0;
  bool formB = false; // children directly under a "key: value" line (not prefix free sets only)
};

static std::string indent_str(int style, int width) {
  return std::string(width, style == ST_TAB ? '\t' : ' ');
}

/// independent writer: produces the YAML text and the intended flat map
static std::string write_yaml(const Case &c, Dict &expect) {
  struct Open {
    std::string name;
    int child_indent;
  };
  std::vector< Open > open;
  std::string out;
  int counter = 0;
  expect.clear();
  auto width = [&](int) -> int {
    switch (c.style) {
    case ST_1:
    case ST_TAB:
      return 1;
    case ST_4:
      return 4;
    case ST_VARY:
      return 1 + (counter++ % 3);
    default:
      return 2;
    }
  };
  if (c.style == ST_COSMETIC)
    out += "# a comment line at the top\n\n";
  for (size_t ik = 0; ik < c.keys.size(); ++ik) {
    const Path &p = c.keys[ik];
    const size_t ng = p.size() - 1;
    size_t common = 0;
    while (common < open.size() && common < ng && open[common].name == p[common])
      ++common;
    if (c.share == SH_NONE)
      common = 0;
    else if (c.share == SH_MINUS1 && common > 0)
      --common;
    open.resize(common);
    for (size_t j = common; j < ng; ++j) {
      const int ind = j == 0 ? 0 : open[j - 1].child_indent;
      out += indent_str(c.style, ind) + p[j] + ":";
      if (c.style == ST_COSMETIC)
        out += (j % 2) ? "   # group comment" : "  ";
      out += "\n";
      open.push_back({p[j], ind + width((int)j)});
    }
    const int ind = ng == 0 ? 0 : open[ng - 1].child_indent;
    const std::string value = value_text(c.kinds[ik], c.pos[ik]);
    if (c.style == ST_COSMETIC) {
      out += indent_str(c.style, ind) + p[ng] + (ik % 2 ? " :   " : ":\t") + value +
             (ik % 2 ? "   # trailing comment" : "  ") + "\n";
      if (ik % 2 == 0)
        out += "\n   # indented comment line\n";
    } else {
      out += indent_str(c.style, ind) + p[ng] + ": " + value + "\n";
    }
    if (c.formB)
      open.push_back({p[ng], ind + width((int)ng)});
    expect[keystr(p)] = value;
  }
  return out;
}

static std::string case_json(const char *test, const Case &c, int mask = -1) {
  std::string keys, kinds, pos;
  for (size_t i = 0; i < c.keys.size(); ++i) {
    keys += (i ? "|" : "") + keystr(c.keys[i]);
    kinds += (i ? "," : "") + std::to_string(c.kinds[i]);
    pos += (i ? "," : "") + std::to_string(c.pos[i]);
  }
  return fmt("{\"test\": \"%s\", \"keys\": \"%s\", \"kinds\": \"%s\", \"pos\": \"%s\", \"style\": %d, "
             "\"share\": %d, \"formB\": %d, \"mask\": %d}",
             test, json_escape(keys).c_str(), kinds.c_str(), pos.c_str(), c.style, c.share,
             c.formB ? 1 : 0, mask);
}

/// nesting-change class of a key set (in the sorted order the printer uses):
/// the largest rise and drop of the group depth between consecutive keys
static std::string nesting_class(const std::vector< Path > &keys) {
  std::vector< std::string > s;
  for (auto &k : keys)
    s.push_back(keystr(k));
  std::sort(s.begin(), s.end());
  int rise = 0, drop = 0, prev = 0;
  for (auto &k : s) {
    const int depth = (int)std::count(k.begin(), k.end(), ':');
    rise = std::max(rise, depth - prev);
    drop = std::max(drop, prev - depth);
    prev = depth;
  }
  return fmt("rise%s-drop%s", rise >= 2 ? "2+" : (rise ? "1" : "0"), drop >= 2 ? "2+" : (drop ? "1" : "0"));
}

// -------------------------------------------------------------- accumulators
struct Acc {
  uint64_t evals = 0, nontrivial = 0;
  uint64_t structure_cases = 0, dump_cases = 0;
  uint64_t invalid_cases = 0, invalid_rejected = 0, invalid_flat = 0, invalid_other = 0,
           invalid_roundtrip_changed = 0, invalid_roundtrip_abort = 0;
  uint64_t redundant_header_prints = 0; // printed text has more header lines than needed
  uint64_t dump_values = 0, dump_inexact_6g = 0, dump_near = 0;
  double dump_max_ratio = 0.;
  void merge(const Acc &o) {
    evals += o.evals;
    nontrivial += o.nontrivial;
    structure_cases += o.structure_cases;
    dump_cases += o.dump_cases;
    invalid_cases += o.invalid_cases;
    invalid_rejected += o.invalid_rejected;
    invalid_flat += o.invalid_flat;
    invalid_other += o.invalid_other;
    invalid_roundtrip_changed += o.invalid_roundtrip_changed;
    invalid_roundtrip_abort += o.invalid_roundtrip_abort;
    redundant_header_prints += o.redundant_header_prints;
    dump_values += o.dump_values;
    dump_inexact_6g += o.dump_inexact_6g;
    dump_near += o.dump_near;
    dump_max_ratio = std::max(dump_max_ratio, o.dump_max_ratio);
  }
};

static bool g_verbose = false;
static std::string g_tmp;
static std::atomic< int > g_sampled{0};
static std::atomic< int > g_sampled_invalid{0};

static std::string dict_str(const Dict &d) {
  std::string s = "{";
  for (auto &e : d)
    s += "'" + e.first + "' = '" + e.second + "'; ";
  return s + "}";
}

// ------------------------------------------------------------ structure test
static void structure_eval(const Case &c, bool valid, Result &R, Acc &A) {
  Dict expect;
  const std::string text = write_yaml(c, expect);
  ++A.evals;
  ++A.structure_cases;
  bool nested = false;
  for (auto &k : c.keys)
    nested = nested || k.size() > 1;
  if (nested)
    ++A.nontrivial;
  if (!valid)
    ++A.invalid_cases;
  const std::string cls = nesting_class(c.keys);
  YAMLDictionary d1;
  // the string streams are reused: constructing one per case makes all threads
  // contend for the reference count of the global locale
  static thread_local std::istringstream in, in2;
  static thread_local std::ostringstream o1, o2;
  const bool ok1 = c20::guarded([&] {
    in.clear();
    in.str(text);
    d1 = YAMLDictionary(in);
  });
  if (g_verbose)
    printf("---- written text:\n%s---- parse: %s\n", text.c_str(),
           ok1 ? dict_str(d1._dictionary).c_str() : "REJECTED (cmac_error -> abort)");
  if (!ok1) {
    if (valid)
      R.violation("C20:tree:parse-abort:" + cls + ":" + STYLE_NAME[c.style],
                  "the parser rejects a valid tree; text:\n" + text, case_json("structure", c));
    else
      ++A.invalid_rejected;
    return;
  }
  if (valid) {
    if (d1._dictionary != expect)
      R.violation("C20:tree:parse-differs:" + cls + ":" + STYLE_NAME[c.style],
                  "parsed map " + dict_str(d1._dictionary) + " differs from the written keys " +
                      dict_str(expect) + "; text:\n" + text,
                  case_json("structure", c));
  } else {
    if (d1._dictionary == expect)
      ++A.invalid_flat;
    else
      ++A.invalid_other;
    if (g_sampled_invalid.load(std::memory_order_relaxed) < 2 && g_sampled_invalid.fetch_add(1) < 2)
      R.sample(fmt("{\"not_prefix_free_text\": \"%s\", \"parsed\": \"%s\"}", json_escape(text).c_str(),
                   json_escape(dict_str(d1._dictionary)).c_str()));
  }
  std::string p1, p2;
  YAMLDictionary d2;
  const bool ok2 = c20::guarded([&] {
    o1.clear();
    o1.str("");
    d1.print_contents(o1);
    p1 = o1.str();
    in2.clear();
    in2.str(p1);
    d2 = YAMLDictionary(in2);
    o2.clear();
    o2.str("");
    d2.print_contents(o2);
    p2 = o2.str();
  });
  if (g_verbose)
    printf("---- printed:\n%s---- reparsed: %s\n---- printed again:\n%s", p1.c_str(),
           ok2 ? dict_str(d2._dictionary).c_str() : "ABORT", p2.c_str());
  if (!ok2) {
    if (valid)
      R.violation("C20:tree:reparse-abort:" + cls,
                  "printing/re-parsing aborts; parsed " + dict_str(d1._dictionary) + "; printed text:\n" + p1,
                  case_json("structure", c));
    else
      ++A.invalid_roundtrip_abort;
    return;
  }
  if (d2._dictionary != d1._dictionary) {
    if (valid)
      R.violation("C20:tree:roundtrip-changed:" + cls,
                  "parse(print(parse(x))) = " + dict_str(d2._dictionary) + " but parse(x) = " +
                      dict_str(d1._dictionary) + "; printed text:\n" + p1,
                  case_json("structure", c));
    else
      ++A.invalid_roundtrip_changed;
  }
  if (p2 != p1 && valid)
    R.violation("C20:tree:print-not-fixed-point:" + cls,
                "second print differs from first; first:\n" + p1 + "second:\n" + p2, case_json("structure", c));
  // count prints with redundant headers (information only): minimal number of
  // header lines = number of distinct proper group prefixes
  {
    std::set< std::string > groups;
    for (auto &e : d1._dictionary) {
      size_t s = 0, q;
      while ((q = e.first.find(':', s)) != std::string::npos) {
        groups.insert(e.first.substr(0, q));
        s = q + 1;
      }
    }
    size_t lines = std::count(p1.begin(), p1.end(), '\n');
    if (lines > groups.size() + d1._dictionary.size())
      ++A.redundant_header_prints;
  }
  if (valid && nested && g_sampled.load(std::memory_order_relaxed) < 2 && g_sampled.fetch_add(1) < 2)
    R.sample(fmt("{\"text\": \"%s\", \"printed\": \"%s\"}", json_escape(text).c_str(), json_escape(p1).c_str()));
}

// ----------------------------------------------------------------- dump test
static void write_file(const std::string &name, const std::string &text) {
  FILE *f = fopen(name.c_str(), "w");
  if (!f) {
    perror(name.c_str());
    exit(3);
  }
  fwrite(text.data(), 1, text.size(), f);
  fclose(f);
}

static Val g_ref[NKINDS][MAXPOS];

static bool same_exact(const Val &a, const Val &b) {
  if (a.n != b.n || a.s != b.s)
    return false;
  for (int i = 0; i < a.n; ++i)
    if (!(a.d[i] == b.d[i]))
      return false;
  return true;
}
static std::string val_str(const Val &v) {
  if (v.n == 0)
    return "'" + v.s + "'";
  std::string s = "(";
  for (int i = 0; i < v.n; ++i)
    s += (i ? ", " : "") + fmt("%.17g", v.d[i]);
  return s + ")";
}

/// keys: the whole (valid) tree; mask: bit i set = key i is in the file, else
/// it is only queried with a default
static void dump_eval(const Case &c, unsigned mask, Result &R, Acc &A) {
  const int tid = omp_get_thread_num();
  const std::string f1 = g_tmp + fmt("/t%d_a.param", tid), f2 = g_tmp + fmt("/t%d_b.param", tid);
  Case present = c;
  present.keys.clear();
  present.kinds.clear();
  present.pos.clear();
  for (size_t i = 0; i < c.keys.size(); ++i)
    if (mask & (1u << i)) {
      present.keys.push_back(c.keys[i]);
      present.kinds.push_back(c.kinds[i]);
      present.pos.push_back(c.pos[i]);
    }
  Dict expect;
  const std::string text = write_yaml(present, expect);
  ++A.evals;
  ++A.dump_cases;
  bool nested = false;
  for (auto &k : c.keys)
    nested = nested || k.size() > 1;
  if (nested)
    ++A.nontrivial;
  const std::string rep = case_json("dump", c, (int)mask);
  std::vector< Val > v1(c.keys.size()), v1b(c.keys.size()), v2(c.keys.size());
  std::string dump1, dump2, what;
  Dict used1, used2, dict2, dict3;
  int stage = 0;
  bool missing = false;
  // the texts are first parsed from memory: an abort inside the ParameterFile
  // constructor would leak its open file stream
  const bool ok = c20::guarded([&] {
    {
      std::istringstream pre(text);
      YAMLDictionary predict(pre);
    }
    write_file(f1, text);
    ParameterFile pf1(f1);
    stage = 1;
    for (size_t i = 0; i < c.keys.size(); ++i)
      v1[i] = query(pf1, keystr(c.keys[i]), c.kinds[i], !(mask & (1u << i)),
                    value_text(c.kinds[i], c.pos[i]));
    // second request of every key on the same object (components share parameters): same answer, and the
    // used-values dump taken afterwards must still reproduce the values
    for (size_t i = 0; i < c.keys.size(); ++i)
      v1b[i] = query(pf1, keystr(c.keys[i]), c.kinds[i], !(mask & (1u << i)),
                     value_text(c.kinds[i], c.pos[i]));
    stage = 2;
    std::ostringstream o1;
    pf1.print_contents(o1);
    dump1 = o1.str();
    used1 = pf1._yaml_dictionary._used_values;
    write_file(f2, dump1);
    stage = 3;
    {
      std::istringstream pre(dump1);
      YAMLDictionary predict(pre);
    }
    ParameterFile pf2(f2);
    dict2 = pf2._yaml_dictionary._dictionary;
    for (size_t i = 0; i < c.keys.size(); ++i)
      if (!pf2.has_value(keystr(c.keys[i])))
        missing = true;
    if (missing)
      return;
    stage = 4;
    for (size_t i = 0; i < c.keys.size(); ++i)
      v2[i] = query(pf2, keystr(c.keys[i]), c.kinds[i], false, "");
    stage = 5;
    std::ostringstream o2;
    pf2.print_contents(o2);
    dump2 = o2.str();
    used2 = pf2._yaml_dictionary._used_values;
    std::istringstream in3(dump2);
    YAMLDictionary d3(in3);
    dict3 = d3._dictionary;
    stage = 6;
  });
  if (g_verbose)
    printf("---- parameter file:\n%s---- used-values dump:\n%s---- dump of the re-read dump:\n%s", text.c_str(),
           dump1.c_str(), dump2.c_str());
  const std::string cls = nesting_class(c.keys);
  if (!ok) {
    R.violation(fmt("C20:dump:abort-at-stage%d:", stage) + cls,
                fmt("cmac_error at stage %d (1 read, 2 query, 3 dump, 4 re-read, 5 re-query, 6 re-dump); file:\n", stage) +
                    text + "dump:\n" + dump1,
                rep);
    return;
  }
  std::set< std::string > want;
  for (auto &k : c.keys)
    want.insert(keystr(k));
  std::set< std::string > got;
  for (auto &e : dict2)
    got.insert(e.first);
  if (missing || got != want) {
    R.violation("C20:dump:keys-changed:" + cls,
                "re-read dump has keys " + dict_str(dict2) + " for the tree " + rep + "; dump:\n" + dump1, rep);
    return;
  }
  for (size_t i = 0; i < c.keys.size(); ++i) {
    const Val &ref = g_ref[c.kinds[i]][c.pos[i]];
    if (!same_exact(v1b[i], v1[i]))
      R.violation(std::string("C20:dump:second-request-differs:") + KINDS[c.kinds[i]].name +
                      ((mask & (1u << i)) ? ":present" : ":defaulted"),
                  "key " + keystr(c.keys[i]) + " requested twice from the same ParameterFile gives two different values (" +
                      val_str(v1[i]) + " then " + val_str(v1b[i]) + "); file:\n" + text,
                  rep);
    if (!same_exact(v1[i], ref))
      R.violation(std::string("C20:dump:value-depends-on-tree:") + KINDS[c.kinds[i]].name,
                  "key " + keystr(c.keys[i]) + " returns " + val_str(v1[i]) + " but the same text as a single flat key gives " +
                      val_str(ref) + "; file:\n" + text,
                  rep);
    bool bad = v1[i].n != v2[i].n || v1[i].s != v2[i].s;
    for (int j = 0; j < v1[i].n && !bad; ++j) {
      const double a = v1[i].d[j], b = v2[i].d[j];
      ++A.dump_values;
      if (!v1[i].floating) {
        bad = !(a == b);
        continue;
      }
      // printed precision: 6 significant digits -> |b-a| <= 0.5e-5 * 10^floor(log10|a|) <= 5e-6 |a|
      const double tol = 5.e-6 * std::fabs(a) * (1. + 8. * DBL_EPSILON);
      const double err = std::fabs(b - a);
      if (!(err <= tol))
        bad = true;
      if (tol > 0.) {
        A.dump_max_ratio = std::max(A.dump_max_ratio, err / tol);
        if (err > 0.1 * tol)
          ++A.dump_near;
      }
      char buf[64];
      snprintf(buf, sizeof(buf), "%.6g", a);
      if (strtod(buf, nullptr) != b)
        ++A.dump_inexact_6g;
    }
    if (bad)
      R.violation(std::string("C20:dump:value-changed:") + KINDS[c.kinds[i]].name,
                  "key " + keystr(c.keys[i]) + ": first read " + val_str(v1[i]) + ", from the re-read dump " +
                      val_str(v2[i]) + "; dump:\n" + dump1,
                  rep);
  }
  if (used2 != used1)
    R.violation("C20:dump:not-idempotent:" + cls,
                "used values of the re-read dump " + dict_str(used2) + " differ from the first " + dict_str(used1), rep);
  if (dict3 != dict2)
    R.violation("C20:dump:redump-keys-changed:" + cls,
                "parse(dump(parse(dump))) = " + dict_str(dict3) + " but parse(dump) = " + dict_str(dict2), rep);
}

// ------------------------------------------------------------- enumeration
struct Pass {
  bool all_orders;           // every order of the keys (else only the enumeration order)
  std::vector< int > styles; // indentation styles
  std::vector< int > shares; // header sharing modes
  bool full_kinds;           // full product over the 4 main kinds
  int rotations;             // number of rotating assignments over all 17 kinds
};
struct Family {
  std::string label;
  std::vector< std::string > names;
  int maxdepth;
  int minkeys, maxkeys;
  std::vector< Pass > passes; // parse/print/parse test
  bool dump_full;             // used-values dump test over the full main-kind product ...
  bool dump_full_all_masks;   // ... x all present masks (else only all keys present / all keys defaulted)
  int dump_rotations;         // ... and over this many rotating assignments x all present masks
  bool invalid_sets;          // also run sets that are not prefix free (first pass: orders, shares, first style)
};

static std::vector< std::vector< int > > kind_assignments(int k, size_t is, bool full, int rotations) {
  std::vector< std::vector< int > > assigns;
  if (full) {
    long tot = 1;
    for (int i = 0; i < k; ++i)
      tot *= NMAIN;
    for (long m = 0; m < tot; ++m) {
      std::vector< int > a;
      long x = m;
      for (int i = 0; i < k; ++i) {
        a.push_back((int)(x % NMAIN));
        x /= NMAIN;
      }
      assigns.push_back(a);
    }
  }
  for (int r = 0; r < rotations; ++r) {
    std::vector< int > a;
    for (int i = 0; i < k; ++i)
      a.push_back((int)((is * 7 + i * 3 + r * 5) % NKINDS));
    assigns.push_back(a);
  }
  return assigns;
}

static void run_family(const Family &F, const Args &A, Result &R, Acc &total, std::map< std::string, double > &info) {
  std::vector< Path > paths;
  {
    const int nn = (int)F.names.size();
    for (int len = 1; len <= F.maxdepth; ++len) {
      long tot = 1;
      for (int i = 0; i < len; ++i)
        tot *= nn;
      for (long m = 0; m < tot; ++m) {
        Path p;
        long x = m;
        for (int i = 0; i < len; ++i) {
          p.push_back(F.names[x % nn]);
          x /= nn;
        }
        paths.push_back(p);
      }
    }
  }
  const int P = (int)paths.size();
  typedef std::array< uint16_t, 5 > SetT; // [0] = size
  std::vector< SetT > sets;
  {
    std::vector< int > cur;
    std::function< void(int) > rec = [&](int start) {
      if ((int)cur.size() >= F.minkeys) {
        SetT s{};
        s[0] = (uint16_t)cur.size();
        for (size_t i = 0; i < cur.size(); ++i)
          s[i + 1] = (uint16_t)cur[i];
        sets.push_back(s);
      }
      if ((int)cur.size() == F.maxkeys)
        return;
      for (int i = start; i < P; ++i) {
        cur.push_back(i);
        rec(i + 1);
        cur.pop_back();
      }
    };
    rec(0);
  }
  const size_t N = sets.size();
  std::atomic< bool > stop{false};
  std::atomic< uint64_t > nvalid{0}, ninvalid{0}, done{0};
  const size_t off = N ? (size_t)(A.seed % (long)N + (long)N) % N : 0;
#pragma omp parallel
  {
    Acc acc;
#pragma omp for schedule(dynamic, 8)
    for (size_t is0 = 0; is0 < N; ++is0) {
      if (stop.load())
        continue;
      if (R.out_of_time()) {
        stop.store(true);
        continue;
      }
      const size_t is = (is0 + off) % N;
      const SetT &S = sets[is];
      const int k = S[0];
      bool valid = true;
      for (int i = 1; i <= k && valid; ++i)
        for (int j = 1; j <= k; ++j)
          if (i != j && is_prefix(paths[S[i]], paths[S[j]])) {
            valid = false;
            break;
          }
      if (!valid && !F.invalid_sets)
        continue;
      (valid ? nvalid : ninvalid).fetch_add(1);
      for (size_t ip = 0; ip < F.passes.size(); ++ip) {
        const Pass &PS = F.passes[ip];
        if (!valid && ip > 0)
          break;
        const std::vector< std::vector< int > > assigns =
            valid ? kind_assignments(k, is, PS.full_kinds, PS.rotations) : kind_assignments(k, is, false, 1);
        std::vector< int > perm(k);
        for (int i = 0; i < k; ++i)
          perm[i] = i;
        do {
          for (size_t ia = 0; ia < assigns.size(); ++ia) {
            Case c;
            for (int i = 0; i < k; ++i) {
              c.keys.push_back(paths[S[perm[i] + 1]]);
              c.kinds.push_back(assigns[ia][perm[i]]);
              c.pos.push_back(perm[i]);
            }
            if (valid) {
              for (int st : PS.styles)
                for (int sh : PS.shares) {
                  c.style = st;
                  c.share = sh;
                  structure_eval(c, true, R, acc);
                }
            } else {
              for (int sh : PS.shares) {
                c.style = PS.styles[0];
                c.share = sh;
                structure_eval(c, false, R, acc);
              }
              // form B: children directly under the valued key
              c.share = SH_FULL;
              c.formB = true;
              structure_eval(c, false, R, acc);
            }
          }
          if (!PS.all_orders)
            break;
        } while (std::next_permutation(perm.begin(), perm.end()));
      }
      if (valid && (F.dump_full || F.dump_rotations > 0)) {
        const std::vector< std::vector< int > > assigns = kind_assignments(k, is, F.dump_full, F.dump_rotations);
        for (size_t ia = 0; ia < assigns.size(); ++ia) {
          Case c;
          for (int i = 0; i < k; ++i) {
            c.keys.push_back(paths[S[i + 1]]);
            c.kinds.push_back(assigns[ia][i]);
            c.pos.push_back(i);
          }
          c.style = ST_2;
          c.share = SH_FULL;
          const bool is_full = F.dump_full && ia + F.dump_rotations < assigns.size();
          for (unsigned mask = 0; mask < (1u << k); ++mask)
            if (!is_full || F.dump_full_all_masks || mask == 0 || mask == (1u << k) - 1)
              dump_eval(c, mask, R, acc);
        }
      }
      done.fetch_add(1);
    }
#pragma omp critical
    total.merge(acc);
  }
  if (stop.load())
    R.hit_deadline(fmt("family %s: %" PRIu64 " of %zu key sets done", F.label.c_str(), done.load(), N));
  info[F.label + ".paths"] = P;
  info[F.label + ".key_sets"] = (double)N;
  info[F.label + ".valid_trees"] = (double)nvalid.load();
  info[F.label + ".not_prefix_free_sets_run"] = (double)ninvalid.load();
}

static std::vector< int > parse_ints(const std::string &s) {
  std::vector< int > v;
  std::stringstream ss(s);
  std::string t;
  while (getline(ss, t, ','))
    v.push_back(atoi(t.c_str()));
  return v;
}

int main(int argc, char **argv) {
  Args A = parse_args(argc, argv);
  Result R(A);
  setenv("TZ", "UTC", 1);
  g_tmp = fast_tmpdir();
  R.rule = "a case is one tuple (key set over the name alphabet, order in which the keys are written, indentation style, "
           "header sharing mode, value kind per key) for the parse/print/parse test, or (valid key set, value kinds, subset "
           "of keys present in the file - the others are queried with defaults) for the used-values dump test; every tuple "
           "is enumerated once (all distinct); non-trivial = at least one key is nested in a group";

  // reference values: each value text read as a single flat key
  for (int k = 0; k < NKINDS; ++k)
    for (int pos = 0; pos < MAXPOS; ++pos) {
      const std::string f = g_tmp + "/ref.param";
      write_file(f, "x: " + value_text(k, pos) + "\n");
      ParameterFile pf(f);
      g_ref[k][pos] = query(pf, "x", k, false, "");
    }

  if (!A.replay.empty()) {
    g_verbose = true;
    const std::string txt = read_file(A.replay);
    size_t rp = txt.find("\"replay\"");
    const std::string rj = rp == std::string::npos ? txt : txt.substr(rp);
    Case c;
    {
      std::stringstream ss(replay_field(rj, "keys"));
      std::string t;
      while (getline(ss, t, '|'))
        c.keys.push_back(keypath(t));
    }
    c.kinds = parse_ints(replay_field(rj, "kinds"));
    c.pos = parse_ints(replay_field(rj, "pos"));
    c.style = atoi(replay_field(rj, "style").c_str());
    c.share = atoi(replay_field(rj, "share").c_str());
    c.formB = atoi(replay_field(rj, "formB").c_str()) != 0;
    const int mask = atoi(replay_field(rj, "mask").c_str());
    bool valid = true;
    for (auto &a : c.keys)
      for (auto &b : c.keys)
        if (is_prefix(a, b))
          valid = false;
    Acc acc;
    printf("replaying %s test, style '%s', %s, %s\n", replay_field(rj, "test").c_str(), STYLE_NAME[c.style],
           SHARE_NAME[c.share], valid ? "valid tree" : "not prefix free");
    if (replay_field(rj, "test") == "dump")
      dump_eval(c, (unsigned)mask, R, acc);
    else
      structure_eval(c, valid, R, acc);
    R.evaluations = acc.evals;
    R.nontrivial = acc.nontrivial;
    for (auto &v : R.violations)
      printf("VIOLATION %s :: %s\n", v.key.c_str(), v.detail.c_str());
    remove_fast_tmpdir(g_tmp);
    return R.finish(A);
  }

  const std::vector< int > all_styles = {ST_2, ST_1, ST_4, ST_TAB, ST_VARY, ST_COSMETIC};
  const std::vector< int > all_shares = {SH_FULL, SH_NONE, SH_MINUS1};
  std::vector< Family > fams;
  const std::vector< int > two_styles = {ST_2, ST_VARY};
  if (!A.thorough()) {
    fams.push_back({"ab-depth4-le3keys",
                    {"a", "b"},
                    4,
                    0,
                    3,
                    {{true, {ST_2}, {SH_FULL}, true, 0}, {true, {ST_2, ST_VARY, ST_COSMETIC}, {SH_FULL, SH_NONE}, false, 1}},
                    true,
                    false,
                    1,
                    true});
  } else {
    fams.push_back({"ab-depth4-le3keys",
                    {"a", "b"},
                    4,
                    0,
                    3,
                    {{true, two_styles, all_shares, true, 0}, {true, all_styles, all_shares, false, 3}},
                    true,
                    true,
                    3,
                    true});
    fams.push_back(
        {"ab-depth5-le3keys", {"a", "b"}, 5, 1, 3, {{true, all_styles, all_shares, false, 1}}, false, false, 1, true});
    fams.push_back({"ab-depth5-4keys",
                    {"a", "b"},
                    5,
                    4,
                    4,
                    {{true, {ST_2}, {SH_FULL}, false, 1}, {false, all_styles, all_shares, false, 1}},
                    false,
                    false,
                    0,
                    false});
    fams.push_back({"a,b,'a b'-depth4-le3keys",
                    {"a", "b", "a b"},
                    4,
                    1,
                    3,
                    {{true, {ST_2, ST_VARY, ST_COSMETIC}, {SH_FULL, SH_NONE}, false, 1}},
                    false,
                    false,
                    1,
                    true});
    fams.push_back({"a,b,ab-depth4-le3keys",
                    {"a", "b", "ab"},
                    4,
                    1,
                    3,
                    {{true, {ST_2}, {SH_FULL, SH_NONE}, false, 1}},
                    false,
                    false,
                    0,
                    true});
  }
  Acc total;
  std::map< std::string, double > info;
  for (auto &F : fams) {
    if (R.out_of_time()) {
      R.hit_deadline("family " + F.label + " not started");
      continue;
    }
    run_family(F, A, R, total, info);
  }
  R.evaluations = total.evals;
  R.nontrivial = total.nontrivial;
  for (auto &e : info)
    R.set(e.first, e.second);
  R.set("structure_cases", (double)total.structure_cases);
  R.set("dump_cases", (double)total.dump_cases);
  R.set("prints_with_redundant_group_headers", (double)total.redundant_header_prints);
  R.set("not_prefix_free.cases", (double)total.invalid_cases);
  R.set("not_prefix_free.rejected_by_cmac_error", (double)total.invalid_rejected);
  R.set("not_prefix_free.kept_as_flat_keys", (double)total.invalid_flat);
  R.set("not_prefix_free.other_map", (double)total.invalid_other);
  R.set("not_prefix_free.roundtrip_changed", (double)total.invalid_roundtrip_changed);
  R.set("not_prefix_free.roundtrip_abort", (double)total.invalid_roundtrip_abort);
  R.set("dump.values_compared", (double)total.dump_values);
  R.set("dump.max_error_over_printed_precision_bound", total.dump_max_ratio);
  R.set("dump.values_above_0.1_of_bound", (double)total.dump_near);
  R.set("dump.values_not_equal_to_%.6g_rounding", (double)total.dump_inexact_6g);
  R.set_str("dump.tolerance", "floating values: |reread - first| <= 5e-6*|first| (half a unit of the 6th significant "
                              "digit printed by Utilities::to_string), k=8 eps slack; integers, booleans, strings exact");
  // what happens to a key that is never queried (information, not part of the property)
  {
    const std::string f = g_tmp + "/unused.param";
    write_file(f, "a: 1\nb: 2\n");
    ParameterFile pf(f);
    pf.get_value< int >("a");
    std::ostringstream o;
    pf.print_contents(o);
    std::istringstream in(o.str());
    YAMLDictionary d(in);
    R.set_str("dump.value_of_a_key_that_was_never_queried", d._dictionary["b"]);
  }
  R.assumptions.push_back("names and values contain no ':' and no '#'; values are single-line");
  remove_fast_tmpdir(g_tmp);
  return R.finish(A);
}
