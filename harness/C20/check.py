CHECK = {
    "id": "C20",
    "level": "exploration",
    "engine": "E3",
    "technique": "bounded-exhaustive enumeration of parameter trees, numbers at and beyond the integer widths in every "
                 "notation, compound unit strings and grids (small ones and ones that cross the chunk limit and block size of "
                 "the writers) run through the real YAMLDictionary/ParameterFile, UnitConverter and GadgetDensityGridWriter + "
                 "snapshot readers, compared with an independent writer / the number itself / dimension table / field function",
    "level_text": "Every key set with 0..3 keys of depth 1..4 over the names {a,b} (4 526 sets, 2 860 of them valid "
                  "trees, the empty file included) is written by an independent YAML writer in every key order with every assignment of the four "
                  "value kinds (and in three indentation styles x two header sharing modes with a rotating assignment of "
                  "17 value kinds), parsed by the real YAMLDictionary, printed by its printer, parsed and printed again "
                  "(same keys and values, text fixed point), and run through the real ParameterFile with keys present or "
                  "defaulted: every key is requested twice from the same object (same answer both times), then the used-values dump is read back and must return every value to the printed precision. "
                  "Numbers: 3 487 integer magnitudes (2^p-3..2^p+3 for p <= 64, one and two non-zero digits at every "
                  "decimal position up to 10^19, neighbours of 10^k, digit patterns of every length, up to 2^64-1) x sign x "
                  "the 7 integer types with a convert specialisation (only values the type holds) are written positionally, "
                  "with a leading zero, in hexadecimal, in exponent notation for every exponent that divides the number, as "
                  "vector component and as default of an absent key: each must read as the number itself, its used value must "
                  "be the decimal text, and the dump fed back (3 generations) must return the first value exactly; 137 "
                  "floating point numbers around 2^24/31/32/53/63/64/100 and 10^k (k <= 30) x sign x 5 fraction spellings x "
                  "positional / exponent notation, plain, with unit and as vector components must read as the correctly "
                  "rounded double and come back from the dump to 6 digits. "
                  "Every compound unit string of up to 3 factors (24 unit names x exponents -3..3; 4.8 million strings) is "
                  "given to the real UnitConverter and compared with the product of its parts, and converted to and from "
                  "SI for every quantity of matching dimension. Grids of 2..4 cells per axis x every subgrid layout x 4 "
                  "boxes x 3 density fields are written by the real GadgetDensityGridWriter through the task based, hydro "
                  "and legacy paths; the file is read with the plain HDF5 API and by both snapshot density functions and "
                  "compared cell by cell (each reader object is used for two passes in different orders; buffered reader with 1, 2, "
                  "all and all + 3 buffers). 19 further grid "
                  "shapes/layouts cross the constants of the code: 1023/1024/1025/2050 rows (HDF5 chunk limit 1 << 10) and "
                  "subgrids of 9801, exactly 10000, 10010, exactly 20000, 21924 cells, 2 and 3 subgrids of 10000..13156 "
                  "cells split along each axis, 8 x 1680 and the cubes 22^3 and 44^3/2x2x2 (block size 10000 of the writers: "
                  "1, 2 and 3 blocks per subgrid), all with a different temperature and neutral fraction in every cell; 15 "
                  "cases check the second snapshot written by the same writer object. The thorough tier adds three-digit "
                  "patterns (31 717 integer magnitudes), all 2^p +- 1 floats up to 2^109, 19 more large grids (up to 64^3 and "
                  "one subgrid of 85 184 cells = 9 blocks) with all three fields in two boxes, all styles/sharing modes/present masks, depth 5, 4-key "
                  "sets, two 3-name alphabets ('a b', 'ab'), all 27 grid shapes, every exponent spelling in 3-factor unit "
                  "strings and 4-factor strings. Exhaustive inside these bounds; nothing is sampled.",
    "level_note": "Names and values without ':' or '#'. Integers only in types that hold them, hexadecimal only with as many "
                  "digits as the parser accepts, integer exponents without sign ('1e+3' is read as 1: recorded as a probe).  Key sets that are not prefix free are run and their outcome "
                  "(rejected by cmac_error or kept as flat keys) is recorded, not judged. Snapshot boxes are representable in "
                  "the 6 digits the snapshot's parameter block keeps (a box that is not makes the buffered reader abort - "
                  "recorded as a probe). No temperature<->energy conversion exists in this version of the converter.",
    "quick_deadline": 100,
    "thorough_deadline": 1200,
    "parts": [
        {"name": "trees", "bin": "c20_trees", "share": 0.4},
        {"name": "numbers", "bin": "c20_numbers", "share": 0.08},
        {"name": "units", "bin": "c20_units", "share": 0.15},
        {"name": "snapshots", "bin": "c20_snapshots", "share": 0.37},
    ],
    "assumptions": [],
}
