CHECK = {
    "id": "C20",
    "level": "exploration",
    "engine": "E3",
    "technique": "bounded-exhaustive enumeration of parameter trees, compound unit strings and small grids run through the "
                 "real YAMLDictionary/ParameterFile, UnitConverter and GadgetDensityGridWriter + snapshot readers, compared "
                 "with an independent writer / dimension table / field function",
    "level_text": "Every key set with at most 3 keys of depth 1..4 over the names {a,b} (4 525 sets, 2 859 of them valid "
                  "trees) is written by an independent YAML writer in every key order with every assignment of the four "
                  "value kinds (and in three indentation styles x two header sharing modes with a rotating assignment of "
                  "17 value kinds), parsed by the real YAMLDictionary, printed by its printer, parsed and printed again "
                  "(same keys and values, text fixed point), and run through the real ParameterFile with keys present or "
                  "defaulted: the used-values dump is read back and must return every value to the printed precision. "
                  "Every compound unit string of up to 3 factors (24 unit names x exponents -3..3; 4.8 million strings) is "
                  "given to the real UnitConverter and compared with the product of its parts, and converted to and from "
                  "SI for every quantity of matching dimension. Grids of 2..4 cells per axis x every subgrid layout x 4 "
                  "boxes x 3 density fields are written by the real GadgetDensityGridWriter through the task based, hydro "
                  "and legacy paths; the file is read with the plain HDF5 API and by both snapshot density functions and "
                  "compared cell by cell. The thorough tier adds all styles/sharing modes/present masks, depth 5, 4-key "
                  "sets, two 3-name alphabets ('a b', 'ab'), all 27 grid shapes, every exponent spelling in 3-factor unit "
                  "strings and 4-factor strings. Exhaustive inside these bounds; nothing is sampled.",
    "level_note": "Names and values without ':' or '#'. Key sets that are not prefix free are run and their outcome "
                  "(rejected by cmac_error or kept as flat keys) is recorded, not judged. Snapshot boxes are representable in "
                  "the 6 digits the snapshot's parameter block keeps (a box that is not makes the buffered reader abort - "
                  "recorded as a probe). No temperature<->energy conversion exists in this version of the converter.",
    "quick_deadline": 100,
    "thorough_deadline": 1100,
    "parts": [
        {"name": "trees", "bin": "c20_trees", "share": 0.55},
        {"name": "units", "bin": "c20_units", "share": 0.2},
        {"name": "snapshots", "bin": "c20_snapshots", "share": 0.25},
    ],
    "assumptions": [],
}
