// C20 part 3: snapshots.
//
// For every grid (cells per axis 2..4, every subgrid layout that divides it),
// box, density field {uniform, ramp, with zeros} and write path (task based
// DensitySubGridCreator<DensitySubGrid>, hydro DensitySubGridCreator<
// HydroDensitySubGrid>, legacy CartesianDensityGrid) the grid is built through
// the real classes from a parameter file, written by the real
// GadgetDensityGridWriter and then
//   * the HDF5 datasets are read with the plain HDF5 C API: one row per cell,
//     64 bit floats, Coordinates -> cell -> NumberDensity/Density, Temperature,
//     NeutralFractionH equal to what the cell holds,
//   * CMacIonizeSnapshotDensityFunction and (task based snapshots, cubic cells)
//     BufferedCMacIonizeSnapshotDensityFunction (buffer sizes 1, 2, all; two
//     access orders) are constructed on the file and evaluated at every cell
//     of the same geometry: number density, temperature and neutral fraction
//     must equal the cell's values: bit-exact when NumberDensity is stored,
//     4 eps when the mass density is stored and divided by the proton mass.
#include "BufferedCMacIonizeSnapshotDensityFunction.hpp"
#include "CMacIonizeSnapshotDensityFunction.hpp"
#include "CartesianDensityGrid.hpp"
#include "DensityFunction.hpp"
#include "DensitySubGridCreator.hpp"
#include "GadgetDensityGridWriter.hpp"
#include "Hydro.hpp"
#include "HydroDensitySubGrid.hpp"
#include "ParameterFile.hpp"
#include "SimulationBox.hpp"
#include "c20_guard.hpp"
#include "verif_common.hpp"

#include <array>
#include <cfloat>
#include <hdf5.h>

using namespace verif;

enum { F_UNIFORM = 0, F_RAMP, F_ZEROS, NFIELDS };
static const char *FIELD_NAME[] = {"uniform", "ramp", "with-zeros"};
enum { P_TASK = 0, P_HYDRO, P_CARTESIAN, NPATHS };
static const char *PATH_NAME[] = {"taskbased", "hydro-taskbased", "cartesian"};

struct BoxDef {
  const char *name;
  const char *anchor, *sides;
  bool cubic;
};
static const BoxDef BOXES[] = {
    {"unit-box-at-origin", "[0. m, 0. m, 0. m]", "[1. m, 1. m, 1. m]", true},
    {"unit-box-offset", "[-0.5 m, -0.5 m, -0.5 m]", "[1. m, 1. m, 1. m]", true},
    {"10pc-box", "[-5. pc, -5. pc, -5. pc]", "[10. pc, 10. pc, 10. pc]", true},
    {"non-cubic-box", "[-1. m, 0.5 m, 2. m]", "[2. m, 1. m, 4. m]", false},
};
static const int NBOXES = 4;
// probe only (information): box values that need more than the 6 printed digits
static const BoxDef PROBE_BOX = {"non-round-box", "[-1.234567 kpc, -1.234567 kpc, -1.234567 kpc]",
                                 "[2.469134 kpc, 2.469134 kpc, 2.469134 kpc]", true};

struct Case {
  int n[3];
  int s[3];
  int box;
  int field;
  int path;
  bool probe = false;
  bool default_fields = false; // probe only: do not switch the Temperature field on
  int writes = 1;              // 2: the same writer object writes snapshot 0 and then snapshot 1; snapshot 1 is checked
};

struct CellVal {
  double n, T, xH;
};

/// the field: values of the cell with global index (ix, iy, iz)
static CellVal field_value(const Case &c, int ix, int iy, int iz) {
  const double N = (double)c.n[0] * c.n[1] * c.n[2];
  const double g = ((double)ix * c.n[1] + iy) * c.n[2] + iz;
  CellVal v;
  v.T = 1000. * (1. + g) / 3.;
  v.xH = (g + 1.) / (N + 2.);
  switch (c.field) {
  case F_UNIFORM:
    v.n = 1.e8;
    break;
  case F_RAMP:
    v.n = 1.e6 * (1. + g) / 7.;
    break;
  default:
    v.n = ((long)g % 3 == 0) ? 0. : 1.e6 * (1. + g) / 7.;
  }
  return v;
}

static void cell_of(const Case &c, const Box<> &box, const CoordinateVector<> &p, int idx[3]) {
  for (int a = 0; a < 3; ++a) {
    idx[a] = (int)std::floor((p[a] - box.get_anchor()[a]) / box.get_sides()[a] * c.n[a]);
    idx[a] = std::max(0, std::min(c.n[a] - 1, idx[a]));
  }
}

class FieldFunction : public DensityFunction {
public:
  const Case &_c;
  const Box<> _box;
  FieldFunction(const Case &c, const Box<> box) : _c(c), _box(box) {}
  virtual DensityValues operator()(const Cell &cell) {
    int idx[3];
    cell_of(_c, _box, cell.get_cell_midpoint(), idx);
    const CellVal v = field_value(_c, idx[0], idx[1], idx[2]);
    DensityValues d;
    d.set_number_density(v.n);
    d.set_temperature(v.T);
    d.set_ionic_fraction(ION_H_n, v.xH);
    return d;
  }
};

static std::string case_json(const Case &c) {
  return fmt("{\"n\": \"%d,%d,%d\", \"s\": \"%d,%d,%d\", \"box\": %d, \"field\": %d, \"path\": %d, \"probe\": %d, "
             "\"writes\": %d}",
             c.n[0], c.n[1], c.n[2], c.s[0], c.s[1], c.s[2], c.box, c.field, c.path, c.probe ? 1 : 0, c.writes);
}
static std::string case_str(const Case &c) {
  return fmt("%s grid %dx%dx%d, subgrids %dx%dx%d, box %s, field %s%s", PATH_NAME[c.path], c.n[0], c.n[1], c.n[2], c.s[0],
             c.s[1], c.s[2], c.probe ? PROBE_BOX.name : BOXES[c.box].name, FIELD_NAME[c.field],
             c.writes > 1 ? ", second snapshot of the same writer" : "");
}

static std::string g_tmp;
static bool g_verbose = false;

struct Stats {
  uint64_t cases = 0, cells_compared = 0, raw_rows = 0, reader_cells = 0, buffered_cells = 0, buffered_runs = 0,
           buffered_skipped_noncubic = 0, near = 0, second_write_cases = 0, cases_crossing_chunk = 0,
           cases_subgrid_over_block = 0, cases_grid_over_block = 0, max_subgrid_cells = 0, max_blocks_per_subgrid = 0,
           max_grid_cells = 0, subgrids_times_blocks_ge3 = 0;
  double max_rel = 0.;
};

static double relerr(double a, double b) {
  if (a == b)
    return 0.;
  return std::fabs(a - b) / std::max(std::fabs(a), std::fabs(b));
}

static std::vector< double > read_raw(hid_t file, const char *name, size_t expect_cols, bool &ok, size_t &typesize) {
  std::vector< double > v;
  ok = false;
  hid_t d = H5Dopen2(file, name, H5P_DEFAULT);
  if (d < 0)
    return v;
  hid_t sp = H5Dget_space(d);
  hsize_t dims[2] = {0, 1};
  const int nd = H5Sget_simple_extent_dims(sp, dims, nullptr);
  hid_t t = H5Dget_type(d);
  typesize = H5Tget_size(t);
  const bool isfloat = H5Tget_class(t) == H5T_FLOAT;
  const size_t cols = nd == 2 ? dims[1] : 1;
  v.resize(dims[0] * cols);
  if (isfloat && cols == expect_cols && H5Dread(d, H5T_NATIVE_DOUBLE, H5S_ALL, H5S_ALL, H5P_DEFAULT, v.data()) >= 0)
    ok = true;
  H5Tclose(t);
  H5Sclose(sp);
  H5Dclose(d);
  return v;
}

/// compare what a reader returns for every cell with the expected values
template < typename READER >
static void compare_reader(const Case &c, const char *reader, READER &&get, const std::vector< CoordinateVector<> > &mids,
                           const std::vector< CellVal > &vals, const std::vector< size_t > &order, double tol_n,
                           Result &R, Stats &S, uint64_t &counter) {
  for (size_t io = 0; io < order.size(); ++io) {
    const size_t i = order[io];
    const DummyCell cell(mids[i].x(), mids[i].y(), mids[i].z());
    const DensityValues d = get(cell);
    ++counter;
    ++S.cells_compared;
    const double en = relerr(d.get_number_density(), vals[i].n);
    S.max_rel = std::max(S.max_rel, en);
    if (tol_n > 0. && en > 0.1 * tol_n)
      ++S.near;
    const bool bad_n = !(en <= tol_n), bad_T = !(d.get_temperature() == vals[i].T),
               bad_x = !(d.get_ionic_fraction(ION_H_n) == vals[i].xH);
    if (!(bad_n || bad_T || bad_x || (g_verbose && io < 8)))
      continue;
    const std::string where = fmt("cell %zu at (%.17g, %.17g, %.17g) of %s", i, mids[i].x(), mids[i].y(), mids[i].z(),
                                  case_str(c).c_str());
    if (bad_n)
      R.violation(fmt("C20:snap:%s:%s:density:%s", reader, PATH_NAME[c.path], FIELD_NAME[c.field]),
                  fmt("number density %.17g, the cell held %.17g; ", d.get_number_density(), vals[i].n) + where,
                  case_json(c));
    if (bad_T)
      R.violation(fmt("C20:snap:%s:%s:temperature", reader, PATH_NAME[c.path]),
                  fmt("temperature %.17g, the cell held %.17g; ", d.get_temperature(), vals[i].T) + where, case_json(c));
    if (bad_x)
      R.violation(fmt("C20:snap:%s:%s:neutral-fraction", reader, PATH_NAME[c.path]),
                  fmt("neutral fraction %.17g, the cell held %.17g; ", d.get_ionic_fraction(ION_H_n), vals[i].xH) + where,
                  case_json(c));
    if (g_verbose && io < 8)
      printf("  %s %s: n=%.17g T=%.17g xH=%.17g (expected %.17g %.17g %.17g)\n", reader, where.c_str(),
             d.get_number_density(), d.get_temperature(), d.get_ionic_fraction(ION_H_n), vals[i].n, vals[i].T, vals[i].xH);
  }
}

/// one case; returns a short outcome string for probes
static std::string run_case(const Case &c, Result &R, Stats &S) {
  ++S.cases;
  {
    // the constants of the code under test: the writers fill the datasets in blocks of 10000 cells (per subgrid on the
    // task based paths, per grid on the legacy path); HDF5Tools chunks datasets at 1 << 10 rows
    const uint64_t ncell = (uint64_t)c.n[0] * c.n[1] * c.n[2];
    const uint64_t nsubc = c.path == P_CARTESIAN ? ncell : ncell / ((uint64_t)c.s[0] * c.s[1] * c.s[2]);
    const uint64_t nblock = (nsubc + 9999) / 10000;
    S.max_grid_cells = std::max(S.max_grid_cells, ncell);
    S.max_subgrid_cells = std::max(S.max_subgrid_cells, nsubc);
    S.max_blocks_per_subgrid = std::max(S.max_blocks_per_subgrid, nblock);
    if (ncell > 1024)
      ++S.cases_crossing_chunk;
    if (ncell > 10000)
      ++S.cases_grid_over_block;
    if (nsubc > 10000)
      ++S.cases_subgrid_over_block;
    if (nblock >= 3)
      ++S.subgrids_times_blocks_ge3;
    if (c.writes > 1)
      ++S.second_write_cases;
  }
  const BoxDef &B = c.probe ? PROBE_BOX : BOXES[c.box];
  const std::string pname = g_tmp + "/snap.param";
  {
    std::string t;
    t += "SimulationBox:\n";
    t += std::string("  anchor: ") + B.anchor + "\n";
    t += std::string("  sides: ") + B.sides + "\n";
    t += "  periodicity: [false, false, false]\n";
    t += "DensityGrid:\n";
    t += fmt("  number of cells: [%d, %d, %d]\n", c.n[0], c.n[1], c.n[2]);
    if (c.path == P_CARTESIAN)
      t += "  type: Cartesian\n";
    if (c.path != P_CARTESIAN) {
      t += "DensitySubGridCreator:\n";
      t += fmt("  number of subgrids: [%d, %d, %d]\n", c.s[0], c.s[1], c.s[2]);
    }
    t += "DensityGridWriter:\n  prefix: snap\n  padding: 3\n";
    if (c.path != P_HYDRO && !c.default_fields)
      t += "DensityGridWriterFields:\n  Temperature: 1\n";
    FILE *f = fopen(pname.c_str(), "w");
    fputs(t.c_str(), f);
    fclose(f);
  }
  const std::string sname = g_tmp + (c.writes > 1 ? "/snap001.hdf5" : "/snap000.hdf5");
  unlink((g_tmp + "/snap000.hdf5").c_str());
  unlink((g_tmp + "/snap001.hdf5").c_str());
  std::vector< CoordinateVector<> > mids;
  std::vector< CellVal > vals; // what the cells hold
  Box<> box;
  const double mp = PhysicalConstants::get_physical_constant(PHYSICALCONSTANT_PROTON_MASS);
  std::string stage = "setup";
  bool init_bad = false;
  const bool okw = c20::guarded([&] {
    ParameterFile params(pname);
    SimulationBox sb(params);
    box = sb.get_box();
    FieldFunction ff(c, box);
    auto record = [&](const CoordinateVector<> &m, const IonizationVariables &iv) {
      mids.push_back(m);
      vals.push_back({iv.get_number_density(), iv.get_temperature(), iv.get_ionic_fraction(ION_H_n)});
      int idx[3];
      cell_of(c, box, m, idx);
      const CellVal e = field_value(c, idx[0], idx[1], idx[2]);
      if (e.n != vals.back().n || e.T != vals.back().T || e.xH != vals.back().xH)
        init_bad = true;
    };
    if (c.path == P_TASK) {
      DensitySubGridCreator< DensitySubGrid > creator(box, params);
      stage = "initialize";
      creator.initialize(ff);
      for (auto g = creator.begin(); g != creator.original_end(); ++g)
        for (auto it = (*g).begin(); it != (*g).end(); ++it)
          record(it.get_cell_midpoint(), it.get_ionization_variables());
      stage = "write";
      GadgetDensityGridWriter writer(g_tmp, params, false, nullptr);
      for (int w = 0; w < c.writes; ++w)
        writer.write(creator, w, params, 0.);
    } else if (c.path == P_HYDRO) {
      DensitySubGridCreator< HydroDensitySubGrid > creator(box, params);
      stage = "initialize";
      creator.initialize(ff);
      Hydro hydro(5. / 3., 100., 1.e4, 1.e99, false);
      for (auto g = creator.begin(); g != creator.original_end(); ++g) {
        (*g).initialize_hydrodynamic_variables(hydro, true);
        for (auto it = (*g).hydro_begin(); it != (*g).hydro_end(); ++it)
          record(it.get_cell_midpoint(), it.get_ionization_variables());
      }
      stage = "write";
      GadgetDensityGridWriter writer(g_tmp, params, true, nullptr);
      for (int w = 0; w < c.writes; ++w)
        writer.write(creator, w, params, 0.);
    } else {
      params.get_value< std::string >("DensityGrid:type", "Cartesian");
      CartesianDensityGrid grid(sb, params, false, nullptr);
      stage = "initialize";
      std::pair< cellsize_t, cellsize_t > block = std::make_pair(0, grid.get_number_of_cells());
      grid.initialize(block, ff);
      for (auto it = grid.begin(); it != grid.end(); ++it)
        record(it.get_cell_midpoint(), it.get_ionization_variables());
      stage = "write";
      GadgetDensityGridWriter writer(g_tmp, params, false, nullptr);
      for (int w = 0; w < c.writes; ++w)
        writer.write(grid, w, params, 0.);
    }
    stage = "written";
  });
  const size_t N = (size_t)c.n[0] * c.n[1] * c.n[2];
  if (!okw) {
    if (c.probe)
      return "abort while writing (" + stage + ")";
    R.violation(fmt("C20:snap:write-abort:%s:%s", PATH_NAME[c.path], stage.c_str()),
                "cmac_error during " + stage + " of " + case_str(c), case_json(c));
    return "abort";
  }
  if (init_bad || mids.size() != N)
    R.violation(fmt("C20:snap:grid-not-initialised-as-given:%s", PATH_NAME[c.path]),
                fmt("%zu cells recorded, or a cell does not hold the value of the field at its midpoint; ", mids.size()) +
                    case_str(c),
                case_json(c));

  // ---- raw file contents through the HDF5 C API
  const bool hydro = c.path == P_HYDRO;
  {
    hid_t file = H5Fopen(sname.c_str(), H5F_ACC_RDONLY, H5P_DEFAULT);
    if (file < 0) {
      R.violation(fmt("C20:snap:file-missing:%s", PATH_NAME[c.path]), "no snapshot file after " + case_str(c), case_json(c));
      return "no file";
    }
    bool ok1, ok2, ok3, ok4;
    size_t ts1 = 0, ts2 = 0, ts3 = 0, ts4 = 0;
    std::vector< double > co = read_raw(file, "/PartType0/Coordinates", 3, ok1, ts1);
    std::vector< double > de = read_raw(file, hydro ? "/PartType0/Density" : "/PartType0/NumberDensity", 1, ok2, ts2);
    std::vector< double > te = read_raw(file, "/PartType0/Temperature", 1, ok3, ts3);
    std::vector< double > xh = read_raw(file, "/PartType0/NeutralFractionH", 1, ok4, ts4);
    H5Fclose(file);
    if (!ok1 || !ok2 || !ok3 || !ok4 || ts1 != 8 || ts2 != 8 || ts3 != 8 || ts4 != 8 || co.size() != 3 * N ||
        de.size() != N || te.size() != N || xh.size() != N) {
      R.violation(fmt("C20:snap:file-layout:%s", PATH_NAME[c.path]),
                  fmt("datasets missing, not 64 bit floats or not %zu rows (Coordinates %zu/3, density %zu, Temperature %zu, "
                      "NeutralFractionH %zu); ",
                      N, co.size(), de.size(), te.size(), xh.size()) +
                      case_str(c),
                  case_json(c));
    } else {
      std::vector< int > seen(N, 0);
      for (size_t r = 0; r < N; ++r) {
        ++S.raw_rows;
        ++S.cells_compared;
        // coordinates in the file are relative to the box anchor
        CoordinateVector<> p(co[3 * r] + box.get_anchor().x(), co[3 * r + 1] + box.get_anchor().y(),
                             co[3 * r + 2] + box.get_anchor().z());
        int idx[3];
        cell_of(c, box, p, idx);
        const size_t g = ((size_t)idx[0] * c.n[1] + idx[1]) * c.n[2] + idx[2];
        ++seen[g];
        const CellVal e = field_value(c, idx[0], idx[1], idx[2]);
        // the midpoint itself: (i + 0.5) * side / n, 8 eps of the box size
        for (int a = 0; a < 3; ++a) {
          const double want = (idx[a] + 0.5) * box.get_sides()[a] / c.n[a];
          if (!(std::fabs(co[3 * r + a] - want) <=
                8. * DBL_EPSILON * (std::fabs(box.get_anchor()[a]) + box.get_sides()[a])))
            R.violation(fmt("C20:snap:file:%s:coordinates", PATH_NAME[c.path]),
                        fmt("row %zu coordinate %d = %.17g, cell midpoint relative to the anchor %.17g; ", r, a,
                            co[3 * r + a], want) +
                            case_str(c),
                        case_json(c));
        }
        const double want_d = hydro ? e.n * mp : e.n;
        if (!(de[r] == want_d))
          R.violation(fmt("C20:snap:file:%s:density:%s", PATH_NAME[c.path], FIELD_NAME[c.field]),
                      fmt("row %zu (cell %d,%d,%d) density %.17g, cell holds %.17g; ", r, idx[0], idx[1], idx[2], de[r],
                          want_d) +
                          case_str(c),
                      case_json(c));
        if (!(te[r] == e.T))
          R.violation(fmt("C20:snap:file:%s:temperature", PATH_NAME[c.path]),
                      fmt("row %zu (cell %d,%d,%d) temperature %.17g, cell holds %.17g; ", r, idx[0], idx[1], idx[2],
                          te[r], e.T) +
                          case_str(c),
                      case_json(c));
        if (!(xh[r] == e.xH))
          R.violation(fmt("C20:snap:file:%s:neutral-fraction", PATH_NAME[c.path]),
                      fmt("row %zu (cell %d,%d,%d) neutral fraction %.17g, cell holds %.17g; ", r, idx[0], idx[1], idx[2],
                          xh[r], e.xH) +
                          case_str(c),
                      case_json(c));
      }
      for (size_t g = 0; g < N; ++g)
        if (seen[g] != 1) {
          R.violation(fmt("C20:snap:file:%s:cell-rows", PATH_NAME[c.path]),
                      fmt("cell %zu appears %d times in the file; ", g, seen[g]) + case_str(c), case_json(c));
          break;
        }
    }
  }

  // ---- readers
  const double tol_n = hydro ? 4. * DBL_EPSILON : 0.; // rho = n*mp, n' = rho*(1/mp): three roundings, k = 4
  std::vector< size_t > fwd(N), strided;
  for (size_t i = 0; i < N; ++i)
    fwd[i] = i;
  // second order: cells visited with a stride so that consecutive queries hit different subgrids
  {
    const long step = N > 7 ? 7 : 1;
    for (long st = 0; st < step; ++st)
      for (long i = (long)N - 1 - st; i >= 0; i -= step)
        strided.push_back((size_t)i);
  }
  std::string outcome = "ok";
  {
    stage = "construct";
    const bool okr = c20::guarded([&] {
      CMacIonizeSnapshotDensityFunction df(sname, false, false, 0.75, nullptr);
      stage = "initialize";
      df.initialize();
      stage = "evaluate";
      compare_reader(c, "reader", [&](const Cell &cell) { return df(cell); }, mids, vals, fwd, tol_n, R, S, S.reader_cells);
      // second use of the same object, other access order
      compare_reader(c, "reader", [&](const Cell &cell) { return df(cell); }, mids, vals, strided, tol_n, R, S,
                     S.reader_cells);
      df.free();
    });
    if (!okr) {
      if (c.probe)
        outcome = "CMacIonizeSnapshotDensityFunction aborts (" + stage + ")";
      else
        R.violation(fmt("C20:snap:reader:%s:abort-%s", PATH_NAME[c.path], stage.c_str()),
                    "CMacIonizeSnapshotDensityFunction calls cmac_error; " + case_str(c), case_json(c));
    }
  }
  if (c.path != P_CARTESIAN) {
    const bool cubic = B.cubic && c.n[0] == c.n[1] && c.n[1] == c.n[2];
    if (!cubic) {
      ++S.buffered_skipped_noncubic;
    } else {
      const int nsub = c.s[0] * c.s[1] * c.s[2];
      std::vector< int > bsizes = {1};
      if (nsub > 1)
        bsizes.push_back(2);
      if (nsub > 2)
        bsizes.push_back(nsub);
      // more buffers than subgrids (the default of the parameter file constructor is 100)
      if (N <= 4096)
        bsizes.push_back(nsub + 3);
      // a grid with many cells per subgrid: with fewer buffers than subgrids only the forward order (cells subgrid by
      // subgrid, one load per subgrid and pass) - a strided order would reload a whole subgrid for every cell
      const bool large = N > 4096;
      for (int bs : bsizes)
        for (int ord = 0; ord < 2; ++ord) {
          const bool fwd_only = large && bs < nsub;
          if (fwd_only && ord == 1)
            continue;
          stage = "construct";
          const bool okb = c20::guarded([&] {
            const CoordinateVector< uint_fast32_t > ncell(c.n[0], c.n[1], c.n[2]);
            BufferedCMacIonizeSnapshotDensityFunction df(sname, bs, box, ncell, nullptr);
            stage = "initialize";
            df.initialize();
            stage = "evaluate";
            compare_reader(c, "buffered-reader", [&](const Cell &cell) { return df(cell); }, mids, vals,
                           ord ? strided : fwd, tol_n, R, S, S.buffered_cells);
            // second pass over the same object (other order): the buffers hold subgrids of the first pass
            compare_reader(c, "buffered-reader", [&](const Cell &cell) { return df(cell); }, mids, vals,
                           fwd_only ? fwd : (ord ? fwd : strided), tol_n, R, S, S.buffered_cells);
            df.free();
          });
          ++S.buffered_runs;
          if (!okb) {
            if (c.probe) {
              outcome += "; BufferedCMacIonizeSnapshotDensityFunction aborts (" + stage + ")";
              return outcome;
            }
            R.violation(fmt("C20:snap:buffered-reader:%s:abort-%s", PATH_NAME[c.path], stage.c_str()),
                        fmt("BufferedCMacIonizeSnapshotDensityFunction (buffer %d) calls cmac_error; ", bs) + case_str(c),
                        case_json(c));
            break;
          }
        }
    }
  }
  return outcome;
}

static void divisors(int n, std::vector< int > &d) {
  d.clear();
  for (int i = 1; i <= n; ++i)
    if (n % i == 0)
      d.push_back(i);
}

int main(int argc, char **argv) {
  Args A = parse_args(argc, argv);
  Result R(A);
  setenv("TZ", "UTC", 1);
  g_tmp = fast_tmpdir();
  HDF5Tools::initialize();
  H5Eset_auto2(H5E_DEFAULT, nullptr, nullptr);
  R.rule = "a case is one tuple (cells per axis, subgrids per axis, box, density field, write path, first or second "
           "snapshot of the writer object); each tuple is written once and read by the raw HDF5 check, "
           "CMacIonizeSnapshotDensityFunction (two passes over the same object, forward and strided) and (cubic task based "
           "cases) the buffered reader with buffer sizes {1, 2, all, all + 3} x 2 access orders, each followed by a pass in the "
           "other order on the same object (grids over 4096 cells with fewer buffers than subgrids: forward twice); all "
           "tuples are distinct; non-trivial = the field is not uniform or the grid has more than one subgrid";
  Stats S;

  if (!A.replay.empty()) {
    g_verbose = true;
    const std::string txt = read_file(A.replay);
    size_t rp = txt.find("\"replay\"");
    const std::string rj = rp == std::string::npos ? txt : txt.substr(rp);
    Case c;
    sscanf(replay_field(rj, "n").c_str(), "%d,%d,%d", &c.n[0], &c.n[1], &c.n[2]);
    sscanf(replay_field(rj, "s").c_str(), "%d,%d,%d", &c.s[0], &c.s[1], &c.s[2]);
    c.box = atoi(replay_field(rj, "box").c_str());
    c.field = atoi(replay_field(rj, "field").c_str());
    c.path = atoi(replay_field(rj, "path").c_str());
    c.probe = atoi(replay_field(rj, "probe").c_str()) != 0;
    c.writes = std::max(1, atoi(replay_field(rj, "writes").c_str()));
    printf("replaying %s\n", case_str(c).c_str());
    const std::string out = run_case(c, R, S);
    printf("outcome: %s\n", out.c_str());
    R.evaluations = S.cells_compared;
    R.nontrivial = 1;
    for (auto &v : R.violations)
      printf("VIOLATION %s :: %s\n", v.key.c_str(), v.detail.c_str());
    remove_fast_tmpdir(g_tmp);
    return R.finish(A);
  }

  // grids
  std::vector< std::array< int, 3 > > grids;
  for (int a = 2; a <= 4; ++a)
    for (int b = 2; b <= 4; ++b)
      for (int cz = 2; cz <= 4; ++cz) {
        const bool cubic = a == b && b == cz;
        // quick: the cubic grids and the three rotations of 2x3x4
        const bool rot234 = a != b && b != cz && a != cz;
        if (A.thorough() || cubic || rot234)
          grids.push_back({{a, b, cz}});
      }
  std::vector< Case > cases;
  for (auto &g : grids) {
    std::vector< int > dx, dy, dz;
    divisors(g[0], dx);
    divisors(g[1], dy);
    divisors(g[2], dz);
    const bool cubic = g[0] == g[1] && g[1] == g[2];
    for (int box = 0; box < NBOXES; ++box) {
      // quick: non-cubic grids only in two boxes
      if (!A.thorough() && !cubic && box != 1 && box != 3)
        continue;
      for (int field = 0; field < NFIELDS; ++field) {
        for (int path = 0; path < NPATHS; ++path) {
          if (path == P_CARTESIAN) {
            Case c = {{g[0], g[1], g[2]}, {1, 1, 1}, box, field, path};
            cases.push_back(c);
            continue;
          }
          for (int sx : dx)
            for (int sy : dy)
              for (int sz : dz) {
                if (!A.thorough() && !cubic && !((sx == 1 && sy == 1 && sz == 1) || (sx == g[0] && sy == g[1] && sz == g[2]) ||
                                                  (sx == 1 && sy == g[1] && sz == dz[1 % dz.size()])))
                  continue;
                Case c = {{g[0], g[1], g[2]}, {sx, sy, sz}, box, field, path};
                cases.push_back(c);
              }
        }
      }
    }
  }
  const size_t n_small = cases.size();
  // ---- grids that cross the constants of the writers and of HDF5Tools: the datasets are chunked at 1 << 10 rows and
  // filled in blocks of 10000 cells (per subgrid on the task based paths, per grid on the legacy path). Cell counts
  // per axis all different (except where the buffered reader needs cubes); fields are never uniform in T and xH.
  struct Big {
    int n[3], s[3];
    const char *why;
  };
  std::vector< Big > bigs = {
      // around the chunk limit 1024 (= 8*8*16): 1023, 1024, 1025 rows, and two chunks + 2
      {{3, 11, 31}, {1, 1, 1}, "1023 rows"},
      {{3, 11, 31}, {3, 1, 1}, "1023 rows, 3 subgrids"},
      {{8, 8, 16}, {1, 1, 1}, "1024 rows"},
      {{8, 8, 16}, {2, 2, 2}, "1024 rows, 8 subgrids"},
      {{5, 5, 41}, {1, 1, 1}, "1025 rows"},
      {{5, 5, 41}, {1, 5, 1}, "1025 rows, 5 subgrids"},
      {{5, 10, 41}, {1, 2, 1}, "2050 rows, 2 subgrids of 1025"},
      // around the block size 10000 of the writers
      {{11, 27, 33}, {1, 1, 1}, "subgrid of 9801 cells: one short block"},
      {{20, 20, 25}, {1, 1, 1}, "subgrid of exactly 10000 cells: one full block"},
      {{13, 14, 55}, {1, 1, 1}, "subgrid of 10010 cells: one full block + 10"},
      {{20, 25, 40}, {1, 1, 1}, "subgrid of exactly 20000 cells: two full blocks"},
      {{27, 28, 29}, {1, 1, 1}, "subgrid of 21924 cells: three blocks"},
      {{40, 20, 25}, {2, 1, 1}, "two subgrids of exactly 10000 cells"},
      {{46, 22, 26}, {2, 1, 1}, "two subgrids of 13156 cells (split along x)"},
      {{26, 22, 46}, {1, 1, 2}, "two subgrids of 13156 cells (split along z)"},
      {{21, 66, 24}, {1, 3, 1}, "three subgrids of 11088 cells (split along y)"},
      {{24, 28, 20}, {2, 2, 2}, "13440 cells in 8 subgrids of 1680: grid over the block size, subgrids under"},
      // cubes, for the buffered reader
      {{22, 22, 22}, {1, 1, 1}, "cube, one subgrid of 10648 cells"},
      {{44, 44, 44}, {2, 2, 2}, "cube, 8 subgrids of 10648 cells"},
  };
  if (A.thorough()) {
    const Big more[] = {
        {{25, 20, 20}, {1, 1, 1}, "exactly 10000, rotated"},
        {{55, 13, 14}, {1, 1, 1}, "10010, rotated"},
        {{3, 59, 113}, {1, 1, 1}, "subgrid of 20001 cells: two full blocks + 1"},
        {{25, 30, 40}, {1, 1, 1}, "subgrid of exactly 30000 cells: three full blocks"},
        {{29, 27, 28}, {1, 1, 1}, "21924, rotated"},
        {{22, 46, 26}, {1, 2, 1}, "two subgrids of 13156 cells (split along y)"},
        {{46, 44, 26}, {2, 2, 1}, "four subgrids of 13156 cells"},
        {{46, 44, 52}, {2, 2, 2}, "eight subgrids of 13156 cells"},
        {{63, 22, 24}, {3, 1, 1}, "three subgrids of 11088 cells (split along x)"},
        {{48, 24, 24}, {2, 1, 1}, "two subgrids of 13824 cells"},
        {{44, 44, 44}, {1, 1, 1}, "cube, one subgrid of 85184 cells: 9 blocks"},
        {{44, 44, 44}, {2, 1, 1}, "cube, 2 subgrids of 42592 cells"},
        {{44, 44, 44}, {1, 2, 1}, "cube, 2 subgrids of 42592 cells"},
        {{44, 44, 44}, {1, 1, 2}, "cube, 2 subgrids of 42592 cells"},
        {{44, 44, 44}, {2, 2, 1}, "cube, 4 subgrids of 21296 cells"},
        {{44, 44, 44}, {4, 1, 1}, "cube, 4 subgrids of 21296 cells"},
        {{44, 44, 44}, {1, 4, 2}, "cube, 8 subgrids of 10648 cells, not cubic subgrids"},
        {{64, 64, 64}, {2, 2, 2}, "cube, 8 subgrids of 32768 cells"},
        {{24, 24, 24}, {1, 1, 1}, "cube, one subgrid of 13824 cells"},
    };
    for (auto &b : more)
      bigs.push_back(b);
  }
  for (auto &b : bigs) {
    const bool cubic = b.n[0] == b.n[1] && b.n[1] == b.n[2];
    const long ncell = (long)b.n[0] * b.n[1] * b.n[2];
    for (int box = 0; box < NBOXES; ++box) {
      // cubes in a cubic box (the buffered reader accepts nothing else), the others in the non-cubic box; thorough:
      // the 10 pc box as well
      const bool pick = cubic ? box == 1 : box == 3;
      if (!(pick || (A.thorough() && box == 2)))
        continue;
      for (int field = 0; field < NFIELDS; ++field) {
        // quick: the ramp for every grid; the other two fields for one grid each
        if (!A.thorough() && field != F_RAMP && !(field == F_ZEROS && b.n[0] == 27) && !(field == F_UNIFORM && b.n[0] == 46))
          continue;
        for (int path = 0; path < NPATHS; ++path) {
          if (path == P_CARTESIAN && (b.s[0] * b.s[1] * b.s[2] != 1 || ncell > 100000))
            continue;
          Case c = {{b.n[0], b.n[1], b.n[2]}, {b.s[0], b.s[1], b.s[2]}, box, field, path};
          cases.push_back(c);
        }
      }
    }
  }
  const size_t n_big = cases.size() - n_small;
  // ---- history of length 2: the same writer object writes snapshot 0 and snapshot 1, the second file is checked
  {
    const Big twice[] = {{{4, 4, 4}, {2, 2, 2}, ""},     {{2, 3, 4}, {1, 3, 2}, ""},   {{4, 4, 4}, {1, 1, 1}, ""},
                         {{27, 28, 29}, {1, 1, 1}, ""}, {{46, 22, 26}, {2, 1, 1}, ""}, {{22, 22, 22}, {1, 1, 1}, ""}};
    for (auto &b : twice) {
      const bool cubic = b.n[0] == b.n[1] && b.n[1] == b.n[2];
      for (int field = 0; field < NFIELDS; ++field) {
        if (!A.thorough() && field != F_RAMP)
          continue;
        for (int path = 0; path < NPATHS; ++path) {
          if (path == P_CARTESIAN && b.s[0] * b.s[1] * b.s[2] != 1)
            continue;
          Case c = {{b.n[0], b.n[1], b.n[2]}, {b.s[0], b.s[1], b.s[2]}, cubic ? 1 : 3, field, path};
          c.writes = 2;
          cases.push_back(c);
        }
      }
    }
  }
  const size_t n_twice = cases.size() - n_small - n_big;
  const size_t NC = cases.size();
  const size_t off = NC ? (size_t)((A.seed % (long)NC + (long)NC) % (long)NC) : 0;
  size_t done = 0;
  uint64_t nontrivial = 0;
  for (size_t i0 = 0; i0 < NC; ++i0) {
    if (R.out_of_time()) {
      R.hit_deadline(fmt("snapshots: %zu of %zu cases done", done, NC));
      break;
    }
    const Case &c = cases[(i0 + off) % NC];
    run_case(c, R, S);
    if (c20::g_aborts > 50) {
      // every abort leaks HDF5 handles; the violations are recorded already
      R.cap(fmt("stopped after %lu aborted operations (%zu of %zu cases done)", c20::g_aborts, done + 1, NC));
      ++done;
      break;
    }
    if (c.field != F_UNIFORM || c.s[0] * c.s[1] * c.s[2] > 1)
      ++nontrivial;
    if (done < 2)
      R.sample(fmt("{\"case\": \"%s\"}", case_str(c).c_str()));
    ++done;
  }
  // probes (information only, not part of the property's quantifier)
  {
    Case c = {{4, 4, 4}, {2, 2, 2}, 0, F_RAMP, P_TASK};
    c.probe = true;
    Result dummy(A);
    Stats s2;
    R.set_str("probe.box_not_representable_in_6_printed_digits", run_case(c, dummy, s2) +
                                                                     fmt(" [%" PRIu64 " value mismatches]", dummy.violation_count));
  }
  {
    Case c = {{4, 4, 4}, {2, 2, 2}, 0, F_RAMP, P_TASK};
    c.probe = true;
    c.box = 0;
    c.default_fields = true;
    Result dummy(A);
    Stats s2;
    // probe flag selects the non-round box: use the plain box here
    Case c2 = c;
    c2.probe = false;
    const unsigned long before = c20::g_aborts;
    run_case(c2, dummy, s2);
    std::string keys;
    for (auto &v : dummy.violations)
      keys += v.key + "; ";
    R.set_str("probe.non_hydro_snapshot_with_default_fields",
              fmt("%lu aborts; ", c20::g_aborts - before) + keys);
  }
  R.evaluations = S.cells_compared;
  R.nontrivial = nontrivial;
  R.set("cases", (double)done);
  R.set("cases_planned", (double)NC);
  R.set("cases_planned.small_grids_2..4_cells_per_axis", (double)n_small);
  R.set("cases_planned.grids_around_chunk_limit_1024_and_block_size_10000(new)", (double)n_big);
  R.set("cases_planned.second_snapshot_of_the_same_writer(new)", (double)n_twice);
  R.set("large.shapes_and_layouts", (double)bigs.size());
  R.set("large.cases_with_more_than_1024_rows", (double)S.cases_crossing_chunk);
  R.set("large.cases_with_grid_over_10000_cells", (double)S.cases_grid_over_block);
  R.set("large.cases_with_subgrid_over_10000_cells", (double)S.cases_subgrid_over_block);
  R.set("large.cases_with_3_or_more_blocks_per_subgrid", (double)S.subgrids_times_blocks_ge3);
  R.set("large.max_cells_per_subgrid", (double)S.max_subgrid_cells);
  R.set("large.max_blocks_per_subgrid", (double)S.max_blocks_per_subgrid);
  R.set("large.max_cells_per_grid", (double)S.max_grid_cells);
  {
    std::string l;
    for (auto &b : bigs)
      l += fmt("%dx%dx%d/%dx%dx%d (%s); ", b.n[0], b.n[1], b.n[2], b.s[0], b.s[1], b.s[2], b.why);
    R.set_str("large.grids", l);
  }
  R.set("raw_rows_checked", (double)S.raw_rows);
  R.set("reader_cells_checked", (double)S.reader_cells);
  R.set("buffered_reader_cells_checked", (double)S.buffered_cells);
  R.set("buffered_reader_runs", (double)S.buffered_runs);
  R.set("buffered_reader_not_applicable_noncubic", (double)S.buffered_skipped_noncubic);
  R.set("max_relative_density_difference", S.max_rel);
  R.set("within_10x_of_tolerance", (double)S.near);
  R.set_str("tolerances", "stored NumberDensity, Temperature, NeutralFractionH: bit-exact (stored type is the 64 bit double of "
                          "the cell); hydro snapshots store Density = n*mp and the readers divide by mp: 4 eps (k = 4)");
  R.assumptions.push_back("the Temperature field is switched on for non-hydro snapshots (DensityGridWriterFields:Temperature: 1): "
                          "with the default fields a non-hydro snapshot holds neither Temperature nor Pressure and cannot be "
                          "read back at all");
  R.assumptions.push_back("box coordinates are representable in the 6 digits the snapshot's parameter block keeps; readers are "
                          "used with their default options (stored Temperature, not use_pressure)");
  R.assumptions.push_back("this build has hydrogen only (NUMBER_OF_IONNAMES = 1): the neutral fraction is NeutralFractionH");
  remove_fast_tmpdir(g_tmp);
  return R.finish(A);
}
