# harness executables (name, sources, flavour, extra compile flags, extra link flags)
$(eval $(call HARNESS,c20_trees,$(V)/harness/C20/c20_trees.cpp,plain,-fopenmp -fno-access-control -I$(V)/harness/C20,))
$(eval $(call HARNESS,c20_units,$(V)/harness/C20/c20_units.cpp,plain,-fopenmp -fno-access-control -I$(V)/harness/C20,))
$(eval $(call HARNESS,c20_snapshots,$(V)/harness/C20/c20_snapshots.cpp,plain,-fno-access-control -I$(V)/harness/C20,))
