// C20 part 2: units.
//
// Bounded-exhaustive enumeration of compound unit strings: ordered tuples of
// up to n factors, each factor = (one of the 24 unit names of the table) ^
// (integer exponent -3..3, in every accepted spelling). For every string
//   * the real UnitConverter::get_unit must give the dimension = sum of the
//     part dimensions (independent dimension table below) and the value =
//     product of the part values ^ exponents (long double reference),
//   * for every quantity whose SI dimension matches: to_SI(to_unit(x)) = x and
//     to_unit(to_SI(x)) = x within 1e-14, to_SI(x) = x * reference value,
//   * for energy / wavelength / frequency strings: the photon conversions
//     (try_conversion) round trip and obey E = h nu, lambda = c / nu.
// Plus the self-consistency relations of the unit table.
#include "PhysicalConstants.hpp"
#include "UnitConverter.hpp"
#include "c20_guard.hpp"
#include "verif_common.hpp"

#include <algorithm>
#include <array>
#include <atomic>
#include <cfloat>
#include <omp.h>
#include <utility>

using namespace verif;

struct Dim {
  int L, T, M, K, A;
  bool operator==(const Dim &o) const { return L == o.L && T == o.T && M == o.M && K == o.K && A == o.A; }
};

// independent unit table: dimension, reference value in SI (IAU 2012/2015,
// CODATA 2018, Julian year), relative tolerance of the absolute comparison
// (0 = exact by definition -> 4 eps)
struct UDef {
  const char *name;
  Dim d;
  double ref;
  double reltol;
};
static const double PI = 3.14159265358979323846;
static const UDef UNITS[] = {{"m", {1, 0, 0, 0, 0}, 1., 0.},
                             {"cm", {1, 0, 0, 0, 0}, 0.01, 0.},
                             {"pc", {1, 0, 0, 0, 0}, 3.0856775814913673e16, 1.e-3},
                             {"kpc", {1, 0, 0, 0, 0}, 3.0856775814913673e19, 1.e-3},
                             {"angstrom", {1, 0, 0, 0, 0}, 1.e-10, 0.},
                             {"km", {1, 0, 0, 0, 0}, 1000., 0.},
                             {"au", {1, 0, 0, 0, 0}, 149597870700., 0.},
                             {"s", {0, 1, 0, 0, 0}, 1., 0.},
                             {"Gyr", {0, 1, 0, 0, 0}, 3.15576e16, 1.e-3},
                             {"Myr", {0, 1, 0, 0, 0}, 3.15576e13, 1.e-3},
                             {"yr", {0, 1, 0, 0, 0}, 3.15576e7, 1.e-3},
                             {"h", {0, 1, 0, 0, 0}, 3600., 0.},
                             {"kg", {0, 0, 1, 0, 0}, 1., 0.},
                             {"g", {0, 0, 1, 0, 0}, 0.001, 0.},
                             {"Msol", {0, 0, 1, 0, 0}, 1.98841e30, 1.e-3},
                             {"K", {0, 0, 0, 1, 0}, 1., 0.},
                             {"radians", {0, 0, 0, 0, 1}, 1., 0.},
                             {"degrees", {0, 0, 0, 0, 1}, PI / 180., 0.},
                             {"Hz", {0, -1, 0, 0, 0}, 1., 0.},
                             {"J", {2, -2, 1, 0, 0}, 1., 0.},
                             {"erg", {2, -2, 1, 0, 0}, 1.e-7, 0.},
                             {"eV", {2, -2, 1, 0, 0}, 1.602176634e-19, 1.e-3},
                             {"Pa", {-1, -2, 1, 0, 0}, 1., 0.},
                             {"bar", {-1, -2, 1, 0, 0}, 1.e5, 0.}};
static const int NU = sizeof(UNITS) / sizeof(UNITS[0]);

// independent quantity table (physical dimension of every Quantity)
struct QDef {
  Quantity q;
  const char *name;
  Dim d;
};
static const QDef QUANTS[] = {{QUANTITY_ACCELERATION, "ACCELERATION", {1, -2, 0, 0, 0}},
                              {QUANTITY_ANGLE, "ANGLE", {0, 0, 0, 0, 1}},
                              {QUANTITY_DENSITY, "DENSITY", {-3, 0, 1, 0, 0}},
                              {QUANTITY_ENERGY, "ENERGY", {2, -2, 1, 0, 0}},
                              {QUANTITY_ENERGY_CHANGE_RATE, "ENERGY_CHANGE_RATE", {-1, -3, 1, 0, 0}},
                              {QUANTITY_ENERGY_RATE, "ENERGY_RATE", {2, -3, 1, 0, 0}},
                              {QUANTITY_FLUX, "FLUX", {-2, -1, 0, 0, 0}},
                              {QUANTITY_FORCING_POWER, "FORCING_POWER", {2, -3, 0, 0, 0}},
                              {QUANTITY_FREQUENCY, "FREQUENCY", {0, -1, 0, 0, 0}},
                              {QUANTITY_FREQUENCY_PER_MASS, "FREQUENCY_PER_MASS", {0, -1, -1, 0, 0}},
                              {QUANTITY_INVERSE_LENGTH, "INVERSE_LENGTH", {-1, 0, 0, 0, 0}},
                              {QUANTITY_INVERSE_SURFACE_AREA, "INVERSE_SURFACE_AREA", {-2, 0, 0, 0, 0}},
                              {QUANTITY_LENGTH, "LENGTH", {1, 0, 0, 0, 0}},
                              {QUANTITY_MASS, "MASS", {0, 0, 1, 0, 0}},
                              {QUANTITY_MASS_RATE, "MASS_RATE", {0, -1, 1, 0, 0}},
                              {QUANTITY_MOMENTUM, "MOMENTUM", {1, -1, 1, 0, 0}},
                              {QUANTITY_NUMBER_DENSITY, "NUMBER_DENSITY", {-3, 0, 0, 0, 0}},
                              {QUANTITY_OPACITY, "OPACITY", {-1, 0, 0, 0, 0}},
                              {QUANTITY_PRESSURE, "PRESSURE", {-1, -2, 1, 0, 0}},
                              {QUANTITY_REACTION_RATE, "REACTION_RATE", {3, -1, 0, 0, 0}},
                              {QUANTITY_SURFACE_AREA, "SURFACE_AREA", {2, 0, 0, 0, 0}},
                              {QUANTITY_SURFACE_DENSITY, "SURFACE_DENSITY", {-2, 0, 1, 0, 0}},
                              {QUANTITY_TEMPERATURE, "TEMPERATURE", {0, 0, 0, 1, 0}},
                              {QUANTITY_TIME, "TIME", {0, 1, 0, 0, 0}},
                              {QUANTITY_VELOCITY, "VELOCITY", {1, -1, 0, 0, 0}},
                              {QUANTITY_VOLUME, "VOLUME", {3, 0, 0, 0, 0}}};
static const int NQ = sizeof(QUANTS) / sizeof(QUANTS[0]);
static_assert(sizeof(QUANTS) / sizeof(QUANTS[0]) == NUMBER_OF_QUANTITIES, "quantity table out of date");

typedef double (*conv_fn)(double, std::string);
template < int Q > static double t_si(double v, std::string u) { return UnitConverter::to_SI< (Quantity)Q >(v, u); }
template < int Q > static double t_un(double v, std::string u) { return UnitConverter::to_unit< (Quantity)Q >(v, u); }
template < int... I >
static std::array< conv_fn, sizeof...(I) > mk_si(std::integer_sequence< int, I... >) {
  return {{&t_si< I >...}};
}
template < int... I >
static std::array< conv_fn, sizeof...(I) > mk_un(std::integer_sequence< int, I... >) {
  return {{&t_un< I >...}};
}
static const auto TO_SI = mk_si(std::make_integer_sequence< int, NUMBER_OF_QUANTITIES >());
static const auto TO_UNIT = mk_un(std::make_integer_sequence< int, NUMBER_OF_QUANTITIES >());

static double g_part[NU]; // part values as the real table defines them

struct Factor {
  int unit;
  int exp;
  std::string text;
};

static long double ref_pow(double v, int e) {
  long double r = 1.L;
  for (int i = 0; i < std::abs(e); ++i)
    r *= (long double)v;
  return e < 0 ? 1.L / r : r;
}

static const double XS[] = {1., 0.1, -2.75, 7.3e10, 4.1e-12, 0.};
static const int NX = 6;
static const Dim D_ENERGY = {2, -2, 1, 0, 0}, D_LENGTH = {1, 0, 0, 0, 0}, D_FREQ = {0, -1, 0, 0, 0};

struct Acc {
  uint64_t evals = 0, nontrivial = 0, strings = 0, matches = 0, near = 0, near_product = 0, cross = 0;
  double max_rt = 0., max_val = 0.;
  uint64_t per_q[NUMBER_OF_QUANTITIES] = {0};
  void merge(const Acc &o) {
    evals += o.evals;
    nontrivial += o.nontrivial;
    strings += o.strings;
    matches += o.matches;
    near += o.near;
    near_product += o.near_product;
    cross += o.cross;
    max_rt = std::max(max_rt, o.max_rt);
    max_val = std::max(max_val, o.max_val);
    for (int i = 0; i < NUMBER_OF_QUANTITIES; ++i)
      per_q[i] += o.per_q[i];
  }
};

static bool g_verbose = false;
static std::atomic< int > g_sampled{0};

static std::string exp_class(const std::vector< Factor > &f) {
  bool zero = false, neg = false;
  for (auto &x : f) {
    zero = zero || x.exp == 0;
    neg = neg || x.exp < 0;
  }
  return zero ? "zero-exponent" : (neg ? "negative-exponent" : "positive-exponent");
}

static double relerr(double a, double b) {
  if (a == b)
    return 0.;
  const double m = std::max(std::fabs(a), std::fabs(b));
  return std::fabs(a - b) / m;
}

/// all checks for one compound string
static void eval_string(const std::vector< Factor > &f, const std::string &sep, const std::string &tail, Result &R,
                        Acc &A) {
  std::string s;
  Dim rd = {0, 0, 0, 0, 0};
  long double rv = 1.L;
  int sumexp = 0;
  bool trivial = f.size() == 1 && f[0].exp == 1;
  for (size_t i = 0; i < f.size(); ++i) {
    s += (i ? sep : "") + f[i].text;
    const Dim &d = UNITS[f[i].unit].d;
    rd.L += d.L * f[i].exp;
    rd.T += d.T * f[i].exp;
    rd.M += d.M * f[i].exp;
    rd.K += d.K * f[i].exp;
    rd.A += d.A * f[i].exp;
    rv *= ref_pow(g_part[f[i].unit], f[i].exp);
    sumexp += std::max(1, std::abs(f[i].exp));
  }
  s += tail;
  const std::string cls = exp_class(f);
  const std::string rep = fmt("{\"unit\": \"%s\"}", s.c_str());
  ++A.strings;
  ++A.evals;
  if (!trivial)
    ++A.nontrivial;
  // tolerance of the product: one rounding (eps/2) per multiplication/division, k = 2
  const double tolv = (sumexp + (double)f.size()) * DBL_EPSILON;
  double value = 0.;
  Dim gd = {0, 0, 0, 0, 0};
  const bool ok = c20::guarded([&] {
    Unit u = UnitConverter::get_unit(s);
    value = u._value;
    gd = {(int)u._length, (int)u._time, (int)u._mass, (int)u._temperature, (int)u._angle};
    if (u._current != 0)
      gd.A = 9999;
  });
  if (g_verbose)
    printf("get_unit(\"%s\"): %s value=%.17g dims(L,T,M,K,angle)=(%d,%d,%d,%d,%d); reference value=%.17Lg dims=(%d,%d,%d,%d,%d)\n",
           s.c_str(), ok ? "ok" : "ABORT", value, gd.L, gd.T, gd.M, gd.K, gd.A, rv, rd.L, rd.T, rd.M, rd.K, rd.A);
  if (!ok) {
    R.violation("C20:units:get_unit-abort:" + cls, "get_unit(\"" + s + "\") calls cmac_error", rep);
    return;
  }
  if (!(gd == rd))
    R.violation("C20:units:compound-dimension:" + cls,
                fmt("get_unit(\"%s\") has exponents (L,T,M,K,angle)=(%d,%d,%d,%d,%d), sum of the parts (%d,%d,%d,%d,%d)",
                    s.c_str(), gd.L, gd.T, gd.M, gd.K, gd.A, rd.L, rd.T, rd.M, rd.K, rd.A),
                rep);
  bool value_ok = true; // a wrong compound value is reported once; the dependent value checks are skipped
  {
    const double e = relerr(value, (double)rv);
    if (e <= tolv)
      A.max_val = std::max(A.max_val, e / tolv);
    value_ok = e <= tolv;
    if (value_ok && e > 0.1 * tolv)
      ++A.near_product;
    if (!value_ok)
      R.violation("C20:units:compound-product:" + cls,
                  fmt("get_unit(\"%s\") = %.17g but the product of the parts is %.17Lg (rel. diff %.3g, tol %.3g)",
                      s.c_str(), value, rv, e, tolv),
                  rep);
  }
  // conversions for every quantity with this dimension
  for (int iq = 0; iq < NQ; ++iq) {
    if (!(QUANTS[iq].d == rd))
      continue;
    const int q = (int)QUANTS[iq].q;
    ++A.matches;
    ++A.per_q[q];
    for (int ix = 0; ix < NX; ++ix) {
      const double x = XS[ix];
      double y = 0., back = 0., si = 0., back2 = 0.;
      ++A.evals;
      const bool okc = c20::guarded([&] {
        y = TO_UNIT[q](x, s);
        back = TO_SI[q](y, s);
        si = TO_SI[q](x, s);
        back2 = TO_UNIT[q](si, s);
      });
      if (g_verbose)
        printf("  %s x=%.17g: to_unit=%.17g to_SI(to_unit)=%.17g to_SI=%.17g to_unit(to_SI)=%.17g\n", QUANTS[iq].name, x,
               y, back, si, back2);
      if (!okc) {
        R.violation(std::string("C20:units:conversion-abort:") + QUANTS[iq].name,
                    fmt("to_SI/to_unit<%s>(%g, \"%s\") calls cmac_error", QUANTS[iq].name, x, s.c_str()), rep);
        break;
      }
      const double e1 = relerr(back, x), e2 = relerr(back2, x);
      A.max_rt = std::max(A.max_rt, std::max(e1, e2));
      if (e1 > 1.e-15 || e2 > 1.e-15)
        ++A.near;
      if (!(e1 <= 1.e-14))
        R.violation("C20:units:roundtrip:to_SI(to_unit):" + cls,
                    fmt("<%s> unit \"%s\": x=%.17g to_unit=%.17g back=%.17g", QUANTS[iq].name, s.c_str(), x, y, back), rep);
      if (!(e2 <= 1.e-14))
        R.violation("C20:units:roundtrip:to_unit(to_SI):" + cls,
                    fmt("<%s> unit \"%s\": x=%.17g to_SI=%.17g back=%.17g", QUANTS[iq].name, s.c_str(), x, si, back2), rep);
      const double e3 = relerr(si, (double)((long double)x * rv));
      if (value_ok && !(e3 <= tolv + DBL_EPSILON))
        R.violation("C20:units:to_SI-value:" + cls,
                    fmt("to_SI<%s>(%.17g, \"%s\") = %.17g, expected x * product of parts = %.17Lg", QUANTS[iq].name, x,
                        s.c_str(), si, (long double)x * rv),
                    rep);
    }
  }
  // photon conversions: energy <-> frequency, wavelength <-> frequency
  const double h = PhysicalConstants::get_physical_constant(PHYSICALCONSTANT_PLANCK);
  const double cl = PhysicalConstants::get_physical_constant(PHYSICALCONSTANT_LIGHTSPEED);
  struct Cross {
    int qto;          // quantity the value is converted to (SI side)
    const char *name; // description
    int mode;         // 0: E->nu, 1: lambda->nu, 2: nu->E, 3: nu->lambda
  };
  std::vector< Cross > crosses;
  if (rd == D_ENERGY)
    crosses.push_back({QUANTITY_FREQUENCY, "energy-as-frequency", 0});
  if (rd == D_LENGTH)
    crosses.push_back({QUANTITY_FREQUENCY, "wavelength-as-frequency", 1});
  if (rd == D_FREQ) {
    crosses.push_back({QUANTITY_ENERGY, "frequency-as-energy", 2});
    crosses.push_back({QUANTITY_LENGTH, "frequency-as-wavelength", 3});
  }
  for (auto &cr : crosses) {
    for (int ix = 0; ix < NX; ++ix) {
      const double x = XS[ix];
      if (!(x > 0.))
        continue;
      ++A.evals;
      ++A.cross;
      double si = 0., back = 0.;
      const bool okc = c20::guarded([&] {
        si = TO_SI[cr.qto](x, s);      // e.g. x eV -> Hz
        back = TO_UNIT[cr.qto](si, s); // Hz -> eV
      });
      if (!okc) {
        R.violation(std::string("C20:units:photon-conversion-abort:") + cr.name,
                    fmt("to_SI/to_unit(%g, \"%s\") calls cmac_error", x, s.c_str()), rep);
        break;
      }
      long double expect = 0.L;
      const long double xs = (long double)x * rv; // x in SI of its own quantity
      switch (cr.mode) {
      case 0:
        expect = xs / h;
        break;
      case 1:
        expect = cl / xs;
        break;
      case 2:
        expect = xs * h;
        break;
      default:
        expect = cl / xs;
      }
      if (g_verbose)
        printf("  %s x=%.17g: converted=%.17g (reference %.17Lg) back=%.17g\n", cr.name, x, si, expect, back);
      const double e1 = relerr(back, x), e2 = relerr(si, (double)expect);
      A.max_rt = std::max(A.max_rt, e1);
      if (e1 > 1.e-15)
        ++A.near;
      if (!(e1 <= 1.e-14))
        R.violation(std::string("C20:units:photon-roundtrip:") + cr.name + ":" + cls,
                    fmt("unit \"%s\": x=%.17g converted=%.17g back=%.17g", s.c_str(), x, si, back), rep);
      if (value_ok && !(e2 <= tolv + 8. * DBL_EPSILON))
        R.violation(std::string("C20:units:photon-value:") + cr.name + ":" + cls,
                    fmt("unit \"%s\": x=%.17g converted=%.17g, E=h nu / lambda=c/nu gives %.17Lg", s.c_str(), x, si, expect),
                    rep);
    }
  }
  if (!trivial && f.size() >= 2 && g_sampled.fetch_add(1) < 3)
    R.sample(fmt("{\"unit\": \"%s\", \"value\": %.17g}", s.c_str(), value));
}

static std::vector< Factor > make_factors(bool all_spellings) {
  std::vector< Factor > v;
  for (int u = 0; u < NU; ++u)
    for (int e = -3; e <= 3; ++e) {
      const std::string n = UNITS[u].name;
      if (e == 1)
        v.push_back({u, e, n});
      else
        v.push_back({u, e, n + "^" + std::to_string(e)});
      if (all_spellings && e >= 1) {
        if (e == 1)
          v.push_back({u, e, n + "^1"});
        v.push_back({u, e, n + "^+" + std::to_string(e)});
      }
    }
  return v;
}

/// ordered tuples of n factors; the outermost index is distributed over threads
static void run_tuples(const std::string &label, const std::vector< Factor > &F, int n, const std::string &sep,
                       const std::string &tail, Result &R, Acc &total) {
  const size_t NF = F.size();
  std::atomic< bool > stop{false};
  std::atomic< size_t > done{0};
  // flatten the two outer levels for load balance
  const size_t outer = n >= 2 ? NF * NF : NF;
#pragma omp parallel
  {
    Acc acc;
#pragma omp for schedule(dynamic, 4)
    for (size_t io = 0; io < outer; ++io) {
      if (stop.load())
        continue;
      if (R.out_of_time()) {
        stop.store(true);
        continue;
      }
      std::vector< Factor > f;
      if (n >= 2) {
        f.push_back(F[io / NF]);
        f.push_back(F[io % NF]);
      } else
        f.push_back(F[io]);
      if (n <= 2) {
        eval_string(f, sep, tail, R, acc);
      } else if (n == 3) {
        f.push_back(F[0]);
        for (size_t k = 0; k < NF; ++k) {
          f[2] = F[k];
          eval_string(f, sep, tail, R, acc);
        }
      }
      done.fetch_add(1);
    }
#pragma omp critical
    total.merge(acc);
  }
  if (stop.load())
    R.hit_deadline(fmt("%s: %zu of %zu outer tuples done", label.c_str(), done.load(), outer));
}

/// 4 factors with distinct unit names in table order (and reversed), all exponents
static void run_quads(const std::vector< Factor > &F, Result &R, Acc &total) {
  // F is canonical: 7 factors per unit, index u*7 + (e+3)
  std::vector< std::array< int, 4 > > combos;
  for (int a = 0; a < NU; ++a)
    for (int b = a + 1; b < NU; ++b)
      for (int c = b + 1; c < NU; ++c)
        for (int d = c + 1; d < NU; ++d)
          combos.push_back({{a, b, c, d}});
  std::atomic< bool > stop{false};
  std::atomic< size_t > done{0};
#pragma omp parallel
  {
    Acc acc;
#pragma omp for schedule(dynamic, 4)
    for (size_t ic = 0; ic < combos.size(); ++ic) {
      if (stop.load())
        continue;
      if (R.out_of_time()) {
        stop.store(true);
        continue;
      }
      std::vector< Factor > f(4, F[0]);
      for (int m = 0; m < 7 * 7 * 7 * 7; ++m) {
        int x = m;
        for (int i = 0; i < 4; ++i) {
          f[i] = F[combos[ic][i] * 7 + x % 7];
          x /= 7;
        }
        eval_string(f, " ", "", R, acc);
        std::reverse(f.begin(), f.end());
        eval_string(f, " ", "", R, acc);
      }
      done.fetch_add(1);
    }
#pragma omp critical
    total.merge(acc);
  }
  if (stop.load())
    R.hit_deadline(fmt("4-factor strings: %zu of %zu unit combinations done", done.load(), combos.size()));
}

static int unit_index(const std::string &n) {
  for (int u = 0; u < NU; ++u)
    if (n == UNITS[u].name)
      return u;
  return -1;
}

/// parse a canonical compound string back into factors (replay only)
static std::vector< Factor > parse_factors(const std::string &s, std::string &tail) {
  std::vector< Factor > f;
  std::stringstream ss(s);
  std::string t;
  while (ss >> t) {
    size_t c = t.find('^');
    const std::string n = t.substr(0, c);
    const int e = c == std::string::npos ? 1 : atoi(t.substr(c + 1).c_str());
    f.push_back({unit_index(n), e, t});
  }
  tail = (!s.empty() && s.back() == ' ') ? " " : "";
  return f;
}

static void table_checks(Result &R, uint64_t &evals) {
  // single units: dimension and value against the independent table
  for (int u = 0; u < NU; ++u) {
    ++evals;
    Unit x(0., 0, 0, 0, 0, 0, 0);
    const bool ok = c20::guarded([&] { x = UnitConverter::get_single_unit(UNITS[u].name); });
    if (!ok) {
      R.violation(std::string("C20:units:table-missing:") + UNITS[u].name, "get_single_unit aborts");
      continue;
    }
    g_part[u] = x._value;
    const Dim d = {(int)x._length, (int)x._time, (int)x._mass, (int)x._temperature, (int)x._angle};
    if (!(d == UNITS[u].d) || x._current != 0)
      R.violation(std::string("C20:units:table-dimension:") + UNITS[u].name,
                  fmt("unit %s has exponents (%d,%d,%d,%d,%d)", UNITS[u].name, d.L, d.T, d.M, d.K, d.A));
    const double tol = UNITS[u].reltol > 0. ? UNITS[u].reltol : 4. * DBL_EPSILON;
    if (!(relerr(x._value, UNITS[u].ref) <= tol))
      R.violation(std::string("C20:units:table-absolute:") + UNITS[u].name,
                  fmt("unit %s = %.17g SI, reference %.17g (tolerance %.3g)", UNITS[u].name, x._value, UNITS[u].ref, tol));
  }
  // SI unit of every quantity: value 1, dimension of the independent table
  for (int iq = 0; iq < NQ; ++iq) {
    ++evals;
    Unit x(0., 0, 0, 0, 0, 0, 0);
    const bool ok = c20::guarded([&] { x = UnitConverter::get_SI_unit(QUANTS[iq].q); });
    const Dim d = {(int)x._length, (int)x._time, (int)x._mass, (int)x._temperature, (int)x._angle};
    if (!ok || !(d == QUANTS[iq].d) || x._value != 1. || x._current != 0)
      R.violation(std::string("C20:units:SI-unit:") + QUANTS[iq].name,
                  fmt("SI unit \"%s\" of %s: value %.17g exponents (%d,%d,%d,%d,%d)",
                      UnitConverter::get_SI_unit_name(QUANTS[iq].q).c_str(), QUANTS[iq].name, x._value, d.L, d.T, d.M, d.K, d.A));
    // to_SI with the SI unit name is the identity
    for (int ix = 0; ix < NX; ++ix) {
      double y = -1.;
      const std::string n = UnitConverter::get_SI_unit_name(QUANTS[iq].q);
      c20::guarded([&] { y = TO_SI[(int)QUANTS[iq].q](XS[ix], n); });
      ++evals;
      if (y != XS[ix])
        R.violation(std::string("C20:units:SI-identity:") + QUANTS[iq].name,
                    fmt("to_SI<%s>(%.17g, \"%s\") = %.17g", QUANTS[iq].name, XS[ix], n.c_str(), y));
    }
  }
  // self-consistency relations: 1 <from> = factor <to>
  struct Rel {
    const char *from, *to;
    double factor;
    double tol;
  };
  const double eV = PhysicalConstants::get_physical_constant(PHYSICALCONSTANT_ELECTRONVOLT);
  const double E4 = 4. * DBL_EPSILON; // constants rounded once each + one division + one product, k = 4
  const Rel rels[] = {{"kpc", "pc", 1000., E4},
                      {"pc", "kpc", 1.e-3, E4},
                      {"Myr", "yr", 1.e6, E4},
                      {"Gyr", "yr", 1.e9, E4},
                      {"Gyr", "Myr", 1.e3, E4},
                      {"km", "m", 1000., E4},
                      {"m", "cm", 100., E4},
                      {"km", "cm", 1.e5, E4},
                      {"angstrom", "m", 1.e-10, E4},
                      {"m", "angstrom", 1.e10, E4},
                      {"h", "s", 3600., E4},
                      {"kg", "g", 1000., E4},
                      {"g", "kg", 1.e-3, E4},
                      {"K", "K", 1., 0.},
                      {"degrees", "radians", PI / 180., E4},
                      {"radians", "degrees", 180. / PI, E4},
                      {"Hz", "s^-1", 1., 0.},
                      {"s^-1", "Hz", 1., 0.},
                      {"Hz", "Myr^-1", 3.154e13, 1.e-12},
                      {"J", "kg m^2 s^-2", 1., 0.},
                      {"erg", "g cm^2 s^-2", 1., 8. * DBL_EPSILON},
                      {"J", "erg", 1.e7, E4},
                      {"eV", "J", eV, E4},
                      {"J", "eV", 1. / eV, E4},
                      {"eV", "erg", eV * 1.e7, 8. * DBL_EPSILON},
                      {"Pa", "kg m^-1 s^-2", 1., 0.},
                      {"Pa", "J m^-3", 1., 0.},
                      {"bar", "Pa", 1.e5, E4},
                      {"bar", "erg cm^-3", 1.e6, 16. * DBL_EPSILON},
                      {"g cm^-3", "kg m^-3", 1000., 16. * DBL_EPSILON},
                      {"cm^-3", "m^-3", 1.e6, 16. * DBL_EPSILON},
                      {"km s^-1", "m s^-1", 1000., E4},
                      {"kpc Myr^-1", "pc yr^-1", 1.e-3, 8. * DBL_EPSILON},
                      {"Msol yr^-1", "Msol Myr^-1", 1.e6, 8. * DBL_EPSILON},
                      {"pc", "au", 648000. / PI, 1.e-3},
                      {"au", "m", 149597870700., 0.}};
  for (auto &r : rels) {
    ++evals;
    double y = 0.;
    const bool ok = c20::guarded([&] { y = UnitConverter::convert(1., r.from, r.to); });
    if (!ok || !(relerr(y, r.factor) <= r.tol))
      R.violation(std::string("C20:units:table-relation:") + r.from + "=" + r.to,
                  fmt("convert(1, \"%s\", \"%s\") = %.17g, expected %.17g (tolerance %.3g)%s", r.from, r.to, y, r.factor,
                      r.tol, ok ? "" : " [abort]"));
  }
  // physical constants used by the photon conversions against CODATA 2018 (1e-6)
  const double h = PhysicalConstants::get_physical_constant(PHYSICALCONSTANT_PLANCK);
  const double cl = PhysicalConstants::get_physical_constant(PHYSICALCONSTANT_LIGHTSPEED);
  evals += 2;
  if (!(relerr(h, 6.62607015e-34) <= 1.e-6))
    R.violation("C20:units:constant:planck", fmt("h = %.17g", h));
  if (cl != 299792458.)
    R.violation("C20:units:constant:lightspeed", fmt("c = %.17g", cl));
  // photon conversions written out: 13.6 eV, 912 angstrom
  {
    ++evals;
    double nu = 0., lam = 0.;
    c20::guarded([&] {
      nu = UnitConverter::to_SI< QUANTITY_FREQUENCY >(13.6, "eV");
      lam = UnitConverter::to_unit< QUANTITY_FREQUENCY >(nu, "angstrom");
    });
    const double enu = 13.6 * eV / h;
    if (!(relerr(nu, enu) <= 8. * DBL_EPSILON))
      R.violation("C20:units:photon-value:13.6eV", fmt("13.6 eV -> %.17g Hz, expected %.17g", nu, enu));
    const double elam = cl / enu * 1.e10;
    if (!(relerr(lam, elam) <= 16. * DBL_EPSILON))
      R.violation("C20:units:photon-value:13.6eV-wavelength", fmt("%.17g Hz -> %.17g angstrom, expected %.17g", nu, lam, elam));
  }
}

int main(int argc, char **argv) {
  Args A = parse_args(argc, argv);
  Result R(A);
  R.rule = "a case is one compound unit string (ordered tuple of factors name^exponent, exponent -3..3 in every accepted "
           "spelling, separator/trailing blank variant) - each string is enumerated once - plus, per string, every quantity of "
           "matching dimension x 6 values; non-trivial = more than one factor or an exponent other than 1";
  uint64_t table_evals = 0;
  table_checks(R, table_evals);
  Acc total;

  if (!A.replay.empty()) {
    g_verbose = true;
    const std::string txt = read_file(A.replay);
    size_t rp = txt.find("\"replay\"");
    const std::string s = replay_field(rp == std::string::npos ? txt : txt.substr(rp), "unit");
    std::string tail;
    std::vector< Factor > f = parse_factors(s, tail);
    bool known = !f.empty();
    for (auto &x : f)
      known = known && x.unit >= 0;
    if (known)
      eval_string(f, s.find("  ") != std::string::npos ? "  " : " ", tail, R, total);
    else
      printf("table check violation, no unit string to replay (%s)\n", s.c_str());
    R.evaluations = total.evals + table_evals;
    R.nontrivial = total.nontrivial;
    for (auto &v : R.violations)
      printf("VIOLATION %s :: %s\n", v.key.c_str(), v.detail.c_str());
    return R.finish(A);
  }

  const std::vector< Factor > Fc = make_factors(false); // 24 x 7
  const std::vector< Factor > Fa = make_factors(true);  // 24 x 11
  // 1 and 2 factors: all spellings, three separator variants
  run_tuples("1 factor", Fa, 1, " ", "", R, total);
  run_tuples("1 factor, trailing blank", Fa, 1, " ", " ", R, total);
  run_tuples("2 factors, all spellings", Fa, 2, " ", "", R, total);
  run_tuples("2 factors, double blank + trailing blank", Fc, 2, "  ", " ", R, total);
  if (!A.thorough()) {
    run_tuples("3 factors", Fc, 3, " ", "", R, total);
  } else {
    run_tuples("3 factors, all spellings", Fa, 3, " ", "", R, total);
    run_quads(Fc, R, total);
  }
  R.evaluations = total.evals + table_evals;
  R.nontrivial = total.nontrivial;
  R.set("unit_names", NU);
  R.set("quantities", NQ);
  R.set("compound_strings", (double)total.strings);
  R.set("string_quantity_matches", (double)total.matches);
  R.set("photon_conversion_evaluations", (double)total.cross);
  R.set("table_and_relation_checks", (double)table_evals);
  R.set("max_roundtrip_relative_error", total.max_rt);
  R.set("max_product_error_over_tolerance", total.max_val);
  R.set("roundtrips_above_1e-15", (double)total.near);
  R.set("products_above_0.1_of_tolerance", (double)total.near_product);
  std::string pq = "{";
  for (int iq = 0; iq < NQ; ++iq)
    pq += fmt("%s\"%s\": %" PRIu64, iq ? ", " : "", QUANTS[iq].name, total.per_q[(int)QUANTS[iq].q]);
  R.set_json("accepted_strings_per_quantity", pq + "}");
  R.set_str("tolerances", "round trips 1e-14 relative (k = 45 eps, from the property text; near = above 1e-15); compound value "
                          "(sum|exponents| + factors) * eps (k = 2 per operation); table relations 4 eps (exact decimal ratios), "
                          "absolute table values 1e-3 against IAU/CODATA (the table has 4 digits)");
  R.assumptions.push_back("there is no temperature <-> energy conversion in this version of try_conversion: K only converts to K");
  return R.finish(A);
}
