#include "/repo/src/TaskBasedRadiationHydrodynamicsSimulation.cpp"
#include <cstdio>
struct StateFn : public DensityFunction {
  int pattern; Box<> box; CoordinateVector<int_fast32_t> nc;
  StateFn(int p, Box<> b, CoordinateVector<int_fast32_t> n):pattern(p),box(b),nc(n){}
  virtual DensityValues operator()(const Cell &cell){
    CoordinateVector<> x = cell.get_cell_midpoint();
    int ix = (x.x()-box.get_anchor().x())/box.get_sides().x()*nc.x();
    int iy = (x.y()-box.get_anchor().y())/box.get_sides().y()*nc.y();
    int iz = (x.z()-box.get_anchor().z())/box.get_sides().z()*nc.z();
    int h = (ix*7 + iy*3 + iz*5 + pattern) % 5;
    DensityValues v; 
    double n[5]={1e8,1e10,1e6,1e8,1e2}; double T[5]={100,50,1e4,100,100};
    double vx[5]={0,0,0,1.0e3,0};
    v.set_number_density(n[h]); v.set_temperature(T[h]); v.set_ionic_fraction(ION_H_n,1.);
    v.set_velocity(CoordinateVector<>(vx[h]*((pattern&1)?1:-1), (h==3)?5e2:0., 0.));
    return v; }
};
struct Tot { double m, px,py,pz, E; };
static Tot totals(DensitySubGridCreator<HydroDensitySubGrid>&g){ Tot t={0,0,0,0,0};
  for(auto it=g.begin(); it!=g.original_end(); ++it) for(auto c=(*it).hydro_begin(); c!=(*it).hydro_end(); ++c){ auto&h=c.get_hydro_variables(); t.m+=h.get_conserved_mass(); t.px+=h.get_conserved_momentum().x(); t.py+=h.get_conserved_momentum().y(); t.pz+=h.get_conserved_momentum().z(); t.E+=h.get_conserved_total_energy(); } return t; }
static void run(int pattern, CoordinateVector<int_fast32_t> nsub, bool periodic, double gamma, double cfl, std::vector<double>&out, Tot&before, Tot&after){
  Box<> box(CoordinateVector<>(0.), CoordinateVector<>(4e16,2e16,2e16));
  CoordinateVector<int_fast32_t> ncell(4,2,2);
  DensitySubGridCreator<HydroDensitySubGrid> grid(box, ncell, nsub, CoordinateVector<bool>(periodic));
  StateFn fn(pattern, box, ncell); grid.initialize(fn);
  ParameterFile params; 
  const char* names[6]={"x high","x low","y high","y low","z high","z low"};
  for(int i=0;i<6;++i) params.add_value(std::string("HydroBoundaryManager:boundary ")+names[i], periodic?"periodic":"reflective");
  HydroBoundaryManager bm(params);
  Hydro hydro(gamma, 100., 1e4, 1e99, false);
  double dt=DBL_MAX;
  for(auto it=grid.begin(); it!=grid.original_end(); ++it) dt=std::min(dt,(*it).initialize_hydrodynamic_variables(hydro,true));
  dt*=cfl;
  ThreadSafeVector<Task> tasks(4096,"t");
  for(auto it=grid.begin(); it!=grid.original_end(); ++it) make_hydro_tasks(tasks,it.get_index(),grid);
  for(auto it=grid.begin(); it!=grid.original_end(); ++it) set_dependencies(it.get_index(),grid,tasks);
  size_t nt=tasks.size();
  before=totals(grid);
  for(auto it=grid.begin(); it!=grid.original_end(); ++it) reset_hydro_tasks(tasks,*it);
  std::vector<char> done(nt,0); size_t ndone=0; 
  while(ndone<nt){ bool prog=false; for(size_t t=0;t<nt;++t) if(!done[t] && tasks[t].get_number_of_unfinished_parents()==0){ execute_task(t,grid,tasks,dt,hydro,bm); done[t]=1; ++ndone; prog=true; for(int c=0;c<tasks[t].get_number_of_children();++c) tasks[tasks[t].get_child(c)].decrement_number_of_unfinished_parents(); }
    if(!prog){ printf("stuck\n"); break; } }
  after=totals(grid);
  // global order dump
  out.assign(4*2*2*5,0.);
  for(auto it=grid.begin(); it!=grid.original_end(); ++it) for(auto c=(*it).hydro_begin(); c!=(*it).hydro_end(); ++c){ CoordinateVector<> x=c.get_cell_midpoint(); int ix=x.x()/1e16, iy=x.y()/1e16, iz=x.z()/1e16; int gi=((ix*2+iy)*2+iz)*5; auto&h=c.get_hydro_variables(); out[gi]=h.get_conserved_mass(); out[gi+1]=h.get_conserved_momentum().x(); out[gi+2]=h.get_conserved_momentum().y(); out[gi+3]=h.get_conserved_momentum().z(); out[gi+4]=h.get_conserved_total_energy(); }
}
int main(){
  long ncase=0,nbadcons=0,nbadlayout=0; double worstc=0,worstl=0;
  for(int pattern=0;pattern<10;++pattern) for(double gamma:{1.4,5./3.}) for(double cfl:{0.1,0.5,1.0}) for(int per=1;per>=0;--per){
    std::vector<double> ref; Tot b0,a0; run(pattern,CoordinateVector<int_fast32_t>(1,1,1),per,gamma,cfl,ref,b0,a0);
    ++ncase;
    double scale=std::abs(b0.m); double dm=std::abs(a0.m-b0.m)/b0.m, dE=std::abs(a0.E-b0.E)/b0.E;
    double pscale = std::sqrt(b0.m*b0.E);
    double dp=(std::abs(a0.px-b0.px)+std::abs(a0.py-b0.py)+std::abs(a0.pz-b0.pz))/pscale;
    double w = per? std::max(dm,std::max(dE,dp)) : std::max(dm,dE);
    worstc=std::max(worstc,w); if(w>1e-12){ ++nbadcons; if(nbadcons<6) printf("CONS pattern=%d gamma=%g cfl=%g per=%d dm=%g dE=%g dp=%g\n",pattern,gamma,cfl,per,dm,dE,dp); }
    for (auto ns : {CoordinateVector<int_fast32_t>(2,1,1), CoordinateVector<int_fast32_t>(4,1,1), CoordinateVector<int_fast32_t>(2,2,2), CoordinateVector<int_fast32_t>(1,2,1)}){
      std::vector<double> o; Tot b,a; run(pattern,ns,per,gamma,cfl,o,b,a);
      double md=0; for(size_t i=0;i<o.size();++i){ double s=std::abs(ref[i])+1e-300; double sc = (i%5==0)?b0.m/16:((i%5==4)?b0.E/16:pscale/16); md=std::max(md,std::abs(o[i]-ref[i])/sc); }
      worstl=std::max(worstl,md); if(md>1e-12){ ++nbadlayout; if(nbadlayout<6) printf("LAYOUT pattern=%d gamma=%g cfl=%g per=%d ns=%d%d%d maxdiff=%g\n",pattern,gamma,cfl,per,ns.x(),ns.y(),ns.z(),md);} }
  }
  printf("cases=%ld badcons=%ld worstcons=%g badlayout=%ld worstlayout=%g\n",ncase,nbadcons,worstc,nbadlayout,worstl);
}
