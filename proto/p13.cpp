#include "DensitySubGrid.hpp"
#include <cstdio>
#include <cmath>
int main(){
  const int n[3]={2,3,2}; double box[6]={0,0,0,2,3,2};
  auto dens=[&](int ix,int iy,int iz){ int h=(ix+2*iy+3*iz)%3; return h==0?1.0:(h==1?3.0:0.0); };
  DensitySubGrid grid(box, CoordinateVector<int_fast32_t>(2,3,2));
  for(auto it=grid.begin(); it!=grid.end(); ++it){ CoordinateVector<> m=it.get_cell_midpoint(); it.get_ionization_variables().set_number_density(dens((int)m.x(),(int)m.y(),(int)m.z())); it.get_ionization_variables().set_ionic_fraction(ION_H_n,0.5); it.get_ionization_variables().set_ionic_fraction(ION_He_n,0.25);}
  double nrm=std::sqrt(6.); PhotonPacket ph; ph.set_position(CoordinateVector<>(0.5,2.5,0.)); ph.set_direction(CoordinateVector<>(1/nrm,-2/nrm,1/nrm));
  for(int ion=0;ion<NUMBER_OF_IONNAMES;++ion) ph.set_photoionization_cross_section(ion,0.); ph.set_photoionization_cross_section(ION_H_n,1.); ph.set_photoionization_cross_section(ION_He_n,0.5);
  ph.set_weight(1.); ph.set_energy(4e15); ph.set_target_optical_depth(1e30);
  int out=grid.interact(ph, TRAVELDIRECTION_FACE_Z_N);
  printf("out=%d end=(%g,%g,%g)\n",out,ph.get_position().x(),ph.get_position().y(),ph.get_position().z());
  int i=0; for(auto it=grid.begin(); it!=grid.end(); ++it,++i){ double v=it.get_ionization_variables().get_mean_intensity(ION_H_n); if(v>0){ CoordinateVector<> m=it.get_cell_midpoint(); printf("cell %d (%g,%g,%g) dens %g path %g\n",i,m.x(),m.y(),m.z(),it.get_ionization_variables().get_number_density(),v);} }
}
