// prototype cooperative scheduler (exploration only, not committed)
#include "VerifHooks.hpp"
#include <atomic>
#include <cstdio>
#include <cstdlib>
#include <cstring>
#include <pthread.h>
#include <string>
#include <unistd.h>
#include <vector>
#include <algorithm>

namespace cmi_verif {

struct ThreadState {
  pthread_t handle;
  int id;
  bool finished = false;
  bool yielded = false;
  bool blocking = false; // inside ThreadLock::lock()
  int pend_kind = OP_START;
  const volatile void *pend_addr = nullptr;
  pthread_cond_t cv;
};

static pthread_mutex_t g_mtx = PTHREAD_MUTEX_INITIALIZER;
static pthread_cond_t g_main_cv = PTHREAD_COND_INITIALIZER;
static std::vector< ThreadState * > g_threads;
static int g_running = -1; // id of the thread that holds the token
static bool g_active = false;
static thread_local int tl_id = 0;
static thread_local ThreadState *tl_state = nullptr;

// exploration record
std::vector< int > g_prefix;     // choices to replay
std::vector< int > g_choices;    // choices made
std::vector< int > g_ncand;      // number of candidates at each point
std::vector< char > g_cur_first; // 1 if switching away costs a preemption
long g_steps = 0, g_max_steps = 200000;
long g_progress = 0;             // number of progress events
long g_yields_since_progress = 0;
int g_regions = 0;
std::string g_events;
bool g_trace = getenv("CMI_TRACE") != nullptr;
int g_verdict = 0; // 0 ok, 1 deadlock, 2 livelock, 3 horizon
bool g_log_events = true;

static void finish_and_report(int verdict);

void event(const char *what, long a, long b, long c) {
  if (!strcmp(what, "task_start")) {
    ++g_progress;
    g_yields_since_progress = 0;
  }
  if (g_trace) fprintf(stderr, "EVENT %s %ld %ld %ld\n", what, a, b, c);
  if (g_log_events) {
    char buf[128];
    snprintf(buf, sizeof(buf), "%s %ld %ld %ld\n", what, a, b, c);
    g_events += buf;
  }
}

int thread_index() { return g_active ? tl_id : 0; }

static bool enabled(ThreadState *t) {
  if (t->finished)
    return false;
  if (t->blocking && t->pend_kind == OP_TRYLOCK) {
    // blocking acquire: enabled only if the lock word is free
    return *(const volatile unsigned char *)t->pend_addr == 0;
  }
  return true;
}

// called with g_mtx held by thread `cur` (or by the last finishing thread)
static long g_clock = 0;
static std::vector<long> g_last_run;
static int choose_next(ThreadState *cur) {
  std::vector< int > cand;
  bool cur_first = false;
  if (g_last_run.size() < g_threads.size()) g_last_run.assign(g_threads.size(), 0);
  const bool cur_yielding = cur && cur->pend_kind == OP_YIELD;
  if (cur && enabled(cur) && !cur_yielding) {
    cand.push_back(cur->id);
    cur_first = true;
  }
  {
    std::vector< std::pair<long,int> > others;
    for (auto *t : g_threads)
      if (t != cur && enabled(t))
        others.push_back(std::make_pair(g_last_run[t->id], t->id));
    std::sort(others.begin(), others.end());
    for (auto &o : others) cand.push_back(o.second);
  }
  if (cur && enabled(cur) && cur_yielding)
    cand.push_back(cur->id);
  if (cand.empty())
    return -1;
  // a switch is only a preemption if the first candidate is a non yielded cur
  size_t pos = g_choices.size();
  int c = 0;
  if (pos < g_prefix.size()) {
    c = g_prefix[pos];
    if (c >= (int)cand.size()) {
      fprintf(stderr, "replay divergence at %zu: %d >= %zu\n", pos, c,
              cand.size());
      _exit(99);
    }
  }
  if (g_trace) {
    fprintf(stderr, "pt %zu cur=%d kind=%d blocking=%d yielded=%d cand=[", pos, cur ? cur->id : -1, cur ? cur->pend_kind : -1, cur ? (int)cur->blocking : 0, cur ? (int)cur->yielded : 0);
    for (int x : cand) fprintf(stderr, "%d ", x);
    fprintf(stderr, "] -> %d\n", cand[c]);
  }
  g_choices.push_back(c);
  g_ncand.push_back((int)cand.size());
  g_cur_first.push_back(cur_first);
  g_last_run[cand[c]] = ++g_clock;
  return cand[c];
}

static void hand_over(ThreadState *cur, int next) {
  // cur holds g_mtx
  if (next == cur->id)
    return;
  g_running = next;
  pthread_cond_signal(&g_threads[next]->cv);
  while (g_running != cur->id)
    pthread_cond_wait(&cur->cv, &g_mtx);
}

void sync_point(int kind, const volatile void *addr) {
  if (!g_active)
    return;
  ThreadState *cur = tl_state;
  pthread_mutex_lock(&g_mtx);
  cur->pend_kind = kind;
  cur->pend_addr = addr;
  if (++g_steps > g_max_steps) {
    finish_and_report(3);
  }
  int next = choose_next(cur);
  if (next < 0) {
    finish_and_report(1);
  }
  hand_over(cur, next);
  pthread_mutex_unlock(&g_mtx);
}

void blocking_begin() {
  if (g_active)
    tl_state->blocking = true;
}
void blocking_end() {
  if (g_active)
    tl_state->blocking = false;
}

void yield_point() {
  if (!g_active)
    return;
  tl_state->yielded = true;
  ++g_yields_since_progress;
  if (g_yields_since_progress > 4 * (long)g_threads.size()) {
    pthread_mutex_lock(&g_mtx);
    finish_and_report(2);
  }
  sync_point(OP_YIELD, nullptr);
}

struct StartArg {
  ThreadState *st;
  const std::function< void() > *body;
};

static void *thread_main(void *p) {
  StartArg *a = (StartArg *)p;
  tl_id = a->st->id;
  tl_state = a->st;
  pthread_mutex_lock(&g_mtx);
  while (g_running != tl_id)
    pthread_cond_wait(&a->st->cv, &g_mtx);
  pthread_mutex_unlock(&g_mtx);
  (*a->body)();
  pthread_mutex_lock(&g_mtx);
  a->st->finished = true;
  for (auto *t : g_threads)
    t->yielded = false;
  bool all = true;
  for (auto *t : g_threads)
    all = all && t->finished;
  if (all) {
    g_running = -2;
    pthread_cond_signal(&g_main_cv);
  } else {
    int next = choose_next(nullptr);
    if (next < 0)
      finish_and_report(1);
    g_running = next;
    pthread_cond_signal(&g_threads[next]->cv);
  }
  pthread_mutex_unlock(&g_mtx);
  return nullptr;
}

void parallel_region(int nthreads, const std::function< void() > &body) {
  ++g_regions;
  g_threads.clear();
  std::vector< StartArg > args(nthreads);
  for (int i = 0; i < nthreads; ++i) {
    ThreadState *st = new ThreadState();
    st->id = i;
    pthread_cond_init(&st->cv, nullptr);
    g_threads.push_back(st);
  }
  g_active = true;
  pthread_mutex_lock(&g_mtx);
  g_running = -1;
  for (int i = 0; i < nthreads; ++i) {
    args[i].st = g_threads[i];
    args[i].body = &body;
    pthread_create(&g_threads[i]->handle, nullptr, thread_main, &args[i]);
  }
  int first = choose_next(nullptr);
  g_running = first;
  pthread_cond_signal(&g_threads[first]->cv);
  while (g_running != -2)
    pthread_cond_wait(&g_main_cv, &g_mtx);
  pthread_mutex_unlock(&g_mtx);
  for (int i = 0; i < nthreads; ++i)
    pthread_join(g_threads[i]->handle, nullptr);
  g_active = false;
}

int g_report_fd = -1;
void write_report(int verdict) {
  // format: verdict npoints [ncand curfirst choice]* events
  std::string out;
  char buf[64];
  snprintf(buf, sizeof(buf), "%d %zu %ld\n", verdict, g_choices.size(), g_steps);
  out += buf;
  for (size_t i = 0; i < g_choices.size(); ++i) {
    snprintf(buf, sizeof(buf), "%d %d %d\n", g_ncand[i], (int)g_cur_first[i],
             g_choices[i]);
    out += buf;
  }
  out += g_events;
  size_t off = 0;
  while (off < out.size()) {
    ssize_t w = write(g_report_fd, out.data() + off, out.size() - off);
    if (w <= 0)
      break;
    off += w;
  }
}

static void finish_and_report(int verdict) {
  write_report(verdict);
  _exit(0);
}

} // namespace cmi_verif
