#include "RandomGenerator.hpp"
#include <gsl/gsl_rng.h>
#include <cstdio>
int main(){
  int bad=0;
  for (int seed : {1,2,42,12345,0x7fffffff}) {
    RandomGenerator g(seed);
    gsl_rng *r = gsl_rng_alloc(gsl_rng_ranlxd2); gsl_rng_set(r, seed);
    for (int i=0;i<20000;++i){ double a=g.get_uniform_random_double(); double b=gsl_rng_uniform(r); if(a!=b){ if(bad<5) printf("seed %d i %d: %.17g vs %.17g\n",seed,i,a,b); ++bad; } }
    gsl_rng_free(r);
  }
  gsl_rng *r = gsl_rng_alloc(gsl_rng_ranlxd2); gsl_rng_set(r, 1);
  unsigned long v=0; for(int i=0;i<10000;++i) v=gsl_rng_get(r);
  printf("gsl ranlxd2 seed1 10000th get = %lu; mismatches=%d\n", v, bad);
  return 0;
}
