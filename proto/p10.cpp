#include "ExactGeometricTests.hpp"
#include <boost/multiprecision/cpp_int.hpp>
#include <cstdio>
#include <cmath>
#include <vector>
using boost::multiprecision::cpp_int;
static cpp_int mant(double x){ int e; double m=std::frexp(x,&e); // x in [1,2): m in [0.5,1), e=1
  return cpp_int((long long)std::ldexp(m,53)); }
static int sgn(const cpp_int&v){ return v>0?1:(v<0?-1:0); }
static int orient_ref(const double p[4][3]){ cpp_int a[3][3]; for(int i=0;i<3;++i)for(int j=0;j<3;++j)a[i][j]=mant(p[i][j])-mant(p[3][j]);
  // Laplace along first column (code expands along z)
  cpp_int det = a[0][0]*(a[1][1]*a[2][2]-a[1][2]*a[2][1]) - a[1][0]*(a[0][1]*a[2][2]-a[0][2]*a[2][1]) + a[2][0]*(a[0][1]*a[1][2]-a[0][2]*a[1][1]);
  return sgn(det); }
int main(){
  const double ulp=std::ldexp(1.,-52);
  double A[4]={1.,1.+ulp,1.5,2.-ulp};
  long n=0,bad_exact=0,bad_adapt=0,zeros=0; int shown=0;
  // 3^12 subset with alphabet of 3 values + full 4^... restricted: use 3 values {1,1+ulp,1.5}
  double B[3]={1.,1.+ulp,1.5};
  std::vector<int> idx(12,0);
  while(true){
    double p[4][3]; for(int i=0;i<12;++i) p[i/3][i%3]=B[idx[i]];
    CoordinateVector<> a(p[0][0],p[0][1],p[0][2]),b(p[1][0],p[1][1],p[1][2]),c(p[2][0],p[2][1],p[2][2]),d(p[3][0],p[3][1],p[3][2]);
    int r=orient_ref(p); int e=ExactGeometricTests::orient3d_exact(a,b,c,d); int ad=ExactGeometricTests::orient3d_adaptive(a,b,c,d);
    ++n; if(r==0)++zeros; if(e!=r){++bad_exact; if(shown++<5) printf("EXACT mismatch ref=%d got=%d\n",r,e);} if(ad!=r){++bad_adapt; if(shown++<5) printf("ADAPT mismatch ref=%d got=%d\n",r,ad);} 
    int k=0; while(k<12 && ++idx[k]==3){ idx[k]=0; ++k;} if(k==12) break;
  }
  printf("orient3d: n=%ld zeros=%ld bad_exact=%ld bad_adaptive=%ld\n",n,zeros,bad_exact,bad_adapt);
}
