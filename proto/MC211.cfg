SPECIFICATION Spec
CONSTANTS
 NT = 34
 NW = 2
 NS = 2
 LockSeq <- cLock
 Touched <- cTouched
 Children <- cChildren
 InitCount <- cCount
 SubgridOf <- cSub
 InitOwner <- cOwner
INVARIANTS ExactlyOnce CountOK ParentsDone Exclusive ExitClean
PROPERTY Terminates
CHECK_DEADLOCK FALSE
