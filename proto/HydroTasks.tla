---- MODULE HydroTasks ----
EXTENDS Naturals, Sequences, FiniteSets
CONSTANTS NT, NW, NS,
          LockSeq,    \* [1..NT -> Seq(1..NS)]  dependency locks in acquisition order
          Touched,    \* [1..NT -> SUBSET (1..NS)] subgrids the task body reads/writes
          Children,   \* [1..NT -> Seq(1..NT)]
          InitCount,  \* [1..NT -> Nat]
          SubgridOf,  \* [1..NT -> 1..NS]
          InitOwner   \* [1..NS -> 1..NW]
VARIABLES queue, slock, count, ntasks, pc, cur, ci, done, owner
vars == <<queue, slock, count, ntasks, pc, cur, ci, done, owner>>
Tasks == 1..NT
Workers == 1..NW
Lockable(t) == /\ \A i \in 1..Len(LockSeq[t]) : slock[LockSeq[t][i]] = 0
               /\ \A i, j \in 1..Len(LockSeq[t]) : i # j => LockSeq[t][i] # LockSeq[t][j]
LockSet(t) == {LockSeq[t][i] : i \in 1..Len(LockSeq[t])}
Init == /\ owner = InitOwner
        /\ queue = [w \in Workers |-> {t \in Tasks : InitCount[t] = 0 /\ InitOwner[SubgridOf[t]] = w}]
        /\ slock = [s \in 1..NS |-> 0]
        /\ count = InitCount
        /\ ntasks = Cardinality({t \in Tasks : InitCount[t] = 0})
        /\ pc = [w \in Workers |-> "loop"]
        /\ cur = [w \in Workers |-> 0]
        /\ ci = [w \in Workers |-> 0]
        /\ done = [t \in Tasks |-> 0]
RECURSIVE Rel(_, _, _)
\* apply the release of children i.. of task t to <<count, queue, ntasks>>
Rel(t, i, st) == IF i > Len(Children[t]) THEN st
                 ELSE LET c == Children[t][i]
                          cnt == [st[1] EXCEPT ![c] = @ - 1]
                          q == IF st[1][c] = 1 THEN [st[2] EXCEPT ![owner[SubgridOf[c]]] = @ \cup {c}] ELSE st[2]
                          n == IF st[1][c] = 1 THEN st[3] + 1 ELSE st[3]
                      IN Rel(t, i + 1, <<cnt, q, n>>)
Exit(w) == /\ pc[w] = "loop" /\ ntasks = 0
           /\ pc' = [pc EXCEPT ![w] = "exit"]
           /\ UNCHANGED <<queue, slock, count, ntasks, cur, ci, done, owner>>
Take(w, q, t) == /\ pc[w] = "loop" /\ ntasks > 0
                 /\ t \in queue[q]
                 /\ Lockable(t)
                 /\ queue' = [queue EXCEPT ![q] = @ \ {t}]
                 /\ slock' = [s \in 1..NS |-> IF s \in LockSet(t) THEN w ELSE slock[s]]
                 /\ owner' = IF q = w THEN owner ELSE [owner EXCEPT ![SubgridOf[t]] = w]
                 /\ cur' = [cur EXCEPT ![w] = t]
                 /\ pc' = [pc EXCEPT ![w] = "run"]
                 /\ UNCHANGED <<count, ntasks, ci, done>>
Finish(w) == /\ pc[w] = "run"
             /\ done' = [done EXCEPT ![cur[w]] = @ + 1]
             /\ slock' = [s \in 1..NS |-> IF slock[s] = w THEN 0 ELSE slock[s]]
             /\ LET r == Rel(cur[w], 1, <<count, queue, ntasks>>) IN
                  /\ count' = r[1] /\ queue' = r[2] /\ ntasks' = r[3]
             /\ pc' = [pc EXCEPT ![w] = "dec"]
             /\ UNCHANGED <<cur, ci, owner>>
Dec(w) == /\ pc[w] = "dec"
          /\ ntasks' = ntasks - 1
          /\ pc' = [pc EXCEPT ![w] = "loop"]
          /\ UNCHANGED <<queue, slock, count, cur, ci, done, owner>>
WNext(w) == \/ Exit(w) \/ Finish(w) \/ Dec(w) \/ \E q \in Workers, t \in Tasks : Take(w, q, t)
Next == \E w \in Workers : WNext(w)
Fairness == \A w \in Workers : WF_vars(WNext(w))
Spec == Init /\ [][Next]_vars /\ Fairness
ExactlyOnce == \A t \in Tasks : done[t] <= 1
CountOK == \A t \in Tasks : count[t] <= InitCount[t]
Parents(t) == {p \in Tasks : \E i \in 1..Len(Children[p]) : Children[p][i] = t}
ParentsDone == \A w \in Workers : pc[w] = "run" => \A p \in Parents(cur[w]) : done[p] = 1
Exclusive == \A w1, w2 \in Workers : (w1 # w2 /\ pc[w1] = "run" /\ pc[w2] = "run") => Touched[cur[w1]] \cap Touched[cur[w2]] = {}
AllExit == \A w \in Workers : pc[w] = "exit"
ExitClean == AllExit => (\A t \in Tasks : done[t] = 1) /\ (\A w \in Workers : queue[w] = {})
Terminates == <>AllExit
====
